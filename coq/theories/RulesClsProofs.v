(* C02, definition / class tranche -- proofs. *)
From Coq Require Import List Bool Arith Lia.
Import ListNotations.
Require Import Pyrefact.Base Pyrefact.MiniPyModel Pyrefact.MiniPyProofs.
Require Import Pyrefact.RulesFlowModel Pyrefact.RulesFlowProofs Pyrefact.RulesFlowProofs2.
Require Import Pyrefact.RulesClsModel.

(* ============================================================================================== *)
(* Part L : un-assigning dead assignments preserves the behaviour                                  *)
(* ============================================================================================== *)

Lemma vmem_app x a b : vmem x (a ++ b) = vmem x a || vmem x b.
Proof. unfold vmem. apply existsb_app. Qed.
Lemma vmem_In x s : vmem x s = true <-> In x s.
Proof.
  unfold vmem. rewrite existsb_exists. split.
  - intros [y [Hy E]]. apply Nat.eqb_eq in E. subst. exact Hy.
  - intros H. exists x. split; [exact H|apply Nat.eqb_refl].
Qed.
Lemma vmem_remove x y s : vmem y (vremove x s) = negb (Nat.eqb x y) && vmem y s.
Proof.
  induction s as [|a s IH]; simpl; [rewrite andb_false_r; reflexivity|].
  destruct (Nat.eqb x a) eqn:E; simpl.
  - rewrite IH. apply Nat.eqb_eq in E. subst a.
    destruct (Nat.eqb y x) eqn:E2; simpl; [|reflexivity].
    apply Nat.eqb_eq in E2. subst. rewrite Nat.eqb_refl. reflexivity.
  - rewrite IH. destruct (Nat.eqb y a) eqn:E2; simpl; [|reflexivity].
    apply Nat.eqb_eq in E2. subst. rewrite E. reflexivity.
Qed.
Lemma vmem_norm x s : vmem x (vnorm s) = vmem x s.
Proof.
  induction s as [|a s IH]; simpl; [reflexivity|].
  destruct (Nat.eqb x a) eqn:E; simpl; [reflexivity|].
  rewrite vmem_remove, IH. rewrite Nat.eqb_sym, E. reflexivity.
Qed.
Lemma vsubset_spec a b : vsubset a b = true -> forall x, vmem x a = true -> vmem x b = true.
Proof.
  unfold vsubset. rewrite forallb_forall. intros H x Hx. apply H. apply vmem_In. exact Hx.
Qed.

(* the two stores agree on the variables in L; position and trace are equal *)
Definition agree (L : vset) (st st' : state) : Prop :=
  s_pos st = s_pos st' /\ s_tr st = s_tr st' /\
  forall x, vmem x L = true -> get (s_env st) x = get (s_env st') x.

Lemma agree_sub L L' st st' :
  (forall x, vmem x L' = true -> vmem x L = true) -> agree L st st' -> agree L' st st'.
Proof. intros H [H1 [H2 H3]]. repeat split; auto. Qed.
Lemma agree_sym L st st' : agree L st st' -> agree L st' st.
Proof. intros [H1 [H2 H3]]. repeat split; auto. intros; symmetry; auto. Qed.

Lemma map_get_agree L st st' rd :
  agree L st st' -> (forall x, vmem x rd = true -> vmem x L = true) ->
  map (get (s_env st)) rd = map (get (s_env st')) rd.
Proof.
  intros [_ [_ H]] Hs. apply map_ext_in. intros x Hx. apply H. apply Hs. apply vmem_In. exact Hx.
Qed.

Lemma eval_test_env o st t : s_env (snd (eval_test o st t)) = s_env st.
Proof.
  revert st. induction t as [b|i rd|t IH]; intros st; simpl; auto.
  specialize (IH st). destruct (eval_test o st t). simpl in *. exact IH.
Qed.

Lemma eval_test_agree L o t : forall st st',
  agree L st st' -> (forall x, vmem x (t_reads t) = true -> vmem x L = true) ->
  fst (eval_test o st t) = fst (eval_test o st' t) /\
  agree L (snd (eval_test o st t)) (snd (eval_test o st' t)).
Proof.
  induction t as [b|i rd|t IH]; intros st st' HA Hs; simpl.
  - split; [reflexivity|exact HA].
  - pose proof (map_get_agree _ _ _ _ HA Hs) as E. simpl in E. destruct HA as [H1 [H2 H3]].
    unfold draw, emit; simpl. rewrite E, H1, H2. split; [reflexivity|].
    repeat split; simpl; auto.
  - specialize (IH st st' HA Hs).
    destruct (eval_test o st t) as [v s1], (eval_test o st' t) as [v' s1']. simpl in *.
    destruct IH as [-> IH]. split; [reflexivity|exact IH].
Qed.

Lemma eval_rexpr_env o st e : s_env (snd (eval_rexpr o st e)) = s_env st.
Proof. destruct e; simpl; auto. apply eval_test_env. Qed.

Lemma eval_rexpr_agree L o e st st' :
  agree L st st' -> (forall x, vmem x (r_reads e) = true -> vmem x L = true) ->
  fst (eval_rexpr o st e) = fst (eval_rexpr o st' e) /\
  agree L (snd (eval_rexpr o st e)) (snd (eval_rexpr o st' e)).
Proof.
  intros HA Hs. destruct e as [v|y|t]; simpl.
  - split; [reflexivity|exact HA].
  - split; [|exact HA]. destruct HA as [_ [_ H]]. apply H. apply Hs. simpl. rewrite Nat.eqb_refl. reflexivity.
  - apply eval_test_agree; assumption.
Qed.

Lemma agree_set_both L O v w st st' :
  agree L st st' -> (forall x, vmem x (vremove v O) = true -> vmem x L = true) ->
  agree O (set_var v w st) (set_var v w st').
Proof.
  intros [H1 [H2 H3]] Hs. repeat split; simpl; auto. intros x Hx.
  destruct (Nat.eq_dec x v) as [->|Hne].
  - rewrite !get_upd_same. reflexivity.
  - rewrite !get_upd_other by exact Hne. apply H3. apply Hs. rewrite vmem_remove.
    rewrite Hx. destruct (Nat.eqb v x) eqn:E; [apply Nat.eqb_eq in E; congruence|reflexivity].
Qed.
Lemma agree_set_left L O v w st st' :
  agree L st st' -> (forall x, vmem x O = true -> vmem x L = true) -> vmem v O = false ->
  agree O (set_var v w st) st'.
Proof.
  intros [H1 [H2 H3]] Hs Hv. repeat split; simpl; auto. intros x Hx.
  destruct (Nat.eq_dec x v) as [->|Hne]; [congruence|].
  rewrite get_upd_other by exact Hne. apply H3. apply Hs. exact Hx.
Qed.

(* the block functions nested in lv_stmt / ok_stmt are lv_block / ok_block *)
Lemma lv_blk_eq n x l : forall o b c,
  (fix blk (l : list stmt) (o b c : vset) {struct l} : vset :=
     match l with
     | [] => o
     | s' :: tl => lv_stmt n s' (blk tl o b c) b c x
     end) l o b c = lv_block n l o b c x.
Proof. induction l as [|s l IH]; intros; simpl; [reflexivity|rewrite IH; reflexivity]. Qed.

Lemma ok_blk_eq n x l : forall l' o b c,
  (fix blk (l l' : list stmt) (o b c : vset) {struct l} : bool :=
     match l, l' with
     | [], [] => true
     | s1 :: tl, s1' :: tl' => ok_stmt n s1 s1' (lv_block n tl' o b c x) b c x && blk tl tl' o b c
     | _, _ => false
     end) l l' o b c = ok_block n l l' o b c x.
Proof.
  induction l as [|s l IH]; intros [|s' l'] o b c; simpl; try reflexivity. rewrite IH. reflexivity.
Qed.

Lemma lv_if n t b1 b2 o b c x :
  lv_stmt n (SIf t b1 b2) o b c x = vnorm (t_reads t ++ lv_block n b1 o b c x ++ lv_block n b2 o b c x).
Proof. simpl. rewrite !lv_blk_eq. reflexivity. Qed.
Lemma iter_n_ext {A} (f g : A -> A) : (forall a, f a = g a) -> forall n a, iter_n n f a = iter_n n g a.
Proof. intros H. induction n as [|n IH]; intros a; simpl; [reflexivity|]. rewrite H. apply IH. Qed.

Lemma lv_loop n h bd el o b c x :
  lv_stmt n (SLoop h bd el) o b c x = h_entry_reads h ++ loop_head n h bd el o b c x.
Proof.
  simpl. unfold loop_head, loop_x0. rewrite !lv_blk_eq. f_equal.
  apply iter_n_ext. intros X. rewrite lv_blk_eq. reflexivity.
Qed.

Lemma ok_if n t b1 b2 s' o b c x :
  ok_stmt n (SIf t b1 b2) s' o b c x = true ->
  exists b1' b2', s' = SIf t b1' b2' /\ ok_block n b1 b1' o b c x = true /\ ok_block n b2 b2' o b c x = true.
Proof.
  destruct s'; simpl; try discriminate. rewrite !ok_blk_eq. intros H.
  apply andb_true_iff in H. destruct H as [H H3]. apply andb_true_iff in H. destruct H as [H1 H2].
  apply test_eqb_eq in H1. subst. eauto.
Qed.
Lemma ok_loop n h bd el s' o b c x :
  ok_stmt n (SLoop h bd el) s' o b c x = true ->
  exists bd' el', s' = SLoop h bd' el' /\
    let X := loop_head n h bd' el' o b c x in
    vsubset (loop_x0 n h el' o b c x ++ lv_block n bd' X o X x) X = true /\
    ok_block n bd bd' X o X x = true /\ ok_block n el el' o b c x = true.
Proof.
  destruct s'; simpl; try discriminate. rewrite !ok_blk_eq. intros H.
  apply andb_true_iff in H. destruct H as [H H4]. apply andb_true_iff in H. destruct H as [H H3].
  apply andb_true_iff in H. destruct H as [H1 H2].
  apply head_eqb_eq in H1. subst. eauto 10.
Qed.

Definition side {A} (d : bool) (a b : A) : A := if d then a else b.
Lemma side_same {A} d (a : A) : side d a a = a.
Proof. destruct d; reflexivity. Qed.

Definition sel (O B C X : vset) (out : outcome) : vset :=
  match out with Normal => O | Brk => B | Cnt => C | _ => X end.
Definition rres (O B C X : vset) (r r' : res) : Prop :=
  fst r = fst r' /\ agree (sel O B C X (fst r)) (snd r) (snd r').

Definition lk_reads (lk : lkind) : vset := match lk with LWhile t => t_reads t | _ => [] end.

Lemma loop_next_agree L o lk st st2 :
  agree L st st2 -> (forall x, vmem x (lk_reads lk) = true -> vmem x L = true) ->
  fst (fst (loop_next o st lk)) = fst (fst (loop_next o st2 lk)) /\
  snd (loop_next o st lk) = snd (loop_next o st2 lk) /\
  agree L (snd (fst (loop_next o st lk))) (snd (fst (loop_next o st2 lk))) /\
  lk_reads (snd (loop_next o st lk)) = lk_reads lk.
Proof.
  intros HA Hs. destruct lk as [t|k|i]; simpl.
  - pose proof (eval_test_agree L o t st st2 HA Hs) as [E1 E2].
    destruct (eval_test o st t) as [v s1], (eval_test o st2 t) as [v' s1']. simpl in *. subst v'. auto.
  - destruct k; simpl; auto.
  - destruct HA as [H1 [H2 H3]]. unfold draw, emit; simpl. rewrite H1, H2.
    repeat split; simpl; auto.
Qed.

Lemma enter_agree L o h st st2 :
  agree L st st2 -> (forall x, vmem x (h_entry_reads h) = true -> vmem x L = true) ->
  snd (enter o st h) = snd (enter o st2 h) /\ agree L (fst (enter o st h)) (fst (enter o st2 h)) /\
  (forall x, vmem x (lk_reads (snd (enter o st h))) = true -> vmem x (h_iter_reads h) = true).
Proof.
  intros HA Hs. destruct h as [t|[k|i rd]]; simpl; auto.
  pose proof (map_get_agree _ _ _ _ HA Hs) as E. simpl in E. destruct HA as [H1 [H2 H3]].
  unfold emit; simpl. rewrite E, H2. repeat split; simpl; auto; try (intros; discriminate).
Qed.

Lemma ok_atom n s s' o b c x :
  match s with SAssign _ _ | SIf _ _ _ | SLoop _ _ _ => False | _ => True end ->
  ok_stmt n s s' o b c x = true -> s' = s.
Proof.
  intros Hs H. symmetry. apply stmt_eqb_eq. destruct s; try contradiction; destruct s'; exact H.
Qed.
Lemma ok_asg n v e s' o b c x :
  ok_stmt n (SAssign v e) s' o b c x = true ->
  s' = SAssign v e \/ (s' = drop_asg e /\ vmem v o = false).
Proof.
  intros H. assert (H' : stmt_eqb (SAssign v e) s' || (stmt_eqb s' (drop_asg e) && negb (vmem v o)) = true)
    by (destruct s'; exact H).
  apply orb_true_iff in H'. destruct H' as [H'|H'].
  - left. symmetry. apply stmt_eqb_eq. exact H'.
  - right. apply andb_true_iff in H'. destruct H' as [H1 H2]. apply stmt_eqb_eq in H1.
    apply negb_true_iff in H2. auto.
Qed.

Lemma lruns_step o st lk b e st1 lk1 r1 r :
  loop_next o st lk = (true, st1, lk1) -> runs o st1 b r1 -> lafter o r1 lk1 b e r -> lruns o st lk b e r.
Proof. intros E H1 H2. apply lruns_unfold. rewrite E. eauto. Qed.
Lemma lruns_stop o st lk b e st1 lk1 r :
  loop_next o st lk = (false, st1, lk1) -> runs o st1 e r -> lruns o st lk b e r.
Proof. intros E H1. apply lruns_unfold. rewrite E. exact H1. Qed.

Section Sim.
Variable n : nat.

Definition block_sim (f : nat) : Prop := forall d o p p' O B C X st st2 r,
  ok_block n p p' O B C X = true ->
  agree (lv_block n p' O B C X) st st2 ->
  exec f o st (side d p p') = Some r ->
  exists r2, runs o st2 (side (negb d) p p') r2 /\ rres O B C X r r2.

Definition loop_sim (f : nat) : Prop := forall d o h bd bd' el el' lk O B C X st st2 r,
  vsubset (loop_x0 n h el' O B C X
           ++ lv_block n bd' (loop_head n h bd' el' O B C X) O (loop_head n h bd' el' O B C X) X)
          (loop_head n h bd' el' O B C X) = true ->
  ok_block n bd bd' (loop_head n h bd' el' O B C X) O (loop_head n h bd' el' O B C X) X = true ->
  ok_block n el el' O B C X = true ->
  (forall x, vmem x (lk_reads lk) = true -> vmem x (h_iter_reads h) = true) ->
  agree (loop_head n h bd' el' O B C X) st st2 ->
  loop_ f o st lk (side d bd bd') (side d el el') = Some r ->
  exists r2, lruns o st2 lk (side (negb d) bd bd') (side (negb d) el el') r2 /\ rres O B C X r r2.

Lemma rres_other O O' B C X r r' :
  rres O B C X r r' -> fst r <> Normal -> rres O' B C X r r'.
Proof. intros [H1 H2] Hn. split; [exact H1|]. destruct (fst r); simpl in *; auto. congruence. Qed.

Lemma step_sim f : block_sim f -> loop_sim f ->
  forall d o s s' O B C X st st2 r,
  ok_stmt n s s' O B C X = true ->
  agree (lv_stmt n s' O B C X) st st2 ->
  step1 (exec f o) (loop_ f o) o st (side d s s') = Some r ->
  exists r2, runs1 o st2 (side (negb d) s s') r2 /\ rres O B C X r r2.
Proof.
  intros IHb IHl d o s s' O B C X st st2 r Hok HA Hst.
  destruct s as [|i rd|v e|e| | | |t b1 b2|h bd el].
  - (* pass *) apply ok_atom in Hok; [|exact I]. subst s'. rewrite side_same in *. simpl in *.
    inversion Hst; subst. eexists; split; [reflexivity|]. split; simpl; auto.
  - (* event *) apply ok_atom in Hok; [|exact I]. subst s'. rewrite side_same in *. simpl in *.
    inversion Hst; subst. eexists; split; [reflexivity|]. split; simpl; auto.
    assert (E : map (get (s_env st)) rd = map (get (s_env st2)) rd).
    { eapply map_get_agree; [exact HA|]. intros x Hx. rewrite vmem_app, Hx. reflexivity. }
    rewrite E. destruct HA as [H1 [H2 H3]]. repeat split; simpl; auto; try congruence.
    intros x Hx. apply H3. rewrite vmem_app, Hx. apply orb_true_r.
  - (* assignment *)
    apply ok_asg in Hok. destruct Hok as [Hok|[Hok Hv]].
    + subst s'. rewrite side_same in *. simpl in *.
      pose proof (eval_rexpr_agree _ o e st st2 HA) as HE.
      destruct HE as [E1 E2]; [intros x Hx; rewrite vmem_app, Hx; reflexivity|].
      destruct (eval_rexpr o st e) as [w s1] eqn:Ee. inversion Hst; subst. simpl in *.
      eexists; split; [reflexivity|]. split; simpl; auto. rewrite <- E1.
      eapply agree_set_both; [exact E2|]. intros x Hx. rewrite vmem_app, Hx. apply orb_true_r.
    + subst s'.
      destruct e as [w|y|t]; simpl in *.
      * (* constant *) destruct d; simpl in *; inversion Hst; subst.
        -- eexists; split; [reflexivity|]. split; simpl; auto.
           eapply agree_set_left; eauto.
        -- eexists; split; [reflexivity|]. split; simpl; auto.
           apply agree_sym. eapply agree_set_left; [apply agree_sym; exact HA| |exact Hv]. auto.
      * (* variable *) destruct d; simpl in *; inversion Hst; subst.
        -- eexists; split; [reflexivity|]. split; simpl; auto.
           eapply agree_set_left; eauto.
        -- eexists; split; [reflexivity|]. split; simpl; auto.
           apply agree_sym. eapply agree_set_left; [apply agree_sym; exact HA| |exact Hv]. auto.
      * (* opaque call *)
        assert (HA' : agree (t_reads t ++ O ++ O) st st2).
        { eapply agree_sub; [|exact HA]. intros x Hx. rewrite vmem_norm. exact Hx. }
        clear HA. rename HA' into HA.
        assert (HL : forall x, vmem x O = true -> vmem x (t_reads t ++ O ++ O) = true).
        { intros x Hx. rewrite !vmem_app, Hx. rewrite orb_true_r. reflexivity. }
        pose proof (eval_test_agree _ o t st st2 HA) as HE.
        destruct HE as [E1 E2]; [intros x Hx; rewrite vmem_app, Hx; reflexivity|].
        destruct d; simpl in *.
        -- destruct (eval_test o st t) as [w s1] eqn:Ee. inversion Hst; subst. simpl in *.
           exists (Normal, snd (eval_test o st2 t)). split.
           ++ destruct (truthy (fst (eval_test o st2 t))); apply runs_nil; reflexivity.
           ++ split; simpl; auto. eapply agree_set_left; [exact E2|exact HL|exact Hv].
        -- destruct (eval_test o st t) as [w s1] eqn:Ee. simpl in *.
           assert (Hr : r = (Normal, s1)).
           { destruct (truthy w); destruct f; simpl in Hst; congruence. }
           subst r. eexists; split; [reflexivity|]. split; simpl; auto.
           apply agree_sym. eapply agree_set_left; [apply agree_sym; exact E2|exact HL|exact Hv].
  - (* return *) apply ok_atom in Hok; [|exact I]. subst s'. rewrite side_same in *. simpl in *.
    pose proof (eval_rexpr_agree _ o e st st2 HA) as HE.
    destruct HE as [E1 E2]; [intros x Hx; rewrite vmem_app, Hx; reflexivity|].
    destruct (eval_rexpr o st e) as [w s1] eqn:Ee. inversion Hst; subst. simpl in *.
    eexists; split; [reflexivity|]. split; simpl; [congruence|].
    eapply agree_sub; [|exact E2]. intros x Hx. rewrite vmem_app, Hx. apply orb_true_r.
  - apply ok_atom in Hok; [|exact I]. subst s'. rewrite side_same in *. simpl in *.
    inversion Hst; subst. eexists; split; [reflexivity|]. split; simpl; auto.
  - apply ok_atom in Hok; [|exact I]. subst s'. rewrite side_same in *. simpl in *.
    inversion Hst; subst. eexists; split; [reflexivity|]. split; simpl; auto.
  - apply ok_atom in Hok; [|exact I]. subst s'. rewrite side_same in *. simpl in *.
    inversion Hst; subst. eexists; split; [reflexivity|]. split; simpl; auto.
  - (* if *)
    apply ok_if in Hok. destruct Hok as [b1' [b2' [-> [Hk1 Hk2]]]]. rewrite lv_if in HA.
    assert (HA' : agree (t_reads t ++ lv_block n b1' O B C X ++ lv_block n b2' O B C X) st st2).
    { eapply agree_sub; [|exact HA]. intros x Hx. rewrite vmem_norm. exact Hx. }
    clear HA. rename HA' into HA.
    assert (Es : forall dd, side dd (SIf t b1 b2) (SIf t b1' b2') = SIf t (side dd b1 b1') (side dd b2 b2'))
      by (intros []; reflexivity).
    rewrite Es in *. simpl in *.
    pose proof (eval_test_agree _ o t st st2 HA) as HE.
    destruct HE as [E1 E2]; [intros x Hx; rewrite vmem_app, Hx; reflexivity|].
    destruct (eval_test o st t) as [w s1] eqn:Ee. simpl in *. rewrite <- E1.
    destruct (truthy w).
    + eapply IHb; [exact Hk1| |exact Hst]. eapply agree_sub; [|exact E2].
      intros x Hx. rewrite !vmem_app, Hx. rewrite orb_true_r. reflexivity.
    + eapply IHb; [exact Hk2| |exact Hst]. eapply agree_sub; [|exact E2].
      intros x Hx. rewrite !vmem_app, Hx. rewrite !orb_true_r. reflexivity.
  - (* loop *)
    apply ok_loop in Hok. destruct Hok as [bd' [el' [-> [Hfix [Hk1 Hk2]]]]]. rewrite lv_loop in HA.
    assert (Es : forall dd, side dd (SLoop h bd el) (SLoop h bd' el') = SLoop h (side dd bd bd') (side dd el el'))
      by (intros []; reflexivity).
    rewrite Es in *. simpl in *.
    pose proof (enter_agree _ o h st st2 HA) as HE.
    destruct HE as [E1 [E2 E3]]; [intros x Hx; rewrite vmem_app, Hx; reflexivity|].
    destruct (enter o st h) as [s1 lk] eqn:Ee. simpl in *. rewrite <- E1.
    eapply IHl; [exact Hfix|exact Hk1|exact Hk2|exact E3| |exact Hst].
    eapply agree_sub; [|exact E2]. intros x Hx. rewrite vmem_app, Hx. apply orb_true_r.
Qed.

Lemma side_cons {A} d (a b : A) (l m : list A) : side d (a :: l) (b :: m) = side d a b :: side d l m.
Proof. destruct d; reflexivity. Qed.
Lemma side_nil {A} d : side d (@nil A) [] = [].
Proof. destruct d; reflexivity. Qed.

Lemma sim_all : forall f, block_sim f /\ loop_sim f.
Proof.
  induction f as [|f [IHb IHl]].
  - split; unfold block_sim, loop_sim; intros; simpl in *; discriminate.
  - split.
    + (* blocks *)
      unfold block_sim. intros d o p p' O B C X st st2 r Hok HA Hex.
      destruct p as [|s tl], p' as [|s' tl']; simpl in Hok; try discriminate.
      * rewrite side_nil in *. simpl in Hex. inversion Hex; subst.
        exists (Normal, st2). split; [apply runs_nil; reflexivity|]. split; simpl; auto.
      * apply andb_true_iff in Hok. destruct Hok as [Hk1 Hk2].
        rewrite side_cons in *. simpl in Hex. simpl in HA.
        destruct (step1 (exec f o) (loop_ f o) o st (side d s s')) as [[out1 st1]|] eqn:E1; [|discriminate].
        destruct (step_sim f IHb IHl d o s s' _ B C X st st2 _ Hk1 HA E1) as [[out1' st1'] [Hr1 [Ho1 Ha1]]].
        simpl in Ho1, Ha1. subst out1'.
        destruct out1; simpl in Hex;
          try (inversion Hex; subst; eexists; split;
               [apply runs_cons; eexists; split; [exact Hr1|reflexivity]|split; simpl; auto]).
        destruct (IHb d o tl tl' O B C X st1 st1' r Hk2 Ha1 Hex) as [r2 [Hr2 Hres]].
        exists r2. split; [|exact Hres]. apply runs_cons. eexists; split; [exact Hr1|exact Hr2].
    + (* loops *)
      unfold loop_sim. intros d o h bd bd' el el' lk O B C X st st2 r Hfix Hk1 Hk2 Hlk HA Hex.
      set (Xh := loop_head n h bd' el' O B C X) in *.
      pose proof (vsubset_spec _ _ Hfix) as Hsub.
      assert (Hlk' : forall x, vmem x (lk_reads lk) = true -> vmem x Xh = true).
      { intros x Hx. apply Hsub. unfold loop_x0. rewrite !vmem_app. rewrite (Hlk x Hx). reflexivity. }
      pose proof (loop_next_agree Xh o lk st st2 HA Hlk') as [En1 [En2 [En3 En4]]].
      simpl in Hex.
      destruct (loop_next o st lk) as [[go s1] lk1] eqn:ELN.
      destruct (loop_next o st2 lk) as [[go' s1'] lk1'] eqn:ELN'. simpl in *. subst go' lk1'.
      destruct go.
      * (* one more iteration *)
        destruct (exec f o s1 (side d bd bd')) as [[out1 s2]|] eqn:E1; [|discriminate].
        assert (HAb : agree (lv_block n bd' Xh O Xh X) s1 s1').
        { eapply agree_sub; [|exact En3]. intros x Hx. apply Hsub. rewrite vmem_app, Hx. apply orb_true_r. }
        destruct (IHb d o bd bd' Xh O Xh X s1 s1' _ Hk1 HAb E1) as [[out1' s2'] [Hr1 [Ho1 Ha1]]].
        simpl in Ho1, Ha1. subst out1'.
        assert (Hlk1 : forall x, vmem x (lk_reads lk1) = true -> vmem x (h_iter_reads h) = true)
          by (rewrite En4; exact Hlk).
        destruct out1; simpl in Hex, Ha1.
        -- destruct (IHl d o h bd bd' el el' lk1 O B C X s2 s2' r Hfix Hk1 Hk2 Hlk1 Ha1 Hex) as [r2 [Hr2 Hres]].
           exists r2. split; [|exact Hres]. eapply lruns_step; [exact ELN'|exact Hr1|exact Hr2].
        -- inversion Hex; subst. eexists; split; [eapply lruns_step; [exact ELN'|exact Hr1|reflexivity]|].
           split; simpl; auto.
        -- inversion Hex; subst. eexists; split; [eapply lruns_step; [exact ELN'|exact Hr1|reflexivity]|].
           split; simpl; auto.
        -- inversion Hex; subst. eexists; split; [eapply lruns_step; [exact ELN'|exact Hr1|reflexivity]|].
           split; simpl; auto.
        -- destruct (IHl d o h bd bd' el el' lk1 O B C X s2 s2' r Hfix Hk1 Hk2 Hlk1 Ha1 Hex) as [r2 [Hr2 Hres]].
           exists r2. split; [|exact Hres]. eapply lruns_step; [exact ELN'|exact Hr1|exact Hr2].
      * (* the loop ends: else clause *)
        assert (HAe : agree (lv_block n el' O B C X) s1 s1').
        { eapply agree_sub; [|exact En3]. intros x Hx. apply Hsub. unfold loop_x0.
          rewrite !vmem_app, Hx. rewrite orb_true_r. reflexivity. }
        destruct (IHb d o el el' O B C X s1 s1' r Hk2 HAe Hex) as [r2 [Hr2 Hres]].
        exists r2. split; [|exact Hres]. eapply lruns_stop; [exact ELN'|exact Hr2].
Qed.
End Sim.

Lemma agree_refl L st : agree L st st.
Proof. repeat split; auto. Qed.

(* T02k_undefine_dead_sound : an output that the checker accepts behaves like the input: same
   outcome (returned value), same trace, same oracle position, under every oracle, from every
   state; termination is preserved in both directions. *)
Theorem undefine_dead_sound n p p' : uv_ok n p p' = true -> obs_equiv p p'.
Proof.
  intros Hok o st. split; intros r [f Hr].
  - destruct (sim_all n f) as [Hb _].
    destruct (Hb true o p p' [] [] [] [] st st r Hok (agree_refl _ _) Hr) as [r2 [H2 [Ho [Hp [Ht _]]]]].
    exists r2. split; [exact H2|]. unfold obs. rewrite Ho, Hp, Ht. reflexivity.
  - destruct (sim_all n f) as [Hb _].
    destruct (Hb false o p p' [] [] [] [] st st r Hok (agree_refl _ _) Hr) as [r2 [H2 [Ho [Hp [Ht _]]]]].
    exists r2. split; [exact H2|]. unfold obs. rewrite Ho, Hp, Ht. reflexivity.
Qed.

(* the same with a set of variables that are observed afterwards (the globals a later reader sees) *)
Theorem undefine_dead_sound_out n p p' out :
  ok_block n p p' out [] [] out = true ->
  forall o st r, runs o st p r ->
  exists r', runs o st p' r' /\ obs r = obs r' /\
             (fst r = Normal ->
              forall x, vmem x out = true -> get (s_env (snd r)) x = get (s_env (snd r')) x).
Proof.
  intros Hok o st r [f Hr]. destruct (sim_all n f) as [Hb _].
  destruct (Hb true o p p' out [] [] out st st r Hok (agree_refl _ _) Hr) as [r2 [H2 [Ho [Hp [Ht He]]]]].
  exists r2. split; [exact H2|]. split; [unfold obs; rewrite Ho, Hp, Ht; reflexivity|].
  intros En x Hx. rewrite En in He. simpl in He. apply He. exact Hx.
Qed.

(* ---- the rule's decision on straight-line code only drops dead assignments ---- *)
Lemma list_nat_eqb_refl l : list_eqb Nat.eqb l l = true.
Proof. induction l; simpl; auto. rewrite Nat.eqb_refl. auto. Qed.
Lemma test_eqb_refl t : test_eqb t t = true.
Proof.
  induction t; simpl; auto.
  - destruct b; reflexivity.
  - rewrite Nat.eqb_refl, list_nat_eqb_refl. reflexivity.
Qed.
Lemma val_eqb_refl v : val_eqb v v = true.
Proof. destruct v as [[]|[] k]; simpl; auto; apply Nat.eqb_refl. Qed.
Lemma rexpr_eqb_refl e : rexpr_eqb e e = true.
Proof. destruct e; simpl; [apply val_eqb_refl|apply Nat.eqb_refl|apply test_eqb_refl]. Qed.
Lemma stmt_eqb_refl_simple s : simple s = true -> stmt_eqb s s = true.
Proof.
  destruct s; simpl; try discriminate; auto.
  - rewrite Nat.eqb_refl, list_nat_eqb_refl. reflexivity.
  - rewrite Nat.eqb_refl, rexpr_eqb_refl. reflexivity.
Qed.
Lemma drop_eqb_refl e : stmt_eqb (drop_asg e) (drop_asg e) = true.
Proof. destruct e; simpl; auto. rewrite test_eqb_refl. reflexivity. Qed.

Lemma lv_drop n e o b c x y :
  vmem y (lv_stmt n (drop_asg e) o b c x) = true -> vmem y (r_reads e) = true \/ vmem y o = true.
Proof.
  destruct e as [w|z|t]; simpl; auto.
  rewrite vmem_norm, !vmem_app. intros H. repeat (apply orb_true_iff in H; destruct H as [H|H]); auto.
Qed.

Lemma uv_line_live n b c xx y : forall l,
  forallb simple l = true ->
  vmem y (lv_block n (uv_line l) [] b c xx) = true -> read_next y l = true.
Proof.
  induction l as [|s tl IH]; intros Hs H; simpl in *; [discriminate|].
  apply andb_true_iff in Hs. destruct Hs as [Hs1 Hs2]. specialize (IH Hs2).
  destruct s as [|i rd|v e| | | | | |]; simpl in Hs1; try discriminate; simpl in H |- *.
  - auto.
  - rewrite vmem_app in H. destruct (vmem y rd); [reflexivity|]. simpl in H. auto.
  - destruct (vmem y (r_reads e)) eqn:Er; [reflexivity|].
    destruct (read_next v tl) eqn:Ev; simpl in H.
    + rewrite vmem_app, Er, vmem_remove in H. simpl in H.
      apply andb_true_iff in H. destruct H as [H1 H2]. apply negb_true_iff in H1.
      rewrite Nat.eqb_sym in H1. rewrite H1. auto.
    + apply lv_drop in H. destruct H as [H|H]; [congruence|].
      specialize (IH H). destruct (Nat.eqb y v) eqn:E; [|exact IH].
      apply Nat.eqb_eq in E. subst. congruence.
Qed.

Lemma uv_line_ok n b c xx : forall l,
  forallb simple l = true -> ok_block n l (uv_line l) [] b c xx = true.
Proof.
  induction l as [|s tl IH]; intros Hs; simpl in *; [reflexivity|].
  apply andb_true_iff in Hs. destruct Hs as [Hs1 Hs2]. specialize (IH Hs2).
  destruct s as [|i rd|v e| | | | | |]; simpl in Hs1; try discriminate.
  - simpl. exact IH.
  - simpl. rewrite Nat.eqb_refl, list_nat_eqb_refl. exact IH.
  - destruct (read_next v tl) eqn:Ev.
    + change (ok_block n (SAssign v e :: tl) (SAssign v e :: uv_line tl) [] b c xx = true).
      simpl. rewrite Nat.eqb_refl, rexpr_eqb_refl. simpl. exact IH.
    + change (ok_block n (SAssign v e :: tl) (drop_asg e :: uv_line tl) [] b c xx = true).
      assert (Hd : vmem v (lv_block n (uv_line tl) [] b c xx) = false).
      { destruct (vmem v (lv_block n (uv_line tl) [] b c xx)) eqn:E; [|reflexivity].
        apply uv_line_live in E; [congruence|exact Hs2]. }
      cbn [ok_block]. rewrite IH, andb_true_r.
      assert (Hk : forall s', s' = drop_asg e ->
                   ok_stmt n (SAssign v e) s' (lv_block n (uv_line tl) [] b c xx) b c xx = true).
      { intros s' ->. destruct e as [w|z|t]; simpl; rewrite Hd; simpl; auto.
        rewrite test_eqb_refl. auto. }
      apply Hk. reflexivity.
Qed.

(* T02k_undefine_straight_sound *)
Theorem undefine_straight_sound p : forallb simple p = true -> obs_equiv p (uv_line p).
Proof. intros H. apply (undefine_dead_sound 0). apply uv_line_ok. exact H. Qed.

(* without the deadness test the rewrite is wrong: `v0 = True; e(1, v0)` *)
Theorem undefine_live_refuted :
  exists p p', (exists pre x e post, p = pre ++ SAssign x e :: post /\ p' = pre ++ drop_asg e :: post) /\
               ~ obs_equiv p p'.
Proof.
  exists [SAssign 0 (RVal (VBool true)); SEv 1 [0]], [SPass; SEv 1 [0]]. split.
  - exists [], 0, (RVal (VBool true)), [SEv 1 [0]]. split; reflexivity.
  - intros H. destruct (H (fun _ => VBool false) (mkSt [] 0 [])) as [H1 _].
    destruct (H1 (Normal, mkSt [VBool true] 0 [EvCall 1 [VBool true]])) as [r' [[f Hr] Ho]].
    + exists 5. reflexivity.
    + destruct f as [|[|[|f]]]; simpl in Hr; try discriminate.
      inversion Hr; subst. unfold obs in Ho. simpl in Ho. discriminate.
Qed.

(* ============================================================================================== *)
(* Part U : moving `C.a = v` into the class body                                                   *)
(* ============================================================================================== *)
Definition dom_in (N : ns) (bound : list name) : Prop :=
  forall x, ns_get N x <> None -> nmem x bound = true.

Lemma ns_get_set N a v x : ns_get (ns_set N a v) x = if Nat.eqb x a then Some v else ns_get N x.
Proof.
  induction N as [|[y w] N IH]; simpl.
  - destruct (Nat.eqb x a); reflexivity.
  - destruct (Nat.eqb a y) eqn:E; simpl.
    + apply Nat.eqb_eq in E. subst y. destruct (Nat.eqb x a); reflexivity.
    + destruct (Nat.eqb x y) eqn:E2; simpl.
      * apply Nat.eqb_eq in E2. subst y. rewrite Nat.eqb_sym, E. reflexivity.
      * exact IH.
Qed.

Lemma dom_in_set N bound a v : dom_in N bound -> dom_in (ns_set N a v) (a :: bound).
Proof.
  intros H x Hx. rewrite ns_get_set in Hx. unfold nmem. simpl.
  destruct (Nat.eqb x a) eqn:E; [reflexivity|]. simpl. apply H. exact Hx.
Qed.

Lemma veval_scopes G N bound e tr :
  dom_in N bound -> v_reads_class e = false -> existsb (fun x => nmem x bound) (v_names e) = false ->
  veval (fun x => match ns_get N x with Some v => Some v | None => ns_get G x end) (fun _ => None) e tr
  = veval (ns_get G) (ns_get N) e tr.
Proof.
  intros HD. revert tr. induction e as [k|x|a|k e IH]; intros tr Hc Hn; simpl in *; try reflexivity.
  - rewrite orb_false_r in Hn. destruct (ns_get N x) eqn:E; [|reflexivity].
    assert (nmem x bound = true) by (apply HD; congruence). congruence.
  - discriminate.
  - rewrite (IH tr Hc Hn). reflexivity.
Qed.

Lemma fu_split_app : forall post bound mv st, fu_split bound post = (mv, st) -> post = mv ++ st.
Proof.
  induction post as [|[a e] tl IH]; intros bound mv st H; simpl in H.
  - inversion H; reflexivity.
  - destruct (u_mangled a || v_reads_class e || existsb (fun x => nmem x bound) (v_names e)).
    + inversion H; reflexivity.
    + destruct (fu_split (a :: bound) tl) as [mv' st'] eqn:E. inversion H; subst.
      simpl. f_equal. eapply IH; eauto.
Qed.

Lemma moved_same G : forall post bound mv st N tr,
  fu_split bound post = (mv, st) -> dom_in N bound -> ubody G N mv tr = upost G N mv tr.
Proof.
  induction post as [|[a e] tl IH]; intros bound mv st N tr H HD; simpl in H.
  - inversion H; reflexivity.
  - destruct (u_mangled a || v_reads_class e || existsb (fun x => nmem x bound) (v_names e)) eqn:Eg.
    + inversion H; reflexivity.
    + destruct (fu_split (a :: bound) tl) as [mv' st'] eqn:E. inversion H; subst. simpl.
      apply orb_false_iff in Eg. destruct Eg as [Eg Eg3]. apply orb_false_iff in Eg. destruct Eg as [_ Eg2].
      rewrite (veval_scopes G N bound e tr HD Eg2 Eg3).
      destruct (veval (ns_get G) (ns_get N) e tr) as [[v|] tr']; [|reflexivity].
      eapply IH; [exact E|]. apply dom_in_set. exact HD.
Qed.

Lemma ubody_app G : forall b1 b2 N tr,
  ubody G N (b1 ++ b2) tr = match ubody G N b1 tr with (Some N1, tr1) => ubody G N1 b2 tr1 | r => r end.
Proof.
  induction b1 as [|[a e] tl IH]; intros; simpl; [reflexivity|].
  destruct (veval _ _ e tr) as [[v|] tr']; [apply IH|reflexivity].
Qed.
Lemma upost_app G : forall b1 b2 N tr,
  upost G N (b1 ++ b2) tr = match upost G N b1 tr with (Some N1, tr1) => upost G N1 b2 tr1 | r => r end.
Proof.
  induction b1 as [|[a e] tl IH]; intros; simpl; [reflexivity|].
  destruct (veval _ _ e tr) as [[v|] tr']; [apply IH|reflexivity].
Qed.

Lemma ubody_dom G : forall b N tr N' tr',
  ubody G N b tr = (Some N', tr') ->
  forall x, ns_get N' x <> None -> nmem x (map fst b) = true \/ ns_get N x <> None.
Proof.
  induction b as [|[a e] tl IH]; intros N tr N' tr' H x Hx; simpl in *.
  - inversion H; subst. right. exact Hx.
  - destruct (veval _ _ e tr) as [[v|] tr1]; [|discriminate].
    destruct (IH _ _ _ _ H x Hx) as [Hl|Hr].
    + left. unfold nmem in *. simpl. rewrite Hl. apply orb_true_r.
    + rewrite ns_get_set in Hr. unfold nmem. simpl.
      destruct (Nat.eqb x a); [left; reflexivity|right; exact Hr].
Qed.

(* T02k_unconventional_sound: for a class that nothing observes while it is created, the rule's
   output runs like the input: same outcome, same log, same attributes of the class. *)
Theorem unconventional_sound p : u_hook p = false -> urun (fu_model p) = urun p.
Proof.
  intros Hh. unfold fu_model, urun.
  destruct (fu_split (map fst (u_body p)) (u_post p)) as [mv st] eqn:Es. simpl. rewrite Hh.
  rewrite ubody_app.
  destruct (ubody (u_globals p) [] (u_body p) []) as [[N|] tr] eqn:Eb; [|reflexivity].
  assert (HD : dom_in N (map fst (u_body p))).
  { intros x Hx. destruct (ubody_dom _ _ _ _ _ _ Eb x Hx) as [H|H]; [exact H|]. simpl in H. congruence. }
  rewrite (fu_split_app _ _ _ _ Es), upost_app.
  rewrite (moved_same (u_globals p) _ _ _ _ N tr Es HD).
  destruct (upost (u_globals p) N mv tr) as [[N1|] tr1] eqn:Em; reflexivity.
Qed.

(* a class decorator, a metaclass or __init_subclass__ of a base sees the class when it is created:
   with the attribute after the rewrite, without it before *)
Theorem unconventional_hook_refuted :
  exists p, u_hook p = true /\ urun (fu_model p) <> urun p.
Proof.
  exists (mkU [] true [(1, VConst 1)] [(2, VConst 2)] []). split; [reflexivity|].
  vm_compute. discriminate.
Qed.

(* without the guards the rewrite is wrong: `C.b = a` where the class body binds a;
   `C.b = C.a` (the class does not exist yet inside its body) *)
Definition fu_unguarded (p : uprog) : uprog := mkU (u_globals p) (u_hook p) (u_body p ++ u_post p) [] (u_rest p).
Theorem unconventional_unguarded_refuted :
  (exists p, u_hook p = false /\ urun (fu_unguarded p) <> urun p /\ fst (fst (urun p)) = true
             /\ exists a x, u_post p = [(a, VName x)])
  /\ (exists p, u_hook p = false /\ urun (fu_unguarded p) <> urun p /\ fst (fst (urun p)) = true
                /\ exists a b, u_post p = [(a, VAttr b)]).
Proof.
  split.
  - exists (mkU [(1, UInt 5)] false [(1, VConst 1)] [(2, VName 1)] []).
    split; [reflexivity|]. split; [vm_compute; discriminate|]. split; [reflexivity|exists 2, 1; reflexivity].
  - exists (mkU [] false [(1, VConst 1)] [(2, VAttr 1)] []).
    split; [reflexivity|]. split; [vm_compute; discriminate|]. split; [reflexivity|exists 2, 1; reflexivity].
Qed.

(* ============================================================================================== *)
(* Part O : remove_unused_self_cls                                                                 *)
(* ============================================================================================== *)
Definition rs_cls (L NI : list name) (k : cls) : cls :=
  mkCls (c_name k) (c_base k) (map (rs_meth L NI k) (c_meths k)) (c_alias k).

Lemma rs_item_cls L NI k : rs_item L NI (IClass k) = IClass (rs_cls L NI k).
Proof. reflexivity. Qed.

Lemma rs_meth_name L NI k x : m_name (rs_meth L NI k x) = m_name x.
Proof.
  unfold rs_meth.
  repeat match goal with |- context [if ?b then _ else _] => destruct b; try reflexivity end;
  destruct (m_kind x); try reflexivity;
  repeat match goal with |- context [if ?b then _ else _] => destruct b; try reflexivity end.
Qed.

Lemma rs_find_cls L NI its c :
  find_cls (map (rs_item L NI) its) c = option_map (rs_cls L NI) (find_cls its c).
Proof.
  induction its as [|[k|g] tl IH]; simpl; auto.
  destruct (Nat.eqb (c_name k) c); simpl; auto.
Qed.
Lemma rs_find_fn L NI its f : find_fn (map (rs_item L NI) its) f = find_fn its f.
Proof.
  induction its as [|[k|g] tl IH]; simpl; auto.
  destruct (Nat.eqb (f_name g) f); auto.
Qed.
Lemma rs_find_meth L NI k ms m :
  find_meth (map (rs_meth L NI k) ms) m = option_map (rs_meth L NI k) (find_meth ms m).
Proof.
  induction ms as [|x tl IH]; simpl; auto.
  rewrite rs_meth_name. destruct (Nat.eqb (m_name x) m); simpl; auto.
Qed.
Lemma rs_cls_attr L NI k m : cls_attr (rs_cls L NI k) m = option_map (rs_meth L NI k) (cls_attr k m).
Proof.
  unfold cls_attr. simpl. destruct (find_alias (c_alias k) m); apply rs_find_meth.
Qed.
Lemma rs_chain L NI its : forall f c,
  chain (map (rs_item L NI) its) f c = map (rs_cls L NI) (chain its f c).
Proof.
  induction f as [|f IH]; intros c; simpl; auto.
  rewrite rs_find_cls. destruct (find_cls its c) as [k|]; simpl; auto.
  f_equal. destruct (c_base k); simpl; auto.
Qed.
(* lookup that also returns the class record *)
Fixpoint lookup_k (ks : list cls) (m : name) : option (cls * meth) :=
  match ks with
  | [] => None
  | k :: tl => match cls_attr k m with Some x => Some (k, x) | None => lookup_k tl m end
  end.
Lemma lookup_in_k ks m :
  lookup_in ks m = option_map (fun p => (c_name (fst p), snd p)) (lookup_k ks m).
Proof. induction ks as [|k tl IH]; simpl; auto. destruct (cls_attr k m); simpl; auto. Qed.
Lemma rs_lookup L NI ks m :
  lookup_in (map (rs_cls L NI) ks) m
  = option_map (fun p => (c_name (fst p), rs_meth L NI (fst p) (snd p))) (lookup_k ks m).
Proof.
  induction ks as [|k tl IH]; simpl; auto.
  rewrite rs_cls_attr. destruct (cls_attr k m); simpl; auto.
Qed.
Lemma rs_after_owner L NI ks o : after_owner (map (rs_cls L NI) ks) o = map (rs_cls L NI) (after_owner ks o).
Proof. induction ks as [|k tl IH]; simpl; auto. destruct (Nat.eqb (c_name k) o); auto. Qed.

(* ---- the steps of run, as separate functions ---- *)
Definition runner := selfv -> option name -> list act -> list tev -> res2.
Definition call_t (rn : runner) (t : target) (nargs : nat) (read : bool) (tr : list tev) : res2 :=
  match t with
  | TErr o => (tr, o)
  | TInt => if read then (tr, OOk) else (tr, OTypeErr)
  | TFn g => if read then (tr, OOk)
             else if Nat.eqb (f_params g) nargs then rn SNone None (f_body g) tr
             else (tr, OTypeErr)
  | TMeth h o x =>
      let (sv, fits) := bind h x nargs in
      match m_kind x, read with
      | KProp, true => match h with
                       | ViaInst _ => if fits then rn sv (Some o) (m_body x) tr else (tr, OTypeErr)
                       | ViaCls _ => (tr, OOk)
                       end
      | KProp, false => match h with
                        | ViaInst _ => if fits then andthen2 (rn sv (Some o) (m_body x) tr)
                                                             (fun tr' => (tr', OTypeErr))
                                       else (tr, OTypeErr)
                        | ViaCls _ => (tr, OTypeErr)
                        end
      | _, true => (tr, OOk)
      | _, false => if fits then rn sv (Some o) (m_body x) tr else (tr, OTypeErr)
      end
  end.
Definition recv_then_t (M : module) (rn : runner) (r : recv) (tr : list tev) (k : list tev -> res2) : res2 :=
  match creates r with
  | None => k tr
  | Some c =>
      match find_cls (m_items M) c with
      | None => (tr, ONameErr)
      | Some _ =>
          match lookup_in (chain (m_items M) CHAIN_FUEL c) INIT with
          | None => k tr
          | Some (o, x) =>
              let (sv, fits) := bind (ViaInst c) x 0 in
              if fits
              then match m_kind x with
                   | KProp => andthen2 (rn sv (Some o) (m_body x) tr) (fun tr' => (tr', OTypeErr))
                   | _ => andthen2 (rn sv (Some o) (m_body x) tr) k
                   end
              else (tr, OTypeErr)
          end
      end
  end.
Definition act_res (M : module) (rn : runner) (self : selfv) (owner : option name) (a : act) (tr : list tev) : res2 :=
  match a with
  | AEv k => (tr ++ [TEv k], OOk)
  | AUse => match self with SNone => (tr, ONameErr) | _ => (tr ++ [TUse self], OOk) end
  | ACall r m nargs => recv_then_t M rn r tr (fun tr1 => call_t rn (resolve M self owner r m) nargs false tr1)
  | ARead r m => recv_then_t M rn r tr (fun tr1 => call_t rn (resolve M self owner r m) 0 true tr1)
  | ADyn r m nargs => recv_then_t M rn r tr (fun tr1 => call_t rn (resolve M self owner r m) nargs false tr1)
  | AInit c => recv_then_t M rn (RNew c) tr (fun tr1 => (tr1, OOk))
  end.
Lemma run_S M f self owner a rest tr :
  run M (S f) self owner (a :: rest) tr
  = andthen2 (act_res M (run M f) self owner a tr) (fun tr1 => run M f self owner rest tr1).
Proof. destruct a; reflexivity. Qed.
Lemma run_S_nil M f self owner tr : run M (S f) self owner [] tr = (tr, OOk).
Proof. reflexivity. Qed.
Lemma run_O M self owner body tr : run M 0 self owner body tr = (tr, OFuel).
Proof. reflexivity. Qed.

Definition uses_first (a : act) : bool :=
  match a with
  | AUse => true
  | ACall RSelf _ _ | ARead RSelf _ | ADyn RSelf _ _ => true
  | ACall RSuper _ _ | ARead RSuper _ | ADyn RSuper _ _ => true
  | _ => false
  end.
Definition no_first (b : list act) : bool := forallb (fun a => negb (uses_first a)) b.
Definition cm_act (NI : list name) (k : cls) (a : act) : bool :=
  match a with
  | AUse => false
  | ARead RSelf _ | ADyn RSelf _ _ => false
  | ACall RSelf m _ => nmem m (non_instance NI k)
  | ACall RSuper _ _ | ARead RSuper _ | ADyn RSuper _ _ => false
  | _ => true
  end.
Definition cm_ok (NI : list name) (k : cls) (b : list act) : bool := forallb (cm_act NI k) b.

Lemma no_first_of NI k b :
  has_super b = false -> inst_access NI k b = false -> static_access NI k b = false -> no_first b = true.
Proof.
  unfold has_super, inst_access, static_access, no_first.
  induction b as [|a b IH]; simpl; auto. intros H1 H2 H3.
  apply orb_false_iff in H1. destruct H1 as [H1 H1'].
  apply orb_false_iff in H2. destruct H2 as [H2 H2'].
  apply orb_false_iff in H3. destruct H3 as [H3 H3'].
  rewrite (IH H1' H2' H3'), andb_true_r.
  destruct a as [| |r m n|r m|r m n|c]; simpl in *; auto; destruct r; simpl in *; auto; try discriminate.
  destruct (nmem m (non_instance NI k)); simpl in *; discriminate.
Qed.
Lemma cm_ok_of NI k b : has_super b = false -> inst_access NI k b = false -> cm_ok NI k b = true.
Proof.
  unfold has_super, inst_access, cm_ok.
  induction b as [|a b IH]; simpl; auto. intros H1 H2.
  apply orb_false_iff in H1. destruct H1 as [H1 H1'].
  apply orb_false_iff in H2. destruct H2 as [H2 H2'].
  rewrite (IH H1' H2'), andb_true_r.
  destruct a as [| |r m n|r m|r m n|c]; simpl in *; auto; destruct r; simpl in *; auto; try discriminate.
  apply negb_false_iff in H2. exact H2.
Qed.

Inductive rs_shape (L NI : list name) (k : cls) (x x' : meth) : Prop :=
| RsSame : x' = x -> rs_shape L NI k x x'
| RsStatic : x' = mkMeth (m_name x) KStatic (pred (m_params x)) (m_body x) ->
             m_params x <> 0 -> (m_kind x = KPlain \/ m_kind x = KClassm) -> no_first (m_body x) = true ->
             (nmem (m_name x) L = false \/ nmem (m_name x) (non_instance NI k) = true) ->
             nmem (m_name x) (map snd (c_alias k)) = false ->
             rs_shape L NI k x x'
| RsClassm : x' = mkMeth (m_name x) KClassm (m_params x) (m_body x) ->
             m_params x <> 0 -> m_kind x = KPlain -> cm_ok NI k (m_body x) = true ->
             (nmem (m_name x) L = false \/ nmem (m_name x) (non_instance NI k) = true) ->
             nmem (m_name x) (map snd (c_alias k)) = false ->
             rs_shape L NI k x x'.

Lemma rs_meth_shape L NI k x : rs_shape L NI k x (rs_meth L NI k x).
Proof.
  unfold rs_meth.
  destruct (Nat.eqb (m_params x) 0) eqn:Ep; [apply RsSame; reflexivity|].
  apply Nat.eqb_neq in Ep.
  destruct (is_magic (m_name x)); [apply RsSame; reflexivity|].
  destruct (nmem (m_name x) (map snd (c_alias k))) eqn:Ea; [apply RsSame; reflexivity|].
  destruct (nmem (m_name x) L && negb (nmem (m_name x) (non_instance NI k))) eqn:El; [apply RsSame; reflexivity|].
  assert (HL : nmem (m_name x) L = false \/ nmem (m_name x) (non_instance NI k) = true).
  { apply andb_false_iff in El. destruct El as [El|El]; [left; exact El|right; apply negb_false_iff; exact El]. }
  destruct (has_super (m_body x)) eqn:Es; [apply RsSame; reflexivity|].
  destruct (m_kind x) eqn:Ek; try (apply RsSame; reflexivity).
  - destruct (inst_access NI k (m_body x)) eqn:Ei; [apply RsSame; reflexivity|].
    destruct (static_access NI k (m_body x)) eqn:Et.
    + apply RsClassm; auto. apply cm_ok_of; auto.
    + apply RsStatic; auto. eapply no_first_of; eauto.
  - destruct (inst_access NI k (m_body x)) eqn:Ei; [apply RsSame; reflexivity|].
    destruct (static_access NI k (m_body x)) eqn:Et.
    + apply RsSame; reflexivity.
    + apply RsStatic; auto. eapply no_first_of; eauto.
Qed.

Lemma nmem_In x l : nmem x l = true <-> In x l.
Proof.
  unfold nmem. rewrite existsb_exists. split.
  - intros [y [Hy E]]. apply Nat.eqb_eq in E. subst. exact Hy.
  - intros H. exists x. split; [exact H|apply Nat.eqb_refl].
Qed.
Lemma find_meth_in ms m x : find_meth ms m = Some x -> In x ms /\ m_name x = m.
Proof.
  induction ms as [|y tl IH]; simpl; [discriminate|].
  destruct (Nat.eqb (m_name y) m) eqn:E.
  - intros H; inversion H; subst. apply Nat.eqb_eq in E. auto.
  - intros H. destruct (IH H). auto.
Qed.
Lemma find_alias_in al a m : find_alias al a = Some m -> In (a, m) al.
Proof.
  induction al as [|[x y] tl IH]; simpl; [discriminate|].
  destruct (Nat.eqb x a) eqn:E.
  - intros H; inversion H; subst. apply Nat.eqb_eq in E. subst. auto.
  - intros H. right. auto.
Qed.
Lemma cls_attr_in k m x :
  cls_attr k m = Some x ->
  In x (c_meths k) /\ (m_name x = m \/ nmem (m_name x) (map snd (c_alias k)) = true).
Proof.
  unfold cls_attr. destruct (find_alias (c_alias k) m) as [m'|] eqn:Ea; intros H.
  - apply find_meth_in in H. destruct H as [H1 H2]. split; [exact H1|]. right.
    apply nmem_In. apply find_alias_in in Ea. subst m'. apply in_map_iff. exists (m, m_name x). auto.
  - apply find_meth_in in H. destruct H; auto.
Qed.
Lemma find_cls_in its c k : find_cls its c = Some k -> In (IClass k) its /\ c_name k = c.
Proof.
  induction its as [|[k'|g] tl IH]; simpl; [discriminate| |].
  - destruct (Nat.eqb (c_name k') c) eqn:E.
    + intros H; inversion H; subst. apply Nat.eqb_eq in E. auto.
    + intros H. destruct (IH H). auto.
  - intros H. destruct (IH H). auto.
Qed.
Lemma find_fn_in its f g : find_fn its f = Some g -> In (IFunc g) its.
Proof.
  induction its as [|[k'|g'] tl IH]; simpl; [discriminate| |].
  - intros H. right. auto.
  - destruct (Nat.eqb (f_name g') f); [intros H; inversion H; subst; auto|intros H; right; auto].
Qed.
Lemma in_classes M k : In (IClass k) (m_items M) <-> In k (classes M).
Proof.
  unfold classes. rewrite in_flat_map. split.
  - intros H. exists (IClass k). split; [exact H|left; reflexivity].
  - intros [[k'|g] [H1 H2]]; simpl in H2; [destruct H2 as [->|[]]; exact H1|contradiction].
Qed.
Lemma chain_in its : forall f c k, In k (chain its f c) -> In (IClass k) its.
Proof.
  induction f as [|f IH]; intros c k; simpl; [contradiction|].
  destruct (find_cls its c) as [k0|] eqn:E; [|contradiction].
  intros [->|H]; [apply find_cls_in in E; tauto|].
  destruct (c_base k0); [eapply IH; eauto|contradiction].
Qed.
Lemma lookup_k_in ks m k x : lookup_k ks m = Some (k, x) -> In k ks /\ cls_attr k m = Some x.
Proof.
  induction ks as [|k' tl IH]; simpl; [discriminate|].
  destruct (cls_attr k' m) eqn:E.
  - intros H; inversion H; subst. auto.
  - intros H. destruct (IH H). auto.
Qed.
Lemma after_owner_incl ks o k : In k (after_owner ks o) -> In k ks.
Proof.
  induction ks as [|k' tl IH]; simpl; [contradiction|].
  destruct (Nat.eqb (c_name k') o); auto.
Qed.

Lemma nodup_names_in (l : list meth) x y :
  nodup_names (map m_name l) = true -> In x l -> In y l -> m_name x = m_name y -> x = y.
Proof.
  induction l as [|z tl IH]; simpl; [contradiction|].
  intros H Hx Hy E. apply andb_true_iff in H. destruct H as [H1 H2]. apply negb_true_iff in H1.
  assert (Hn : forall w, In w tl -> m_name w <> m_name z).
  { intros w Hw Ew. assert (nmem (m_name z) (map m_name tl) = true); [|congruence].
    apply nmem_In. apply in_map_iff. exists w. auto. }
  destruct Hx as [->|Hx], Hy as [->|Hy]; auto.
  - exfalso. apply (Hn y Hy). auto.
  - exfalso. apply (Hn x Hx). auto.
Qed.
Lemma inst_names_in M k x : In k (classes M) -> In x (c_meths k) -> noninst x = false -> nmem (m_name x) (inst_names M) = true.
Proof.
  intros Hk Hx Hn. apply nmem_In. unfold inst_names. apply in_flat_map. exists k. split; [exact Hk|].
  apply in_flat_map. exists x. split; [exact Hx|]. rewrite Hn. left; reflexivity.
Qed.
Lemma non_instance_spec NI k m :
  nmem m (non_instance NI k) = true -> nmem m NI = false /\ nmem m (map m_name (c_meths k)) = true.
Proof.
  intros E. apply nmem_In in E. unfold non_instance in E. apply in_flat_map in E. destruct E as [y [Hy Hin]].
  destruct (noninst y && negb (nmem (m_name y) NI)) eqn:Ec; [|contradiction].
  destruct Hin as [<-|[]]. apply andb_true_iff in Ec. destruct Ec as [_ Ec]. apply negb_true_iff in Ec.
  split; [exact Ec|]. apply nmem_In. apply in_map_iff. exists y. auto.
Qed.
Lemma plain_not_noninst M k x :
  In k (classes M) -> In x (c_meths k) -> m_kind x = KPlain -> nmem (m_name x) (non_instance (inst_names M) k) = false.
Proof.
  intros Hk Hx Hp. destruct (nmem (m_name x) (non_instance (inst_names M) k)) eqn:E; [|reflexivity].
  apply non_instance_spec in E. destruct E as [E _].
  rewrite (inst_names_in M k x Hk Hx) in E; [discriminate|]. unfold noninst. rewrite Hp. reflexivity.
Qed.

Definition no_dyn (M : module) : bool := forallb (fun ca => negb (is_dyn (snd ca))) (ctx_acts M).

Section RS.
Variable M : module.
Hypothesis Hwf : wf_mod M = true.
Hypothesis Hnd : no_dyn M = true.
Let L := looked_up_on_class M.
Let NI := inst_names M.
Let cn := map c_name (classes M).
Let M' := rs_pass M.

Definition in_code (flag : bool) (b : list act) : Prop :=
  (forall a m, In a b -> In m (looked_of cn flag a) -> nmem m L = true) /\
  (forall a, In a b -> is_dyn a = false).

Lemma no_dyn_in ctx a : In (ctx, a) (ctx_acts M) -> is_dyn a = false.
Proof.
  intros H. unfold no_dyn in Hnd. rewrite forallb_forall in Hnd. specialize (Hnd _ H).
  simpl in Hnd. apply negb_true_iff in Hnd. exact Hnd.
Qed.
Definition flag_ok (s : selfv) (flag : bool) : Prop :=
  match s with SCls _ => flag = true | _ => True end.

Inductive frel : selfv -> selfv -> list act -> Prop :=
| FSame s b : frel s s b
| FStatic s b : no_first b = true -> frel s SNone b
| FClassm c k b : In k (classes M) -> cm_ok NI k b = true -> frel (SInst c) (SCls c) b.

Lemma frel_tl s s' a b : frel s s' (a :: b) -> frel s s' b.
Proof.
  intros H. inversion H; subst.
  - apply FSame.
  - apply FStatic. simpl in H0. apply andb_true_iff in H0. tauto.
  - eapply FClassm; eauto. simpl in H1. apply andb_true_iff in H1. tauto.
Qed.
Lemma in_code_tl flag a b : in_code flag (a :: b) -> in_code flag b.
Proof. intros [H1 H2]. split; [intros x m Hx; apply H1; right; exact Hx|intros x Hx; apply H2; right; exact Hx]. Qed.

(* an attribute that is a method name of some class is not an alias *)
Lemma not_alias k m : In k (classes M) -> nmem m (all_meth_names M) = true -> find_alias (c_alias k) m = None.
Proof.
  intros Hk Hm. destruct (find_alias (c_alias k) m) as [m'|] eqn:E; [|reflexivity].
  apply find_alias_in in E. unfold wf_mod in Hwf. rewrite forallb_forall in Hwf. specialize (Hwf k Hk).
  rewrite forallb_forall in Hwf. specialize (Hwf _ E). simpl in Hwf. rewrite Hm in Hwf. discriminate.
Qed.

Lemma in_code_meth k x : In k (classes M) -> In x (c_meths k) -> in_code (is_classm x) (m_body x).
Proof.
  intros Hk Hx. split.
  - intros a m Ha Hm. apply nmem_In. unfold L, looked_up_on_class. fold cn.
    apply in_or_app. left. apply in_flat_map. exists (IClass k). split; [apply in_classes; exact Hk|].
    apply in_flat_map. exists x. split; [exact Hx|]. apply in_flat_map. exists a. auto.
  - intros a Ha. apply (no_dyn_in (Some (c_name k))). unfold ctx_acts. apply in_or_app. left.
    apply in_flat_map. exists (IClass k). split; [apply in_classes; exact Hk|].
    apply in_flat_map. exists x. split; [exact Hx|]. apply in_map_iff. exists a. auto.
Qed.
Lemma in_code_fn f g : find_fn (m_items M) f = Some g -> in_code false (f_body g).
Proof.
  intros Hf. split.
  - intros a m Ha Hm. apply nmem_In. unfold L, looked_up_on_class. fold cn.
    apply in_or_app. left. apply in_flat_map. exists (IFunc g). split; [eapply find_fn_in; eauto|].
    apply in_flat_map. exists a. auto.
  - intros a Ha. apply (no_dyn_in None). unfold ctx_acts. apply in_or_app. left.
    apply in_flat_map. exists (IFunc g). split; [eapply find_fn_in; eauto|].
    apply in_map_iff. exists a. auto.
Qed.
Lemma in_code_main : in_code false (map AInit (m_vars M) ++ m_main M).
Proof.
  split.
  - intros a m Ha Hm. apply in_app_or in Ha. destruct Ha as [Ha|Ha].
    + apply in_map_iff in Ha. destruct Ha as [c [<- _]]. simpl in Hm. contradiction.
    + apply nmem_In. unfold L, looked_up_on_class. fold cn. apply in_or_app. right.
      apply in_flat_map. exists a. auto.
  - intros a Ha. apply in_app_or in Ha. destruct Ha as [Ha|Ha].
    + apply in_map_iff in Ha. destruct Ha as [c [<- _]]. reflexivity.
    + apply (no_dyn_in None). unfold ctx_acts. apply in_or_app. right. apply in_map_iff. exists a. auto.
Qed.

Lemma items' : m_items M' = map (rs_item L NI) (m_items M).
Proof. reflexivity. Qed.

(* what the runner of M' does in a related frame equals what the runner of M does *)
Definition IHrun (f : nat) : Prop :=
  forall s s' owner b tr flag,
    frel s s' b -> in_code flag b -> flag_ok s flag ->
    run M' f s' owner b tr = run M f s owner b tr.

(* compatible (binding, method) pairs: same arity test, related frames *)
Definition compat (h h' : how) (x x' : meth) : Prop :=
  m_body x' = m_body x /\
  ((m_kind x = KProp \/ m_kind x' = KProp) -> x' = x /\ h' = h) /\
  (forall n, snd (bind h' x' n) = snd (bind h x n)) /\
  (forall n, frel (fst (bind h x n)) (fst (bind h' x' n)) (m_body x)) /\
  (forall n, flag_ok (fst (bind h x n)) (is_classm x)).

Lemma flag_bind h x n : flag_ok (fst (bind h x n)) (is_classm x).
Proof. unfold bind, is_classm. destruct h, (m_kind x); simpl; auto; destruct (Nat.eqb n 0); simpl; auto. Qed.

Lemma pred_fits p n : p <> 0 -> Nat.eqb (pred p) n = Nat.eqb p (S n).
Proof. destruct p; [congruence|reflexivity]. Qed.

Lemma compat_inst c k x : In k (classes M) -> compat (ViaInst c) (ViaInst c) x (rs_meth L NI k x).
Proof.
  intros Hk.
  destruct (rs_meth_shape L NI k x) as [E|E Hp Hkd Hnf _ _|E Hp Hkd Hcm _ _]; rewrite E; unfold compat.
  - split; [reflexivity|]. split; [auto|]. split; [auto|].
    split; [intros; apply FSame|]. intros n; exact (flag_bind _ x n).
  - split; [reflexivity|]. split.
    { intros [H|H]; [destruct Hkd; congruence|discriminate]. }
    split; [intros n; unfold bind; cbn [m_kind m_params snd]; destruct Hkd as [Hkd|Hkd]; rewrite Hkd;
            cbn [snd]; apply pred_fits; exact Hp|].
    split; [intros n; unfold bind; cbn [m_kind m_params fst]; destruct Hkd as [Hkd|Hkd]; rewrite Hkd;
            cbn [fst]; apply FStatic; exact Hnf|].
    intros n; exact (flag_bind _ x n).
  - split; [reflexivity|]. split.
    { intros [H|H]; [congruence|discriminate]. }
    split; [intros n; unfold bind; cbn [m_kind m_params snd]; rewrite Hkd; reflexivity|].
    split; [intros n; unfold bind; cbn [m_kind m_params fst]; rewrite Hkd; cbn [fst];
            eapply FClassm; eauto|].
    intros n; exact (flag_bind _ x n).
Qed.

(* through a class: only when the method keeps its shape, or a class method becomes static *)
Lemma compat_cls c k x :
  In k (classes M) -> In x (c_meths k) ->
  (m_kind x = KPlain -> rs_meth L NI k x = x) ->
  compat (ViaCls c) (ViaCls c) x (rs_meth L NI k x).
Proof.
  intros Hk Hx Hplain.
  destruct (rs_meth_shape L NI k x) as [E|E Hp Hkd Hnf _ _|E Hp Hkd Hcm _ _]; rewrite E; unfold compat.
  - split; [reflexivity|]. split; [auto|]. split; [auto|].
    split; [intros; apply FSame|]. intros n; exact (flag_bind _ x n).
  - destruct Hkd as [Hkd|Hkd].
    { specialize (Hplain Hkd). rewrite E in Hplain. exfalso.
      assert (m_kind x = KStatic) by (rewrite <- Hplain; reflexivity). congruence. }
    split; [reflexivity|]. split.
    { intros [H|H]; [congruence|discriminate]. }
    split; [intros n; unfold bind; cbn [m_kind m_params snd]; rewrite Hkd; cbn [snd]; apply pred_fits; exact Hp|].
    split; [intros n; unfold bind; cbn [m_kind m_params fst]; rewrite Hkd; cbn [fst]; apply FStatic; exact Hnf|].
    intros n; exact (flag_bind _ x n).
  - specialize (Hplain Hkd). rewrite E in Hplain. exfalso.
    assert (m_kind x = KClassm) by (rewrite <- Hplain; reflexivity). congruence.
Qed.

(* self.s() in a method that becomes a class method: s is static / a class method everywhere *)
Lemma compat_inst_cls c k x :
  In k (classes M) -> noninst x = true -> compat (ViaInst c) (ViaCls c) x (rs_meth L NI k x).
Proof.
  intros Hk Hn.
  destruct (rs_meth_shape L NI k x) as [E|E Hp Hkd Hnf _ _|E Hp Hkd Hcm _ _]; rewrite E; unfold compat.
  - split; [reflexivity|]. split.
    { intros [H|H]; unfold noninst in Hn; rewrite H in Hn; discriminate. }
    split; [intros n; unfold bind, noninst in *; destruct (m_kind x); try discriminate; reflexivity|].
    split; [intros n; unfold bind, noninst in *; destruct (m_kind x); try discriminate; apply FSame|].
    intros n; exact (flag_bind _ x n).
  - assert (Hkc : m_kind x = KClassm).
    { destruct Hkd as [Hkd|Hkd]; [unfold noninst in Hn; rewrite Hkd in Hn; discriminate|exact Hkd]. }
    split; [reflexivity|]. split.
    { intros [H|H]; [congruence|discriminate]. }
    split; [intros n; unfold bind; cbn [m_kind m_params snd]; rewrite Hkc; cbn [snd]; apply pred_fits; exact Hp|].
    split; [intros n; unfold bind; cbn [m_kind m_params fst]; rewrite Hkc; cbn [fst]; apply FStatic; exact Hnf|].
    intros n; exact (flag_bind _ x n).
  - unfold noninst in Hn. rewrite Hkd in Hn. discriminate.
Qed.

Lemma call_meth_eq f h h' o x x' n read tr :
  IHrun f -> compat h h' x x' -> in_code (is_classm x) (m_body x) ->
  call_t (run M' f) (TMeth h' o x') n read tr = call_t (run M f) (TMeth h o x) n read tr.
Proof.
  intros IH [Hb [Hp [Hf [Hfr Hfl]]]] Hc. unfold call_t.
  specialize (Hf n). specialize (Hfr n). specialize (Hfl n).
  destruct (bind h x n) as [sv fits] eqn:E1. destruct (bind h' x' n) as [sv' fits'] eqn:E2.
  simpl in Hf, Hfr, Hfl. subst fits'.
  assert (Hrun : forall tr0, run M' f sv' (Some o) (m_body x') tr0 = run M f sv (Some o) (m_body x) tr0).
  { intros tr0. rewrite Hb. eapply IH; eauto. }
  destruct (m_kind x) eqn:Ek; destruct (m_kind x') eqn:Ek';
    try (destruct (Hp (or_introl eq_refl)) as [-> ->]; congruence);
    try (destruct (Hp (or_intror eq_refl)) as [-> ->]; congruence);
    try (destruct read; [reflexivity|destruct fits; [apply Hrun|reflexivity]]).
  destruct (Hp (or_introl eq_refl)) as [-> ->].
  destruct read; destruct h; try reflexivity; destruct fits; try reflexivity; rewrite Hrun; reflexivity.
Qed.

Lemma looked_plain_same k m x :
  In k (classes M) -> cls_attr k m = Some x -> nmem m L = true -> m_kind x = KPlain -> rs_meth L NI k x = x.
Proof.
  intros Hk Ha Hm Hp. apply cls_attr_in in Ha. destruct Ha as [Hx Hn].
  pose proof (plain_not_noninst M k x Hk Hx Hp) as Hni. fold NI in Hni.
  destruct (rs_meth_shape L NI k x) as [E|E _ _ _ Hl Hal|E _ _ _ Hl Hal]; [exact E| |];
    (destruct Hn as [Hn|Hn]; [|congruence]; subst m; destruct Hl; congruence).
Qed.

Definition no_dyn_body (b : list act) : Prop := forall a, In a b -> is_dyn a = false.

(* a method found through the chain of a class of M *)
Lemma chain_classes f c k : In k (chain (m_items M) f c) -> In k (classes M).
Proof. intros H. apply in_classes. eapply chain_in; eauto. Qed.

Lemma via_eq f (h h' : how) ks m n read tr :
  IHrun f -> (forall k, In k ks -> In k (classes M)) ->
  (forall k x, In k ks -> cls_attr k m = Some x -> compat h h' x (rs_meth L NI k x)) ->
  call_t (run M' f) (match lookup_in (map (rs_cls L NI) ks) m with Some (o, x) => TMeth h' o x | None => TErr OAttrErr end) n read tr
  = call_t (run M f) (match lookup_in ks m with Some (o, x) => TMeth h o x | None => TErr OAttrErr end) n read tr.
Proof.
  intros IH Hks Hc. rewrite rs_lookup, lookup_in_k.
  destruct (lookup_k ks m) as [[k x]|] eqn:El; simpl; [|reflexivity].
  apply lookup_k_in in El. destruct El as [Hk Ha].
  apply call_meth_eq; auto. apply (in_code_meth k x); [apply Hks; exact Hk|]. apply cls_attr_in in Ha. tauto.
Qed.

Lemma call_resolve_eq f s s' owner a r m n read rest tr flag :
  IHrun f -> frel s s' (a :: rest) -> in_code flag (a :: rest) -> flag_ok s flag ->
  (a = ACall r m n \/ a = ARead r m) ->
  call_t (run M' f) (resolve M' s' owner r m) n read tr = call_t (run M f) (resolve M s owner r m) n read tr.
Proof.
  intros IH Hfr Hcode Hflag Ha.
  assert (Hattr : r <> RMod -> attr_of a = Some (r, m)).
  { intros Hr. destruct Ha as [->| ->]; destruct r; simpl; congruence. }
  assert (Hlooked : In m (looked_of cn flag a) -> nmem m L = true).
  { intros Hin. eapply (proj1 Hcode); [left; reflexivity|exact Hin]. }
  unfold resolve. rewrite items'. change (m_stores M') with (m_stores M). change (m_vars M') with (m_vars M).
  destruct r as [|c|c|c|c| |].
  - (* module name *) rewrite rs_find_fn. destruct (nmem m (m_stores M)); [reflexivity|].
    destruct (find_fn (m_items M) m) as [g|] eqn:Eg; [|reflexivity]. unfold call_t.
    destruct read; [reflexivity|]. destruct (Nat.eqb (f_params g) n); [|reflexivity].
    apply IH with (flag := false); [apply FSame|eapply in_code_fn; eauto|exact Logic.I].
  - (* C.m *) rewrite rs_find_cls. destruct (find_cls (m_items M) c) as [k0|] eqn:Ec; cbn [option_map]; [|reflexivity].
    rewrite rs_chain. apply via_eq; auto; [intros k; apply chain_classes|].
    intros k x Hk Hx. apply compat_cls; [eapply chain_classes; eauto|apply cls_attr_in in Hx; tauto|].
    intros Hp. eapply looked_plain_same; eauto; [eapply chain_classes; eauto|].
    apply Hlooked. unfold looked_of. rewrite Hattr by discriminate.
    assert (nmem c cn = true) as ->; [|left; reflexivity].
    apply nmem_In. apply in_map_iff. apply find_cls_in in Ec. destruct Ec as [E1 E2].
    exists k0. split; [exact E2|apply in_classes; exact E1].
  - (* C().m *) rewrite rs_find_cls. destruct (find_cls (m_items M) c) as [k0|] eqn:Ec; cbn [option_map]; [|reflexivity].
    rewrite rs_chain. apply via_eq; auto; [intros k; apply chain_classes|].
    intros k x Hk Hx. apply compat_inst. eapply chain_classes; eauto.
  - rewrite rs_find_cls. destruct (find_cls (m_items M) c) as [k0|] eqn:Ec; cbn [option_map]; [|reflexivity].
    rewrite rs_chain. apply via_eq; auto; [intros k; apply chain_classes|].
    intros k x Hk Hx. apply compat_inst. eapply chain_classes; eauto.
  - destruct (nmem c (m_vars M)); [|reflexivity].
    rewrite rs_find_cls. destruct (find_cls (m_items M) c) as [k0|] eqn:Ec; cbn [option_map]; [|reflexivity].
    rewrite rs_chain. apply via_eq; auto; [intros k; apply chain_classes|].
    intros k x Hk Hx. apply compat_inst. eapply chain_classes; eauto.
  - (* self.m / cls.m *)
    inversion Hfr; subst.
    + destruct s' as [|c|c| ]; try reflexivity.
      * rewrite rs_chain. apply via_eq; auto; [intros k; apply chain_classes|].
        intros k x Hk Hx. apply compat_inst. eapply chain_classes; eauto.
      * rewrite rs_chain. apply via_eq; auto; [intros k; apply chain_classes|].
        intros k x Hk Hx. apply compat_cls; [eapply chain_classes; eauto|apply cls_attr_in in Hx; tauto|].
        intros Hp. eapply looked_plain_same; eauto; [eapply chain_classes; eauto|].
        apply Hlooked. unfold looked_of. rewrite Hattr by discriminate.
        simpl in Hflag. rewrite Hflag. left; reflexivity.
    + exfalso. simpl in H. apply andb_true_iff in H. destruct H as [H _].
      destruct Ha as [->| ->]; simpl in H; discriminate.
    + simpl in H0. apply andb_true_iff in H0. destruct H0 as [H0 _].
      destruct Ha as [->| ->]; simpl in H0; [|discriminate].
      rewrite rs_chain. apply via_eq; auto; [intros k'; apply chain_classes|].
      intros k' x Hk' Hx. apply compat_inst_cls; [eapply chain_classes; eauto|].
      destruct (non_instance_spec NI k m H0) as [HmI Hmk].
      assert (Hkc' : In k' (classes M)) by (eapply chain_classes; eauto).
      assert (Hall : nmem m (all_meth_names M) = true).
      { apply nmem_In. unfold all_meth_names. apply in_flat_map. exists k. split; [exact H|apply nmem_In; exact Hmk]. }
      unfold cls_attr in Hx. rewrite (not_alias k' m Hkc' Hall) in Hx. apply find_meth_in in Hx.
      destruct Hx as [Hx1 Hx2]. destruct (noninst x) eqn:En; [reflexivity|].
      pose proof (inst_names_in M k' x Hkc' Hx1 En) as Hc. fold NI in Hc. congruence.
  - (* super().m *)
    inversion Hfr; subst.
    + destruct s' as [|c|c| ]; destruct owner as [o|]; try reflexivity.
      * rewrite rs_chain, rs_after_owner. apply via_eq; auto.
        { intros k Hk. eapply chain_classes. eapply after_owner_incl; eauto. }
        intros k x Hk Hx. apply compat_inst. eapply chain_classes. eapply after_owner_incl; eauto.
      * rewrite rs_chain, rs_after_owner. apply via_eq; auto.
        { intros k Hk. eapply chain_classes. eapply after_owner_incl; eauto. }
        intros k x Hk Hx.
        assert (Hkc : In k (classes M)) by (eapply chain_classes; eapply after_owner_incl; eauto).
        apply compat_cls; [exact Hkc|apply cls_attr_in in Hx; tauto|].
        intros Hp. eapply looked_plain_same; eauto.
        apply Hlooked. unfold looked_of. rewrite Hattr by discriminate. left; reflexivity.
    + exfalso. simpl in H. apply andb_true_iff in H. destruct H as [H _].
      destruct Ha as [->| ->]; simpl in H; discriminate.
    + exfalso. simpl in H0. apply andb_true_iff in H0. destruct H0 as [H0 _].
      destruct Ha as [->| ->]; simpl in H0; discriminate.
Qed.

Lemma recv_then_eq f r tr K K' :
  IHrun f -> (forall tr1, K' tr1 = K tr1) ->
  recv_then_t M' (run M' f) r tr K' = recv_then_t M (run M f) r tr K.
Proof.
  intros IH HK. unfold recv_then_t. destruct (creates r) as [c|]; [|apply HK].
  rewrite items', rs_find_cls. destruct (find_cls (m_items M) c) as [k0|] eqn:Ec; cbn [option_map]; [|reflexivity].
  rewrite rs_chain, rs_lookup, lookup_in_k.
  destruct (lookup_k (chain (m_items M) CHAIN_FUEL c) INIT) as [[k x]|] eqn:El; cbn [option_map fst snd]; [|apply HK].
  apply lookup_k_in in El. destruct El as [Hk Hx].
  assert (Hkc : In k (classes M)) by (eapply chain_classes; eauto).
  destruct (compat_inst c k x Hkc) as [Hb [Hp [Hf [Hfr Hfl]]]].
  specialize (Hf 0). specialize (Hfr 0). specialize (Hfl 0).
  destruct (bind (ViaInst c) x 0) as [sv fits] eqn:E1.
  destruct (bind (ViaInst c) (rs_meth L NI k x) 0) as [sv' fits'] eqn:E2.
  simpl in Hf, Hfr, Hfl. subst fits'. destruct fits; [|reflexivity].
  assert (Hrun : forall tr0, run M' f sv' (Some (c_name k)) (m_body (rs_meth L NI k x)) tr0
                             = run M f sv (Some (c_name k)) (m_body x) tr0).
  { intros tr0. rewrite Hb. eapply IH; eauto. apply (in_code_meth k x); auto. apply cls_attr_in in Hx. tauto. }
  rewrite Hrun.
  destruct (m_kind x) eqn:Ek; destruct (m_kind (rs_meth L NI k x)) eqn:Ek';
    try (destruct (Hp (or_introl eq_refl)) as [Hxx _]; rewrite Hxx in Ek'; congruence);
    try (destruct (Hp (or_intror eq_refl)) as [Hxx _]; rewrite Hxx in Ek'; congruence);
    try reflexivity;
    destruct (run M f sv (Some (c_name k)) (m_body x) tr) as [tr1 []]; simpl; auto.
Qed.

Lemma rs_sim : forall f, IHrun f.
Proof.
  induction f as [|f IH]; intros s s' owner b tr flag Hfr Hcode Hflag; [reflexivity|].
  destruct b as [|a rest]; [reflexivity|]. rewrite !run_S.
  assert (Hrest : forall tr1, run M' f s' owner rest tr1 = run M f s owner rest tr1).
  { intros tr1. eapply IH; eauto; [eapply frel_tl; eauto|eapply in_code_tl; eauto]. }
  assert (Hact : act_res M' (run M' f) s' owner a tr = act_res M (run M f) s owner a tr).
  { destruct a as [k| |r m n|r m|r m n|c]; unfold act_res.
    - reflexivity.
    - inversion Hfr; subst; [reflexivity| |].
      + simpl in H. discriminate.
      + simpl in H0. discriminate.
    - apply recv_then_eq; [exact IH|]. intros tr1. eapply call_resolve_eq; eauto.
    - apply recv_then_eq; [exact IH|]. intros tr1. eapply call_resolve_eq; eauto.
    - exfalso. pose proof (proj2 Hcode (ADyn r m n) (or_introl eq_refl)) as H. discriminate.
    - apply recv_then_eq; [exact IH|]. reflexivity. }
  rewrite Hact. destruct (act_res M (run M f) s owner a tr) as [tr1 []]; simpl; auto.
Qed.
End RS.

(* T02k_self_cls_sound *)
Theorem self_cls_pass_sound M :
  wf_mod M = true -> no_dyn M = true ->
  forall fuel, run_module fuel (rs_pass M) = run_module fuel M.
Proof.
  intros Hwf Hnd fuel. unfold run_module.
  change (m_vars (rs_pass M)) with (m_vars M). change (m_main (rs_pass M)) with (m_main M).
  eapply (rs_sim M Hwf Hnd) with (flag := false); [apply FSame|apply in_code_main; assumption|exact Logic.I].
Qed.

Lemma rs_meth_body L NI k x : m_body (rs_meth L NI k x) = m_body x.
Proof. destruct (rs_meth_shape L NI k x) as [E|E|E]; rewrite E; reflexivity. Qed.

Lemma flat_map_map {A B C} (f : B -> list C) (g : A -> B) l : flat_map f (map g l) = flat_map (fun a => f (g a)) l.
Proof. induction l; simpl; auto. rewrite IHl. reflexivity. Qed.
Lemma flat_map_ext' {A B} (f g : A -> list B) l : (forall a, f a = g a) -> flat_map f l = flat_map g l.
Proof. intros H. induction l; simpl; auto. rewrite H, IHl. reflexivity. Qed.

Lemma ctx_acts_rs M : ctx_acts (rs_pass M) = ctx_acts M.
Proof.
  unfold ctx_acts, rs_pass. cbn [m_items m_main]. f_equal.
  rewrite flat_map_map. apply flat_map_ext'. intros [k|g]; [|reflexivity].
  cbn [rs_item c_meths c_name]. rewrite flat_map_map. apply flat_map_ext'. intros x.
  rewrite rs_meth_body. reflexivity.
Qed.
Lemma classes_rs M : classes (rs_pass M) = map (rs_cls (looked_up_on_class M) (inst_names M)) (classes M).
Proof.
  unfold classes, rs_pass. cbn [m_items]. rewrite flat_map_map.
  induction (m_items M) as [|[k|g] tl IH]; simpl; auto. f_equal. exact IH.
Qed.
Lemma all_meth_names_rs M : all_meth_names (rs_pass M) = all_meth_names M.
Proof.
  unfold all_meth_names. rewrite classes_rs, flat_map_map. apply flat_map_ext'. intros k.
  cbn [rs_cls c_meths]. rewrite map_map. apply map_ext. intros x. apply rs_meth_name.
Qed.
Lemma wf_mod_rs M : wf_mod (rs_pass M) = wf_mod M.
Proof.
  unfold wf_mod. rewrite all_meth_names_rs, classes_rs.
  induction (classes M) as [|k tl IH]; simpl; auto. rewrite IH. reflexivity.
Qed.
Lemma no_dyn_rs M : no_dyn (rs_pass M) = no_dyn M.
Proof. unfold no_dyn. rewrite ctx_acts_rs. reflexivity. Qed.

(* T02k_self_cls_sound: the model of the rule (five passes, as processing.fix runs it) *)
Theorem self_cls_sound M :
  wf_mod M = true -> no_dyn M = true ->
  forall fuel, run_module fuel (rs_model M) = run_module fuel M.
Proof.
  unfold rs_model. generalize 5 as n. intros n. revert M.
  induction n as [|n IH]; intros M Hwf Hnd fuel; simpl; [reflexivity|].
  rewrite IH; [apply self_cls_pass_sound; assumption|rewrite wf_mod_rs; exact Hwf|rewrite no_dyn_rs; exact Hnd].
Qed.

(* the attribute is looked up with a string: the rule cannot see it (known finding F02-28) *)
Theorem self_cls_dynamic_refuted :
  exists M, wf_mod M = true /\ no_dyn M = false /\ run_module 9 (rs_model M) <> run_module 9 M
            /\ snd (run_module 9 M) = OOk.
Proof.
  exists (mkMod [IClass (mkCls 1 None [mkMeth 1 KPlain 1 [AEv 1]] [])] [] [] [ADyn (RCls 1) 1 1]).
  repeat split; try reflexivity. vm_compute. discriminate.
Qed.

(* without the guard "looked up on a class" (the code before the repair) an explicit instance breaks *)
Definition rs_pass_unguarded (M : module) : module :=
  mkMod (map (rs_item [] (inst_names M)) (m_items M)) (m_vars M) (m_stores M) (m_main M).
Theorem self_cls_unguarded_refuted :
  exists M, wf_mod M = true /\ no_dyn M = true /\ run_module 9 (rs_pass_unguarded M) <> run_module 9 M
            /\ snd (run_module 9 M) = OOk.
Proof.
  exists (mkMod [IClass (mkCls 1 None [mkMeth 1 KPlain 1 [AEv 1]] [])] [] [] [ACall (RCls 1) 1 1]).
  repeat split; try reflexivity. vm_compute. discriminate.
Qed.

(* ============================================================================================== *)
(* Part D : equal numberings = same binding pattern (alpha-equivalence)                            *)
(* ============================================================================================== *)
Lemma index_of_app x l ext i : index_of x l = Some i -> index_of x (l ++ ext) = Some i.
Proof.
  revert i. induction l as [|y tl IH]; intros i; simpl; [discriminate|].
  destruct (Nat.eqb x y); auto.
  destruct (index_of x tl) as [j|]; simpl; [|discriminate]. intros H. rewrite (IH j eq_refl). exact H.
Qed.
Lemma index_of_nth x l i : index_of x l = Some i -> nth_error l i = Some x.
Proof.
  revert i. induction l as [|y tl IH]; intros i; simpl; [discriminate|].
  destruct (Nat.eqb x y) eqn:E.
  - intros H; inversion H; subst. apply Nat.eqb_eq in E. subst. reflexivity.
  - destruct (index_of x tl) as [j|]; simpl; [|discriminate]. intros H; inversion H; subst. simpl. auto.
Qed.
Lemma index_of_new x l : index_of x l = None -> index_of x (l ++ [x]) = Some (length l).
Proof.
  induction l as [|y tl IH]; simpl.
  - rewrite Nat.eqb_refl. reflexivity.
  - destruct (Nat.eqb x y); [discriminate|].
    destruct (index_of x tl); [discriminate|]. intros _. rewrite IH; reflexivity.
Qed.

(* the final list of first occurrences, and what every position of the numbering holds *)
Definition pos_ok (keep final : list name) (t : tok) (c : ctok) : Prop :=
  match t with
  | TK k => c = CK k
  | TN x _ => if nmem x keep then c = CKeep x else exists r, c = CIdx r /\ index_of x final = Some r
  end.

Lemma canon_spec keep : forall l seen,
  exists final, (exists ext, final = seen ++ ext) /\ Forall2 (pos_ok keep final) l (canon_go keep seen l).
Proof.
  induction l as [|t tl IH]; intros seen.
  - exists seen. split; [exists []; rewrite app_nil_r; reflexivity|constructor].
  - destruct t as [k|x b]; simpl.
    + destruct (IH seen) as [final [Hext HF]]. exists final. split; [exact Hext|]. constructor; [reflexivity|exact HF].
    + destruct (nmem x keep) eqn:Ek.
      * destruct (IH seen) as [final [Hext HF]]. exists final. split; [exact Hext|].
        constructor; [simpl; rewrite Ek; reflexivity|exact HF].
      * destruct (index_of x seen) as [i|] eqn:Ei.
        -- destruct (IH seen) as [final [[ext Hext] HF]]. exists final. split; [exists ext; exact Hext|].
           constructor; [|exact HF]. simpl. rewrite Ek. exists i. split; [reflexivity|].
           subst final. apply index_of_app. exact Ei.
        -- destruct (IH (seen ++ [x])) as [final [[ext Hext] HF]]. exists final.
           split; [exists ([x] ++ ext); rewrite Hext, <- app_assoc; reflexivity|].
           constructor; [|exact HF]. simpl. rewrite Ek. exists (length seen). split; [reflexivity|].
           subst final. apply index_of_app. apply index_of_new. exact Ei.
Qed.

Lemma Forall2_len {A B} (R : A -> B -> Prop) l m : Forall2 R l m -> length l = length m.
Proof. induction 1; simpl; auto. Qed.

(* T02k_duplicate_alpha: when two functions get the same numbering, they have the same node types and
   plain fields at every position, the same preserved (free) names at the same positions, and their
   other names follow the same pattern: two occurrences in f are the same name iff the occurrences at
   the same positions in g are.  That is: g is f with its bound names renamed one-to-one. *)
Theorem duplicate_alpha keep1 keep2 l1 l2 :
  canon_go keep1 [] l1 = canon_go keep2 [] l2 ->
  length l1 = length l2 /\
  (forall i k, nth_error l1 i = Some (TK k) -> nth_error l2 i = Some (TK k)) /\
  (forall i x b, nth_error l1 i = Some (TN x b) -> nmem x keep1 = true ->
                 exists b', nth_error l2 i = Some (TN x b') /\ nmem x keep2 = true) /\
  (forall i j x b x' b', nth_error l1 i = Some (TN x b) -> nth_error l1 j = Some (TN x' b') ->
      nmem x keep1 = false -> nmem x' keep1 = false ->
      exists y c y' c', nth_error l2 i = Some (TN y c) /\ nth_error l2 j = Some (TN y' c') /\
                        nmem y keep2 = false /\ nmem y' keep2 = false /\ (x = x' <-> y = y')).
Proof.
  intros E.
  destruct (canon_spec keep1 l1 []) as [f1 [_ H1]]. destruct (canon_spec keep2 l2 []) as [f2 [_ H2]].
  rewrite E in H1. set (cl := canon_go keep2 [] l2) in *.
  assert (Hlen : length l1 = length l2).
  { rewrite (Forall2_len _ _ _ H1), (Forall2_len _ _ _ H2). reflexivity. }
  assert (P1 : forall i t, nth_error l1 i = Some t -> exists c, nth_error cl i = Some c /\ pos_ok keep1 f1 t c).
  { clear -H1. induction H1; intros [|i] t Hn; simpl in *; try discriminate; eauto. inversion Hn; subst; eauto. }
  assert (P2 : forall i c, nth_error cl i = Some c -> exists t, nth_error l2 i = Some t /\ pos_ok keep2 f2 t c).
  { clear -H2. induction H2; intros [|i] c Hn; simpl in *; try discriminate; eauto. inversion Hn; subst; eauto. }
  split; [exact Hlen|]. split; [|split].
  - intros i k Hi. destruct (P1 i _ Hi) as [c [Hc Hp]]. simpl in Hp. subst c.
    destruct (P2 i _ Hc) as [t [Ht Hp]]. destruct t as [k'|y b]; simpl in Hp.
    + inversion Hp; subst. exact Ht.
    + destruct (nmem y keep2); [discriminate|destruct Hp as [r [Hr _]]; discriminate].
  - intros i x b Hi Hk. destruct (P1 i _ Hi) as [c [Hc Hp]]. simpl in Hp. rewrite Hk in Hp. subst c.
    destruct (P2 i _ Hc) as [t [Ht Hp]]. destruct t as [k'|y b']; simpl in Hp; [discriminate|].
    destruct (nmem y keep2) eqn:Ey; [inversion Hp; subst; eauto|destruct Hp as [r [Hr _]]; discriminate].
  - intros i j x b x' b' Hi Hj Hk Hk'.
    destruct (P1 i _ Hi) as [c [Hc Hp]]. simpl in Hp. rewrite Hk in Hp. destruct Hp as [r [-> Hr]].
    destruct (P1 j _ Hj) as [c' [Hc' Hp']]. simpl in Hp'. rewrite Hk' in Hp'. destruct Hp' as [r' [-> Hr']].
    destruct (P2 i _ Hc) as [t [Ht Hp]]. destruct t as [k|y cb]; simpl in Hp; [discriminate|].
    destruct (nmem y keep2) eqn:Ey; [discriminate|]. destruct Hp as [q [Hq Hy]]. inversion Hq; subst q.
    destruct (P2 j _ Hc') as [t' [Ht' Hp']]. destruct t' as [k|y' cb']; simpl in Hp'; [discriminate|].
    destruct (nmem y' keep2) eqn:Ey'; [discriminate|]. destruct Hp' as [q' [Hq' Hy']]. inversion Hq'; subst q'.
    exists y, cb, y', cb'. repeat split; auto.
    + intros ->. rewrite Hr in Hr'. inversion Hr'; subst r'.
      apply index_of_nth in Hy. apply index_of_nth in Hy'. congruence.
    + intros ->. rewrite Hy in Hy'. inversion Hy'; subst r'.
      apply index_of_nth in Hr. apply index_of_nth in Hr'. congruence.
Qed.

(* the code before repair 45d5772 abstracted the free names as well: f calls len, g calls sum *)
Theorem duplicate_old_refuted :
  exists f g, dup_eqb_old [] f g = true /\ dup_eqb [] f g = false /\
              exists i x y, nth_error f i = Some (TN x false) /\ nth_error g i = Some (TN y false) /\ x <> y
                            /\ nmem x (bound_names f) = false /\ nmem y (bound_names g) = false.
Proof.
  exists [TK 0; TN 9 true; TN 1 true; TK 1; TN 5 false; TN 1 false], [TK 0; TN 8 true; TN 1 true; TK 1; TN 6 false; TN 1 false].
  split; [reflexivity|]. split; [reflexivity|]. exists 4, 5, 6. repeat split; try reflexivity. discriminate.
Qed.

(* ============================================================================================== *)
(* Part O : delete_unused_functions_and_classes                                                    *)
(* ============================================================================================== *)
Definition uniq_cls (M : module) : bool := nodup_names (map c_name (classes M)).

Section DU.
Variable M : module.
Hypothesis Hnd : no_dyn M = true.
Hypothesis Huniq : uniq_cls M = true.
Let M' := du_pass M.
Let ca := ctx_acts M.
Let cs := classes M.
Let vars := m_vars M.

Definition kc (k : cls) : bool :=
  cls_used_in ca cs vars (c_name k) || negb (forallb (meth_kept_in ca cs vars k) (c_meths k)).
Definition du_cls (k : cls) : cls :=
  mkCls (c_name k) (c_base k) (filter (meth_kept_in ca cs vars k) (c_meths k)) (c_alias k).

Lemma du_items : m_items M' =
  flat_map (fun it => match it with
                      | IFunc g => if fn_used M (f_name g) then [it] else []
                      | IClass k => if kc k then [IClass (du_cls k)] else []
                      end) (m_items M).
Proof. reflexivity. Qed.

Lemma du_find_fn f : find_fn (m_items M') f = if fn_used M f then find_fn (m_items M) f else None.
Proof.
  rewrite du_items. induction (m_items M) as [|[k|g] tl IH]; simpl.
  - destruct (fn_used M f); reflexivity.
  - destruct (kc k); simpl; exact IH.
  - destruct (fn_used M (f_name g)) eqn:Eu; simpl.
    + destruct (Nat.eqb (f_name g) f) eqn:E; [|exact IH].
      apply Nat.eqb_eq in E. rewrite <- E, Eu. reflexivity.
    + destruct (Nat.eqb (f_name g) f) eqn:E; [|exact IH].
      apply Nat.eqb_eq in E. rewrite IH, <- E, Eu. reflexivity.
Qed.

(* with distinct class names, the class found by name is the same one *)
Lemma find_cls_uniq its c k :
  nodup_names (map c_name (flat_map (fun it => match it with IClass k => [k] | _ => [] end) its)) = true ->
  In (IClass k) its -> c_name k = c -> find_cls its c = Some k.
Proof.
  induction its as [|[k'|g] tl IH]; simpl; intros Hn Hin Hc; [contradiction| |].
  - apply andb_true_iff in Hn. destruct Hn as [Hn1 Hn2]. destruct Hin as [Hin|Hin].
    + inversion Hin; subst. rewrite Nat.eqb_refl. reflexivity.
    + destruct (Nat.eqb (c_name k') c) eqn:E; [|apply IH; auto].
      apply Nat.eqb_eq in E. apply negb_true_iff in Hn1. exfalso.
      assert (nmem (c_name k') (map c_name (flat_map (fun it => match it with IClass k => [k] | _ => [] end) tl)) = true);
        [|congruence].
      apply nmem_In. apply in_map_iff. exists k. split; [congruence|].
      apply in_flat_map. exists (IClass k). split; [exact Hin|left; reflexivity].
  - destruct Hin as [Hin|Hin]; [discriminate|]. apply IH; auto.
Qed.

Lemma du_find_cls c :
  find_cls (m_items M') c
  = match find_cls (m_items M) c with Some k => if kc k then Some (du_cls k) else None | None => None end.
Proof.
  rewrite du_items. unfold uniq_cls, classes in Huniq.
  induction (m_items M) as [|[k|g] tl IH]; simpl in *; [reflexivity| |].
  - apply andb_true_iff in Huniq. destruct Huniq as [Hn1 Hn2].
    destruct (Nat.eqb (c_name k) c) eqn:E.
    + destruct (kc k); simpl; [rewrite E; reflexivity|].
      (* the class is dropped: no other class has its name *)
      rewrite (IH Hn2). destruct (find_cls tl c) as [k2|] eqn:E2; [|reflexivity]. exfalso.
      apply find_cls_in in E2. destruct E2 as [E2 E3]. apply Nat.eqb_eq in E. apply negb_true_iff in Hn1.
      assert (nmem (c_name k) (map c_name (flat_map (fun it => match it with IClass k => [k] | _ => [] end) tl)) = true);
        [|congruence].
      apply nmem_In. apply in_map_iff. exists k2. split; [congruence|].
      apply in_flat_map. exists (IClass k2). split; [exact E2|left; reflexivity].
    + destruct (kc k); simpl; [rewrite E|]; apply IH; exact Hn2.
  - destruct (fn_used M (f_name g)); simpl; apply IH; exact Huniq.
Qed.

(* an attribute that some access mentions: the methods with that name are kept *)
Lemma find_meth_filter (P : meth -> bool) ms m :
  (forall x, In x ms -> m_name x = m -> P x = true) -> find_meth (filter P ms) m = find_meth ms m.
Proof.
  induction ms as [|y tl IH]; simpl; intros H; [reflexivity|].
  destruct (Nat.eqb (m_name y) m) eqn:E.
  - apply Nat.eqb_eq in E. rewrite (H y (or_introl eq_refl) E). simpl. rewrite E, Nat.eqb_refl. reflexivity.
  - destruct (P y); simpl; [rewrite E|]; apply IH; intros x Hx; apply H; right; exact Hx.
Qed.

Definition attr_live (m : name) : Prop := attr_used_in ca cs m = true.
Definition cls_live (k : cls) : Prop := In k cs /\ cls_named_in ca cs vars (c_name k) = true.

Lemma alias_value_used k a m' : In k cs -> In (a, m') (c_alias k) -> attr_live m'.
Proof.
  intros Hk Ha. unfold attr_live, attr_used_in. apply orb_true_iff. right.
  apply existsb_exists. exists k. split; [exact Hk|]. apply nmem_In. apply in_map_iff. exists (a, m'). auto.
Qed.

Lemma du_cls_attr k m : In k cs -> (attr_live m \/ (is_magic m = true /\ cls_named_in ca cs vars (c_name k) = true)) ->
  cls_attr (du_cls k) m = cls_attr k m.
Proof.
  intros Hk Hm. unfold cls_attr. cbn [du_cls c_alias c_meths].
  destruct (find_alias (c_alias k) m) as [m'|] eqn:Ea.
  - apply find_alias_in in Ea. apply find_meth_filter. intros x Hx Hn. unfold meth_kept_in.
    destruct (c_base k); [reflexivity|]. rewrite Hn. rewrite (alias_value_used k m m' Hk Ea). reflexivity.
  - apply find_meth_filter. intros x Hx Hn. unfold meth_kept_in. destruct (c_base k); [reflexivity|].
    rewrite Hn. destruct Hm as [Hm|[Hm1 Hm2]]; [rewrite Hm; reflexivity|rewrite Hm1, Hm2; apply orb_true_r].
Qed.

Lemma used_named c : cls_used_in ca cs vars c = true -> cls_named_in ca cs vars c = true.
Proof.
  unfold cls_used_in, cls_named_in. intros H.
  apply orb_true_iff in H. destruct H as [H|H]; [rewrite H; reflexivity|].
  apply orb_true_iff. right. apply existsb_exists in H. destruct H as [x [Hx H]].
  apply andb_true_iff in H. apply existsb_exists. exists x. tauto.
Qed.

Lemma chain_used : forall f c k,
  cls_used_in ca cs vars c = true -> In k (chain (m_items M) f c) ->
  In k cs /\ cls_used_in ca cs vars (c_name k) = true.
Proof.
  induction f as [|f IH]; intros c k Hc Hin; simpl in Hin; [contradiction|].
  destruct (find_cls (m_items M) c) as [k0|] eqn:E; [|contradiction].
  apply find_cls_in in E. destruct E as [E1 E2]. apply in_classes in E1.
  destruct Hin as [<-|Hin]; [rewrite E2; auto|].
  destruct (c_base k0) as [b|] eqn:Eb; [|contradiction].
  eapply IH; [|exact Hin]. unfold cls_used_in. apply orb_true_iff. left. apply orb_true_iff. left.
  apply existsb_exists. exists k0. split; [exact E1|]. rewrite Eb. simpl. apply Nat.eqb_refl.
Qed.

Lemma kc_used k : cls_used_in ca cs vars (c_name k) = true -> kc k = true.
Proof. intros H. unfold kc. rewrite H. reflexivity. Qed.

Lemma du_chain : forall f c,
  cls_used_in ca cs vars c = true ->
  chain (m_items M') f c = map du_cls (chain (m_items M) f c).
Proof.
  induction f as [|f IH]; intros c Hc; simpl; [reflexivity|].
  rewrite du_find_cls. destruct (find_cls (m_items M) c) as [k0|] eqn:E; [|reflexivity].
  pose proof (find_cls_in _ _ _ E) as [E1 E2]. apply in_classes in E1.
  rewrite kc_used by (rewrite E2; exact Hc). cbn [map du_cls c_base]. f_equal.
  destruct (c_base k0) as [b|] eqn:Eb; [|reflexivity]. apply IH.
  unfold cls_used_in. apply orb_true_iff. left. apply orb_true_iff. left.
  apply existsb_exists. exists k0. split; [exact E1|]. rewrite Eb. simpl. apply Nat.eqb_refl.
Qed.

Lemma du_lookup ks m :
  (forall k, In k ks -> In k cs) ->
  (attr_live m \/ (is_magic m = true /\ forall k, In k ks -> cls_named_in ca cs vars (c_name k) = true)) ->
  lookup_in (map du_cls ks) m = lookup_in ks m.
Proof.
  induction ks as [|k tl IH]; intros Hin Hm; simpl; [reflexivity|].
  rewrite du_cls_attr; [|apply Hin; left; reflexivity|destruct Hm as [Hm|[Hm1 Hm2]]; [left; exact Hm|right; split; [exact Hm1|apply Hm2; left; reflexivity]]].
  cbn [du_cls c_name]. destruct (cls_attr k m); [reflexivity|].
  apply IH; [intros k' Hk'; apply Hin; right; exact Hk'|].
  destruct Hm as [Hm|[Hm1 Hm2]]; [left; exact Hm|right; split; [exact Hm1|intros k' Hk'; apply Hm2; right; exact Hk']].
Qed.
Lemma du_after_owner ks o : after_owner (map du_cls ks) o = map du_cls (after_owner ks o).
Proof. induction ks as [|k tl IH]; simpl; auto. destruct (Nat.eqb (c_name k) o); auto. Qed.

(* what the code that still runs mentions is kept *)
Definition act_ok (a : act) : Prop :=
  (forall f, mod_call_of a = Some f -> fn_used M f = true) /\
  (forall c, act_class a = Some c -> cls_used_in ca cs vars c = true) /\
  (forall r m, attr_of a = Some (r, m) -> attr_live m) /\
  is_dyn a = false.
Definition code_ok (b : list act) : Prop := forall a, In a b -> act_ok a.
Definition self_live (s : selfv) : Prop :=
  match s with SInst c | SCls c => cls_used_in ca cs vars c = true | _ => True end.

Lemma in_ca_ok ctx a :
  In (ctx, a) ca -> (forall f, mod_call_of a = Some f -> fn_used M f = true) -> act_ok a.
Proof.
  intros Hin Hf.
  assert (Hd : is_dyn a = false).
  { unfold no_dyn in Hnd. rewrite forallb_forall in Hnd. specialize (Hnd _ Hin). simpl in Hnd.
    apply negb_true_iff in Hnd. exact Hnd. }
  split; [exact Hf|]. split; [|split; [|exact Hd]].
  - intros c Hc. unfold cls_used_in. apply orb_true_iff. right. apply existsb_exists. exists (ctx, a).
    split; [exact Hin|]. simpl. rewrite Hc, Hd. simpl. rewrite Nat.eqb_refl. reflexivity.
  - intros r m Hm. unfold attr_live, attr_used_in. apply orb_true_iff. left. apply existsb_exists.
    exists (ctx, a). split; [exact Hin|]. simpl. rewrite Hm. apply Nat.eqb_refl.
Qed.

Lemma uses_spec f b : existsb (fun a => match mod_call_of a with Some g => Nat.eqb f g | None => false end) b = true <->
                      exists a, In a b /\ mod_call_of a = Some f.
Proof.
  rewrite existsb_exists. split.
  - intros [a [Ha H]]. exists a. split; [exact Ha|]. destruct (mod_call_of a) as [g|] eqn:Eg; [|discriminate].
    apply Nat.eqb_eq in H. subst g. reflexivity.
  - intros [a [Ha H]]. exists a. split; [exact Ha|]. rewrite H. apply Nat.eqb_refl.
Qed.

Lemma code_ok_meth k x : In k cs -> In x (c_meths k) -> code_ok (m_body x).
Proof.
  intros Hk Hx a Ha. apply (in_ca_ok (Some (c_name k))).
  - unfold ca, ctx_acts. apply in_or_app. left. apply in_flat_map. exists (IClass k).
    split; [apply in_classes; exact Hk|]. apply in_flat_map. exists x. split; [exact Hx|].
    apply in_map_iff. exists a. auto.
  - intros f Hf. unfold fn_used. apply orb_true_iff. left. apply existsb_exists. exists (IClass k).
    split; [apply in_classes; exact Hk|]. apply existsb_exists. exists x. split; [exact Hx|].
    apply uses_spec. eauto.
Qed.
Lemma code_ok_fn f g : find_fn (m_items M) f = Some g -> fn_used M f = true -> code_ok (f_body g).
Proof.
  intros Hf Hu a Ha. pose proof (find_fn_in _ _ _ Hf) as Hin. apply (in_ca_ok None).
  - unfold ca, ctx_acts. apply in_or_app. left. apply in_flat_map. exists (IFunc g).
    split; [exact Hin|]. apply in_map_iff. exists a. auto.
  - intros f' Hf'. destruct (Nat.eqb (f_name g) f') eqn:E.
    + apply Nat.eqb_eq in E. subst f'.
      assert (f_name g = f); [|congruence].
      clear -Hf. induction (m_items M) as [|[k|g'] tl IH]; simpl in Hf; [discriminate|auto|].
      destruct (Nat.eqb (f_name g') f) eqn:E; [inversion Hf; subst; apply Nat.eqb_eq; exact E|auto].
    + unfold fn_used. apply orb_true_iff. left. apply existsb_exists. exists (IFunc g).
      split; [exact Hin|]. rewrite E. simpl. apply uses_spec. eauto.
Qed.
Lemma code_ok_main : code_ok (map AInit (m_vars M) ++ m_main M).
Proof.
  intros a Ha. apply in_app_or in Ha. destruct Ha as [Ha|Ha].
  - apply in_map_iff in Ha. destruct Ha as [c [<- Hc]]. split; [intros f H; discriminate|].
    split; [|split; [intros r m H; discriminate|reflexivity]].
    intros c' Hc'. simpl in Hc'. inversion Hc'; subst c'. unfold cls_used_in.
    apply orb_true_iff. left. apply orb_true_iff. right. apply nmem_In. exact Hc.
  - apply (in_ca_ok None).
    + unfold ca, ctx_acts. apply in_or_app. right. apply in_map_iff. exists a. auto.
    + intros f Hf. unfold fn_used. apply orb_true_iff. right. apply uses_spec. eauto.
Qed.

Definition IHdu (f : nat) : Prop :=
  forall s owner b tr, code_ok b -> self_live s -> run M' f s owner b tr = run M f s owner b tr.
Definition how_live (h : how) : Prop :=
  match h with ViaInst c | ViaCls c => cls_used_in ca cs vars c = true end.
Lemma bind_live h x n : how_live h -> self_live (fst (bind h x n)).
Proof. unfold bind. destruct h, (m_kind x); simpl; auto; destruct (Nat.eqb n 0); simpl; auto. Qed.

Lemma du_call_meth f h o x n read tr :
  IHdu f -> code_ok (m_body x) -> how_live h ->
  call_t (run M' f) (TMeth h o x) n read tr = call_t (run M f) (TMeth h o x) n read tr.
Proof.
  intros IH Hc Hh. unfold call_t. pose proof (bind_live h x n Hh) as Hl.
  destruct (bind h x n) as [sv fits]. simpl in Hl.
  assert (Hrun : forall tr0, run M' f sv (Some o) (m_body x) tr0 = run M f sv (Some o) (m_body x) tr0)
    by (intros; apply IH; auto).
  destruct (m_kind x), read, h, fits; try reflexivity; rewrite ?Hrun; reflexivity.
Qed.

Lemma du_via f h ks m n read tr :
  IHdu f -> how_live h -> (forall k, In k ks -> In k cs) -> attr_live m ->
  call_t (run M' f) (match lookup_in (map du_cls ks) m with Some (o, x) => TMeth h o x | None => TErr OAttrErr end) n read tr
  = call_t (run M f) (match lookup_in ks m with Some (o, x) => TMeth h o x | None => TErr OAttrErr end) n read tr.
Proof.
  intros IH Hh Hks Hm. rewrite du_lookup by auto. rewrite lookup_in_k.
  destruct (lookup_k ks m) as [[k x]|] eqn:El; cbn [option_map fst snd]; [|reflexivity].
  apply lookup_k_in in El. destruct El as [Hk Ha]. apply cls_attr_in in Ha. destruct Ha as [Hx _].
  apply du_call_meth; auto. eapply code_ok_meth; eauto.
Qed.

Lemma chain_cs c : cls_used_in ca cs vars c = true -> forall k, In k (chain (m_items M) CHAIN_FUEL c) -> In k cs.
Proof. intros Hc k Hk. eapply chain_used; eauto. Qed.

Lemma du_on_class f c (mk : name -> how) m n read tr :
  IHdu f -> cls_used_in ca cs vars c = true -> how_live (mk c) -> attr_live m ->
  call_t (run M' f)
    (match find_cls (m_items M') c with
     | None => TErr ONameErr
     | Some _ => match lookup_in (chain (m_items M') CHAIN_FUEL c) m with Some (o, x) => TMeth (mk c) o x | None => TErr OAttrErr end
     end) n read tr
  = call_t (run M f)
    (match find_cls (m_items M) c with
     | None => TErr ONameErr
     | Some _ => match lookup_in (chain (m_items M) CHAIN_FUEL c) m with Some (o, x) => TMeth (mk c) o x | None => TErr OAttrErr end
     end) n read tr.
Proof.
  intros IH Hc Hh Hm. rewrite du_find_cls.
  destruct (find_cls (m_items M) c) as [k0|] eqn:E; [|reflexivity].
  apply find_cls_in in E. destruct E as [_ E2]. rewrite kc_used by (rewrite E2; exact Hc).
  rewrite du_chain by exact Hc. apply du_via; auto. apply chain_cs. exact Hc.
Qed.

Lemma du_call_resolve f s owner a r m n read tr :
  IHdu f -> act_ok a -> self_live s -> (a = ACall r m n \/ a = ARead r m) ->
  call_t (run M' f) (resolve M' s owner r m) n read tr = call_t (run M f) (resolve M s owner r m) n read tr.
Proof.
  intros IH [Hf [Hcl [Hat _]]] Hs Ha.
  assert (Hattr : r <> RMod -> attr_live m).
  { intros Hr. apply (Hat r). destruct Ha as [->| ->]; destruct r; simpl; congruence. }
  assert (Hcls : forall c, recv_class r = Some c -> cls_used_in ca cs vars c = true).
  { intros c Hc. apply Hcl. destruct Ha as [->| ->]; simpl; exact Hc. }
  unfold resolve. change (m_stores M') with (m_stores M). change (m_vars M') with (m_vars M).
  destruct r as [|c|c|c|c| |].
  - rewrite du_find_fn.
    assert (Hu : fn_used M m = true) by (apply Hf; destruct Ha as [->| ->]; reflexivity).
    rewrite Hu. destruct (nmem m (m_stores M)); [reflexivity|].
    destruct (find_fn (m_items M) m) as [g|] eqn:Eg; [|reflexivity]. unfold call_t.
    destruct read; [reflexivity|]. destruct (Nat.eqb (f_params g) n); [|reflexivity].
    apply IH; [eapply code_ok_fn; eauto|exact Logic.I].
  - apply (du_on_class f c ViaCls); [exact IH|apply Hcls; reflexivity|simpl; apply Hcls; reflexivity|apply Hattr; discriminate].
  - apply (du_on_class f c ViaInst); [exact IH|apply Hcls; reflexivity|simpl; apply Hcls; reflexivity|apply Hattr; discriminate].
  - apply (du_on_class f c ViaInst); [exact IH|apply Hcls; reflexivity|simpl; apply Hcls; reflexivity|apply Hattr; discriminate].
  - destruct (nmem c (m_vars M)) eqn:Ev; [|reflexivity].
    assert (Hc : cls_used_in ca cs vars c = true).
    { unfold cls_used_in. apply orb_true_iff. left. apply orb_true_iff. right. exact Ev. }
    apply (du_on_class f c ViaInst); [exact IH|exact Hc|exact Hc|apply Hattr; discriminate].
  - destruct s as [|c|c| ]; try reflexivity; simpl in Hs.
    + rewrite du_chain by exact Hs. apply du_via; [exact IH|exact Hs|apply chain_cs; exact Hs|apply Hattr; discriminate].
    + rewrite du_chain by exact Hs. apply du_via; [exact IH|exact Hs|apply chain_cs; exact Hs|apply Hattr; discriminate].
  - destruct s as [|c|c| ]; destruct owner as [o|]; try reflexivity; simpl in Hs.
    + rewrite du_chain by exact Hs. rewrite du_after_owner. apply du_via; [exact IH|exact Hs| |apply Hattr; discriminate].
      intros k Hk. eapply chain_cs; [exact Hs|]. eapply after_owner_incl; eauto.
    + rewrite du_chain by exact Hs. rewrite du_after_owner. apply du_via; [exact IH|exact Hs| |apply Hattr; discriminate].
      intros k Hk. eapply chain_cs; [exact Hs|]. eapply after_owner_incl; eauto.
Qed.

Lemma du_recv_then f r tr K K' :
  IHdu f -> (forall c, creates r = Some c -> cls_used_in ca cs vars c = true) -> (forall tr1, K' tr1 = K tr1) ->
  recv_then_t M' (run M' f) r tr K' = recv_then_t M (run M f) r tr K.
Proof.
  intros IH Hc HK. unfold recv_then_t. destruct (creates r) as [c|]; [|apply HK].
  specialize (Hc c eq_refl). rewrite du_find_cls.
  destruct (find_cls (m_items M) c) as [k0|] eqn:E; [|reflexivity].
  apply find_cls_in in E. destruct E as [_ E2]. rewrite kc_used by (rewrite E2; exact Hc).
  rewrite du_chain by exact Hc.
  rewrite du_lookup; [|apply chain_cs; exact Hc|right; split; [reflexivity|]].
  2:{ intros k Hk. apply used_named. eapply chain_used; eauto. }
  rewrite lookup_in_k.
  destruct (lookup_k (chain (m_items M) CHAIN_FUEL c) INIT) as [[k x]|] eqn:El; cbn [option_map fst snd]; [|apply HK].
  apply lookup_k_in in El. destruct El as [Hk Hx]. apply cls_attr_in in Hx. destruct Hx as [Hx _].
  pose proof (bind_live (ViaInst c) x 0 Hc) as Hl.
  destruct (bind (ViaInst c) x 0) as [sv fits]. simpl in Hl. destruct fits; [|reflexivity].
  assert (Hrun : forall tr0, run M' f sv (Some (c_name k)) (m_body x) tr0 = run M f sv (Some (c_name k)) (m_body x) tr0).
  { intros. apply IH; auto. eapply code_ok_meth; [eapply chain_cs; eauto|exact Hx]. }
  rewrite Hrun. destruct (m_kind x); try reflexivity;
    destruct (run M f sv (Some (c_name k)) (m_body x) tr) as [tr1 []]; simpl; auto.
Qed.

Lemma du_sim : forall f, IHdu f.
Proof.
  induction f as [|f IH]; intros s owner b tr Hcode Hs; [reflexivity|].
  destruct b as [|a rest]; [reflexivity|]. rewrite !run_S.
  assert (Hrest : forall tr1, run M' f s owner rest tr1 = run M f s owner rest tr1).
  { intros tr1. apply IH; auto. intros a' Ha'. apply Hcode. right. exact Ha'. }
  pose proof (Hcode a (or_introl eq_refl)) as Hok.
  assert (Hact : act_res M' (run M' f) s owner a tr = act_res M (run M f) s owner a tr).
  { destruct a as [k| |r m n|r m|r m n|c]; unfold act_res; try reflexivity.
    - apply du_recv_then; [exact IH| |].
      + intros c Hc. destruct Hok as [_ [Hcl _]]. apply Hcl. simpl. destruct r; simpl in *; congruence.
      + intros tr1. eapply du_call_resolve; eauto.
    - apply du_recv_then; [exact IH| |].
      + intros c Hc. destruct Hok as [_ [Hcl _]]. apply Hcl. simpl. destruct r; simpl in *; congruence.
      + intros tr1. eapply du_call_resolve; eauto.
    - destruct Hok as [_ [_ [_ Hd]]]. discriminate.
    - apply du_recv_then; [exact IH| |reflexivity].
      intros c' Hc'. destruct Hok as [_ [Hcl _]]. apply Hcl. simpl in *. congruence. }
  rewrite Hact. destruct (act_res M (run M f) s owner a tr) as [tr1 []]; simpl; auto.
Qed.
End DU.

(* T02k_delete_unused_pass_sound *)
Theorem delete_unused_pass_sound M :
  no_dyn M = true -> uniq_cls M = true ->
  forall fuel, run_module fuel (du_pass M) = run_module fuel M.
Proof.
  intros Hnd Hu fuel. unfold run_module.
  change (m_vars (du_pass M)) with (m_vars M). change (m_main (du_pass M)) with (m_main M).
  apply (du_sim M Hnd Hu); [apply code_ok_main; assumption|exact Logic.I].
Qed.

Lemma nodup_filter_names {A} (nm : A -> name) (P : A -> bool) l :
  nodup_names (map nm l) = true -> nodup_names (map nm (filter P l)) = true.
Proof.
  induction l as [|x tl IH]; simpl; [auto|]. intros H. apply andb_true_iff in H. destruct H as [H1 H2].
  destruct (P x); simpl; [|auto]. rewrite (IH H2), andb_true_r. apply negb_true_iff. apply negb_true_iff in H1.
  destruct (nmem (nm x) (map nm (filter P tl))) eqn:E; [|reflexivity].
  apply nmem_In in E. apply in_map_iff in E. destruct E as [y [Ey Hy]]. apply filter_In in Hy.
  assert (nmem (nm x) (map nm tl) = true); [|congruence]. apply nmem_In. apply in_map_iff. exists y. tauto.
Qed.

Lemma classes_du M :
  classes (du_pass M) = map (du_cls M) (filter (kc M) (classes M)).
Proof.
  unfold classes, du_pass. cbn [m_items].
  induction (m_items M) as [|[k|g] tl IH]; simpl; [reflexivity| |].
  - fold (kc M k). destruct (kc M k); simpl; [f_equal|]; exact IH.
  - destruct (fn_used M (f_name g)); simpl; exact IH.
Qed.
Lemma uniq_cls_du M : uniq_cls M = true -> uniq_cls (du_pass M) = true.
Proof.
  unfold uniq_cls. rewrite classes_du, map_map. cbn [du_cls c_name]. apply nodup_filter_names.
Qed.
Lemma ctx_acts_du M ctx a : In (ctx, a) (ctx_acts (du_pass M)) -> In (ctx, a) (ctx_acts M).
Proof.
  unfold ctx_acts, du_pass. cbn [m_items m_main]. intros H. apply in_app_or in H. apply in_or_app.
  destruct H as [H|H]; [left|right; exact H].
  apply in_flat_map in H. destruct H as [it [Hit Hin]]. apply in_flat_map in Hit. destruct Hit as [it0 [Hit0 Hsel]].
  apply in_flat_map. exists it0. split; [exact Hit0|]. destruct it0 as [k|g].
  - destruct (cls_used_in _ _ _ _ || _); [|contradiction]. destruct Hsel as [<-|[]].
    cbn [c_meths c_name] in Hin. apply in_flat_map in Hin. destruct Hin as [x [Hx Hin]].
    apply filter_In in Hx. apply in_flat_map. exists x. tauto.
  - destruct (fn_used M (f_name g)); [|contradiction]. destruct Hsel as [<-|[]]. exact Hin.
Qed.
Lemma no_dyn_du M : no_dyn M = true -> no_dyn (du_pass M) = true.
Proof.
  unfold no_dyn. rewrite !forallb_forall. intros H [ctx a] Hin. apply H. apply ctx_acts_du. exact Hin.
Qed.

(* T02k_delete_unused_sound: the model of the rule (five passes) *)
Theorem delete_unused_sound M :
  no_dyn M = true -> uniq_cls M = true ->
  forall fuel, run_module fuel (du_model M) = run_module fuel M.
Proof.
  unfold du_model. generalize 5 as n. intros n. revert M.
  induction n as [|n IH]; intros M Hnd Hu fuel; simpl; [reflexivity|].
  rewrite IH; [apply delete_unused_pass_sound; assumption|apply no_dyn_du; exact Hnd|apply uniq_cls_du; exact Hu].
Qed.

(* a method that is only reached through getattr(obj, "name") is deleted (known finding F02-28) *)
Theorem delete_unused_dynamic_refuted :
  exists M, uniq_cls M = true /\ no_dyn M = false /\ run_module 9 (du_model M) <> run_module 9 M
            /\ snd (run_module 9 M) = OOk.
Proof.
  exists (mkMod [IClass (mkCls 1 None [mkMeth 1 KPlain 1 [AEv 1]; mkMeth 2 KPlain 1 [AEv 2]] [])] [] []
                [ACall (RNew 1) 2 0; ADyn (RNew 1) 1 0]).
  repeat split; try reflexivity. vm_compute. discriminate.
Qed.

(* ============================================================================================== *)
(* Part O : move_staticmethod_static_scope -- the target of a redirected access                    *)
(* ============================================================================================== *)
Definition uniq_meths (M : module) : bool := forallb (fun k => nodup_names (map m_name (c_meths k))) (classes M).

Lemma ms_new_name_facts M k x n :
  ms_new_name M k x = Some n ->
  m_kind x = KStatic /\ nmem n (static_names M) = false /\
  (n = moved_name (m_name x) \/ n = moved_name_c (c_name k) (m_name x)).
Proof.
  unfold ms_new_name, ms_new_name_in.
  destruct (nmem (m_name x) (attrs_to_preserve M)); [discriminate|].
  destruct (nmem (m_name x) (map snd (c_alias k))); [discriminate|].
  destruct (is_magic (m_name x)); [discriminate|].
  destruct (m_kind x); try discriminate.
  destruct (overridden_in (cfn M) M (c_name k) (m_name x)); [discriminate|].
  destruct (is_mangled (m_name x)); [discriminate|].
  destruct (nmem (moved_name (m_name x)) (static_names M)) eqn:E1; simpl.
  - destruct (nmem (moved_name_c (c_name k) (m_name x)) (static_names M)) eqn:E2; simpl; [discriminate|].
    intros H; inversion H; subst. auto.
  - intros H; inversion H; subst. auto.
Qed.

Lemma plan_in M k x n :
  In k (classes M) -> c_base k = None -> In x (c_meths k) -> ms_new_name M k x = Some n ->
  In ((c_name k, m_name x), n) (ms_plan M).
Proof.
  intros Hk Hb Hx Hn. unfold ms_plan. apply in_flat_map. exists k. split; [exact Hk|]. rewrite Hb.
  apply in_flat_map. exists x. split; [exact Hx|]. fold (ms_new_name M k x). rewrite Hn. left; reflexivity.
Qed.
Lemma plan_inv M c m n :
  In ((c, m), n) (ms_plan M) ->
  exists k x, In k (classes M) /\ c_base k = None /\ In x (c_meths k) /\ c_name k = c /\ m_name x = m
              /\ ms_new_name M k x = Some n.
Proof.
  unfold ms_plan. intros H. apply in_flat_map in H. destruct H as [k [Hk H]].
  destruct (c_base k) eqn:Eb; [contradiction|]. apply in_flat_map in H. destruct H as [x [Hx H]].
  fold (ms_new_name M k x) in H. destruct (ms_new_name M k x) as [n'|] eqn:En; [|contradiction].
  destruct H as [H|[]]. inversion H; subst. exists k, x. auto 10.
Qed.

(* with distinct new names, an entry of the plan is found by its key *)
Lemma plan_find_in pl c m n :
  nodup_names (map snd pl) = true ->
  (forall n', In ((c, m), n') pl -> n' = n) ->
  In ((c, m), n) pl -> plan_find pl c m = Some n.
Proof.
  induction pl as [|[[c' m'] n'] tl IH]; simpl; intros Hn Hu Hin; [contradiction|].
  apply andb_true_iff in Hn. destruct Hn as [Hn1 Hn2].
  destruct (Nat.eqb c c' && Nat.eqb m m') eqn:E.
  - apply andb_true_iff in E. destruct E as [E1 E2]. apply Nat.eqb_eq in E1. apply Nat.eqb_eq in E2. subst.
    f_equal. apply Hu. left. reflexivity.
  - destruct Hin as [Hin|Hin].
    + inversion Hin; subst. rewrite !Nat.eqb_refl in E. discriminate.
    + apply IH; auto.
Qed.

Lemma plan_find_some pl c m n : plan_find pl c m = Some n -> In ((c, m), n) pl.
Proof.
  induction pl as [|[[c' m'] n'] tl IH]; simpl; [discriminate|].
  destruct (Nat.eqb c c' && Nat.eqb m m') eqn:E.
  - apply andb_true_iff in E. destruct E as [E1 E2]. apply Nat.eqb_eq in E1. apply Nat.eqb_eq in E2.
    intros H; inversion H; subst. left; reflexivity.
  - intros H. right. auto.
Qed.
Lemma nodup_snd_inj {A} (pl : list (A * name)) k1 k2 n :
  nodup_names (map snd pl) = true -> In (k1, n) pl -> In (k2, n) pl -> k1 = k2.
Proof.
  induction pl as [|[k0 n0] tl IH]; simpl; [contradiction|]. intros Hn H1 H2.
  apply andb_true_iff in Hn. destruct Hn as [Hn1 Hn2]. apply negb_true_iff in Hn1.
  assert (Hno : forall k', In (k', n0) tl -> False).
  { intros k' Hk'. assert (nmem n0 (map snd tl) = true); [|congruence].
    apply nmem_In. apply in_map_iff. exists (k', n0). auto. }
  destruct H1 as [H1|H1], H2 as [H2|H2].
  - congruence.
  - inversion H1; subst. exfalso. eapply Hno; eauto.
  - inversion H2; subst. exfalso. eapply Hno; eauto.
  - eapply IH; eauto.
Qed.
Lemma nodup_names_inj {A} (nm : A -> name) (l : list A) x y :
  nodup_names (map nm l) = true -> In x l -> In y l -> nm x = nm y -> x = y.
Proof.
  induction l as [|z tl IH]; simpl; [contradiction|].
  intros H Hx Hy E. apply andb_true_iff in H. destruct H as [H1 H2]. apply negb_true_iff in H1.
  assert (Hn : forall w, In w tl -> nm w <> nm z).
  { intros w Hw Ew. assert (nmem (nm z) (map nm tl) = true); [|congruence].
    apply nmem_In. apply in_map_iff. exists w. auto. }
  destruct Hx as [->|Hx], Hy as [->|Hy]; auto.
  - exfalso. apply (Hn y Hy). auto.
  - exfalso. apply (Hn x Hx). auto.
Qed.

Lemma find_fn_app l1 l2 f :
  find_fn (l1 ++ l2) f = match find_fn l1 f with Some g => Some g | None => find_fn l2 f end.
Proof.
  induction l1 as [|[k|g] tl IH]; simpl; auto. destruct (Nat.eqb (f_name g) f); auto.
Qed.

Definition moved_fn (pl : list ((name * name) * name)) (k : cls) (x : meth) (n : name) : func :=
  mkFunc n (m_params x) (map (ms_act pl (Some (c_name k))) (m_body x)).
Definition emit_fns (pl : list ((name * name) * name)) (k : cls) (ms : list meth) : list item :=
  flat_map (fun x => match plan_find pl (c_name k) (m_name x) with
                     | Some n => [IFunc (moved_fn pl k x n)]
                     | None => [] end) ms.

Lemma emit_none pl k ms n :
  (forall y, In y ms -> plan_find pl (c_name k) (m_name y) <> Some n) -> find_fn (emit_fns pl k ms) n = None.
Proof.
  induction ms as [|y tl IH]; simpl; intros H; [reflexivity|].
  destruct (plan_find pl (c_name k) (m_name y)) as [n'|] eqn:E; simpl.
  - destruct (Nat.eqb n' n) eqn:En.
    + apply Nat.eqb_eq in En. subst. exfalso. apply (H y); auto.
    + apply IH. intros; apply H; auto.
  - apply IH. intros; apply H; auto.
Qed.
Lemma emit_found pl k ms x n :
  In x ms -> plan_find pl (c_name k) (m_name x) = Some n ->
  (forall y, In y ms -> plan_find pl (c_name k) (m_name y) = Some n -> y = x) ->
  find_fn (emit_fns pl k ms) n = Some (moved_fn pl k x n).
Proof.
  induction ms as [|y tl IH]; simpl; intros Hx Hp Hu; [contradiction|].
  destruct (plan_find pl (c_name k) (m_name y)) as [n'|] eqn:E; simpl.
  - destruct (Nat.eqb n' n) eqn:En.
    + apply Nat.eqb_eq in En. subst n'. rewrite (Hu y (or_introl eq_refl) E). reflexivity.
    + destruct Hx as [->|Hx]; [rewrite Hp in E; inversion E; subst; rewrite Nat.eqb_refl in En; discriminate|].
      apply IH; auto.
  - destruct Hx as [->|Hx]; [congruence|]. apply IH; auto.
Qed.

Definition ms_cls_of (pl : list ((name * name) * name)) (k : cls) : cls :=
  mkCls (c_name k) (c_base k)
        (flat_map (fun x => match plan_find pl (c_name k) (m_name x) with
                            | Some _ => []
                            | None => [mkMeth (m_name x) (m_kind x) (m_params x)
                                              (map (ms_act pl (Some (c_name k))) (m_body x))] end) (c_meths k))
        (c_alias k).
Lemma ms_items_cls pl k0 tl :
  ms_items pl (IClass k0 :: tl) = emit_fns pl k0 (c_meths k0) ++ IClass (ms_cls_of pl k0) :: ms_items pl tl.
Proof. unfold ms_items at 1. cbn [flat_map]. rewrite <- app_assoc. reflexivity. Qed.
Lemma ms_items_fn pl g tl :
  ms_items pl (IFunc g :: tl) = IFunc (mkFunc (f_name g) (f_params g) (map (ms_act pl None) (f_body g))) :: ms_items pl tl.
Proof. reflexivity. Qed.

Lemma ms_items_find pl its k x n :
  In (IClass k) its -> In x (c_meths k) -> plan_find pl (c_name k) (m_name x) = Some n ->
  (forall g, In (IFunc g) its -> f_name g <> n) ->
  (forall k0 y, In (IClass k0) its -> In y (c_meths k0) -> plan_find pl (c_name k0) (m_name y) = Some n ->
                k0 = k /\ y = x) ->
  find_fn (ms_items pl its) n = Some (moved_fn pl k x n).
Proof.
  induction its as [|[k0|g] tl IH]; intros Hk Hx Hp Hf Hu; [contradiction| |].
  - rewrite ms_items_cls, find_fn_app.
    destruct (existsb (fun y => match plan_find pl (c_name k0) (m_name y) with
                                | Some n' => Nat.eqb n' n | None => false end) (c_meths k0)) eqn:Ex.
    + apply existsb_exists in Ex. destruct Ex as [y [Hy Ey]].
      destruct (plan_find pl (c_name k0) (m_name y)) as [n'|] eqn:Epy; [|discriminate].
      apply Nat.eqb_eq in Ey. subst n'.
      destruct (Hu k0 y (or_introl eq_refl) Hy Epy) as [-> ->].
      rewrite (emit_found pl k (c_meths k) x n Hx Hp); [reflexivity|].
      intros y' Hy' Hp'. apply (Hu k y'); simpl; auto.
    + rewrite emit_none.
      * cbn [find_fn]. destruct Hk as [Hk|Hk].
        -- inversion Hk; subst k0. exfalso.
           assert (existsb (fun y => match plan_find pl (c_name k) (m_name y) with
                                     | Some n' => Nat.eqb n' n | None => false end) (c_meths k) = true); [|congruence].
           apply existsb_exists. exists x. split; [exact Hx|]. rewrite Hp. apply Nat.eqb_refl.
        -- apply IH; auto; [intros g Hg; apply Hf; right; exact Hg|].
           intros k1 y H1 H2 H3. apply (Hu k1 y); simpl; auto.
      * intros y Hy Hpy. assert (existsb (fun y => match plan_find pl (c_name k0) (m_name y) with
                                     | Some n' => Nat.eqb n' n | None => false end) (c_meths k0) = true); [|congruence].
        apply existsb_exists. exists y. split; [exact Hy|]. rewrite Hpy. apply Nat.eqb_refl.
  - rewrite ms_items_fn. cbn [find_fn f_name]. destruct Hk as [Hk|Hk]; [discriminate|].
    assert (Nat.eqb (f_name g) n = false) as ->.
    { apply Nat.eqb_neq. apply Hf. left; reflexivity. }
    apply IH; auto; [intros g' Hg; apply Hf; right; exact Hg|].
    intros k1 y H1 H2 H3. apply (Hu k1 y); simpl; auto.
Qed.

(* cca2e92: what a pass moves (ms_moved) is a part of the plan, chosen by processing's transaction scheduler *)
Lemma plan_find_in' pl c m n :
  (forall n', In ((c, m), n') pl -> n' = n) ->
  In ((c, m), n) pl -> plan_find pl c m = Some n.
Proof.
  induction pl as [|[[c' m'] n'] tl IH]; simpl; intros Hu Hin; [contradiction|].
  destruct (Nat.eqb c c' && Nat.eqb m m') eqn:E.
  - apply andb_true_iff in E. destruct E as [E1 E2]. apply Nat.eqb_eq in E1. apply Nat.eqb_eq in E2. subst.
    f_equal. apply Hu. left. reflexivity.
  - destruct Hin as [Hin|Hin].
    + inversion Hin; subst. rewrite !Nat.eqb_refl in E. discriminate.
    + apply IH; auto.
Qed.
Lemma sched_go_incl cands : forall sch c, In c (sched_go cands sch) -> In c sch \/ In c cands.
Proof.
  induction cands as [|c0 tl IH]; simpl; intros sch c H; [left; exact H|].
  apply IH in H. destruct H as [H|H]; [|right; right; exact H].
  destruct (conflicts c0 sch); [left; exact H|].
  apply in_app_or in H. destruct H as [H|[H|[]]]; [left; exact H | right; left; exact H].
Qed.
Lemma ms_cands_plan M pl key n B : In (key, n, B) (ms_cands M pl) -> In (key, n) pl.
Proof.
  unfold ms_cands. intros H. apply in_flat_map in H. destruct H as [k [_ H]].
  apply in_flat_map in H. destruct H as [x [_ H]].
  destruct (plan_find pl (c_name k) (m_name x)) as [n'|] eqn:E; [|contradiction].
  destruct H as [H|[]]. inversion H; subst. apply plan_find_some. exact E.
Qed.
Lemma ms_sched_incl M pl e : In e (ms_sched M pl) -> In e pl.
Proof.
  unfold ms_sched. intros H. apply in_map_iff in H. destruct H as [[[key n] B] [E H]]. subst e.
  apply sched_go_incl in H. destruct H as [[]|H]. eapply ms_cands_plan; eauto.
Qed.
(* methods whose bodies access no other planned method never conflict: the whole plan is scheduled *)
Lemma sched_go_free cands : forall sch,
  (forall c, In c cands -> snd c = []) -> (forall c, In c sch -> snd c = []) -> sched_go cands sch = sch ++ cands.
Proof.
  induction cands as [|c0 tl IH]; simpl; intros sch Hc Hs; [rewrite app_nil_r; reflexivity|].
  assert (E : conflicts c0 sch = false).
  { destruct c0 as [[key n] B]. pose proof (Hc _ (or_introl eq_refl)) as HB. simpl in HB. subst B.
    unfold conflicts. apply not_true_is_false. intros H. apply existsb_exists in H.
    destruct H as [[[key' n'] B'] [Hin H]]. pose proof (Hs _ Hin) as HB'. simpl in HB'. subst B'.
    unfold pair_mem in H. simpl in H. discriminate. }
  rewrite E, IH.
  - rewrite <- app_assoc. reflexivity.
  - intros c Hin. apply Hc. right. exact Hin.
  - intros c Hin. apply in_app_or in Hin. destruct Hin as [Hin|[Hin|[]]]; [apply Hs; exact Hin | subst c; apply Hc; left; reflexivity].
Qed.

(* T02k_move_static_redirect: a static method x of class k that a pass of the rule moves (new name n: an entry of
   ms_moved, the scheduled part of the plan) becomes a module-level function n with the parameters and the (redirected)
   body of x; n is bound by nothing else (no other function, no stored name), so every redirected access `C.m(args)` /
   `C().m(args)` / `self.m(args)` -> `n(args)` reaches that body with the same arity test and no first argument, as the
   static method did. *)
Theorem move_static_redirect M k x n :
  uniq_cls M = true -> uniq_meths M = true -> nodup_names (map snd (ms_plan M)) = true ->
  In k (classes M) -> c_base k = None -> In x (c_meths k) -> ms_new_name M k x = Some n ->
  In ((c_name k, m_name x), n) (ms_moved M) ->
  m_kind x = KStatic /\
  resolve (ms_pass M) SNone None RMod n = TFn (moved_fn (ms_moved M) k x n) /\
  f_params (moved_fn (ms_moved M) k x n) = m_params x /\
  f_body (moved_fn (ms_moved M) k x n) = map (ms_act (ms_moved M) (Some (c_name k))) (m_body x).
Proof.
  intros Hu Hm Hnd Hk Hb Hx Hn Hmv.
  destruct (ms_new_name_facts M k x n Hn) as [Hkind [Hfresh _]].
  split; [exact Hkind|]. split; [|split; reflexivity].
  assert (Hkey : forall c m n1 n2, In ((c, m), n1) (ms_plan M) -> In ((c, m), n2) (ms_plan M) -> n1 = n2).
  { intros c m n1 n2 H1 H2.
    destruct (plan_inv M c m n1 H1) as [k1 [x1 [Hk1 [_ [Hx1 [Ec1 [Em1 Hn1]]]]]]].
    destruct (plan_inv M c m n2 H2) as [k2 [x2 [Hk2 [_ [Hx2 [Ec2 [Em2 Hn2]]]]]]].
    assert (k1 = k2) by (eapply (nodup_names_inj c_name); eauto; congruence). subst k2.
    assert (x1 = x2).
    { eapply (nodup_names_inj m_name); eauto; [|congruence]. unfold uniq_meths in Hm.
      rewrite forallb_forall in Hm. apply Hm. exact Hk1. }
    subst x2. congruence. }
  pose proof (plan_in M k x n Hk Hb Hx Hn) as Hin.
  assert (Hpf : plan_find (ms_moved M) (c_name k) (m_name x) = Some n).
  { apply plan_find_in'; auto. intros n' Hn'. eapply Hkey; [|exact Hin]. apply (ms_sched_incl M). exact Hn'. }
  unfold resolve, ms_pass. rewrite Hnd. cbn [m_stores m_items]. fold (ms_moved M).
  assert (Hsplit : nmem n (map f_name (funcs M)) = false /\ nmem n (m_stores M) = false).
  { unfold static_names, nmem in Hfresh. rewrite existsb_app in Hfresh. apply orb_false_iff in Hfresh. exact Hfresh. }
  destruct Hsplit as [Hf1 Hf2]. rewrite Hf2.
  rewrite (ms_items_find (ms_moved M) (m_items M) k x n); auto.
  - apply in_classes. exact Hk.
  - intros g Hg En. assert (nmem n (map f_name (funcs M)) = true); [|congruence].
    apply nmem_In. apply in_map_iff. exists g. split; [exact En|]. unfold funcs. apply in_flat_map.
    exists (IFunc g). split; [exact Hg|left; reflexivity].
  - intros k0 y Hk0 Hy Hp0. apply plan_find_some in Hp0. apply (ms_sched_incl M) in Hp0. apply in_classes in Hk0.
    assert (Ekey : (c_name k0, m_name y) = (c_name k, m_name x)) by (eapply nodup_snd_inj; eauto).
    inversion Ekey as [[E1 E2]].
    assert (k0 = k) by (eapply (nodup_names_inj c_name); eauto). subst k0. split; [reflexivity|].
    eapply (nodup_names_inj m_name); eauto. unfold uniq_meths in Hm. rewrite forallb_forall in Hm. apply Hm. exact Hk.
Qed.

Lemma ms_moved_planned M e : In e (ms_moved M) -> In e (ms_plan M).
Proof. exact (ms_sched_incl M (ms_plan M) e). Qed.

(* two static methods, the first reads the second through `self` (an unbound name in a static method): both are
   planned; the transaction of the second overlaps the removal of the first and is discarded; afterwards `self.m2`
   is no recognised access any more, so m2 stays for good.  Before cca2e92 every access was redirected. *)
Example move_static_schedule :
  let M := mkMod [IClass (mkCls 1 None [mkMeth 3 KStatic 1 [ACall RSelf 1 0]; mkMeth 1 KStatic 0 [AEv 3]] [])] [] []
                 [ACall (RCls 1) 1 0] in
  map fst (ms_plan M) = [(1, 3); (1, 1)]%nat /\ map fst (ms_moved M) = [(1, 3)]%nat
  /\ ms_model M = ms_pass M /\ ms_pass_old M <> ms_pass M.
Proof. repeat split; try reflexivity. vm_compute. discriminate. Qed.

Lemma find_meth_nodup l y :
  nodup_names (map m_name l) = true -> In y l -> find_meth l (m_name y) = Some y.
Proof.
  induction l as [|z tl IH]; simpl; [contradiction|].
  intros Hn [->|Hy]; [rewrite Nat.eqb_refl; reflexivity|].
  apply andb_true_iff in Hn. destruct Hn as [Hn1 Hn2].
  destruct (Nat.eqb (m_name z) (m_name y)) eqn:E; [|apply IH; auto].
  apply Nat.eqb_eq in E. apply negb_true_iff in Hn1.
  assert (nmem (m_name z) (map m_name tl) = true); [|congruence].
  apply nmem_In. apply in_map_iff. exists y. split; [congruence|exact Hy].
Qed.

(* the access that is redirected meant this method: C.m on a class without bases, whose method names
   are distinct and which no alias hides *)
Theorem move_static_original M k x n nargs :
  uniq_cls M = true -> uniq_meths M = true -> wf_mod M = true ->
  In k (classes M) -> c_base k = None -> In x (c_meths k) -> ms_new_name M k x = Some n ->
  resolve M SNone None (RCls (c_name k)) (m_name x) = TMeth (ViaCls (c_name k)) (c_name k) x /\
  bind (ViaCls (c_name k)) x nargs = (SNone, Nat.eqb (m_params x) nargs).
Proof.
  intros Hu Hm Hwf Hk Hb Hx Hn.
  destruct (ms_new_name_facts M k x n Hn) as [Hkind _].
  split; [|unfold bind; rewrite Hkind; reflexivity].
  unfold resolve. apply in_classes in Hk.
  rewrite (find_cls_uniq (m_items M) (c_name k) k); auto. unfold CHAIN_FUEL. simpl.
  rewrite (find_cls_uniq (m_items M) (c_name k) k); auto. rewrite Hb. simpl.
  assert (Ha : cls_attr k (m_name x) = Some x).
  { unfold cls_attr. apply in_classes in Hk.
    rewrite (not_alias M Hwf k (m_name x) Hk).
    - apply find_meth_nodup; auto. unfold uniq_meths in Hm. rewrite forallb_forall in Hm. apply Hm. exact Hk.
    - apply nmem_In. unfold all_meth_names. apply in_flat_map. exists k. split; [exact Hk|].
      apply in_map_iff. exists x. auto. }
  rewrite Ha. reflexivity.
Qed.
