(* K12c -- theorems about FrameModel.v *)
From Coq Require Import List NArith Arith Bool Lia.
Import ListNotations.
Require Import Pyrefact.LayoutModel Pyrefact.FrameModel.

Lemma level_opt_le : forall ls l m, In l ls -> blankl l = false -> level_opt ls = Some m -> m <= lead l.
Proof.
  induction ls as [| x tl IH]; intros l m Hin Hb H; [contradiction |].
  cbn [level_opt] in H. destruct Hin as [-> | Hin].
  - rewrite Hb in H. destruct (level_opt tl); inversion H; lia.
  - destruct (blankl x).
    + eapply IH; eassumption.
    + destruct (level_opt tl) as [m' |] eqn:E.
      * inversion H. specialize (IH l m' Hin Hb eq_refl). lia.
      * exfalso. clear H. revert Hin Hb E. clear. induction tl as [| y tl IH]; intros Hin Hb E; [contradiction |].
        cbn [level_opt] in E. destruct Hin as [-> | Hin].
        -- rewrite Hb in E. destruct (level_opt tl); discriminate.
        -- destruct (blankl y); [apply IH; assumption |]. destruct (level_opt tl); discriminate.
Qed.

Lemma level_le : forall ls l, In l ls -> blankl l = false -> level ls <= lead l.
Proof.
  intros ls l Hin Hb. unfold level. destruct (level_opt ls) as [m |] eqn:E; [| lia].
  eapply level_opt_le; eassumption.
Qed.

(* removing m <= lead l leading spaces and putting m spaces back gives the line *)
Lemma undo_skip : forall l m, m <= lead l -> repeat SP m ++ skipn m l = l.
Proof.
  induction l as [| c l IH]; intros m H; cbn [lead] in H.
  - assert (m = 0) by lia. subst. reflexivity.
  - destruct m as [| m]; [reflexivity |].
    destruct (N.eqb c SP) eqn:E; [| lia]. apply N.eqb_eq in E. subst c.
    cbn [repeat skipn app]. rewrite IH by lia. reflexivity.
Qed.

Lemma blankl_skip : forall l m, m <= lead l -> blankl (skipn m l) = blankl l.
Proof.
  induction l as [| c l IH]; intros m H; cbn [lead] in H.
  - destruct m; reflexivity.
  - destruct m as [| m]; [reflexivity |].
    destruct (N.eqb c SP) eqn:E; [| lia]. apply N.eqb_eq in E. subst c.
    cbn [skipn]. rewrite IH by lia. reflexivity.
Qed.

(* T11.9: with the indent taken as the MINIMUM over the lines, dedent followed by re-indent gives every
   non-blank line back unchanged (whitespace-only lines lose their blanks) -- in particular the lines that
   lie inside multi-line literals, whatever their indentation *)
Theorem frame_level_identity : forall ls n,
  n = level ls -> normal (frame n ls) = normal ls.
Proof.
  intros ls n ->. unfold frame. destruct (0 <? level ls); [| reflexivity].
  unfold normal, indent_by, dedent. rewrite !map_map. apply map_ext_in. intros l Hin.
  destruct (blankl l) eqn:Hb; [reflexivity |].
  pose proof (level_le ls l Hin Hb) as Hle.
  rewrite (blankl_skip l _ Hle), Hb, (undo_skip l _ Hle), Hb. reflexivity.
Qed.

Theorem fix_frame_identity : forall ls, normal (fix_frame ls) = normal ls.
Proof. intros. apply frame_level_identity. reflexivity. Qed.

Corollary fix_frame_line : forall ls i l,
  nth_error ls i = Some l -> blankl l = false -> nth_error (fix_frame ls) i = Some l.
Proof.
  intros ls i l H Hb. unfold fix_frame, frame. destruct (0 <? level ls); [| exact H].
  unfold indent_by, dedent. rewrite map_map, nth_error_map, H. cbn [option_map].
  pose proof (level_le ls l (nth_error_In _ _ H) Hb) as Hle.
  rewrite Hb, (blankl_skip l _ Hle), Hb, (undo_skip l _ Hle). reflexivity.
Qed.

(* R11.10: refuted when the indent is read from the FIRST line of the range only:
   [ S = q] / [x] / [q]  (a statement after `;`, flush-left text inside its literal) *)
Definition w_frame : list cline := [[32; 83; 32; 61; 32; 113]; [120]; [113]]%N.
Theorem frame_first_line_refuted : exists ls,
  normal (frame (lead (hd [] ls)) ls) <> normal ls.
Proof. exists w_frame. vm_compute. discriminate. Qed.
