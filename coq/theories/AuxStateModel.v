(* K8b -- state NEXT TO the parse cache that is keyed by object identity (round 5, seed C05-d).

   pyrefact/core.py keeps, besides the lru_cache on core.parse, a module-level registry
       _REBOUND_NAMES = weakref.WeakSet()          core.py:385
   filled by core.parse (_mark_rebound_names: the Name nodes of the new tree that refer to something the
   file binds itself) and read by literal_value / is_made_of_literals (core.py:1145, 1234):
   `len('abc')` is folded only if its `len` node is NOT in the registry.
   CacheModel.v has the caches as its only state; this file adds the component "auxiliary set keyed by
   the identity of cached objects", in the two designs that differ in what happens at eviction:
     weak = true   WeakSet of nodes: an entry dies with its tree, i.e. when the lru_cache evicts the tree
                   (nothing else holds it) the addresses of that tree leave the set          [the code]
     weak = false  a plain set of id(node): entries outlive the tree; CPython hands the freed address to
                   a node of a later parse                                       [refuted design, C05-d]

   A tree is abstracted to ONE node (the callee Name of the builtin call) living at an address; [binds s]
   says whether source s binds the name it reads (then the node is registered at parse time).  Addresses
   come from an allocator that sees the live addresses (the nodes of the resident trees); the only thing
   assumed about it in the proofs is that it never returns a live address; [alloc_least] (lowest free
   address first = a free list) is the instance used for the refutation.
   functools.lru_cache computes the new value while the old entries are still alive and evicts afterwards:
   so does [parse].  No proofs in this file. *)
From Coq Require Import List Arith Bool.
Import ListNotations.
Require Import Pyrefact.CacheModel.

Section Aux.
Variable binds : nat -> bool.          (* source s binds the builtin-spelled name it calls *)
Variable alloc : list nat -> nat.      (* live addresses -> address of the next object *)
Variable cap : nat.                    (* maxsize of the lru_cache on core.parse *)
Variable weak : bool.                  (* WeakSet (true) or set of id() (false) *)

Record astate := mkA { acache : list (nat * nat);      (* (source, address of its node), most recent first *)
                       aaux : list nat }.              (* the registry: addresses of rebound nodes *)

Fixpoint alookup (s : nat) (c : list (nat * nat)) : option nat :=
  match c with
  | [] => None
  | (k, a) :: tl => if Nat.eqb k s then Some a else alookup s tl
  end.

Definition aremove (s : nat) (c : list (nat * nat)) : list (nat * nat) :=
  filter (fun e => negb (Nat.eqb (fst e) s)) c.

Definition memb (a : nat) (l : list nat) : bool := existsb (Nat.eqb a) l.

(* core.parse(source): the address of the node the caller is handed, and the new state *)
Definition aparse (s : nat) (st : astate) : nat * astate :=
  match alookup s (acache st) with
  | Some a => (a, mkA ((s, a) :: aremove s (acache st)) (aaux st))
  | None =>
      let a := alloc (map snd (acache st)) in
      let aux1 := if binds s then a :: aaux st else aaux st in
      let full := (s, a) :: acache st in
      let dropped := map snd (skipn cap full) in
      (a, mkA (firstn cap full)
              (if weak then filter (fun x => negb (memb x dropped)) aux1 else aux1))
  end.

(* the call under test (remove_dead_ifs / simplify_boolean_expressions on `if len('abc') == 3:`):
   parse, then ask the registry about the callee node; true = the builtin call is folded *)
Definition aquery (s : nat) (st : astate) : bool * astate :=
  let '(a, st') := aparse s st in (negb (memb a (aaux st')), st').

Definition arun (h : list nat) (st : astate) : astate :=
  fold_left (fun st s => snd (aquery s st)) h st.

Definition afresh : astate := mkA [] [].

(* what every call of a history observes (correspondence with the real registry) *)
Fixpoint aobserve (h : list nat) (st : astate) : list bool :=
  match h with
  | [] => []
  | s :: tl => let '(r, st') := aquery s st in r :: aobserve tl st'
  end.

End Aux.

(* lowest free address first; the default is never reached (pigeonhole) but makes freshness evident *)
Fixpoint first_free (cands live : list nat) (dflt : nat) : nat :=
  match cands with
  | [] => dflt
  | c :: tl => if memb c live then first_free tl live dflt else c
  end.

Definition alloc_least (live : list nat) : nat :=
  first_free (seq 0 (length live)) live (S (list_max live)).

(* the refuting history of the id() design at the real capacity: a source that binds the name, 100 other
   sources (the binder's tree is evicted and freed), then a never-seen source that binds nothing *)
Definition binds_only_0 (s : nat) : bool := Nat.eqb s 0.
Definition refuting_history : list nat := seq 0 101.
Definition refuting_probe : nat := 101.

(* correspondence case: sources [rc_binders] bind the name; the real code (core.parse at capacity rc_cap +
   core.is_made_of_literals on the builtin call of the parsed tree) observed [rc_seen] along [rc_hist] *)
Record reg_case := mkRCase { rc_cap : nat; rc_binders : list nat; rc_hist : list nat; rc_seen : list bool }.

Definition reg_case_ok (c : reg_case) : bool :=
  list_eqb Bool.eqb
    (aobserve (fun s => memb s (rc_binders c)) alloc_least (rc_cap c) true (rc_hist c) afresh)
    (rc_seen c).
