(* K5 -- model of core._is_exception, core._may_leave_iteration, core.is_blocking
   (pyrefact/core.py:976-1095 after the repairs 97bca47, 1ff8620) and fixes._iter_unreachable_nodes,
   with an abstract control-flow semantics [outs] (which ways a statement can terminate when every
   unevaluable test / iterable / call behaves arbitrarily, independently at each evaluation). *)
From Coq Require Import List Bool.
Import ListNotations.

Inductive test := TTrue | TFalse | TUnknown.        (* literal truthy / literal falsy / not evaluable *)
Inductive iter := IEmpty | INonEmpty | IUnknown.    (* literal empty / literal non-empty / not evaluable *)

(* a `match` statement (added for seeded/C01-d): each case is (pattern, guard, body).  The pattern is either
   opaque (literal / class / sequence ... pattern: may or may not match, independently at each evaluation)
   or irrefutable (`_` / a capture name); the guard is absent or a test *)
Inductive pat := PatOpaque | PatWild.
Inductive mguard := MGNone | MGIf (t : test).

Inductive stmt :=
| SPass
| SCall                                   (* expression statement calling something unknown *)
| SReturn | SRaise | SBreak | SContinue
| SAssert (t : test)
| SIf (t : test) (body orelse : list stmt)
| SWhile (t : test) (body orelse : list stmt)
| SFor (it : iter) (body orelse : list stmt)
| SWith (body : list stmt)
| STry (body : list stmt) (handlers : list (list stmt)) (orelse final : list stmt)
| SDef (body : list stmt)                 (* nested function / class definition *)
| SMatch (cases : list (pat * mguard * list stmt)).

Inductive parent := PNone | PFor | PWhile.

(* ---------------- the implementation ---------------- *)
Definition is_exception (s : stmt) : bool :=
  match s with
  | SRaise => true
  | SAssert TFalse => true
  | _ => false
  end.

Fixpoint may_leave (s : stmt) : bool :=
  let any := fix any (l : list stmt) : bool :=
               match l with [] => false | x :: tl => may_leave x || any tl end in
  let any2 := fix any2 (l : list (list stmt)) : bool :=
               match l with [] => false | x :: tl => any x || any2 tl end in
  (* ast.iter_child_nodes(Match) = subject, cases; of a match_case = pattern, guard, body: only the bodies
     can hold a break / continue *)
  let anyc := fix anyc (l : list (pat * mguard * list stmt)) : bool :=
               match l with [] => false | c :: tl => any (snd c) || anyc tl end in
  match s with
  | SBreak | SContinue => true
  | SDef _ => false
  | SWhile _ _ orelse => any orelse
  | SFor _ _ orelse => any orelse
  | SIf _ body orelse => any body || any orelse
  | SWith body => any body
  | STry body hs orelse final => any body || any2 hs || any orelse || any final
  | SMatch cases => anyc cases
  | _ => false
  end.

(* the variant of seeded/C01-d: an iterative walk over the statement-list fields body / handlers / orelse /
   finalbody only -- Match.cases is not among them (used by the refutation R16.9 only) *)
Fixpoint may_leave_stmt_lists (s : stmt) : bool :=
  let any := fix any (l : list stmt) : bool :=
               match l with [] => false | x :: tl => may_leave_stmt_lists x || any tl end in
  let any2 := fix any2 (l : list (list stmt)) : bool :=
               match l with [] => false | x :: tl => any x || any2 tl end in
  match s with
  | SBreak | SContinue => true
  | SDef _ => false
  | SWhile _ _ orelse => any orelse
  | SFor _ _ orelse => any orelse
  | SIf _ body orelse => any body || any orelse
  | SWith body => any body
  | STry body hs orelse final => any body || any2 hs || any orelse || any final
  | _ => false
  end.

Fixpoint is_blocking (s : stmt) (p : parent) : bool :=
  let anyb := fix anyb (l : list stmt) (p : parent) : bool :=
               match l with [] => false | x :: tl => is_blocking x p || anyb tl p end in
  (* the scan of a loop body: stop with False at a statement that may leave the iteration,
     with True at a blocking one *)
  let scan := fix scan (l : list stmt) (ty : parent) (dflt : bool) : bool :=
               match l with
               | [] => dflt
               | x :: tl => if may_leave x then false
                            else if is_blocking x ty then true else scan tl ty dflt
               end in
  if is_exception s then true
  else
    let direct := match p, s with
                  | PNone, (SReturn | SContinue | SBreak) => true
                  | (PFor | PWhile), SReturn => true
                  | _, _ => false
                  end in
    if direct then true
    else match s with
         | SIf TTrue body _ => anyb body p
         | SIf TFalse _ orelse => anyb orelse p
         | SIf TUnknown body orelse => anyb body p && anyb orelse p
         | SWhile TTrue body _ => scan body PWhile true
         | SWhile _ _ _ => false
         | SFor INonEmpty body _ => scan body PFor false
         | SFor _ _ _ => false
         | SWith body => anyb body p
         | SMatch _ => false                 (* no clause for ast.Match (nor ast.Try): falls through to `return False` *)
         | _ => false
         end.

(* fixes._iter_unreachable_nodes: everything after the first blocking statement of a body *)
Fixpoint unreachable_from (body : list stmt) : list stmt :=
  match body with
  | [] => []
  | s :: tl => if is_blocking s PNone then tl else unreachable_from tl
  end.

(* fixes.delete_unreachable_code, the branch for an `if` / `while` whose test is a literal (fixes.py:991-1012):
   what it deletes of that statement *)
Inductive dead := DNothing | DNode | DBody | DOrelse.
Definition dead_const (s : stmt) : dead :=
  match s with
  | SWhile TFalse _ [] => DNode              (* the else clause of a loop that never runs is executed *)
  | SIf TTrue (_ :: _) _ => DOrelse          (* every child of the else branch *)
  | SIf TFalse _ (_ :: _) => DBody           (* every child of the body *)
  | SIf TTrue [] _ | SIf TFalse _ [] => DNode
  | _ => DNothing
  end.
(* what is left of the statement (an emptied body is filled with `pass` by the rewriter) *)
Definition apply_dead (s : stmt) : list stmt :=
  match dead_const s, s with
  | DNode, _ => []
  | DOrelse, SIf t b _ => [SIf t b []]
  | DBody, SIf t _ o => [SIf t [] o]
  | _, _ => [s]
  end.

(* ---------------- reference semantics: possible outcomes ---------------- *)
Record outs := mkO { o_n : bool; o_r : bool; o_e : bool; o_b : bool; o_c : bool }.
Definition o_none := mkO false false false false false.
Definition o_union (a b : outs) :=
  mkO (o_n a || o_n b) (o_r a || o_r b) (o_e a || o_e b) (o_b a || o_b b) (o_c a || o_c b).
(* a ; b *)
Definition o_seq (a b : outs) :=
  mkO (o_n a && o_n b) (o_r a || (o_n a && o_r b)) (o_e a || (o_n a && o_e b))
      (o_b a || (o_n a && o_b b)) (o_c a || (o_n a && o_c b)).
Definition o_when (c : bool) (a : outs) := if c then a else o_none.

(* does a case apply when it is reached? *)
Inductive ckind := CAlways | CNever | CMay.
Definition case_kind (pg : pat * mguard) : ckind :=
  match pg with
  | (_, MGIf TFalse) => CNever
  | (PatWild, MGNone) | (PatWild, MGIf TTrue) => CAlways
  | _ => CMay
  end.

Section Sem.
(* may a context manager swallow an exception raised in its body?  pyrefact assumes it never does *)
Variable suppress : bool.

Fixpoint outcomes (s : stmt) : outs :=
  let block := fix block (l : list stmt) : outs :=
                 match l with
                 | [] => mkO true false false false false
                 | x :: tl => o_seq (outcomes x) (block tl)
                 end in
  let blocks := fix blocks (l : list (list stmt)) : outs :=
                 match l with [] => o_none | x :: tl => o_union (block x) (blocks tl) end in
  (* the cases are tried in order: a case that surely matches ends the search, one that surely does not is
     skipped, any other may or may not be taken; no case taken = the statement completes normally *)
  let cases := fix cases (l : list (pat * mguard * list stmt)) : outs :=
                 match l with
                 | [] => mkO true false false false false
                 | c :: tl => match case_kind (fst c) with
                              | CAlways => block (snd c)
                              | CNever => cases tl
                              | CMay => o_union (block (snd c)) (cases tl)
                              end
                 end in
  match s with
  | SPass => mkO true false false false false
  | SCall => mkO true false true false false
  | SReturn => mkO false true false false false
  | SRaise => mkO false false true false false
  | SBreak => mkO false false false true false
  | SContinue => mkO false false false false true
  | SAssert TTrue => mkO true false false false false
  | SAssert TFalse => mkO false false true false false
  | SAssert TUnknown => mkO true false true false false
  | SDef _ => mkO true false false false false
  | SIf TTrue body _ => block body
  | SIf TFalse _ orelse => block orelse
  | SIf TUnknown body orelse =>
      o_union (mkO false false true false false) (o_union (block body) (block orelse))
  | SWhile TFalse _ orelse => block orelse
  | SWhile TTrue body _ =>
      let B := block body in mkO (o_b B) (o_r B) (o_e B) false false
  | SWhile TUnknown body orelse =>
      let B := block body in let O := block orelse in
      mkO (o_n O || o_b B) (o_r B || o_r O) true (o_b O) (o_c O)
  | SFor IEmpty _ orelse => block orelse
  | SFor IUnknown body orelse =>
      let B := block body in let O := block orelse in
      mkO (o_n O || o_b B) (o_r B || o_r O) true (o_b O) (o_c O)
  | SFor INonEmpty body orelse =>
      let B := block body in let O := block orelse in
      let fin := o_n B || o_c B in           (* every iteration can complete *)
      mkO ((fin && o_n O) || o_b B) (o_r B || (fin && o_r O)) (o_e B || (fin && o_e O))
          (fin && o_b O) (fin && o_c O)
  | SWith body =>
      let B := block body in
      mkO (o_n B || (suppress && o_e B)) (o_r B) true (o_b B) (o_c B)
  | STry body hs orelse final =>
      let B := block body in let O := block orelse in let H := blocks hs in let F := block final in
      let pre := o_union (mkO false (o_r B) (o_e B) (o_b B) (o_c B))
                         (o_union (o_when (o_n B) O) (o_when (o_e B) H)) in
      (* the finally clause runs on every path; a non-normal outcome of it replaces the pending one *)
      o_union (o_when (o_n F) pre) (mkO false (o_r F) (o_e F) (o_b F) (o_c F))
  | SMatch cs =>
      (* evaluating the subject, a pattern (class patterns call __instancecheck__ / read __match_args__) or
         a guard may raise *)
      let C := cases cs in mkO (o_n C) (o_r C) true (o_b C) (o_c C)
  end.

Fixpoint outcomes_block (l : list stmt) : outs :=
  match l with
  | [] => mkO true false false false false
  | x :: tl => o_seq (outcomes x) (outcomes_block tl)
  end.
End Sem.

(* ---------------- correspondence plumbing ---------------- *)
Definition parent_eqb (a b : parent) : bool :=
  match a, b with PNone, PNone | PFor, PFor | PWhile, PWhile => true | _, _ => false end.

(* (statement, [is_blocking None; is_blocking For; is_blocking While; may_leave]) *)
Definition flow_case_ok (c : stmt * list bool) : bool :=
  let '(s, exp) := c in
  match exp with
  | [a; b; d; e] => Bool.eqb (is_blocking s PNone) a && Bool.eqb (is_blocking s PFor) b
                    && Bool.eqb (is_blocking s PWhile) d && Bool.eqb (may_leave s) e
  | _ => false
  end.

Definition dead_code (d : dead) : nat := match d with DNothing => 0 | DNode => 1 | DBody => 2 | DOrelse => 3 end.

Definition outs_list (o : outs) : list bool := [o_n o; o_r o; o_e o; o_b o; o_c o].
