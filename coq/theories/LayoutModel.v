(* K12 -- layout text stages of pyrefact, over texts of TAGGED characters.
     main.format_code            main.py:170-172, 258   expandtabs(4); rmspace; fix_too_many_blank_lines
     rmspace.format_str          pattern  [ \t]+ followed by \n or end of text  ->  empty
     fixes.fix_too_many_blank_lines   fixes.py:296-306  three re.sub
     processing.minimize_whitespace_line_differences    processing.py:323-363 (difflib abstracted: any script)
     fixes.fix_import_spacing    fixes.py:3825-3877     decision + range replacement
   A character is (code point, mask); mask = "inside a string / bytes / f-string literal" (tokenize in the
   harness).  The stages only look at the code point; the mask is carried along (inserted characters inherit
   the mask of the character they replace), so that 'the masked substring of the output' is defined.
   Mirrors the code as it is.  No proofs in this file. *)
From Coq Require Import List NArith Arith Bool.
Import ListNotations.

Definition tchar := (N * bool)%type.
Definition text := list tchar.

Definition TAB : N := 9.
Definition NL : N := 10.
Definition CR : N := 13.
Definition SP : N := 32.

Definition is_tab (c : N) : bool := N.eqb c TAB.
Definition is_nl (c : N) : bool := N.eqb c NL.
(* the character class ( |\t) of rmspace *)
Definition is_blank (c : N) : bool := N.eqb c SP || N.eqb c TAB.

(* Python str.isspace / `\s` of a str pattern / str.strip(): trusted DEFINITION, compared with CPython for
   every code point by the harness (the table is printed and diffed). *)
Definition ws_ranges : list (N * N) :=
  [(9, 13); (28, 32); (133, 133); (160, 160); (5760, 5760); (8192, 8202); (8232, 8233); (8239, 8239);
   (8287, 8287); (12288, 12288)]%N.
Definition is_space (c : N) : bool :=
  existsb (fun r => N.leb (fst r) c && N.leb c (snd r)) ws_ranges.

Definition plain (s : text) : list N := map fst s.
Definition untagged (s : list N) : text := map (fun c => (c, false)) s.
(* the characters inside literals, in order *)
Definition lit (s : text) : list N := map fst (filter snd s).
(* the characters that are not whitespace, in order *)
Definition nonws (s : text) : list N := filter (fun c => negb (is_space c)) (map fst s).
(* the characters that are neither space nor tab, in order *)
Definition nonblank_chars (s : text) : list N := filter (fun c => negb (is_blank c)) (map fst s).

(* ---------------------------------------------------------------------------------------------- *)
(* str.expandtabs(ts): column-aware; the column restarts after \n and \r (CPython unicode_expandtabs) *)
Fixpoint expandtabs_from (ts col : nat) (s : text) : text :=
  match s with
  | [] => []
  | (c, m) :: tl =>
      if is_tab c then
        let incr := ts - col mod ts in
        repeat (SP, m) incr ++ expandtabs_from ts (col + incr) tl
      else if N.eqb c NL || N.eqb c CR then (c, m) :: expandtabs_from ts 0 tl
      else (c, m) :: expandtabs_from ts (S col) tl
  end.
Definition expandtabs4 (s : text) : text := expandtabs_from 4 0 s.

(* ---------------------------------------------------------------------------------------------- *)
(* rmspace: one or more [ \t] followed by \n or end of text -> empty : a blank is deleted iff the rest of its blank run is followed by \n or
   by the end of the text *)
Fixpoint trailing (s : text) : bool :=
  match s with
  | [] => true
  | c :: tl => if is_blank (fst c) then trailing tl else is_nl (fst c)
  end.
Fixpoint rmspace (s : text) : text :=
  match s with
  | [] => []
  | c :: tl => if is_blank (fst c) && trailing tl then rmspace tl else c :: rmspace tl
  end.

(* ---------------------------------------------------------------------------------------------- *)
(* fix_too_many_blank_lines.  Every pattern starts with \n, matches only \s characters and is anchored on
   the right by \n, \Z or a non-\s character, so each substitution acts separately on every maximal run
   of \s characters.  [scan f] cuts the text into such runs and rewrites each with [f at_eof run]. *)
Fixpoint scan (f : bool -> text -> text) (run : text) (s : text) : text :=
  match s with
  | [] => f true (rev run)
  | c :: tl => if is_space (fst c) then scan f (c :: run) tl
               else f false (rev run) ++ c :: scan f [] tl
  end.

(* a run split at its newlines: the part before the first \n, then each \n with the non-\n
   whitespace that follows it *)
Definition nlsegs := list (tchar * text).
Fixpoint split_nl (s : text) : text * nlsegs :=
  match s with
  | [] => ([], [])
  | c :: tl => let '(pre, segs) := split_nl tl in
               if is_nl (fst c) then ([], (c, pre) :: segs) else (c :: pre, segs)
  end.
Definition seg_text (g : tchar * text) : text := fst g :: snd g.
Definition unsplit (pre : text) (segs : nlsegs) : text := pre ++ flat_map seg_text segs.

(* the inserted newlines inherit the mask of the first newline of the match *)
Definition nl_like (g : tchar * text) : tchar := (NL, snd (fst g)).

(* re.sub of  (NL WS-star){3,} NL  by three NL : >= 4 newlines in the run; the match goes from the first to the LAST
   newline of the run *)
Definition r1 (_ : bool) (run : text) : text :=
  let '(pre, segs) := split_nl run in
  match segs with
  | g :: _ => if 4 <=? length segs
              then pre ++ [nl_like g; nl_like g; nl_like g] ++ snd (last segs g)
              else run
  | [] => run
  end.

(* re.sub of  (NL WS-star){2,} END  by one NL : the run at the end of the text, >= 2 newlines, from the first newline *)
Definition r2 (at_eof : bool) (run : text) : text :=
  let '(pre, segs) := split_nl run in
  match segs with
  | g :: _ => if at_eof && (2 <=? length segs) then pre ++ [nl_like g] else run
  | [] => run
  end.

(* re.sub of  (NL WS-star){2,} (NL WS-plus) lookahead(non-WS)  by  NL group2 : a run followed by a non-\s character.
   group 2 = the last newline and the indentation after it when there is one (needs >= 3 newlines),
   otherwise the last TWO newlines (needs >= 4). *)
Definition r3 (at_eof : bool) (run : text) : text :=
  if at_eof then run else
  let '(pre, segs) := split_nl run in
  match segs with
  | g :: _ =>
      let n := length segs in
      let lastg := last segs g in
      match snd lastg with
      | _ :: _ => if 3 <=? n then pre ++ nl_like g :: seg_text lastg else run
      | [] => if 4 <=? n
              then pre ++ nl_like g :: seg_text (nth (n - 2) segs g) ++ seg_text lastg
              else run
      end
  | [] => run
  end.

Definition sub1 (s : text) : text := scan r1 [] s.
Definition sub2 (s : text) : text := scan r2 [] s.
Definition sub3 (s : text) : text := scan r3 [] s.
Definition blank_lines (s : text) : text := sub3 (sub2 (sub1 s)).

(* the raw-text pre-pass of format_code (main.py:170-172) *)
Definition prepass (s : text) : text := blank_lines (rmspace (expandtabs4 s)).

(* ---------------------------------------------------------------------------------------------- *)
(* guards of the literal-preservation theorems (structural, boolean) *)
(* no masked character is a tab *)
Definition g_tab (s : text) : bool := forallb (fun c => negb (snd c && is_tab (fst c))) s.
(* no masked character is a blank in a blank run that ends at \n / end of text *)
Fixpoint g_trail (s : text) : bool :=
  match s with
  | [] => true
  | c :: tl => negb (snd c && is_blank (fst c) && trailing tl) && g_trail tl
  end.
(* every maximal whitespace run that contains a masked character has fewer than 3 newlines (i.e. fewer
   than 2 blank lines), and fewer than 2 when it ends the text *)
Definition count_nl (run : text) : nat := length (filter (fun c => is_nl (fst c)) run).
Definition run_ok (at_eof : bool) (run : text) : bool :=
  negb (existsb snd run) || ((count_nl run <? 3) && (negb at_eof || (count_nl run <? 2))).
Fixpoint runs_forall (g : bool -> text -> bool) (run : text) (s : text) : bool :=
  match s with
  | [] => g true (rev run)
  | c :: tl => if is_space (fst c) then runs_forall g (c :: run) tl
               else g false (rev run) && runs_forall g [] tl
  end.
Definition g_blank (s : text) : bool := runs_forall run_ok [] s.

(* ---------------------------------------------------------------------------------------------- *)
(* minimize_whitespace_line_differences, at line level.  difflib.Differ is abstracted: ANY list of tagged
   lines is a script; its old text is the Keep+Del lines, its new text the Keep+Add lines (a '?' line is a Hint). *)
Inductive tag := Keep | Add | Del | Hint.
Definition tag_eqb (a b : tag) : bool :=
  match a, b with Keep, Keep | Add, Add | Del, Del | Hint, Hint => true | _, _ => false end.
Definition line := text.
Definition script := list (tag * line).

Definition old_of (sc : script) : list line :=
  flat_map (fun e => match fst e with Keep | Del => [snd e] | _ => [] end) sc.
Definition new_of (sc : script) : list line :=
  flat_map (fun e => match fst e with Keep | Add => [snd e] | _ => [] end) sc.

(* the joined lines, stripped, are non-empty *)
Definition has_ink (l : text) : bool := existsb (fun c => negb (is_space (fst c))) l.

(* consecutive entries with the same tag form one segment *)
Fixpoint segments (sc : script) : list (tag * list line) :=
  match sc with
  | [] => []
  | (t, l) :: tl =>
      match segments tl with
      | (t', ls) :: rest => if tag_eqb t t' then (t, l :: ls) :: rest else (t, [l]) :: (t', ls) :: rest
      | [] => [(t, [l])]
      end
  end.
Definition keep_segment (seg : tag * list line) : list line :=
  match fst seg with
  | Keep => snd seg
  | Add => if has_ink (concat (snd seg)) then snd seg else []
  | Del => if has_ink (concat (snd seg)) then [] else snd seg
  | Hint => []
  end.
Definition minimize_ws (sc : script) : list line := flat_map keep_segment (segments sc).

(* guard for literal preservation: no masked character in a segment whose fate differs from `new` *)
Definition seg_ok (seg : tag * list line) : bool :=
  match fst seg with
  | Add | Del => has_ink (concat (snd seg)) || negb (existsb snd (concat (snd seg)))
  | _ => true
  end.
Definition g_script (sc : script) : bool := forallb seg_ok (segments sc).

(* ---------------------------------------------------------------------------------------------- *)
(* fix_import_spacing: decision for one pair of adjacent statements and the range replacement *)
Record kind := mkKind { k_import : bool; k_stdlib : bool; k_future : bool; k_def : bool }.

Definition correct_newlines (a b : kind) : option nat :=
  if k_import a && k_import b then
    Some (if Bool.eqb (k_stdlib a) (k_stdlib b) && Bool.eqb (k_future a) (k_future b) then 1 else 2)
  else if k_import a || k_import b then Some (if k_def b then 3 else 2)
  else None.

(* n newlines then indent spaces; the re.sub of NL SP+ NL that follows cannot match a text of this shape *)
Definition spacing (m : bool) (n indent : nat) : text := repeat (NL, m) n ++ repeat (SP, m) indent.

(* [between] = source[i1_end:i2_start]; None = leave alone *)
Definition decide (a b : kind) (between : text) (indent : nat) : option text :=
  if existsb (fun c => negb (is_nl (fst c) || N.eqb (fst c) SP)) between then None else
  match correct_newlines a b with
  | None => None
  | Some n =>
      let cur := count_nl between in
      let m := match between with c :: _ => snd c | [] => false end in
      if (n =? 1) && (1 <? cur) then Some (spacing m n indent)
      else if negb (n =? cur) && (0 <? cur) then Some (spacing m n indent)
      else None
  end.

Record pair_info := mkPair { p_a : kind; p_b : kind; p_start : nat; p_end : nat; p_indent : nat }.
Definition slice (s : text) (a b : nat) : text := firstn (b - a) (skipn a s).
Definition replace_range (s : text) (a b : nat) (r : text) : text := firstn a s ++ r ++ skipn b s.

Definition repl := (nat * nat * text)%type.
(* the dict keyed by Range: a later pair with the same range overrides *)
Fixpoint dict_set (k : nat * nat) (v : text) (d : list repl) : list repl :=
  match d with
  | [] => [(k, v)]
  | (k', v') :: tl => if (fst k =? fst k') && (snd k =? snd k') then (k', v) :: tl else (k', v') :: dict_set k v tl
  end.
Definition collect (s : text) (ps : list pair_info) : list repl :=
  fold_left (fun d p => match decide (p_a p) (p_b p) (slice s (p_start p) (p_end p)) (p_indent p) with
                        | Some r => dict_set (p_start p, p_end p) r d
                        | None => d
                        end) ps [].
(* sorted(replacements, reverse=True): tuple order on (start, end), descending *)
Definition range_ltb (a b : nat * nat) : bool := (fst a <? fst b) || ((fst a =? fst b) && (snd a <? snd b)).
Fixpoint insert_desc (x : repl) (l : list repl) : list repl :=
  match l with
  | [] => [x]
  | y :: tl => if range_ltb (fst x) (fst y) then y :: insert_desc x tl else x :: l
  end.
Definition sort_desc (l : list repl) : list repl := fold_right insert_desc [] l.
Fixpoint apply_all (s : text) (rs : list repl) : text :=
  match rs with
  | [] => s
  | (k, r) :: tl => apply_all (replace_range s (fst k) (snd k) r) tl
  end.
(* the text before the final is_valid_python test (which can only fall back to the input) *)
Definition import_spacing (s : text) (ps : list pair_info) : text := apply_all s (sort_desc (collect s ps)).

(* guard: the ranges that get replaced are in bounds, pairwise disjoint and hold no masked character *)
Fixpoint desc_disjoint (hi : nat) (rs : list repl) : bool :=
  match rs with
  | [] => true
  | (k, _) :: tl => (fst k <=? snd k) && (snd k <=? hi) && desc_disjoint (fst k) tl
  end.
Definition g_ranges (s : text) (ps : list pair_info) : bool :=
  desc_disjoint (length s) (sort_desc (collect s ps)).
Definition g_ranges_lit (s : text) (ps : list pair_info) : bool :=
  forallb (fun kr => negb (existsb snd (slice s (fst (fst kr)) (snd (fst kr))))) (collect s ps).

(* ---------------------------------------------------------------------------------------------- *)
(* indentation columns as the CPython tokenizer computes them: `col` with tab size 8, `altcol` with 1 *)
Fixpoint col_after (ts col : nat) (s : list N) : nat :=
  match s with
  | [] => col
  | c :: tl => if is_tab c then col_after ts ((col / ts + 1) * ts) tl else col_after ts (S col) tl
  end.
Definition cmp_eqb (a b : comparison) : bool :=
  match a, b with Eq, Eq | Lt, Lt | Gt, Gt => true | _, _ => false end.
(* Some c = consistent, ordered as c;  None = TabError (the two columns disagree) *)
Definition indent_cmp (s1 s2 : list N) : option comparison :=
  let c := Nat.compare (col_after 8 0 s1) (col_after 8 0 s2) in
  if cmp_eqb c (Nat.compare (col_after 1 0 s1) (col_after 1 0 s2)) then Some c else None.
Definition expandtabs_plain (ts : nat) (s : list N) : list N := plain (expandtabs_from ts 0 (untagged s)).
(* tabs, then spaces *)
Definition indent_ts (a b : nat) : list N := repeat TAB a ++ repeat SP b.

