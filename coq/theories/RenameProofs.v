(* K9 -- theorems about RenameModel.v (all modules, all sizes). *)
From Coq Require Import List NArith ZArith Bool Lia Arith.
Import ListNotations.
Require Import Pyrefact.NamingModel Pyrefact.RenameModel.

(* ---------------------------------------------------------------------------------------- *)
(* basics *)

Lemma text_eqb_refl a : text_eqb a a = true.
Proof. induction a as [|x a IH]; cbn; [reflexivity|]. now rewrite N.eqb_refl, IH. Qed.

Lemma text_eqb_eq a b : text_eqb a b = true <-> a = b.
Proof.
  split; [|intros ->; apply text_eqb_refl].
  revert b; induction a as [|x a IH]; intros [|y b]; cbn; try discriminate; [reflexivity|].
  intros H. apply andb_true_iff in H as [H1 H2]. apply N.eqb_eq in H1. now rewrite H1, (IH _ H2).
Qed.

Lemma text_eqb_neq a b : text_eqb a b = false <-> a <> b.
Proof.
  split.
  - intros H E. apply text_eqb_eq in E. congruence.
  - intros H. destruct (text_eqb a b) eqn:E; [|reflexivity]. apply text_eqb_eq in E. contradiction.
Qed.

Lemma mem_In x l : mem x l = true <-> In x l.
Proof.
  unfold mem. rewrite existsb_exists. split.
  - intros (y & Hy & E). apply text_eqb_eq in E. now subst.
  - intros H. exists x. split; [exact H|apply text_eqb_refl].
Qed.

Lemma mem_false_not_In x l : mem x l = false <-> ~ In x l.
Proof.
  split.
  - intros H Hin. apply mem_In in Hin. congruence.
  - intros H. destruct (mem x l) eqn:E; [|reflexivity]. apply mem_In in E. contradiction.
Qed.

(* ---------------------------------------------------------------------------------------- *)
(* Part A: the decision *)

Lemma step1_In bl cs n old s :
  In (n, old, s) (step1 bl cs) ->
  mem s bl = false /\ exists c, In c cs /\ c_node c = n /\ c_old c = old /\ single (c_subs c) = Some s.
Proof.
  unfold step1. rewrite in_flat_map. intros (c & Hc & Hin).
  destruct (single (c_subs c)) as [s'|] eqn:Es; [|contradiction].
  destruct (mem s' bl) eqn:Eb; [contradiction|].
  destruct Hin as [[= <- <- <-]|[]]. split; [exact Eb|]. exists c. auto.
Qed.

Lemma step2_In ms r e :
  In e (step2 ms r) <-> In e r /\ consistent ms r (snd (fst e)) (snd e) = true /\ ~ In (snd (fst e)) BUILTINS.
Proof.
  unfold step2. rewrite filter_In. destruct e as [[n old] s]. cbn [fst snd].
  rewrite andb_true_iff, negb_true_iff, mem_false_not_In. tauto.
Qed.

Lemma emit_In pres r2 n old s :
  In (n, old, s) (emit pres r2) <->
  In (n, old, s) r2 /\ group_ok r2 s = true /\ old <> s /\ ~ In old pres.
Proof.
  unfold emit. rewrite filter_In. split.
  - intros [Hin H]. apply andb_true_iff in H as [H Hp]. apply andb_true_iff in H as [Hg Hn].
    repeat split; [exact Hin|exact Hg| |].
    + apply negb_true_iff in Hn. now apply text_eqb_neq.
    + apply negb_true_iff in Hp. now apply mem_false_not_In.
  - intros (Hin & Hg & Hn & Hp). split; [exact Hin|].
    apply text_eqb_neq in Hn. apply mem_false_not_In in Hp. now rewrite Hg, Hn, Hp.
Qed.

Lemma decide_In imp dfn ms cs pres n old s :
  In (n, old, s) (decide imp dfn ms cs pres) <->
  let r1 := step1 (blacklist imp dfn ms) cs in
  In (n, old, s) r1 /\ consistent ms r1 old s = true /\ ~ In old BUILTINS
  /\ group_ok (step2 ms r1) s = true /\ old <> s /\ ~ In old pres.
Proof.
  unfold decide. rewrite emit_In, step2_In. cbn [fst snd]. tauto.
Qed.

(* T19.4: the new name is not imported, not defined, not written anywhere in the module,
   not a builtin and not a keyword *)
Theorem decide_fresh imp dfn ms cs pres n old s :
  In (n, old, s) (decide imp dfn ms cs pres) ->
  ~ In s imp /\ ~ In s dfn /\ ~ In s (map m_name ms) /\ ~ In s BUILTINS /\ ~ In s KEYWORDS.
Proof.
  intros H. apply decide_In in H as (H1 & _). apply step1_In in H1 as [Hb _].
  apply mem_false_not_In in Hb. unfold blacklist in Hb. rewrite !in_app_iff in Hb. tauto.
Qed.

(* T19.5: two nodes that receive the same new name had the same old name *)
Lemma group_ok_same r2 s e1 e2 :
  group_ok r2 s = true -> In e1 r2 -> In e2 r2 -> snd e1 = s -> snd e2 = s -> snd (fst e1) = snd (fst e2).
Proof.
  unfold group_ok. intros Hg H1 H2 E1 E2.
  assert (F1 : In e1 (filter (fun e : entry => text_eqb (snd e) s) r2))
    by (apply filter_In; split; [exact H1|now apply text_eqb_eq]).
  assert (F2 : In e2 (filter (fun e : entry => text_eqb (snd e) s) r2))
    by (apply filter_In; split; [exact H2|now apply text_eqb_eq]).
  destruct (filter (fun e : entry => text_eqb (snd e) s) r2) as [|[[n0 old0] s0] t]; [contradiction|].
  rewrite forallb_forall in Hg.
  assert (Hall : forall e, In e (((n0, old0), s0) :: t) -> snd (fst e) = old0).
  { intros e [<-|Hin]; [reflexivity|]. apply Hg in Hin. now apply text_eqb_eq in Hin. }
  now rewrite (Hall _ F1), (Hall _ F2).
Qed.

Theorem decide_injective imp dfn ms cs pres n1 old1 n2 old2 s :
  In (n1, old1, s) (decide imp dfn ms cs pres) -> In (n2, old2, s) (decide imp dfn ms cs pres) -> old1 = old2.
Proof.
  intros H1 H2. apply decide_In in H1 as (A1 & C1 & B1 & G & _). apply decide_In in H2 as (A2 & C2 & B2 & _).
  cbv zeta in *.
  assert (I1 : In (n1, old1, s) (step2 ms (step1 (blacklist imp dfn ms) cs))) by (apply step2_In; cbn [fst snd]; tauto).
  assert (I2 : In (n2, old2, s) (step2 ms (step1 (blacklist imp dfn ms) cs))) by (apply step2_In; cbn [fst snd]; tauto).
  exact (group_ok_same _ _ _ _ G I1 I2 eq_refl eq_refl).
Qed.

(* the renamings dict has one entry per node *)
Lemma step1_functional bl cs :
  NoDup (map c_node cs) ->
  forall n o1 s1 o2 s2, In (n, o1, s1) (step1 bl cs) -> In (n, o2, s2) (step1 bl cs) -> o1 = o2 /\ s1 = s2.
Proof.
  intros Hnd n o1 s1 o2 s2 H1 H2.
  apply step1_In in H1 as (_ & c1 & Hc1 & N1 & O1 & S1). apply step1_In in H2 as (_ & c2 & Hc2 & N2 & O2 & S2).
  assert (c1 = c2).
  { clear - Hnd Hc1 Hc2 N1 N2. induction cs as [|c cs IH]; [contradiction|].
    cbn in Hnd. apply NoDup_cons_iff in Hnd as [Hnot Hnd'].
    destruct Hc1 as [<-|Hc1], Hc2 as [<-|Hc2]; [reflexivity| | |now apply IH].
    - exfalso. apply Hnot. rewrite N1, <- N2. now apply in_map.
    - exfalso. apply Hnot. rewrite N2, <- N1. now apply in_map. }
  subst c2. split; [congruence|congruence].
Qed.

Lemma lookup_Some n r s : lookup n r = Some s -> exists old, In (n, old, s) r.
Proof.
  induction r as [|[[n' old'] s'] t IH]; cbn; [discriminate|].
  destruct (Nat.eqb n n') eqn:E.
  - apply Nat.eqb_eq in E. intros [= <-]. subst. eauto.
  - intros H. destruct (IH H) as [old Hin]. eauto.
Qed.

Lemma lookup_In n old s r :
  (forall o1 s1 o2 s2, In (n, o1, s1) r -> In (n, o2, s2) r -> o1 = o2 /\ s1 = s2) ->
  In (n, old, s) r -> lookup n r = Some s.
Proof.
  intros Hf Hin. destruct (lookup n r) as [s'|] eqn:E.
  - destruct (lookup_Some _ _ _ E) as [old' Hin']. now destruct (Hf _ _ _ _ Hin Hin') as [_ ->].
  - exfalso. clear Hf. induction r as [|[[n' old'] s'] t IH]; [contradiction|]. cbn in E.
    destruct (Nat.eqb n n') eqn:En; [discriminate|].
    destruct Hin as [[= -> -> ->]|Hin]; [now rewrite Nat.eqb_refl in En|now apply IH].
Qed.

Lemma lookup_None n r : lookup n r = None -> forall old s, ~ In (n, old, s) r.
Proof.
  induction r as [|[[n' old'] s'] t IH]; cbn; [tauto|].
  destruct (Nat.eqb n n') eqn:E; [discriminate|]. intros H old s [[= -> -> ->]|Hin].
  - now rewrite Nat.eqb_refl in E.
  - exact (IH H _ _ Hin).
Qed.

(* well-formed input of the decision: `renamings` is a dict (one candidate per node) and the old name
   recorded for a node is the identifier written at that node *)
Definition wf_decision (ms : list mention) (cs : list cand) : Prop :=
  NoDup (map c_node cs)
  /\ forall m n c, In m ms -> m_node m = Some n -> In c cs -> c_node c = n -> c_old c = m_name m.

Section Decision.
  Variables (imp dfn : list ident) (ms : list mention) (cs : list cand) (pres : list ident).
  Hypothesis WF : wf_decision ms cs.
  Let r1 := step1 (blacklist imp dfn ms) cs.
  Let E := decide imp dfn ms cs pres.

  Lemma E_sub_r1 n old s : In (n, old, s) E -> In (n, old, s) r1.
  Proof. intros H. now apply decide_In in H as (H & _). Qed.

  Lemma E_functional n o1 s1 o2 s2 : In (n, o1, s1) E -> In (n, o2, s2) E -> o1 = o2 /\ s1 = s2.
  Proof. intros H1 H2. destruct WF as [Hnd _]. exact (step1_functional _ _ Hnd _ _ _ _ _ (E_sub_r1 _ _ _ H1) (E_sub_r1 _ _ _ H2)). Qed.

  Lemma r1_old m n old s : In m ms -> m_node m = Some n -> In (n, old, s) r1 -> old = m_name m.
  Proof.
    intros Hm Hn Hin. apply step1_In in Hin as (_ & c & Hc & Nc & Oc & _).
    destruct WF as [_ Hold]. rewrite <- Oc. exact (Hold _ _ _ Hm Hn Hc Nc).
  Qed.

  (* T19.6: when one place where identifier x is written is renamed to s, EVERY place where x is
     written is a renamed node, renamed to s *)
  Theorem decide_consistent n' x s m :
    In (n', x, s) E -> In m ms -> m_name m = x -> exists n, m_node m = Some n /\ In (n, x, s) E.
  Proof.
    intros HE Hm Hx. pose proof HE as HE'. apply decide_In in HE' as (Hin & Hc & Hbi & Hg & Hne & Hp).
    fold r1 in Hin, Hc, Hg. pose proof Hc as Hc0.
    unfold consistent in Hc. rewrite forallb_forall in Hc. specialize (Hc _ Hm).
    assert (Ex : text_eqb (m_name m) x = true) by now apply text_eqb_eq. rewrite Ex in Hc.
    apply text_eqb_eq in Hc. unfold mention_sub in Hc.
    destruct (m_node m) as [n|] eqn:En; [|congruence].
    destruct (lookup n r1) as [s'|] eqn:El; [|congruence]. subst s'.
    destruct (lookup_Some _ _ _ El) as [old Hold]. exists n. split; [reflexivity|].
    assert (old = x) by (rewrite <- Hx; exact (r1_old _ _ _ _ Hm En Hold)). subst old.
    apply decide_In. fold r1. repeat split; try assumption.
  Qed.

  Lemma mention_sub_changed m v :
    In m ms -> mention_sub E m = v -> v <> m_name m ->
    exists n, m_node m = Some n /\ In (n, m_name m, v) E.
  Proof.
    unfold mention_sub. intros Hm Hv Hne. destruct (m_node m) as [n|] eqn:En; [|congruence].
    destruct (lookup n E) as [s|] eqn:El; [|congruence]. subst s.
    destruct (lookup_Some _ _ _ El) as [old Hin]. exists n. split; [reflexivity|].
    now rewrite <- (r1_old _ _ _ _ Hm En (E_sub_r1 _ _ _ Hin)).
  Qed.

  Lemma mention_sub_of_entry m n s :
    In m ms -> m_node m = Some n -> In (n, m_name m, s) E -> mention_sub E m = s.
  Proof.
    intros Hm En Hin. unfold mention_sub. rewrite En.
    now rewrite (lookup_In _ _ _ _ (fun o1 s1 o2 s2 => E_functional n o1 s1 o2 s2) Hin).
  Qed.

  Lemma mention_sub_unchanged_or m :
    In m ms -> mention_sub E m = m_name m \/ exists n, m_node m = Some n /\ In (n, m_name m, mention_sub E m) E.
  Proof.
    intros Hm. destruct (text_eqb (mention_sub E m) (m_name m)) eqn:Ev.
    - left. now apply text_eqb_eq.
    - right. apply text_eqb_neq in Ev. now apply mention_sub_changed.
  Qed.

  (* capture-freedom + consistency in one statement: after the pass two places carry the same
     identifier iff they did before (the pass is an injective renaming of identifiers) *)
  Theorem decide_alpha m1 m2 :
    In m1 ms -> In m2 ms -> (mention_sub E m1 = mention_sub E m2 <-> m_name m1 = m_name m2).
  Proof.
    intros H1 H2. split.
    - intros Heq.
      destruct (mention_sub_unchanged_or _ H1) as [U1|(n1 & N1 & I1)];
        destruct (mention_sub_unchanged_or _ H2) as [U2|(n2 & N2 & I2)].
      + congruence.
      + (* m2 renamed to the identifier still written at m1: impossible, the new name is fresh *)
        exfalso. destruct (decide_fresh _ _ _ _ _ _ _ _ I2) as (_ & _ & Hf & _).
        apply Hf. rewrite <- Heq, U1. now apply in_map.
      + exfalso. destruct (decide_fresh _ _ _ _ _ _ _ _ I1) as (_ & _ & Hf & _).
        apply Hf. rewrite Heq, U2. now apply in_map.
      + rewrite Heq in I1. exact (decide_injective _ _ _ _ _ _ _ _ _ _ I1 I2).
    - intros Hn.
      destruct (mention_sub_unchanged_or _ H1) as [U1|(n1 & N1 & I1)].
      + destruct (mention_sub_unchanged_or _ H2) as [U2|(n2 & N2 & I2)]; [congruence|].
        destruct (decide_consistent _ _ _ _ I2 H1 Hn) as (n & Nn & In1).
        rewrite <- Hn in In1. now rewrite (mention_sub_of_entry _ _ _ H1 Nn In1).
      + destruct (decide_consistent _ _ _ _ I1 H2 (eq_sym Hn)) as (n & Nn & In2).
        rewrite Hn in In2. now rewrite (mention_sub_of_entry _ _ _ H2 Nn In2).
  Qed.
End Decision.

(* ---------------------------------------------------------------------------------------- *)
(* the whole pass (`align`) satisfies the hypotheses of the decision theorems *)

Lemma nodup_nat_NoDup l : nodup_nat l = true -> NoDup l.
Proof.
  induction l as [|x t IH]; cbn; [constructor|]. intros H. apply andb_true_iff in H as [H1 H2].
  constructor; [|now apply IH]. intros Hin. apply negb_true_iff in H1.
  assert (existsb (Nat.eqb x) t = true) by (apply existsb_exists; exists x; split; [exact Hin|apply Nat.eqb_refl]).
  congruence.
Qed.

(* "identifier x is written at node n" *)
Definition names (m : modl) (n : nat) (x : ident) : Prop :=
  (exists o, In o (occs m) /\ o_id o = n /\ o_name o = x) \/ (exists d, In d (defs m) /\ d_id d = n /\ d_name d = x).

Lemma NoDup_map_inj {A} (f : A -> nat) l a b : NoDup (map f l) -> In a l -> In b l -> f a = f b -> a = b.
Proof.
  induction l as [|c l IH]; [contradiction|]. cbn. intros Hnd Ha Hb E.
  apply NoDup_cons_iff in Hnd as [Hnot Hnd].
  destruct Ha as [<-|Ha], Hb as [<-|Hb]; [reflexivity| | |now apply IH].
  - exfalso. apply Hnot. rewrite E. now apply in_map.
  - exfalso. apply Hnot. rewrite <- E. now apply in_map.
Qed.

Lemma NoDup_app_parts {A} (a b : list A) :
  NoDup (a ++ b) -> NoDup a /\ NoDup b /\ (forall x, In x a -> In x b -> False).
Proof.
  induction a as [|x a IH]; cbn; intros H.
  - repeat split; [constructor|exact H|tauto].
  - apply NoDup_cons_iff in H as [Hnot H]. destruct (IH H) as (Ha & Hb & Hd).
    repeat split; [|exact Hb|].
    + constructor; [|exact Ha]. intros Hin. apply Hnot. apply in_app_iff. now left.
    + intros y [<-|Hy] Hyb; [apply Hnot; apply in_app_iff; now right|exact (Hd _ Hy Hyb)].
Qed.

Lemma names_functional m n x y : wf_modl m = true -> names m n x -> names m n y -> x = y.
Proof.
  unfold wf_modl. intros H. apply andb_true_iff in H as [H _]. apply andb_true_iff in H as [H _].
  apply nodup_nat_NoDup in H. destruct (NoDup_app_parts _ _ H) as (Ho & Hd & Hdisj0).
  assert (Hdisj : forall o d, In o (occs m) -> In d (defs m) -> o_id o <> d_id d).
  { intros o d Ho' Hd' E. apply (Hdisj0 (o_id o)); [now apply in_map|rewrite E; now apply in_map]. }
  intros [(o1 & I1 & N1 & X1)|(d1 & I1 & N1 & X1)] [(o2 & I2 & N2 & X2)|(d2 & I2 & N2 & X2)].
  - assert (o1 = o2) by (apply (NoDup_map_inj o_id (occs m)); congruence). congruence.
  - exfalso. apply (Hdisj o1 d2 I1 I2). congruence.
  - exfalso. apply (Hdisj o2 d1 I2 I1). congruence.
  - assert (d1 = d2) by (apply (NoDup_map_inj d_id (defs m)); congruence). congruence.
Qed.

Lemma uses_of_sub sc t m o : In o (uses_of sc t m) -> In o (occs m).
Proof. unfold uses_of. intros H. now apply filter_In in H as [H _]. Qed.

Lemma item_events_names t nid sc m keep sub n old s :
  names m nid (t_name t) -> In (n, old, s) (item_events t nid sc m keep sub) -> names m n old.
Proof.
  intros Hn. unfold item_events. rewrite in_app_iff. intros [H|H].
  - destruct keep; [|contradiction]. destruct H as [[= <- <- <-]|[]]. exact Hn.
  - destruct H as [[= <- <- <-]|H]; [exact Hn|].
    apply in_map_iff in H as (o & [= <- <- <-] & Ho). left. exists o. split; [now apply uses_of_sub in Ho|auto].
Qed.

Lemma scope_events_names sc k pres m n old s : In (n, old, s) (scope_events sc k pres m) -> names m n old.
Proof.
  unfold scope_events. rewrite in_app_iff. intros [H|H]; apply in_flat_map in H as (x & Hx & H).
  - destruct (d_direct x && Nat.eqb (parent (d_scopes x)) sc); [|contradiction].
    destruct (def_sub k pres x) as [keep sub]. eapply item_events_names; [|exact H].
    right. exists x. auto.
  - destruct (o_target x && Nat.eqb (parent (o_scopes x)) sc); [|contradiction].
    destruct (occ_sub k m x) as [keep sub]. eapply item_events_names; [|exact H].
    left. exists x. auto.
Qed.

Lemma all_events_names pres m n old s : In (n, old, s) (all_events pres m) -> names m n old.
Proof.
  unfold all_events. rewrite in_app_iff. intros [H|H]; [now apply scope_events_names in H|].
  apply in_flat_map in H as (d & _ & H). destruct (visited (defs m) d); [|contradiction].
  now apply scope_events_names in H.
Qed.

(* group_events: a dict keyed by node *)
Lemma add_event_nodes e cs :
  forall k, In k (map c_node (add_event e cs)) <-> k = fst (fst e) \/ In k (map c_node cs).
Proof.
  destruct e as [[n old] s]. induction cs as [|c t IH]; intros k; cbn.
  - intuition congruence.
  - destruct (Nat.eqb (c_node c) n) eqn:E; cbn.
    + apply Nat.eqb_eq in E. rewrite E. intuition congruence.
    + rewrite IH. cbn. intuition congruence.
Qed.

Lemma add_event_NoDup e cs : NoDup (map c_node cs) -> NoDup (map c_node (add_event e cs)).
Proof.
  destruct e as [[n old] s]. induction cs as [|c t IH]; cbn; intros H.
  - constructor; [tauto|constructor].
  - apply NoDup_cons_iff in H as [Hnot H]. destruct (Nat.eqb (c_node c) n) eqn:E; cbn.
    + constructor; [|exact H]. apply Nat.eqb_eq in E. now rewrite <- E.
    + constructor; [|now apply IH]. intros Hin. apply (add_event_nodes (n, old, s)) in Hin. cbn in Hin.
      destruct Hin as [Ek|Hin]; [rewrite Ek, Nat.eqb_refl in E; discriminate|contradiction].
Qed.

Lemma add_event_old (P : nat -> ident -> Prop) e cs :
  P (fst (fst e)) (snd (fst e)) -> (forall c, In c cs -> P (c_node c) (c_old c)) ->
  forall c, In c (add_event e cs) -> P (c_node c) (c_old c).
Proof.
  destruct e as [[n old] s]. cbn. intros He. induction cs as [|c0 t IH]; cbn; intros Hcs c Hin.
  - destruct Hin as [<-|[]]. exact He.
  - destruct (Nat.eqb (c_node c0) n) eqn:E.
    + destruct Hin as [<-|Hin]; [|apply Hcs; now right]. cbn. apply Nat.eqb_eq in E. rewrite <- E. apply Hcs. now left.
    + destruct Hin as [<-|Hin]; [apply Hcs; now left|]. apply IH; [|exact Hin]. intros c' Hc'. apply Hcs. now right.
Qed.

Lemma group_events_spec (P : nat -> ident -> Prop) es :
  (forall n old s, In (n, old, s) es -> P n old) ->
  NoDup (map c_node (group_events es)) /\ forall c, In c (group_events es) -> P (c_node c) (c_old c).
Proof.
  unfold group_events. intros He.
  assert (G : forall cs, NoDup (map c_node cs) -> (forall c, In c cs -> P (c_node c) (c_old c)) ->
              NoDup (map c_node (fold_left (fun cs e => add_event e cs) es cs))
              /\ forall c, In c (fold_left (fun cs e => add_event e cs) es cs) -> P (c_node c) (c_old c)).
  { induction es as [|e es IH]; intros cs Hnd Hcs; [now split|]. cbn [fold_left]. apply IH.
    - intros n old s Hin. apply (He n old s). now right.
    - now apply add_event_NoDup.
    - apply add_event_old; [|exact Hcs]. destruct e as [[n old] s]. apply (He n old s). now left. }
  apply G; [constructor|intros c []].
Qed.

Lemma mentions_names m mm n : In mm (mentions m) -> m_node mm = Some n -> names m n (m_name mm).
Proof.
  unfold mentions. rewrite !in_app_iff. intros [H|[H|H]] Hn.
  - apply in_map_iff in H as (o & <- & Ho). cbn in *. injection Hn as <-. left. exists o. auto.
  - apply in_map_iff in H as (d & <- & Hd). cbn in *. injection Hn as <-. right. exists d.
    apply filter_In in Hd as [Hd _]. auto.
  - apply in_map_iff in H as (x & <- & _). discriminate.
Qed.

Lemma align_wf pres m : wf_modl m = true -> wf_decision (mentions m) (group_events (all_events pres m)).
Proof.
  intros Hwf. destruct (group_events_spec (names m) (all_events pres m) (all_events_names pres m)) as [Hnd Hold].
  split; [exact Hnd|]. intros mm n c Hm Hn Hc Hcn.
  apply (names_functional m n); [exact Hwf| |now apply mentions_names].
  rewrite <- Hcn. now apply Hold.
Qed.

(* ---- the theorems about one pass of align_variable_names_with_convention ---- *)

Theorem align_fresh pres m n old s :
  In (n, old, s) (align pres m) ->
  ~ In s (imported m) /\ ~ In s (defined_names m) /\ ~ In s (map m_name (mentions m))
  /\ ~ In s BUILTINS /\ ~ In s KEYWORDS.
Proof.
  unfold align. exact (decide_fresh (imported m) (defined_names m) (mentions m) (group_events (all_events pres m)) pres n old s).
Qed.

Theorem align_injective pres m n1 old1 n2 old2 s :
  In (n1, old1, s) (align pres m) -> In (n2, old2, s) (align pres m) -> old1 = old2.
Proof.
  unfold align. exact (decide_injective (imported m) (defined_names m) (mentions m) (group_events (all_events pres m)) pres n1 old1 n2 old2 s).
Qed.

Theorem align_consistent pres m n' x s mm :
  wf_modl m = true ->
  In (n', x, s) (align pres m) -> In mm (mentions m) -> m_name mm = x ->
  exists n, m_node mm = Some n /\ In (n, x, s) (align pres m).
Proof.
  intros Hwf. unfold align.
  exact (decide_consistent (imported m) (defined_names m) (mentions m) (group_events (all_events pres m)) pres (align_wf pres m Hwf) n' x s mm).
Qed.

Theorem align_alpha pres m m1 m2 :
  wf_modl m = true -> In m1 (mentions m) -> In m2 (mentions m) ->
  (mention_sub (align pres m) m1 = mention_sub (align pres m) m2 <-> m_name m1 = m_name m2).
Proof.
  intros Hwf. unfold align.
  exact (decide_alpha (imported m) (defined_names m) (mentions m) (group_events (all_events pres m)) pres (align_wf pres m Hwf) m1 m2).
Qed.

Theorem align_respects_preserve pres m n old s :
  In (n, old, s) (align pres m) -> ~ In old pres /\ ~ In old BUILTINS /\ old <> s.
Proof.
  unfold align. intros H.
  apply (decide_In (imported m) (defined_names m) (mentions m) (group_events (all_events pres m)) pres n old s) in H. tauto.
Qed.

(* every renamed node carries the identifier it is recorded with *)
Theorem align_entries_named pres m n old s : In (n, old, s) (align pres m) -> names m n old.
Proof.
  unfold align. intros H.
  apply (decide_In (imported m) (defined_names m) (mentions m) (group_events (all_events pres m)) pres n old s) in H as (H & _).
  apply step1_In in H as (_ & c & Hc & <- & <- & _).
  destruct (group_events_spec (names m) (all_events pres m) (all_events_names pres m)) as [_ Hold]. now apply Hold.
Qed.

(* ---------------------------------------------------------------------------------------- *)
(* T19.6' use-site discovery (_get_uses_of) *)

Theorem uses_of_sound sc t m o :
  In o (uses_of sc t m) ->
  In o (occs m) /\ o_name o = t_name t /\ in_scope sc (o_scopes o) = true
  /\ (o_aug o = true \/ o_ctx o = Load).
Proof.
  unfold uses_of. intros H. apply filter_In in H as [Hin H].
  apply andb_true_iff in H as [H _]. apply andb_true_iff in H as [H Hk]. apply andb_true_iff in H as [Hs Hn].
  repeat split; [exact Hin|now apply text_eqb_eq|exact Hs|].
  apply orb_true_iff in Hk as [Hk|Hk]; [now left|right].
  apply andb_true_iff in Hk as [Hl _]. unfold is_load in Hl. now destruct (o_ctx o).
Qed.

(* reference semantics (definition, partial): a function "binds" the name when the name is one of its
   parameters or is stored somewhere inside it; a load inside such a function belongs to that function
   (or to something nested in it), not to the outer binding that is being renamed *)
Definition inner_binder (sc : nat) (t : target) (m : modl) (o : occ) (F : defn) : bool :=
  match d_kind F with
  | KClass => false
  | KFunc =>
      (Nat.eqb (d_scope F) sc || in_scope sc (d_scopes F))
      && negb (existsb (Nat.eqb (d_scope F)) (t_within t))
      && existsb (Nat.eqb (d_scope F)) (o_scopes o)
      && (mem (t_name t) (d_params F)
          || existsb (fun s => is_store s && text_eqb (o_name s) (t_name t)
                               && existsb (Nat.eqb (d_scope F)) (o_scopes s)) (occs m))
  end.
Definition refers_outer (sc : nat) (t : target) (m : modl) (o : occ) : bool :=
  negb (existsb (inner_binder sc t m o) (defs m)).

(* refuted: a load that belongs to a local variable of a nested function is selected
     myVar = 1
     def f():
         myVar = 2
         print(myVar)        <- selected as a use of the module-level myVar                     *)
Definition shadow_module : modl :=
  let mv := [109; 121; 86; 97; 114]%N in
  Modl [Occ 0 mv Store false (1, 0)%Z (1, 5)%Z [] true false;
        Occ 1 mv Store false (3, 4)%Z (3, 9)%Z [1%nat] true false;
        Occ 2 [112; 114; 105; 110; 116]%N Load false (4, 4)%Z (4, 9)%Z [1%nat] false false;
        Occ 3 mv Load false (4, 10)%Z (4, 15)%Z [1%nat] false false]
       [Defn 4 1 KFunc [102]%N (2, 16)%Z (2, 17)%Z [] [] false true] [] [] [].

Theorem uses_of_refuted :
  exists sc t m o, In o (uses_of sc t m) /\ is_load o = true /\ refers_outer sc t m o = false.
Proof.
  exists 0%nat, (Target [109; 121; 86; 97; 114]%N (1, 0)%Z (1, 5)%Z []), shadow_module,
         (Occ 3 [109; 121; 86; 97; 114]%N Load false (4, 10)%Z (4, 15)%Z [1%nat] false false).
  vm_compute. repeat split. now left.
Qed.

(* guard: no function of the scope (other than those around the node) stores the name *)
Definition no_inner_store (sc : nat) (t : target) (m : modl) : bool :=
  forallb (fun s => negb (is_store s && text_eqb (o_name s) (t_name t)
                          && existsb (fun F => match d_kind F with
                                               | KClass => false
                                               | KFunc => (Nat.eqb (d_scope F) sc || in_scope sc (d_scopes F))
                                                          && negb (existsb (Nat.eqb (d_scope F)) (t_within t))
                                                          && existsb (Nat.eqb (d_scope F)) (o_scopes s)
                                               end) (defs m))) (occs m).

Lemma existsb_ext_in {A} (f g : A -> bool) l : (forall x, In x l -> f x = g x) -> existsb f l = existsb g l.
Proof. induction l as [|a l IH]; cbn; intros H; [reflexivity|]. rewrite (H a (or_introl eq_refl)), IH; auto. Qed.

Theorem uses_of_partial sc t m o :
  no_inner_store sc t m = true ->
  In o (occs m) -> is_load o = true -> o_aug o = false ->
  (In o (uses_of sc t m) <->
     in_scope sc (o_scopes o) = true /\ o_name o = t_name t /\ refers_outer sc t m o = true
     /\ (pos_lt (t_end t) (o_start o) || (unordered sc (defs m) && pos_lt (o_end o) (t_start t))) = true).
Proof.
  intros Hg Ho Hl Ha.
  assert (Eb : blacklisted sc t (defs m) o = existsb (inner_binder sc t m o) (defs m)).
  { unfold blacklisted. apply existsb_ext_in. intros F HF. unfold inner_binder. destruct (d_kind F) eqn:Ek; [|reflexivity].
    destruct ((Nat.eqb (d_scope F) sc || in_scope sc (d_scopes F))
              && negb (existsb (Nat.eqb (d_scope F)) (t_within t))
              && existsb (Nat.eqb (d_scope F)) (o_scopes o)) eqn:E1; [|reflexivity].
    cbn [andb]. f_equal.
    assert (Hlo : match o_ctx o with Store => true | _ => false end = false)
      by (unfold is_load in Hl; now destruct (o_ctx o)).
    rewrite Hlo. cbn [andb]. symmetry. apply not_true_is_false. intros Hex.
    apply existsb_exists in Hex as (s & Hs & Hex).
    apply andb_true_iff in Hex as [Hex Hin]. apply andb_true_iff in Hex as [Hst Hnm].
    unfold no_inner_store in Hg. rewrite forallb_forall in Hg. specialize (Hg s Hs).
    apply negb_true_iff in Hg. rewrite Hst, Hnm in Hg. cbn [andb] in Hg.
    assert (Hx : existsb (fun F0 => match d_kind F0 with
                                    | KClass => false
                                    | KFunc => (Nat.eqb (d_scope F0) sc || in_scope sc (d_scopes F0))
                                               && negb (existsb (Nat.eqb (d_scope F0)) (t_within t))
                                               && existsb (Nat.eqb (d_scope F0)) (o_scopes s)
                                    end) (defs m) = true).
    { apply existsb_exists. exists F. split; [exact HF|]. rewrite Ek.
      apply andb_true_iff in E1 as [E1 _]. now rewrite E1, Hin. }
    congruence. }
  unfold uses_of, refers_outer. rewrite filter_In, Ha, Hl, Eb. cbn [orb andb].
  rewrite !andb_true_iff, text_eqb_eq. tauto.
Qed.

Example uses_of_partial_example :
  (* in shadow_module the function name f is a target with no inner store: print(f) would be found *)
  no_inner_store 0 (Target [102]%N (2, 16)%Z (2, 17)%Z [1%nat]) shadow_module = true.
Proof. reflexivity. Qed.

(* ---------------------------------------------------------------------------------------- *)
(* Part C: generated names *)

Fixpoint nodup_text (l : list ident) : bool :=
  match l with [] => true | x :: t => negb (mem x t) && nodup_text t end.
Lemma nodup_text_NoDup l : nodup_text l = true -> NoDup l.
Proof.
  induction l as [|x t IH]; cbn; [constructor|]. intros H. apply andb_true_iff in H as [H1 H2].
  constructor; [|now apply IH]. apply negb_true_iff in H1. now apply mem_false_not_In.
Qed.

Lemma NoDup_filter {A} (f : A -> bool) l : NoDup l -> NoDup (filter f l).
Proof.
  induction l as [|x t IH]; cbn; intros H; [constructor|]. apply NoDup_cons_iff in H as [Hn H].
  destruct (f x); [|now apply IH]. constructor; [|now apply IH]. intros Hin. apply filter_In in Hin. tauto.
Qed.

Lemma loop_candidates_NoDup : NoDup loop_candidates.
Proof. apply nodup_text_NoDup. vm_compute. reflexivity. Qed.

(* T19.7: every generated loop-variable name is unused, the names are pairwise different and are
   one or two lower-case letters *)
Theorem loop_names_fresh used n : In n (loop_names used) -> ~ In n used.
Proof. unfold loop_names. intros H. apply filter_In in H as [_ H]. apply negb_true_iff in H. now apply mem_false_not_In. Qed.

Theorem loop_names_NoDup used : NoDup (loop_names used).
Proof. apply NoDup_filter, loop_candidates_NoDup. Qed.

Theorem loop_names_shape used n :
  In n (loop_names used) -> n <> [] /\ forallb is_lower n = true /\ (length n <= 2)%nat.
Proof.
  unfold loop_names. intros H. apply filter_In in H as [H _].
  assert (Hall : forallb (fun n => negb (match n with [] => true | _ => false end) && forallb is_lower n
                                   && Nat.leb (length n) 2) loop_candidates = true) by (vm_compute; reflexivity).
  rewrite forallb_forall in Hall. specialize (Hall _ H).
  apply andb_true_iff in Hall as [Hall H3]. apply andb_true_iff in Hall as [H1 H2].
  repeat split; [now destruct n|exact H2|now apply Nat.leb_le].
Qed.

(* ... but a generated name can be a keyword: with a..z and aa..ar in use the first free name is "as" *)
Theorem loop_names_keyword_refuted :
  exists used n, hd_error (loop_names used) = Some n /\ In n KEYWORDS.
Proof.
  exists (firstn 44 loop_candidates), [97; 115]%N. split; [vm_compute; reflexivity|].
  apply mem_In. vm_compute. reflexivity.
Qed.

Theorem loop_names_keyword_partial used n :
  (length (filter (fun c => negb (mem c used)) (firstn 44 loop_candidates)) >= 1)%nat ->
  hd_error (loop_names used) = Some n -> ~ In n KEYWORDS.
Proof.
  (* if one of the first 44 candidates (a..z, aa..ar) is free, the first free name is among them,
     and none of those is a keyword *)
  unfold loop_names. intros Hlen Hhd.
  assert (Es : loop_candidates = firstn 44 loop_candidates ++ skipn 44 loop_candidates) by (symmetry; apply firstn_skipn).
  rewrite Es, filter_app in Hhd.
  destruct (filter (fun c => negb (mem c used)) (firstn 44 loop_candidates)) as [|x t] eqn:Ef; [cbn in Hlen; lia|].
  cbn in Hhd. injection Hhd as <-.
  assert (Hin : In x (firstn 44 loop_candidates)).
  { assert (In x (x :: t)) by now left. rewrite <- Ef in H. now apply filter_In in H as [H _]. }
  assert (Hall : forallb (fun c => negb (mem c KEYWORDS)) (firstn 44 loop_candidates) = true) by (vm_compute; reflexivity).
  rewrite forallb_forall in Hall. specialize (Hall _ Hin). apply negb_true_iff in Hall. now apply mem_false_not_In.
Qed.

(* overused_constant: every generated name is free, and the names are pairwise different *)
Theorem pick_index_free bl i : pick_index bl = Some i -> ~ In (overused_name i) bl.
Proof.
  unfold pick_index. destruct (mem (overused_name (pick_fuel 11 0 bl)) bl) eqn:E; [discriminate|].
  intros [= <-]. now apply mem_false_not_In.
Qed.

Lemma next_free_free fuel i bl j : next_free fuel i bl = Some j -> ~ In (overused_name j) bl.
Proof.
  revert i; induction fuel as [|f IH]; intros i; cbn [next_free]; [discriminate|].
  destruct (mem (overused_name i) bl) eqn:E; [apply IH|]. intros [= <-]. now apply mem_false_not_In.
Qed.

Lemma overused_seq_fresh k : forall i bl n, In n (overused_seq k i bl) -> ~ In n bl.
Proof.
  induction k as [|k IH]; intros i bl n; cbn [overused_seq]; [contradiction|].
  destruct (next_free (S (List.length bl)) i bl) as [j|] eqn:E; [|contradiction].
  intros [<-|Hin]; [exact (next_free_free _ _ _ _ E)|].
  intros Hb. apply (IH _ _ _ Hin). now right.
Qed.

Lemma overused_seq_NoDup k : forall i bl, NoDup (overused_seq k i bl).
Proof.
  induction k as [|k IH]; intros i bl; cbn [overused_seq]; [constructor|].
  destruct (next_free (S (List.length bl)) i bl) as [j|] eqn:E; [|constructor].
  constructor; [|apply IH]. intros Hin. apply (overused_seq_fresh _ _ _ _ Hin). now left.
Qed.

Theorem overused_names_fresh bl k n : In n (overused_names bl k) -> ~ In n bl.
Proof. unfold overused_names. destruct (pick_index bl); [apply overused_seq_fresh|contradiction]. Qed.
Theorem overused_names_NoDup bl k : NoDup (overused_names bl k).
Proof. unfold overused_names. destruct (pick_index bl); [apply overused_seq_NoDup|constructor]. Qed.
Theorem overused_string_name_free bl c n :
  overused_string_name bl c = Some n -> n = c /\ ~ In n bl /\ is_ident n = true.
Proof.
  unfold overused_string_name. destruct (mem c bl) eqn:E1; [discriminate|].
  destruct (is_ident c) eqn:E2; [|discriminate]. cbn. intros [= <-].
  repeat split; [now apply mem_false_not_In|exact E2].
Qed.

Lemma firstn_incl {A} k (l : list A) x : In x (firstn k l) -> In x l.
Proof.
  revert l; induction k as [|k IH]; intros [|a l]; cbn; try contradiction.
  intros [->|H]; [now left|right; now apply IH].
Qed.

(* var_n: free *)
Theorem var_names_fresh used k n : In n (var_names used k) -> ~ In n used.
Proof.
  unfold var_names. intros H. apply firstn_incl in H. apply filter_In in H as [_ H].
  apply negb_true_iff in H. now apply mem_false_not_In.
Qed.
Example var_names_example :
  var_names [var_name 0; var_name 2] 2 = [var_name 1; var_name 3].
Proof. vm_compute. reflexivity. Qed.

(* {value}_{target}: used only when free *)
Theorem keys_items_fresh used value target n : keys_items_decision used value target = Some n -> ~ In n used.
Proof.
  unfold keys_items_decision. destruct (mem (keys_items_name value target) used) eqn:E; [discriminate|].
  intros [= <-]. now apply mem_false_not_In.
Qed.

(* ---------------------------------------------------------------------------------------- *)
(* T19.8 (round 5) the list of mentions is an INPUT of the decision.

   decide_alpha / align_alpha speak about the places that are in that list.  They speak about the
   program exactly when the list holds every place where an identifier is written.  `places` is
   that ground truth, `ms` is what fixes._iter_identifier_mentions hands to the rule; the premise is
   named, and the two `_refuted` theorems show that it cannot be dropped: with a single place
   missing from the list (the star capture of `case [x, *name]`), both halves of the property fail. *)

Definition mentions_complete (places ms : list mention) : Prop := incl places ms.

Theorem decide_alpha_complete imp dfn ms cs pres places p1 p2 :
  wf_decision ms cs -> mentions_complete places ms -> In p1 places -> In p2 places ->
  (mention_sub (decide imp dfn ms cs pres) p1 = mention_sub (decide imp dfn ms cs pres) p2
   <-> m_name p1 = m_name p2).
Proof.
  intros Hwf Hc H1 H2. apply (decide_alpha imp dfn ms cs pres Hwf); now apply Hc.
Qed.

Theorem align_alpha_complete pres m places p1 p2 :
  wf_modl m = true -> mentions_complete places (mentions m) -> In p1 places -> In p2 places ->
  (mention_sub (align pres m) p1 = mention_sub (align pres m) p2 <-> m_name p1 = m_name p2).
Proof.
  intros Hwf Hc H1 H2. apply (align_alpha pres m p1 p2 Hwf); now apply Hc.
Qed.

(* def describe(seq):
       tailItems = "n/a"                 node 0, candidate tail_items
       match seq:
           case [head, *tail_items]: ... the place that the list does not contain
       return tailItems                  node 1, candidate tail_items                              *)
Definition tail_items_old : ident := [116; 97; 105; 108; 73; 116; 101; 109; 115]%N.        (* tailItems *)
Definition tail_items_new : ident := [116; 97; 105; 108; 95; 105; 116; 101; 109; 115]%N.   (* tail_items *)
Definition star_ms : list mention :=
  [Mention (Some 0%nat) tail_items_old; Mention (Some 1%nat) tail_items_old].
Definition star_cs : list cand :=
  [Cand 0 tail_items_old [tail_items_new]; Cand 1 tail_items_old [tail_items_new]].

Lemma star_wf : wf_decision star_ms star_cs.
Proof.
  split.
  - cbn. repeat constructor; cbn; intuition discriminate.
  - intros m n c Hm _ Hc _. cbn in Hm, Hc.
    destruct Hm as [<-|[<-|[]]]; destruct Hc as [<-|[<-|[]]]; reflexivity.
Qed.

(* capture: two different variables carry the same identifier after the pass *)
Theorem mentions_incomplete_capture_refuted :
  exists ms cs missing p,
    wf_decision ms cs /\ In p ms /\ ~ In missing ms
    /\ m_name p <> m_name missing
    /\ mention_sub (decide [] [] ms cs []) p = mention_sub (decide [] [] ms cs []) missing.
Proof.
  exists star_ms, star_cs, (Mention None tail_items_new), (Mention (Some 0%nat) tail_items_old).
  split; [exact star_wf|]. split; [now left|]. split.
  - cbn. intros [H|[H|[]]]; discriminate H.
  - split; [cbn; discriminate|]. vm_compute. reflexivity.
Qed.

(* partial renaming: one variable carries two identifiers after the pass
   (restItems = [] ... case [first, *restItems] ... return restItems) *)
Theorem mentions_incomplete_partial_rename_refuted :
  exists ms cs missing p,
    wf_decision ms cs /\ In p ms /\ ~ In missing ms
    /\ m_name p = m_name missing
    /\ mention_sub (decide [] [] ms cs []) p <> mention_sub (decide [] [] ms cs []) missing.
Proof.
  exists star_ms, star_cs, (Mention None tail_items_old), (Mention (Some 0%nat) tail_items_old).
  split; [exact star_wf|]. split; [now left|]. split.
  - cbn. intros [H|[H|[]]]; discriminate H.
  - split; [reflexivity|]. vm_compute. discriminate.
Qed.

(* with the place in the list, the same candidates are refused (capture) *)
Example mentions_complete_capture_blocked :
  decide [] [] (Mention None tail_items_new :: star_ms) star_cs [] = [].
Proof. vm_compute. reflexivity. Qed.

(* ... and nothing is renamed when a place of the old identifier is not a renamed node (partial renaming) *)
Example mentions_complete_partial_rename_blocked :
  decide [] [] (Mention None tail_items_old :: star_ms) star_cs [] = [].
Proof. vm_compute. reflexivity. Qed.

(* non-vacuity of the premise: it holds for the complete lists above *)
Example mentions_complete_example :
  mentions_complete (Mention None tail_items_new :: star_ms) (Mention None tail_items_new :: star_ms)
  /\ decide [] [] star_ms star_cs [] <> [].
Proof. split; [apply incl_refl|vm_compute; discriminate]. Qed.
