(* K9 -- theorems about RenameModel.v (all modules, all sizes). *)
From Coq Require Import List NArith ZArith Bool Lia Arith.
Import ListNotations.
Require Import Pyrefact.NamingModel Pyrefact.RenameModel.

(* ---------------------------------------------------------------------------------------- *)
(* basics *)

Lemma text_eqb_refl a : text_eqb a a = true.
Proof. induction a as [|x a IH]; cbn; [reflexivity|]. now rewrite N.eqb_refl, IH. Qed.

Lemma text_eqb_eq a b : text_eqb a b = true <-> a = b.
Proof.
  split; [|intros ->; apply text_eqb_refl].
  revert b; induction a as [|x a IH]; intros [|y b]; cbn; try discriminate; [reflexivity|].
  intros H. apply andb_true_iff in H as [H1 H2]. apply N.eqb_eq in H1. now rewrite H1, (IH _ H2).
Qed.

Lemma text_eqb_neq a b : text_eqb a b = false <-> a <> b.
Proof.
  split.
  - intros H E. apply text_eqb_eq in E. congruence.
  - intros H. destruct (text_eqb a b) eqn:E; [|reflexivity]. apply text_eqb_eq in E. contradiction.
Qed.

Lemma mem_In x l : mem x l = true <-> In x l.
Proof.
  unfold mem. rewrite existsb_exists. split.
  - intros (y & Hy & E). apply text_eqb_eq in E. now subst.
  - intros H. exists x. split; [exact H|apply text_eqb_refl].
Qed.

Lemma mem_false_not_In x l : mem x l = false <-> ~ In x l.
Proof.
  split.
  - intros H Hin. apply mem_In in Hin. congruence.
  - intros H. destruct (mem x l) eqn:E; [|reflexivity]. apply mem_In in E. contradiction.
Qed.

(* ---------------------------------------------------------------------------------------- *)
(* Part A: the decision *)

Lemma step1_In bl cs n old s :
  In (n, old, s) (step1 bl cs) ->
  mem s bl = false /\ exists c, In c cs /\ c_node c = n /\ c_old c = old /\ single (c_subs c) = Some s.
Proof.
  unfold step1. rewrite in_flat_map. intros (c & Hc & Hin).
  destruct (single (c_subs c)) as [s'|] eqn:Es; [|contradiction].
  destruct (mem s' bl) eqn:Eb; [contradiction|].
  destruct Hin as [[= <- <- <-]|[]]. split; [exact Eb|]. exists c. auto.
Qed.

Lemma step2_In ms r e : In e (step2 ms r) <-> In e r /\ consistent ms r (snd (fst e)) (snd e) = true.
Proof. unfold step2. rewrite filter_In. destruct e as [[n old] s]. reflexivity. Qed.

Lemma emit_In pres r2 n old s :
  In (n, old, s) (emit pres r2) <->
  In (n, old, s) r2 /\ group_ok r2 s = true /\ old <> s /\ ~ In old pres.
Proof.
  unfold emit. rewrite filter_In. split.
  - intros [Hin H]. apply andb_true_iff in H as [H Hp]. apply andb_true_iff in H as [Hg Hn].
    repeat split; [exact Hin|exact Hg| |].
    + apply negb_true_iff in Hn. now apply text_eqb_neq.
    + apply negb_true_iff in Hp. now apply mem_false_not_In.
  - intros (Hin & Hg & Hn & Hp). split; [exact Hin|].
    apply text_eqb_neq in Hn. apply mem_false_not_In in Hp. now rewrite Hg, Hn, Hp.
Qed.

Lemma decide_In imp dfn ms cs pres n old s :
  In (n, old, s) (decide imp dfn ms cs pres) <->
  let r1 := step1 (blacklist imp dfn ms) cs in
  In (n, old, s) r1 /\ consistent ms r1 old s = true
  /\ group_ok (step2 ms r1) s = true /\ old <> s /\ ~ In old pres.
Proof.
  unfold decide. rewrite emit_In, step2_In. cbn [fst snd]. tauto.
Qed.

(* T19.4: the new name is not imported, not defined, not written anywhere in the module,
   not a builtin and not a keyword *)
Theorem decide_fresh imp dfn ms cs pres n old s :
  In (n, old, s) (decide imp dfn ms cs pres) ->
  ~ In s imp /\ ~ In s dfn /\ ~ In s (map m_name ms) /\ ~ In s BUILTINS /\ ~ In s KEYWORDS.
Proof.
  intros H. apply decide_In in H as (H1 & _). apply step1_In in H1 as [Hb _].
  apply mem_false_not_In in Hb. unfold blacklist in Hb. rewrite !in_app_iff in Hb. tauto.
Qed.

(* T19.5: two nodes that receive the same new name had the same old name *)
Lemma group_ok_same r2 s e1 e2 :
  group_ok r2 s = true -> In e1 r2 -> In e2 r2 -> snd e1 = s -> snd e2 = s -> snd (fst e1) = snd (fst e2).
Proof.
  unfold group_ok. intros Hg H1 H2 E1 E2.
  assert (F1 : In e1 (filter (fun e : entry => text_eqb (snd e) s) r2))
    by (apply filter_In; split; [exact H1|now apply text_eqb_eq]).
  assert (F2 : In e2 (filter (fun e : entry => text_eqb (snd e) s) r2))
    by (apply filter_In; split; [exact H2|now apply text_eqb_eq]).
  destruct (filter (fun e : entry => text_eqb (snd e) s) r2) as [|[[n0 old0] s0] t]; [contradiction|].
  rewrite forallb_forall in Hg.
  assert (Hall : forall e, In e (((n0, old0), s0) :: t) -> snd (fst e) = old0).
  { intros e [<-|Hin]; [reflexivity|]. apply Hg in Hin. now apply text_eqb_eq in Hin. }
  now rewrite (Hall _ F1), (Hall _ F2).
Qed.

Theorem decide_injective imp dfn ms cs pres n1 old1 n2 old2 s :
  In (n1, old1, s) (decide imp dfn ms cs pres) -> In (n2, old2, s) (decide imp dfn ms cs pres) -> old1 = old2.
Proof.
  intros H1 H2. apply decide_In in H1 as (A1 & C1 & G & _). apply decide_In in H2 as (A2 & C2 & _).
  cbv zeta in *.
  assert (I1 : In (n1, old1, s) (step2 ms (step1 (blacklist imp dfn ms) cs))) by (apply step2_In; now split).
  assert (I2 : In (n2, old2, s) (step2 ms (step1 (blacklist imp dfn ms) cs))) by (apply step2_In; now split).
  exact (group_ok_same _ _ _ _ G I1 I2 eq_refl eq_refl).
Qed.

(* the renamings dict has one entry per node *)
Lemma step1_functional bl cs :
  NoDup (map c_node cs) ->
  forall n o1 s1 o2 s2, In (n, o1, s1) (step1 bl cs) -> In (n, o2, s2) (step1 bl cs) -> o1 = o2 /\ s1 = s2.
Proof.
  intros Hnd n o1 s1 o2 s2 H1 H2.
  apply step1_In in H1 as (_ & c1 & Hc1 & N1 & O1 & S1). apply step1_In in H2 as (_ & c2 & Hc2 & N2 & O2 & S2).
  assert (c1 = c2).
  { clear - Hnd Hc1 Hc2 N1 N2. induction cs as [|c cs IH]; [contradiction|].
    cbn in Hnd. apply NoDup_cons_iff in Hnd as [Hnot Hnd'].
    destruct Hc1 as [<-|Hc1], Hc2 as [<-|Hc2]; [reflexivity| | |now apply IH].
    - exfalso. apply Hnot. rewrite N1, <- N2. now apply in_map.
    - exfalso. apply Hnot. rewrite N2, <- N1. now apply in_map. }
  subst c2. split; [congruence|congruence].
Qed.

Lemma lookup_Some n r s : lookup n r = Some s -> exists old, In (n, old, s) r.
Proof.
  induction r as [|[[n' old'] s'] t IH]; cbn; [discriminate|].
  destruct (Nat.eqb n n') eqn:E.
  - apply Nat.eqb_eq in E. intros [= <-]. subst. eauto.
  - intros H. destruct (IH H) as [old Hin]. eauto.
Qed.

Lemma lookup_In n old s r :
  (forall o1 s1 o2 s2, In (n, o1, s1) r -> In (n, o2, s2) r -> o1 = o2 /\ s1 = s2) ->
  In (n, old, s) r -> lookup n r = Some s.
Proof.
  intros Hf Hin. destruct (lookup n r) as [s'|] eqn:E.
  - destruct (lookup_Some _ _ _ E) as [old' Hin']. now destruct (Hf _ _ _ _ Hin Hin') as [_ ->].
  - exfalso. clear Hf. induction r as [|[[n' old'] s'] t IH]; [contradiction|]. cbn in E.
    destruct (Nat.eqb n n') eqn:En; [discriminate|].
    destruct Hin as [[= -> -> ->]|Hin]; [now rewrite Nat.eqb_refl in En|now apply IH].
Qed.

Lemma lookup_None n r : lookup n r = None -> forall old s, ~ In (n, old, s) r.
Proof.
  induction r as [|[[n' old'] s'] t IH]; cbn; [tauto|].
  destruct (Nat.eqb n n') eqn:E; [discriminate|]. intros H old s [[= -> -> ->]|Hin].
  - now rewrite Nat.eqb_refl in E.
  - exact (IH H _ _ Hin).
Qed.

(* well-formed input of the decision: `renamings` is a dict (one candidate per node) and the old name
   recorded for a node is the identifier written at that node *)
Definition wf_decision (ms : list mention) (cs : list cand) : Prop :=
  NoDup (map c_node cs)
  /\ forall m n c, In m ms -> m_node m = Some n -> In c cs -> c_node c = n -> c_old c = m_name m.

Section Decision.
  Variables (imp dfn : list ident) (ms : list mention) (cs : list cand) (pres : list ident).
  Hypothesis WF : wf_decision ms cs.
  Let r1 := step1 (blacklist imp dfn ms) cs.
  Let E := decide imp dfn ms cs pres.

  Lemma E_sub_r1 n old s : In (n, old, s) E -> In (n, old, s) r1.
  Proof. intros H. now apply decide_In in H as (H & _). Qed.

  Lemma E_functional n o1 s1 o2 s2 : In (n, o1, s1) E -> In (n, o2, s2) E -> o1 = o2 /\ s1 = s2.
  Proof. intros H1 H2. destruct WF as [Hnd _]. exact (step1_functional _ _ Hnd _ _ _ _ _ (E_sub_r1 _ _ _ H1) (E_sub_r1 _ _ _ H2)). Qed.

  Lemma r1_old m n old s : In m ms -> m_node m = Some n -> In (n, old, s) r1 -> old = m_name m.
  Proof.
    intros Hm Hn Hin. apply step1_In in Hin as (_ & c & Hc & Nc & Oc & _).
    destruct WF as [_ Hold]. rewrite <- Oc. exact (Hold _ _ _ Hm Hn Hc Nc).
  Qed.

  (* T19.6: when one place where identifier x is written is renamed to s, EVERY place where x is
     written is a renamed node, renamed to s *)
  Theorem decide_consistent n' x s m :
    In (n', x, s) E -> In m ms -> m_name m = x -> exists n, m_node m = Some n /\ In (n, x, s) E.
  Proof.
    intros HE Hm Hx. pose proof HE as HE'. apply decide_In in HE' as (Hin & Hc & Hg & Hne & Hp).
    fold r1 in Hin, Hc, Hg.
    unfold consistent in Hc. rewrite forallb_forall in Hc. specialize (Hc _ Hm).
    assert (Ex : text_eqb (m_name m) x = true) by now apply text_eqb_eq. rewrite Ex in Hc.
    apply text_eqb_eq in Hc. unfold mention_sub in Hc.
    destruct (m_node m) as [n|] eqn:En; [|congruence].
    destruct (lookup n r1) as [s'|] eqn:El; [|congruence]. subst s'.
    destruct (lookup_Some _ _ _ El) as [old Hold]. exists n. split; [reflexivity|].
    assert (old = x) by (rewrite <- Hx; exact (r1_old _ _ _ _ Hm En Hold)). subst old.
    apply decide_In. fold r1. repeat split; try assumption.
    unfold consistent. apply forallb_forall. intros m2 Hm2.
    pose proof (proj1 (forallb_forall _ _) (proj1 (proj2 (proj1 (decide_In _ _ _ _ _ _ _ _) HE))) m2 Hm2) as H2.
    exact H2.
  Qed.

  Lemma mention_sub_changed m v :
    In m ms -> mention_sub E m = v -> v <> m_name m ->
    exists n, m_node m = Some n /\ In (n, m_name m, v) E.
  Proof.
    unfold mention_sub. intros Hm Hv Hne. destruct (m_node m) as [n|] eqn:En; [|congruence].
    destruct (lookup n E) as [s|] eqn:El; [|congruence]. subst s.
    destruct (lookup_Some _ _ _ El) as [old Hin]. exists n. split; [reflexivity|].
    now rewrite <- (r1_old _ _ _ _ Hm En (E_sub_r1 _ _ _ Hin)).
  Qed.

  Lemma mention_sub_of_entry m n s :
    In m ms -> m_node m = Some n -> In (n, m_name m, s) E -> mention_sub E m = s.
  Proof.
    intros Hm En Hin. unfold mention_sub. rewrite En.
    now rewrite (lookup_In _ _ _ _ (fun o1 s1 o2 s2 => E_functional n o1 s1 o2 s2) Hin).
  Qed.

  Lemma mention_sub_unchanged_or m :
    In m ms -> mention_sub E m = m_name m \/ exists n, m_node m = Some n /\ In (n, m_name m, mention_sub E m) E.
  Proof.
    intros Hm. destruct (text_eqb (mention_sub E m) (m_name m)) eqn:Ev.
    - left. now apply text_eqb_eq.
    - right. apply text_eqb_neq in Ev. now apply mention_sub_changed.
  Qed.

  (* capture-freedom + consistency in one statement: after the pass two places carry the same
     identifier iff they did before (the pass is an injective renaming of identifiers) *)
  Theorem decide_alpha m1 m2 :
    In m1 ms -> In m2 ms -> (mention_sub E m1 = mention_sub E m2 <-> m_name m1 = m_name m2).
  Proof.
    intros H1 H2. split.
    - intros Heq.
      destruct (mention_sub_unchanged_or _ H1) as [U1|(n1 & N1 & I1)];
        destruct (mention_sub_unchanged_or _ H2) as [U2|(n2 & N2 & I2)].
      + congruence.
      + (* m2 renamed to the identifier still written at m1: impossible, the new name is fresh *)
        exfalso. destruct (decide_fresh _ _ _ _ _ _ _ _ I2) as (_ & _ & Hf & _).
        apply Hf. rewrite <- Heq, U1. now apply in_map.
      + exfalso. destruct (decide_fresh _ _ _ _ _ _ _ _ I1) as (_ & _ & Hf & _).
        apply Hf. rewrite Heq, U2. now apply in_map.
      + rewrite Heq in I1. exact (decide_injective _ _ _ _ _ _ _ _ _ _ I1 I2).
    - intros Hn.
      destruct (mention_sub_unchanged_or _ H1) as [U1|(n1 & N1 & I1)].
      + destruct (mention_sub_unchanged_or _ H2) as [U2|(n2 & N2 & I2)]; [congruence|].
        destruct (decide_consistent _ _ _ _ I2 H1 Hn) as (n & Nn & In1).
        rewrite <- Hn in In1. now rewrite (mention_sub_of_entry _ _ _ H1 Nn In1).
      + destruct (decide_consistent _ _ _ _ I1 H2 (eq_sym Hn)) as (n & Nn & In2).
        rewrite Hn in In2. now rewrite (mention_sub_of_entry _ _ _ H2 Nn In2).
  Qed.
End Decision.

(* ---------------------------------------------------------------------------------------- *)
(* the whole pass (`align`) satisfies the hypotheses of the decision theorems *)

Lemma nodup_nat_NoDup l : nodup_nat l = true -> NoDup l.
Proof.
  induction l as [|x t IH]; cbn; [constructor|]. intros H. apply andb_true_iff in H as [H1 H2].
  constructor; [|now apply IH]. intros Hin. apply negb_true_iff in H1.
  assert (existsb (Nat.eqb x) t = true) by (apply existsb_exists; exists x; split; [exact Hin|apply Nat.eqb_refl]).
  congruence.
Qed.

(* "identifier x is written at node n" *)
Definition names (m : modl) (n : nat) (x : ident) : Prop :=
  (exists o, In o (occs m) /\ o_id o = n /\ o_name o = x) \/ (exists d, In d (defs m) /\ d_id d = n /\ d_name d = x).

Lemma NoDup_map_inj {A} (f : A -> nat) l a b : NoDup (map f l) -> In a l -> In b l -> f a = f b -> a = b.
Proof.
  induction l as [|c l IH]; [contradiction|]. cbn. intros Hnd Ha Hb E.
  apply NoDup_cons_iff in Hnd as [Hnot Hnd].
  destruct Ha as [<-|Ha], Hb as [<-|Hb]; [reflexivity| | |now apply IH].
  - exfalso. apply Hnot. rewrite E. now apply in_map.
  - exfalso. apply Hnot. rewrite <- E. now apply in_map.
Qed.

Lemma NoDup_app_parts {A} (a b : list A) :
  NoDup (a ++ b) -> NoDup a /\ NoDup b /\ (forall x, In x a -> In x b -> False).
Proof.
  induction a as [|x a IH]; cbn; intros H.
  - repeat split; [constructor|exact H|tauto].
  - apply NoDup_cons_iff in H as [Hnot H]. destruct (IH H) as (Ha & Hb & Hd).
    repeat split; [|exact Hb|].
    + constructor; [|exact Ha]. intros Hin. apply Hnot. apply in_app_iff. now left.
    + intros y [<-|Hy] Hyb; [apply Hnot; apply in_app_iff; now right|exact (Hd _ Hy Hyb)].
Qed.

Lemma names_functional m n x y : wf_modl m = true -> names m n x -> names m n y -> x = y.
Proof.
  unfold wf_modl. intros H. apply andb_true_iff in H as [H _]. apply andb_true_iff in H as [H _].
  apply nodup_nat_NoDup in H. destruct (NoDup_app_parts _ _ H) as (Ho & Hd & Hdisj0).
  assert (Hdisj : forall o d, In o (occs m) -> In d (defs m) -> o_id o <> d_id d).
  { intros o d Ho' Hd' E. apply (Hdisj0 (o_id o)); [now apply in_map|rewrite E; now apply in_map]. }
  intros [(o1 & I1 & N1 & X1)|(d1 & I1 & N1 & X1)] [(o2 & I2 & N2 & X2)|(d2 & I2 & N2 & X2)].
  - assert (o1 = o2) by (apply (NoDup_map_inj o_id (occs m)); congruence). congruence.
  - exfalso. apply (Hdisj o1 d2 I1 I2). congruence.
  - exfalso. apply (Hdisj o2 d1 I2 I1). congruence.
  - assert (d1 = d2) by (apply (NoDup_map_inj d_id (defs m)); congruence). congruence.
Qed.

Lemma uses_of_sub sc t m o : In o (uses_of sc t m) -> In o (occs m).
Proof. unfold uses_of. intros H. now apply filter_In in H as [H _]. Qed.

Lemma item_events_names t nid sc m keep sub n old s :
  names m nid (t_name t) -> In (n, old, s) (item_events t nid sc m keep sub) -> names m n old.
Proof.
  intros Hn. unfold item_events. rewrite in_app_iff. intros [H|H].
  - destruct keep; [|contradiction]. destruct H as [[= <- <- <-]|[]]. exact Hn.
  - destruct H as [[= <- <- <-]|H]; [exact Hn|].
    apply in_map_iff in H as (o & [= <- <- <-] & Ho). left. exists o. split; [now apply uses_of_sub in Ho|auto].
Qed.

Lemma scope_events_names sc k pres m n old s : In (n, old, s) (scope_events sc k pres m) -> names m n old.
Proof.
  unfold scope_events. rewrite in_app_iff. intros [H|H]; apply in_flat_map in H as (x & Hx & H).
  - destruct (d_direct x && Nat.eqb (parent (d_scopes x)) sc); [|contradiction].
    destruct (def_sub k pres x) as [keep sub]. eapply item_events_names; [|exact H].
    right. exists x. auto.
  - destruct (o_target x && Nat.eqb (parent (o_scopes x)) sc); [|contradiction].
    destruct (occ_sub k m x) as [keep sub]. eapply item_events_names; [|exact H].
    left. exists x. auto.
Qed.

Lemma all_events_names pres m n old s : In (n, old, s) (all_events pres m) -> names m n old.
Proof.
  unfold all_events. rewrite in_app_iff. intros [H|H]; [now apply scope_events_names in H|].
  apply in_flat_map in H as (d & _ & H). destruct (visited (defs m) d); [|contradiction].
  now apply scope_events_names in H.
Qed.

(* group_events: a dict keyed by node *)
Lemma add_event_nodes e cs :
  forall k, In k (map c_node (add_event e cs)) <-> k = fst (fst e) \/ In k (map c_node cs).
Proof.
  destruct e as [[n old] s]. induction cs as [|c t IH]; intros k; cbn.
  - intuition congruence.
  - destruct (Nat.eqb (c_node c) n) eqn:E; cbn.
    + apply Nat.eqb_eq in E. rewrite E. intuition congruence.
    + rewrite IH. cbn. intuition congruence.
Qed.

Lemma add_event_NoDup e cs : NoDup (map c_node cs) -> NoDup (map c_node (add_event e cs)).
Proof.
  destruct e as [[n old] s]. induction cs as [|c t IH]; cbn; intros H.
  - constructor; [tauto|constructor].
  - apply NoDup_cons_iff in H as [Hnot H]. destruct (Nat.eqb (c_node c) n) eqn:E; cbn.
    + constructor; [|exact H]. apply Nat.eqb_eq in E. now rewrite <- E.
    + constructor; [|now apply IH]. intros Hin. apply (add_event_nodes (n, old, s)) in Hin. cbn in Hin.
      destruct Hin as [Ek|Hin]; [rewrite Ek, Nat.eqb_refl in E; discriminate|contradiction].
Qed.

Lemma add_event_old (P : nat -> ident -> Prop) e cs :
  P (fst (fst e)) (snd (fst e)) -> (forall c, In c cs -> P (c_node c) (c_old c)) ->
  forall c, In c (add_event e cs) -> P (c_node c) (c_old c).
Proof.
  destruct e as [[n old] s]. cbn. intros He. induction cs as [|c0 t IH]; cbn; intros Hcs c Hin.
  - destruct Hin as [<-|[]]. exact He.
  - destruct (Nat.eqb (c_node c0) n) eqn:E.
    + destruct Hin as [<-|Hin]; [|apply Hcs; now right]. cbn. apply Nat.eqb_eq in E. rewrite <- E. apply Hcs. now left.
    + destruct Hin as [<-|Hin]; [apply Hcs; now left|]. apply IH; [|exact Hin]. intros c' Hc'. apply Hcs. now right.
Qed.

Lemma group_events_spec (P : nat -> ident -> Prop) es :
  (forall n old s, In (n, old, s) es -> P n old) ->
  NoDup (map c_node (group_events es)) /\ forall c, In c (group_events es) -> P (c_node c) (c_old c).
Proof.
  unfold group_events. intros He.
  assert (G : forall cs, NoDup (map c_node cs) -> (forall c, In c cs -> P (c_node c) (c_old c)) ->
              NoDup (map c_node (fold_left (fun cs e => add_event e cs) es cs))
              /\ forall c, In c (fold_left (fun cs e => add_event e cs) es cs) -> P (c_node c) (c_old c)).
  { induction es as [|e es IH]; intros cs Hnd Hcs; [now split|]. cbn [fold_left]. apply IH.
    - intros n old s Hin. apply (He n old s). now right.
    - now apply add_event_NoDup.
    - apply add_event_old; [|exact Hcs]. destruct e as [[n old] s]. apply (He n old s). now left. }
  apply G; [constructor|intros c []].
Qed.

Lemma mentions_names m mm n : In mm (mentions m) -> m_node mm = Some n -> names m n (m_name mm).
Proof.
  unfold mentions. rewrite !in_app_iff. intros [H|[H|H]] Hn.
  - apply in_map_iff in H as (o & <- & Ho). cbn in *. injection Hn as <-. left. exists o. auto.
  - apply in_map_iff in H as (d & <- & Hd). cbn in *. injection Hn as <-. right. exists d.
    apply filter_In in Hd as [Hd _]. auto.
  - apply in_map_iff in H as (x & <- & _). discriminate.
Qed.

Lemma align_wf pres m : wf_modl m = true -> wf_decision (mentions m) (group_events (all_events pres m)).
Proof.
  intros Hwf. destruct (group_events_spec (names m) (all_events pres m) (all_events_names pres m)) as [Hnd Hold].
  split; [exact Hnd|]. intros mm n c Hm Hn Hc Hcn.
  apply (names_functional m n); [exact Hwf| |now apply mentions_names].
  rewrite <- Hcn. now apply Hold.
Qed.

(* ---- the theorems about one pass of align_variable_names_with_convention ---- *)

Theorem align_fresh pres m n old s :
  In (n, old, s) (align pres m) ->
  ~ In s (imported m) /\ ~ In s (defined_names m) /\ ~ In s (map m_name (mentions m))
  /\ ~ In s BUILTINS /\ ~ In s KEYWORDS.
Proof. apply decide_fresh. Qed.

Theorem align_injective pres m n1 old1 n2 old2 s :
  In (n1, old1, s) (align pres m) -> In (n2, old2, s) (align pres m) -> old1 = old2.
Proof. apply decide_injective. Qed.

Theorem align_consistent pres m n' x s mm :
  wf_modl m = true ->
  In (n', x, s) (align pres m) -> In mm (mentions m) -> m_name mm = x ->
  exists n, m_node mm = Some n /\ In (n, x, s) (align pres m).
Proof. intros Hwf. apply decide_consistent. now apply align_wf. Qed.

Theorem align_alpha pres m m1 m2 :
  wf_modl m = true -> In m1 (mentions m) -> In m2 (mentions m) ->
  (mention_sub (align pres m) m1 = mention_sub (align pres m) m2 <-> m_name m1 = m_name m2).
Proof. intros Hwf. apply decide_alpha. now apply align_wf. Qed.

Theorem align_respects_preserve pres m n old s : In (n, old, s) (align pres m) -> ~ In old pres /\ old <> s.
Proof. intros H. apply decide_In in H. tauto. Qed.

(* every renamed node carries the identifier it is recorded with *)
Theorem align_entries_named pres m n old s : In (n, old, s) (align pres m) -> names m n old.
Proof.
  intros H. apply decide_In in H as (H & _). apply step1_In in H as (_ & c & Hc & <- & <- & _).
  destruct (group_events_spec (names m) (all_events pres m) (all_events_names pres m)) as [_ Hold]. now apply Hold.
Qed.
