(* K12b -- theorems about RestoreModel.v *)
From Coq Require Import List Arith NArith Bool Lia.
Import ListNotations.
Require Import Pyrefact.RestoreModel.

Lemma cands_spec : forall origs v t, In t (cands origs v) ->
  exists o, In o origs /\ o_text o = t /\ o_val o = v /\ o_lit o = true.
Proof.
  intros origs v t H. unfold cands in H. apply in_map_iff in H. destruct H as [o [Ht Ho]].
  apply filter_In in Ho. destruct Ho as [Hin Hc]. apply andb_true_iff in Hc. destruct Hc as [Hv Hl].
  exists o. repeat split; try assumption. apply Nat.eqb_eq. exact Hv.
Qed.

(* T11.7: a node is overwritten only if its own spelling is, on its own, a literal of the node's value,
   and only with a spelling the original source used as a literal of that same value *)
Theorem restore_node_sound : forall origs news nd c,
  restore_node origs news nd = Some c ->
  n_lit nd = true /\
  forall t, In t c -> exists o, In o origs /\ o_text o = t /\ o_val o = n_val nd /\ o_lit o = true.
Proof.
  intros origs news nd c H. unfold restore_node in H.
  destruct (cands origs (n_val nd)) as [| t0 tl] eqn:E; [discriminate |].
  destruct (subset (ntexts news (n_val nd)) (t0 :: tl)); [discriminate |].
  destruct (mem (n_text nd) (t0 :: tl)); [discriminate |].
  destruct (n_lit nd) eqn:L; [| discriminate]. inversion H; subst c.
  split; [reflexivity |]. intros t Ht. apply cands_spec. rewrite E. exact Ht.
Qed.

Theorem restore_sound : forall a origs news i c,
  nth_error (restore a origs news) i = Some (Some c) ->
  exists nd, nth_error news i = Some nd /\ restore_node origs news nd = Some c.
Proof.
  intros a origs news i c H. unfold restore in H.
  assert (N : forall l j, nth_error (map (fun _ : snode => @None (list nat)) l) j <> Some (Some c)).
  { induction l as [| x l IH]; intros [| j] C; cbn in C; try discriminate.
    exact (IH j C). }
  destruct news as [| n0 news']; [destruct i; discriminate |].
  destruct origs as [| o0 origs']; [exfalso; exact (N _ _ H) |].
  destruct (a || nothing_new (o0 :: origs') (n0 :: news')); [exfalso; exact (N _ _ H) |].
  rewrite nth_error_map in H. destruct (nth_error (n0 :: news') i) as [nd |]; [| discriminate].
  exists nd. split; [reflexivity |]. cbn in H. inversion H. reflexivity.
Qed.

(* semantic reading: if the booleans mean what the harness computes them to mean for a denotation [den]
   (spelling -> value it evaluates to when parsed alone), then the overwritten and the overwriting spelling
   denote the same value, so the expression at that position keeps its value *)
Section Den.
Variable den : nat -> option nat.
Theorem restore_same_value : forall origs news nd c t,
  (forall o, In o origs -> o_lit o = true -> den (o_text o) = Some (o_val o)) ->
  (n_lit nd = true -> den (n_text nd) = Some (n_val nd)) ->
  restore_node origs news nd = Some c -> In t c ->
  den t = den (n_text nd).
Proof.
  intros origs news nd c t HO HN H Ht.
  destruct (restore_node_sound _ _ _ _ H) as [L Hc].
  destruct (Hc t Ht) as [o [Hin [Htx [Hv Hl]]]].
  rewrite (HN L), <- Htx, (HO o Hin Hl), Hv. reflexivity.
Qed.
End Den.

(* R11.8: the requirement on the overwritten spelling is necessary.  value 7 is spelled 1 ('row') in the
   original; the new source has an f-string fragment (spelling 2 = bare row, not a literal) with value 7 *)
Theorem restore_guard_needed : exists origs news nd c,
  restore_node_unguarded origs news nd = Some c /\ n_lit nd = false /\ restore_node origs news nd = None.
Proof.
  exists [mkO 7 1 true], [mkN 7 2 false], (mkN 7 2 false), [1]. vm_compute. repeat split.
Qed.

(* ---------------------------------------------------------------------------------------------- *)
(* most_common picks an element of the list *)
Lemma most_common_from_in : forall l all best, In (most_common_from best l all) (best :: l).
Proof.
  induction l as [| x tl IH]; intros all best; cbn [most_common_from].
  - left. reflexivity.
  - destruct (IH all (if count best all <? count x all then x else best)) as [H | H].
    + destruct (count best all <? count x all); [right; left | left]; exact H.
    + right. right. exact H.
Qed.

Lemma most_common_in : forall l, l <> [] -> In (most_common l) l.
Proof.
  intros [| x tl] H; [congruence |]. unfold most_common. apply most_common_from_in.
Qed.

(* T11.7 for the spelling actually written *)
Theorem restore_pick_sound : forall origs news nd c,
  restore_node origs news nd = Some c ->
  n_lit nd = true /\
  exists o, In o origs /\ o_text o = most_common c /\ o_val o = n_val nd /\ o_lit o = true.
Proof.
  intros origs news nd c H. destruct (restore_node_sound _ _ _ _ H) as [L Hc]. split; [exact L |].
  apply Hc, most_common_in. intros ->. unfold restore_node in H.
  destruct (cands origs (n_val nd)); [discriminate |].
  destruct (subset _ _); [discriminate |]. destruct (mem _ _); [discriminate |].
  destruct (n_lit nd); discriminate.
Qed.

(* ---------------------------------------------------------------------------------------------- *)
(* T11.13 the spelling written after the prefix adjustment (repair c664901) *)
Lemma lookup_adj_in : forall adj t p w d,
  lookup_adj adj t p = Some (w, d) -> exists p', In (t, p', w, d) adj /\ leqb p' p = true.
Proof.
  intros adj t p w d H. unfold lookup_adj in H.
  destruct (find _ adj) as [e |] eqn:F; [| discriminate]. inversion H; subst w d. clear H.
  apply find_some in F. destruct F as [Hin Hc]. apply andb_true_iff in Hc. destruct Hc as [Ht Hp].
  apply Nat.eqb_eq in Ht. destruct e as [[[t0 p0] w0] d0]. cbn in *. subst t0.
  exists p0. split; assumption.
Qed.

(* [written] is either the most common original spelling itself (same prefix letters), with literal_eval's
   verdict about that spelling, or an entry of the table of pasted spellings for exactly that spelling *)
Theorem written_spec : forall origs adj nd c w d,
  written origs adj nd c = Some (w, d) ->
  (w = most_common c /\
   exists o, In o origs /\ o_text (wo o) = w /\ o_val (wo o) = n_val (wn nd) /\ o_lit (wo o) = true /\
             o_eval o = d /\ mods_of (n_pre nd) = mods_of (o_pre o))
  \/ (exists p, In (most_common c, p, w, d) adj /\ leqb p (prefix_of (mods_of (n_pre nd))) = true).
Proof.
  intros origs adj nd c w d H. unfold written in H.
  destruct (find _ origs) as [o |] eqn:F; [| discriminate].
  apply find_some in F. destruct F as [Hin Hc].
  apply andb_true_iff in Hc. destruct Hc as [Hc Hl]. apply andb_true_iff in Hc. destruct Hc as [Ht Hv].
  apply Nat.eqb_eq in Ht. apply Nat.eqb_eq in Hv.
  destruct (mods_eqb (mods_of (n_pre nd)) (mods_of (o_pre o))) eqn:M.
  - inversion H; subst w d. left. split; [reflexivity |]. exists o. repeat split; try assumption.
    destruct (mods_of (n_pre nd)) as [[f1 r1] b1]. destruct (mods_of (o_pre o)) as [[f2 r2] b2].
    cbn in M. apply andb_true_iff in M. destruct M as [M Mb]. apply andb_true_iff in M. destruct M as [Mf Mr].
    apply Bool.eqb_prop in Mf. apply Bool.eqb_prop in Mr. apply Bool.eqb_prop in Mb. subst. reflexivity.
  - right. apply lookup_adj_in in H. exact H.
Qed.

(* a node is overwritten only if its own spelling is a literal of its value, and only with a spelling that
   literal_eval evaluates to the node's value *)
Theorem restore_write_node_sound : forall origs news adj nd w,
  restore_write_node origs news adj nd = Some w ->
  n_lit (wn nd) = true /\
  exists c, restore_node (map wo origs) (map wn news) (wn nd) = Some c /\
            written origs adj nd c = Some (w, Some (n_val (wn nd))).
Proof.
  intros origs news adj nd w H. unfold restore_write_node in H.
  destruct (restore_node (map wo origs) (map wn news) (wn nd)) as [c |] eqn:R; [| discriminate].
  destruct (written origs adj nd c) as [[w0 [v |]] |] eqn:W; try discriminate.
  destruct (v =? n_val (wn nd)) eqn:E; [| discriminate]. inversion H; subst w0.
  apply Nat.eqb_eq in E. subst v.
  split; [exact (proj1 (restore_node_sound _ _ _ _ R)) |]. exists c. split; [reflexivity | exact W].
Qed.

Theorem restore_write_sound : forall a origs news adj i w,
  nth_error (restore_write a origs news adj) i = Some (Some w) ->
  exists nd, nth_error news i = Some nd /\ restore_write_node origs news adj nd = Some w.
Proof.
  intros a origs news adj i w H. unfold restore_write in H.
  assert (N : forall l j, nth_error (map (fun _ : wnode => @None nat) l) j <> Some (Some w)).
  { induction l as [| x l IH]; intros [| j] C; cbn in C; try discriminate.
    exact (IH j C). }
  destruct news as [| n0 news']; [destruct i; discriminate |].
  destruct origs as [| o0 origs']; [exfalso; exact (N _ _ H) |].
  destruct (a || nothing_new (map wo (o0 :: origs')) (map wn (n0 :: news'))); [exfalso; exact (N _ _ H) |].
  rewrite nth_error_map in H. destruct (nth_error (n0 :: news') i) as [nd |]; [| discriminate].
  exists nd. split; [reflexivity |]. cbn in H. inversion H. reflexivity.
Qed.

(* semantic reading: for ANY evaluation [den] of spellings that the verdicts are computed from (o_eval, the
   table of pasted spellings, n_lit), the spelling written evaluates to what the overwritten one evaluates to *)
Section DenW.
Variable den : nat -> option nat.
Theorem restore_write_same_value : forall origs news adj nd w,
  (forall o, In o origs -> o_eval o = Some (n_val (wn nd)) -> den (o_text (wo o)) = Some (n_val (wn nd))) ->
  (forall t p w', In (t, p, w', Some (n_val (wn nd))) adj -> den w' = Some (n_val (wn nd))) ->
  (n_lit (wn nd) = true -> den (n_text (wn nd)) = Some (n_val (wn nd))) ->
  restore_write_node origs news adj nd = Some w ->
  den w = den (n_text (wn nd)).
Proof.
  intros origs news adj nd w HO HA HN H.
  destruct (restore_write_node_sound _ _ _ _ _ H) as [L [c [_ W]]]. rewrite (HN L).
  destruct (written_spec _ _ _ _ _ _ W) as [[_ [o [Hin [Ht [_ [_ [He _]]]]]]] | [p [Hin _]]].
  - rewrite <- Ht. exact (HO o Hin He).
  - exact (HA _ _ _ Hin).
Qed.
End DenW.

(* R11.14 (pinned): before repair c664901 the pasted spelling was used unchecked.  value 7 is spelled
   1 (r'\n', prefix r) twice in the original; the new source spells it 2 ('\\n', no prefix letters); pasting
   gives spelling 3 ('\n'), which evaluates to another value (8).  The repaired step leaves the node alone. *)
Theorem old_restore_write_refuted : exists origs news adj nd w v,
  restore_write_node_unchecked origs news adj nd = Some (w, Some v) /\ v <> n_val (wn nd) /\
  restore_write_node origs news adj nd = None.
Proof.
  exists [mkWO (mkO 7 1 true) [114%N] (Some 7); mkWO (mkO 7 1 true) [114%N] (Some 7)],
         [mkWN (mkN 7 2 true) []], [(1, [], 3, Some 8)], (mkWN (mkN 7 2 true) []), 3, 8.
  vm_compute. repeat split. discriminate.
Qed.

(* T11.11 f-strings: the spelling written is a valid original spelling with the node's unparse key, and the
   overwritten spelling is valid Python *)
Theorem frestore_node_sound : forall origs nd r,
  frestore_node origs nd = Some r ->
  fn_valid nd = true /\
  exists o, In o origs /\ fo_text o = r /\ fo_key o = fn_key nd /\ fo_valid o = true.
Proof.
  intros origs nd r H. unfold frestore_node in H.
  destruct (fcands origs (fn_key nd)) as [| t0 tl] eqn:E; [discriminate |].
  destruct (fn_valid nd) eqn:V; [| discriminate]. cbn [andb] in H.
  destruct (negb (mem (fn_text nd) (t0 :: tl))); [| discriminate]. inversion H; subst r.
  split; [reflexivity |].
  assert (Hin : In (most_common (t0 :: tl)) (fcands origs (fn_key nd))).
  { rewrite E. apply most_common_in. discriminate. }
  unfold fcands in Hin. apply in_map_iff in Hin. destruct Hin as [o [Ht Ho]].
  apply filter_In in Ho. destruct Ho as [Hin Hc]. apply andb_true_iff in Hc. destruct Hc as [Hk Hv].
  exists o. repeat split; try assumption. apply Nat.eqb_eq. exact Hk.
Qed.

(* under f_guard (every overwritten spelling is itself an f-string with the node's key), old and new spelling
   have the same unparse key when parsed alone, for any reading [ukey] the booleans are computed from *)
Section UKey.
Variable ukey : nat -> option nat.
Theorem frestore_same_key : forall origs news nd r,
  (forall o, In o origs -> fo_valid o = true -> ukey (fo_text o) = Some (fo_key o)) ->
  (forall n, In n news -> fn_self n = true -> ukey (fn_text n) = Some (fn_key n)) ->
  f_guard origs news = true -> In nd news ->
  frestore_node origs nd = Some r -> ukey r = ukey (fn_text nd).
Proof.
  intros origs news nd r HO HN G Hin H.
  destruct (frestore_node_sound _ _ _ H) as [_ [o [Ho [Ht [Hk Hv]]]]].
  unfold f_guard in G. rewrite forallb_forall in G. specialize (G nd Hin). rewrite H in G.
  rewrite (HN nd Hin G), <- Ht, (HO o Ho Hv), Hk. reflexivity.
Qed.
End UKey.

(* R11.12: validity alone does not make the overwritten spelling an f-string of that key
   (a spelling that is valid Python on its own but is not the f-string, e.g. a bare `{w}` spec) *)
Theorem frestore_guard_refuted : exists origs news, f_guard origs news = false.
Proof. exists [mkFO 5 1 true], [mkFN 5 2 true false]. reflexivity. Qed.
