(* K9 -- name construction: Gallina mirror of pyrefact/style.py
   (_list_words, _make_snakecase, _make_camelcase, rename_variable, rename_class) as it is after
   the `fix:` commit "leave a name alone when no valid identifier can be built from it".

   Text is `list N` (code points).  Only the ASCII classes matter to the code: `[A-Z]`, `[a-z]`,
   `\d` (ASCII digits; other Unicode decimal digits are outside the model, see design/C19.md),
   '_' ; every other code point is "other" (never matched by the regex). *)
From Coq Require Import List NArith Bool.
Import ListNotations.
Open Scope N_scope.

Definition text := list N.

Definition is_upper (c : N) : bool := (65 <=? c) && (c <=? 90).
Definition is_lower (c : N) : bool := (97 <=? c) && (c <=? 122).
Definition is_digit (c : N) : bool := (48 <=? c) && (c <=? 57).
Definition is_under (c : N) : bool := c =? 95.
Definition is_alpha (c : N) : bool := is_upper c || is_lower c.
Definition is_alnum (c : N) : bool := is_alpha c || is_digit c.
Definition to_lower (c : N) : N := if is_upper c then c + 32 else c.   (* str.lower on [A-Za-z0-9] *)
Definition to_upper (c : N) : N := if is_lower c then c - 32 else c.   (* str.upper on [A-Za-z0-9] *)
Definition US : N := 95.

Fixpoint take_while (p : N -> bool) (l : text) : text :=
  match l with
  | c :: t => if p c then c :: take_while p t else []
  | [] => []
  end.
Fixpoint drop_while (p : N -> bool) (l : text) : text :=
  match l with
  | c :: t => if p c then drop_while p t else l
  | [] => []
  end.

(* One application of the regex of style._list_words,
     ( [A-Z]{2,}(?![a-z]) | [A-Z]?[a-z]* ) \d*     (spaces added),
   anchored at the head of `s`:
   returns (matched text, rest).  Hand translation of the backtracking semantics:
   - first alternative: the maximal upper-case run of length n >= 2; if the next character is a
     lower-case letter the engine gives back one letter (needs n-1 >= 2), otherwise keeps n;
   - second alternative: one optional upper-case letter, then the maximal lower-case run;
   - then the maximal run of digits. *)
Definition alt1_len (s : text) : option nat :=
  let us := take_while is_upper s in
  let n := length us in
  if Nat.leb 2 n then
    match drop_while is_upper s with
    | c :: _ => if is_lower c then (if Nat.leb 3 n then Some (Nat.pred n) else None) else Some n
    | [] => Some n
    end
  else None.

Definition match_at (s : text) : text * text :=
  match alt1_len s with
  | Some k =>
      let r := skipn k s in
      (firstn k s ++ take_while is_digit r, drop_while is_digit r)
  | None =>
      let '(u, r) := match s with
                     | c :: t => if is_upper c then ([c], t) else ([], s)
                     | [] => ([], [])
                     end in
      let r2 := drop_while is_lower r in
      (u ++ take_while is_lower r ++ take_while is_digit r2, drop_while is_digit r2)
  end.

(* re.finditer + the `match.end() > match.start()` filter: an empty match at a character that the
   regex cannot consume ('_' or "other") moves the scan one character forward. *)
Fixpoint list_words_fuel (fuel : nat) (s : text) : list text :=
  match fuel with
  | O => []
  | S f =>
      match s with
      | [] => []
      | _ :: t =>
          let '(w, r) := match_at s in
          match w with
          | [] => list_words_fuel f t
          | _ :: _ => w :: list_words_fuel f r
          end
      end
  end.
Definition list_words (s : text) : list text := list_words_fuel (length s) s.

Fixpoint join_us (ws : list text) : text :=        (* "_".join(ws) *)
  match ws with
  | [] => []
  | [w] => w
  | w :: r => w ++ US :: join_us r
  end.

Definition make_snakecase (uppercase : bool) (s : text) : text :=
  join_us (map (map (if uppercase then to_upper else to_lower)) (list_words s)).

Definition capitalize (w : text) : text :=         (* word[0].upper() + word[1:].lower() *)
  match w with
  | c :: t => to_upper c :: map to_lower t
  | [] => []
  end.
Definition make_camelcase (s : text) : text := concat (map capitalize (list_words s)).

Definition is_private (s : text) : bool :=         (* parsing.is_private: startswith("_") *)
  match s with c :: _ => is_under c | [] => false end.

Fixpoint text_eqb (a b : text) : bool :=
  match a, b with
  | [], [] => true
  | x :: a', y :: b' => (x =? y) && text_eqb a' b'
  | _, _ => false
  end.

Definition starts_dunder (s : text) : bool :=
  match s with a :: b :: _ => is_under a && is_under b | _ => false end.
Definition is_dunder (s : text) : bool :=          (* startswith("__") and endswith("__") *)
  starts_dunder s && starts_dunder (rev s).

(* str.isidentifier() restricted to ASCII text (the renamed candidates are always ASCII) *)
Definition is_ident (s : text) : bool :=
  match s with
  | c :: t => (is_alpha c || is_under c) && forallb (fun d => is_alnum d || is_under d) t
  | [] => false
  end.

Definition rename_variable (v : text) (static private : bool) : text :=
  if text_eqb v [US] then v
  else if is_dunder v then v
  else
    let r := make_snakecase static v in
    let r := if private && negb (is_private r) then US :: r else r in
    let r := if negb private && is_private r then drop_while is_under r else r in   (* lstrip("_") *)
    if is_ident r then r else v.

(* re.sub("_{1,}", "_", name) *)
Fixpoint collapse_us (prev : bool) (s : text) : text :=
  match s with
  | [] => []
  | c :: t => if is_under c then (if prev then collapse_us true t else c :: collapse_us true t)
              else c :: collapse_us false t
  end.

(* None = ValueError("Cannot rename empty name") *)
Definition rename_class (n : text) (private : bool) : option text :=
  let n1 := collapse_us false n in
  match n1 with
  | [] => None
  | _ :: _ =>
      let c := make_camelcase n1 in
      let r := if private && negb (is_private c) then US :: c
               else if negb private && is_private c then tl c
               else c in
      Some (if is_ident r then r else n)
  end.

