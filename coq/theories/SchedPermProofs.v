(* K1 for C06 -- the scheduler and the order in which a rule yields its rewrites.
   T06.1: if the rewrites a rule yields (default transaction numbers: one transaction per yield) are
   pairwise non-overlapping and pairwise different, the set of scheduled rewrites does not depend on the
   order in which they are yielded (e.g. the iteration order of a set of nodes).
   R06.2: with a conflict the first one yielded wins, so the order matters. *)
From Coq Require Import List ZArith Bool Lia Permutation.
Import ListNotations.
Require Import Pyrefact.SchedModel Pyrefact.SchedProofs.
Open Scope Z_scope.

Section PermProofs.
Variable T : Type.
Variable teqb : T -> T -> bool.
Variable tcmp : T -> T -> comparison.
Hypothesis teqb_spec : forall a b, teqb a b = true <-> a = b.
Variable ilines : list range.

Notation rw := (rewrite T).
Notation entry := (tkey * rewrite T)%type.
Notation txm := (txmap T).
Notation dd := (dedup T teqb).
Notation pany := (process_any T teqb ilines).

Definition yrw (y : yielded T) : rw := mkRw (fst (fst y)) (snd (fst y)).
Definition is_default (y : yielded T) : Prop := snd y = None.

(* ---- default numbering: one singleton transaction per yield, keys in yield order ---- *)
Fixpoint numbered (cnt : Z) (rs : list rw) : list (Z * rw) :=
  match rs with
  | [] => []
  | r :: tl => (cnt + 1, r) :: numbered (cnt + 1) tl
  end.

Fixpoint singles (k cnt : Z) (rs : list rw) : txm :=
  match rs with
  | [] => []
  | r :: tl => ((k, cnt + 1), [r]) :: singles k (cnt + 1) tl
  end.

Lemma fill_default (g : list (yielded T)) : forall cnt, Forall is_default g ->
  fill T cnt g = (numbered cnt (map yrw g), cnt + Z.of_nat (length g)).
Proof.
  induction g as [|[[r n] tr] g IH]; intros cnt H.
  - cbn. f_equal. lia.
  - inversion H as [|? ? Hd Hg]; subst. unfold is_default in Hd. cbn in Hd. subst tr.
    cbn [fill]. rewrite (IH (cnt + 1) Hg). cbn [map numbered length yrw fst snd].
    f_equal. lia.
Qed.

Lemma fill_count (g : list (yielded T)) : forall cnt, snd (fill T cnt g) = cnt + Z.of_nat (length g).
Proof.
  induction g as [|[[r n] tr] g IH]; intros cnt; cbn [fill].
  - cbn. lia.
  - specialize (IH (cnt + 1)). destruct (fill T (cnt + 1) g) as [rest c]. cbn in *. lia.
Qed.

Lemma tr_add_end key r (X : txm) :
  Forall (fun e => key_cmp (fst e) key = Lt) X -> tr_add T key r X = X ++ [(key, [r])].
Proof.
  induction X as [|[k' rs] X IH]; intros H; [reflexivity|].
  inversion H as [|? ? Hk HX]; subst. cbn [fst] in Hk.
  rewrite tr_add_cons. assert (E : key_cmp key k' = Gt) by (apply key_cmp_Gt; exact Hk).
  rewrite E, (IH HX). reflexivity.
Qed.

Lemma add_items_numbered k (rs : list rw) : forall cnt (X : txm),
  Forall (fun e => key_cmp (fst e) (k, cnt + 1) = Lt) X ->
  add_items T k (numbered cnt rs) X = X ++ singles k cnt rs.
Proof.
  induction rs as [|r rs IH]; intros cnt X H; cbn [numbered singles].
  - now rewrite app_nil_r.
  - rewrite add_items_cons. cbn [fst snd]. rewrite tr_add_end by exact H.
    rewrite IH.
    + rewrite <- app_assoc. reflexivity.
    + apply Forall_app. split.
      * eapply Forall_impl; [|exact H]. intros e He. apply key_cmp_Lt in He. apply key_cmp_Lt.
        cbn [fst snd] in *. lia.
      * constructor; [|constructor]. apply key_cmp_Lt. cbn [fst snd]. lia.
Qed.

(* ---- the un-deduplicated transaction map, group by group ---- *)
Fixpoint blocks (k cnt : Z) (gs : list (list (yielded T))) : txm :=
  match gs with
  | [] => []
  | g :: gs' => add_items T k (fst (fill T cnt g)) [] ++ blocks (k + 1) (snd (fill T cnt g)) gs'
  end.

Lemma full_blocks gs : forall k cnt (X : txm), groups_lt T k X ->
  full T k cnt X gs = X ++ blocks k cnt gs.
Proof.
  induction gs as [|g gs IH]; intros k cnt X H; cbn [full blocks]; [now rewrite app_nil_r|].
  destruct (fill T cnt g) as [items cnt'] eqn:Ef. cbn [fst snd].
  rewrite (add_items_app_nil T k items X H). rewrite IH.
  - now rewrite <- app_assoc.
  - unfold groups_lt. apply Forall_app. split.
    + eapply Forall_impl; [|exact H]. intros e He. cbn in He. lia.
    + eapply Forall_impl; [|apply (add_items_groups T k items []); constructor].
      intros e He. cbn in He. lia.
Qed.

Lemma blocks_app pre : forall k cnt, exists k' cnt', forall rest,
  blocks k cnt (pre ++ rest) = blocks k cnt pre ++ blocks k' cnt' rest.
Proof.
  induction pre as [|g pre IH]; intros k cnt.
  - exists k, cnt. reflexivity.
  - destruct (IH (k + 1) (snd (fill T cnt g))) as [k' [cnt' E]].
    exists k', cnt'. intros rest. cbn [app blocks]. rewrite E. now rewrite app_assoc.
Qed.

(* ---- dedup over singletons of pairwise different rewrites ---- *)
Lemma dedup_drop_seen (Y : txm) : forall x s, ~ In x (map snd Y) -> dd (x :: s) Y = dd s Y.
Proof.
  induction Y as [|[k rs] Y IH]; intros x s N; [reflexivity|].
  rewrite !dedup_cons. cbn [map snd In] in N.
  assert (Nx : rs <> x) by (intros E; apply N; left; exact E).
  assert (NY : ~ In x (map snd Y)) by (intros I; apply N; right; exact I).
  assert (E : existsb (rws_eqb T teqb rs) (x :: s) = existsb (rws_eqb T teqb rs) s).
  { cbn [existsb]. destruct (rws_eqb T teqb rs x) eqn:Ex; [|reflexivity].
    apply (rws_eqb_spec T teqb teqb_spec) in Ex. contradiction. }
  rewrite E.
  assert (E2 : dd (rs :: x :: s) Y = dd (rs :: s) Y).
  { rewrite (dedup_ext T teqb teqb_spec Y (rs :: x :: s) (x :: rs :: s)) by (intros z; cbn; tauto).
    now apply IH. }
  now rewrite E2.
Qed.

Definition conflict (sched : list entry) (r : rw) : bool :=
  existsb (fun o => overlaps (rrng r) (rrng (snd o))) sched.

(* which of the yielded rewrites get scheduled: not a duplicate of an earlier transaction, not on an
   ignored line, no overlap with what is already scheduled *)
Definition keep (s : list (list rw)) (sched : list entry) (r : rw) : bool :=
  negb (existsb (rws_eqb T teqb [r]) s) && negb (ignored ilines (rrng r)) && negb (conflict sched r).

Lemma singles_payloads k rs : forall cnt x, In x (map snd (singles k cnt rs)) -> exists r, In r rs /\ x = [r].
Proof.
  induction rs as [|r rs IH]; intros cnt x H; [destruct H|].
  cbn in H. destruct H as [<-|H]; [exists r; split; [now left | reflexivity]|].
  destruct (IH _ _ H) as [r' [I E]]. exists r'. split; [now right | exact E].
Qed.

Lemma judge_single sched r :
  judge T ilines sched [r] = Accepted <-> ignored ilines (rrng r) = false /\ conflict sched r = false.
Proof.
  rewrite judge_accepted_iff. cbn [existsb self_conflict]. unfold sched_conflict, conflict. cbn [existsb].
  rewrite !orb_false_r. tauto.
Qed.

Lemma fold_singles k (rs : list rw) : forall cnt s sched,
  NoDup rs ->
  ForallOrdPairs (fun a b => overlaps (rrng a) (rrng b) = false) rs ->
  map snd (fold_left pany (dd s (singles k cnt rs)) sched) = map snd sched ++ filter (keep s sched) rs.
Proof.
  induction rs as [|r rs IH]; intros cnt s sched ND FO; cbn [singles filter].
  - cbn. now rewrite app_nil_r.
  - inversion ND as [|? ? Nr ND']; subst. inversion FO as [|? ? Fr FO']; subst.
    rewrite dedup_cons.
    assert (Drop : dd ([r] :: s) (singles k (cnt + 1) rs) = dd s (singles k (cnt + 1) rs)).
    { apply dedup_drop_seen. intros I. apply singles_payloads in I. destruct I as [r' [I E]].
      inversion E; subst. contradiction. }
    rewrite Drop. unfold keep at 1.
    destruct (existsb (rws_eqb T teqb [r]) s) eqn:Es; cbn [negb andb].
    + apply IH; assumption.
    + cbn [fold_left]. unfold process_any at 2. cbn [snd nodup_rw existsb].
      destruct (judge T ilines sched [r]) eqn:J.
      * apply judge_single in J. destruct J as [Ji Jc]. rewrite Ji, Jc. cbn [negb andb].
        rewrite IH by assumption. unfold tx_entries. cbn [snd fst nodup_rw existsb map].
        rewrite map_app. cbn [map snd]. rewrite <- app_assoc. cbn [app]. f_equal. f_equal.
        apply filter_ext_in. intros r' Hr'. unfold keep. f_equal. f_equal.
        unfold conflict. rewrite existsb_app. cbn [existsb snd]. rewrite orb_false_r.
        rewrite Forall_forall in Fr. specialize (Fr r' Hr'). rewrite overlaps_sym in Fr. rewrite Fr.
        now rewrite orb_false_r.
      * assert (K : negb (ignored ilines (rrng r)) && negb (conflict sched r) = false).
        { destruct (ignored ilines (rrng r)) eqn:Ei; [reflexivity|].
          destruct (conflict sched r) eqn:Ec; [reflexivity|].
          assert (A : judge T ilines sched [r] = Accepted) by (apply judge_single; auto). congruence. }
        rewrite K. apply IH; assumption.
      * assert (K : negb (ignored ilines (rrng r)) && negb (conflict sched r) = false).
        { destruct (ignored ilines (rrng r)) eqn:Ei; [reflexivity|].
          destruct (conflict sched r) eqn:Ec; [reflexivity|].
          assert (A : judge T ilines sched [r] = Accepted) by (apply judge_single; auto). congruence. }
        rewrite K. apply IH; assumption.
      * assert (K : negb (ignored ilines (rrng r)) && negb (conflict sched r) = false).
        { destruct (ignored ilines (rrng r)) eqn:Ei; [reflexivity|].
          destruct (conflict sched r) eqn:Ec; [reflexivity|].
          assert (A : judge T ilines sched [r] = Accepted) by (apply judge_single; auto). congruence. }
        rewrite K. apply IH; assumption.
Qed.

(* ---- later transactions see the schedule only through the set of scheduled rewrites ---- *)
Lemma sched_conflict_perm (s s' : list entry) rs :
  Permutation (map snd s) (map snd s') -> sched_conflict T s rs = sched_conflict T s' rs.
Proof.
  intros P. unfold sched_conflict. apply bool_eq_iff. rewrite !existsb_exists.
  assert (G : forall (a b : list entry), Permutation (map snd a) (map snd b) -> forall r : rw,
              existsb (fun o => overlaps (rrng r) (rrng (snd o))) a = true ->
              existsb (fun o => overlaps (rrng r) (rrng (snd o))) b = true).
  { intros a b Pab r H. apply existsb_exists in H. destruct H as [o [Io Ho]].
    assert (I : In (snd o) (map snd b)) by (eapply Permutation_in; [exact Pab | now apply in_map]).
    apply in_map_iff in I. destruct I as [o' [Eo Io']]. apply existsb_exists. exists o'. split; [exact Io'|].
    now rewrite Eo. }
  split; intros [r [Ir H]]; exists r; (split; [exact Ir|]).
  - now apply (G s s' P).
  - apply (G s' s); [now apply Permutation_sym | exact H].
Qed.

Lemma fold_pany_perm (E : txm) : forall s s', Permutation (map snd s) (map snd s') ->
  Permutation (map snd (fold_left pany E s)) (map snd (fold_left pany E s')).
Proof.
  induction E as [|e E IH]; intros s s' P; [exact P|]. cbn [fold_left]. apply IH.
  unfold process_any, judge. rewrite (sched_conflict_perm s s' _ P).
  destruct (existsb (fun r => ignored ilines (rrng r)) (nodup_rw T teqb (snd e))); [exact P|].
  destruct (self_conflict T (nodup_rw T teqb (snd e))); [exact P|].
  destruct (sched_conflict T s' (nodup_rw T teqb (snd e))); [exact P|].
  rewrite !map_app. now apply Permutation_app_tail.
Qed.

(* ---- T06.1 ---- *)
Theorem accepted_perm_invariant (pre post : list (list (yielded T))) (g g' : list (yielded T)) :
  Permutation g g' ->
  Forall is_default g ->
  NoDup (map yrw g) ->
  ForallOrdPairs (fun a b => overlaps (rrng a) (rrng b) = false) (map yrw g) ->
  Permutation (map snd (accepted_unsorted T teqb ilines (pre ++ g :: post)))
              (map snd (accepted_unsorted T teqb ilines (pre ++ g' :: post))).
Proof.
  intros P D ND FO.
  assert (D' : Forall is_default g').
  { rewrite Forall_forall in *. intros y Hy. apply D. eapply Permutation_in; [apply Permutation_sym; exact P | exact Hy]. }
  assert (Pm : Permutation (map yrw g) (map yrw g')) by now apply Permutation_map.
  assert (ND' : NoDup (map yrw g')) by (eapply Permutation_NoDup; eauto).
  assert (FO' : ForallOrdPairs (fun a b => overlaps (rrng a) (rrng b) = false) (map yrw g')).
  { eapply FOP_perm; [|exact Pm|exact FO]. intros a b H. now rewrite overlaps_sym. }
  rewrite !(accepted_closed T teqb teqb_spec).
  rewrite !full_blocks by constructor. cbn [app].
  destruct (blocks_app pre 0 START_COUNT) as [k [cnt E]]. rewrite !E. cbn [blocks].
  rewrite !fill_default by assumption. cbn [fst snd].
  rewrite (Permutation_length P).
  rewrite !add_items_numbered by constructor. cbn [app].
  set (Pre := blocks 0 START_COUNT pre).
  set (Post := blocks (k + 1) (cnt + Z.of_nat (length g')) post).
  rewrite !dedup_app, !fold_left_app. rewrite !app_nil_r.
  set (s1 := rev (map snd Pre)).
  set (sp := fold_left pany (dd [] Pre) []).
  assert (Eq : dd (rev (map snd (singles k cnt (map yrw g))) ++ s1) Post
             = dd (rev (map snd (singles k cnt (map yrw g'))) ++ s1) Post).
  { apply (dedup_ext T teqb teqb_spec). intros x. rewrite !in_app_iff, <- !in_rev.
    assert (S : forall a b, Permutation a b -> In x (map snd (singles k cnt a)) -> In x (map snd (singles k cnt b))).
    { intros a b Pab I. apply singles_payloads in I. destruct I as [r [Ir ->]].
      assert (Ib : In r b) by (eapply Permutation_in; eauto).
      clear - Ib. revert cnt. induction b as [|y b IH]; intros cnt; [destruct Ib|].
      cbn. destruct Ib as [->|Ib]; [now left | right; now apply IH]. }
    split; (intros [H|H]; [left | right; exact H]).
    - now apply (S (map yrw g) (map yrw g') Pm).
    - apply (S (map yrw g') (map yrw g)); [now apply Permutation_sym | exact H]. }
  rewrite Eq. apply fold_pany_perm.
  rewrite !fold_singles by assumption.
  apply Permutation_app_head. now apply filter_perm.
Qed.

Theorem schedule_perm_invariant (pre post : list (list (yielded T))) (g g' : list (yielded T)) :
  Permutation g g' ->
  Forall is_default g ->
  NoDup (map yrw g) ->
  ForallOrdPairs (fun a b => overlaps (rrng a) (rrng b) = false) (map yrw g) ->
  Permutation (map snd (schedule T teqb tcmp ilines (pre ++ g :: post)))
              (map snd (schedule T teqb tcmp ilines (pre ++ g' :: post))).
Proof.
  intros P D ND FO. unfold schedule.
  rewrite <- !(Permutation_map snd (sort_desc_perm T tcmp _)).
  now apply accepted_perm_invariant.
Qed.

(* ---- R06.2: with a conflict and default transaction numbers, the first one yielded wins ---- *)
Lemma accepted_two (a b : yielded T) :
  is_default a -> is_default b ->
  overlaps (rrng (yrw a)) (rrng (yrw b)) = true ->
  ignored ilines (rrng (yrw a)) = false ->
  exists key, accepted_unsorted T teqb ilines [[a; b]] = [(key, yrw a)].
Proof.
  intros Da Db Ov Ia.
  rewrite (accepted_closed T teqb teqb_spec). rewrite full_blocks by constructor. cbn [app blocks].
  rewrite fill_default by (repeat constructor; assumption). cbn [fst snd map].
  rewrite add_items_numbered by constructor. rewrite app_nil_r. cbn [app singles].
  rewrite dedup_cons. cbn [existsb]. rewrite dedup_cons.
  assert (J1 : judge T ilines [] [yrw a] = Accepted) by (apply judge_single; split; [exact Ia | reflexivity]).
  exists (0, START_COUNT + 1).
  destruct (existsb (rws_eqb T teqb [yrw b]) [[yrw a]]) eqn:Ed; cbn [dedup fold_left].
  - unfold process_any. cbn [snd nodup_rw existsb]. rewrite J1. reflexivity.
  - unfold process_any at 2. cbn [snd nodup_rw existsb]. rewrite J1. unfold tx_entries. cbn [snd fst nodup_rw existsb map app].
    unfold process_any. cbn [snd nodup_rw existsb].
    cbn [app].
    match goal with |- context [judge T ilines ?sc [yrw b]] => destruct (judge T ilines sc [yrw b]) eqn:J end;
      try reflexivity.
    exfalso. apply judge_single in J. destruct J as [_ J]. unfold conflict in J. cbn [existsb snd] in J.
    rewrite overlaps_sym in J. rewrite Ov in J. discriminate.
Qed.

Theorem first_yield_wins (a b : yielded T) :
  is_default a -> is_default b ->
  overlaps (rrng (yrw a)) (rrng (yrw b)) = true ->
  ignored ilines (rrng (yrw a)) = false ->
  map snd (schedule T teqb tcmp ilines [[a; b]]) = [yrw a].
Proof.
  intros Da Db Ov Ia. unfold schedule.
  destruct (accepted_two a b Da Db Ov Ia) as [key E]. rewrite E. reflexivity.
Qed.

Theorem conflict_order_dependent (a b : yielded T) :
  is_default a -> is_default b ->
  overlaps (rrng (yrw a)) (rrng (yrw b)) = true ->
  ignored ilines (rrng (yrw a)) = false -> ignored ilines (rrng (yrw b)) = false ->
  yrw a <> yrw b ->
  map snd (schedule T teqb tcmp ilines [[a; b]]) <> map snd (schedule T teqb tcmp ilines [[b; a]]).
Proof.
  intros Da Db Ov Ia Ib N.
  rewrite (first_yield_wins a b Da Db Ov Ia).
  rewrite (first_yield_wins b a Db Da) by (try rewrite overlaps_sym; assumption).
  intros E. apply N. exact (f_equal (fun l => hd (yrw a) l) E).
Qed.

End PermProofs.

(* concrete witness for R06.2 *)
Theorem perm_invariance_refuted :
  exists (g g' : list (yielded (list Z))),
    Permutation g g' /\
    map snd (schedule_text [] [g]) <> map snd (schedule_text [] [g']).
Proof.
  exists [((0, 3), [1], None); ((2, 5), [2], None)], [((2, 5), [2], None); ((0, 3), [1], None)].
  split; [apply perm_swap|]. vm_compute. discriminate.
Qed.

(* non-vacuity of T06.1's hypotheses: three disjoint default-numbered yields, all six orders agree *)
Example perm_invariance_example :
  let g := [((0, 3), [1], None); ((3, 5), [2], None); ((7, 7), [3], None)] in
  map snd (schedule_text [(20, 30)] [[((4, 6), [9], None)]; g; [((8, 9), [4], None)]])
  = map snd (schedule_text [(20, 30)] [[((4, 6), [9], None)]; rev g; [((8, 9), [4], None)]]).
Proof. vm_compute. reflexivity. Qed.
