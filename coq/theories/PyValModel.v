(* K4 reference semantics -- what Python computes for a fragment of its expression language.
   This file is a DEFINITION (trusted); harness/c15.py validates [eval] against CPython's eval()
   exhaustively at small depth and on seeded random deeper expressions on every run.

   Values: None | bool | int (Z) | str (list of code points) | tuple | list.
   NOT modelled (result [Gap], never a value): floats (true division, negative powers), sets, dicts,
   bytes, identity (`is`) between two non-singleton values (implementation-defined in Python),
   %-formatting, repr of strings that need escaping, builtins and methods outside the small set
   below, sequence repetition / powers / shifts beyond SIZE_LIMIT.
   [Exc k]: evaluation raises an exception of class k.  No expression of this fragment has an effect
   other than through a call to a function that is not modelled (which is [Gap]). *)
From Coq Require Import List ZArith Bool String Ascii.
Import ListNotations.
Require Import Pyrefact.Ops.
Open Scope Z_scope.

Inductive val :=
| VNone
| VBool (b : bool)
| VInt (z : Z)
| VStr (s : list Z)
| VTuple (l : list val)
| VList (l : list val).

Inductive exn := KZeroDiv | KType | KValue | KOverflow | KAttr | KName | KIndex | KOther | KSystemExit.
(* KOther: any other class derived from Exception (only observed, never predicted) *)
(* every class above except SystemExit derives from Exception *)
Definition is_exception (k : exn) : bool := match k with KSystemExit => false | _ => true end.

Inductive res (A : Type) := Val (a : A) | Exc (k : exn) | Gap.
Arguments Val {A} a.
Arguments Exc {A} k.
Arguments Gap {A}.

Definition bind {A B} (r : res A) (f : A -> res B) : res B :=
  match r with Val a => f a | Exc k => Exc k | Gap => Gap end.
Notation "x <- r ;; k" := (bind r (fun x => k)) (at level 61, r at next level, right associativity).

Definition SIZE_LIMIT : Z := 4096.

(* ---------------- basic predicates ---------------- *)
Definition truthy (v : val) : bool :=
  match v with
  | VNone => false
  | VBool b => b
  | VInt z => negb (z =? 0)
  | VStr s => match s with [] => false | _ => true end
  | VTuple l => match l with [] => false | _ => true end
  | VList l => match l with [] => false | _ => true end
  end.

(* bool is a subclass of int *)
Definition as_int (v : val) : option Z :=
  match v with VBool b => Some (if b then 1 else 0) | VInt z => Some z | _ => None end.

Fixpoint zs_eqb (a b : list Z) : bool :=
  match a, b with
  | [], [] => true
  | x :: a', y :: b' => (x =? y) && zs_eqb a' b'
  | _, _ => false
  end.

(* Python == *)
Fixpoint val_eq (a b : val) : bool :=
  match a, b with
  | VNone, VNone => true
  | VStr s, VStr t => zs_eqb s t
  | VTuple l, VTuple m =>
      (fix go (l m : list val) : bool :=
         match l, m with
         | [], [] => true
         | x :: l', y :: m' => val_eq x y && go l' m'
         | _, _ => false
         end) l m
  | VList l, VList m =>
      (fix go (l m : list val) : bool :=
         match l, m with
         | [], [] => true
         | x :: l', y :: m' => val_eq x y && go l' m'
         | _, _ => false
         end) l m
  | _, _ => match as_int a, as_int b with Some x, Some y => x =? y | _, _ => false end
  end.

Fixpoint zs_compare (a b : list Z) : comparison :=
  match a, b with
  | [], [] => Eq
  | [], _ :: _ => Lt
  | _ :: _, [] => Gt
  | x :: a', y :: b' => match x ?= y with Eq => zs_compare a' b' | c => c end
  end.

(* three-way ordering as Python's rich comparison computes it: numbers by value, strings and
   sequences lexicographically (the first pair of elements that are not == decides), TypeError on
   unordered types *)
Fixpoint val_compare (a b : val) : res comparison :=
  match a, b with
  | VStr s, VStr t => Val (zs_compare s t)
  | VTuple l, VTuple m =>
      (fix go (l m : list val) : res comparison :=
         match l, m with
         | [], [] => Val Eq
         | [], _ :: _ => Val Lt
         | _ :: _, [] => Val Gt
         | x :: l', y :: m' => if val_eq x y then go l' m' else val_compare x y
         end) l m
  | VList l, VList m =>
      (fix go (l m : list val) : res comparison :=
         match l, m with
         | [], [] => Val Eq
         | [], _ :: _ => Val Lt
         | _ :: _, [] => Val Gt
         | x :: l', y :: m' => if val_eq x y then go l' m' else val_compare x y
         end) l m
  | _, _ => match as_int a, as_int b with
            | Some x, Some y => Val (x ?= y)
            | _, _ => Exc KType
            end
  end.

Definition is_singleton (v : val) : bool :=
  match v with VNone | VBool _ => true | _ => false end.
Definition same_singleton (a b : val) : bool :=
  match a, b with
  | VNone, VNone => true
  | VBool x, VBool y => Bool.eqb x y
  | _, _ => false
  end.

Fixpoint zs_prefix (p s : list Z) : bool :=
  match p, s with
  | [], _ => true
  | x :: p', y :: s' => (x =? y) && zs_prefix p' s'
  | _ :: _, [] => false
  end.
Fixpoint zs_infix (p s : list Z) : bool :=
  zs_prefix p s || match s with [] => false | _ :: s' => zs_infix p s' end.

Definition contains (x y : val) : res bool :=      (* x in y *)
  match y with
  | VStr t => match x with VStr s => Val (zs_infix s t) | _ => Exc KType end
  | VTuple l | VList l => Val (existsb (val_eq x) l)
  | _ => Exc KType
  end.

(* ---------------- the functions of the `operator` module used by the tool ---------------- *)
Definition of_cmp (f : comparison -> bool) (a b : val) : res val :=
  c <- val_compare a b ;; Val (VBool (f c)).

Fixpoint rep {X} (n : nat) (l : list X) : list X :=
  match n with O => [] | S n' => l ++ rep n' l end.
Definition repeat_seq {X} (mk : list X -> val) (l : list X) (n : Z) : res val :=
  if n <=? 0 then Val (mk [])
  else if SIZE_LIMIT <? n then Gap
  else Val (mk (rep (Z.to_nat n) l)).

Definition int_op (f : Z -> Z -> res val) (a b : val) : res val :=
  match as_int a, as_int b with Some x, Some y => f x y | _, _ => Exc KType end.

Definition both_bool (a b : val) : option (bool * bool) :=
  match a, b with VBool x, VBool y => Some (x, y) | _, _ => None end.

Definition opfn_apply (f : opfn) (a b : val) : res val :=
  match f with
  | F_eq => Val (VBool (val_eq a b))
  | F_ne => Val (VBool (negb (val_eq a b)))
  | F_lt => of_cmp (fun c => match c with Lt => true | _ => false end) a b
  | F_le => of_cmp (fun c => match c with Gt => false | _ => true end) a b
  | F_gt => of_cmp (fun c => match c with Gt => true | _ => false end) a b
  | F_ge => of_cmp (fun c => match c with Lt => false | _ => true end) a b
  | F_is_ => if is_singleton a || is_singleton b then Val (VBool (same_singleton a b)) else Gap
  | F_is_not => if is_singleton a || is_singleton b then Val (VBool (negb (same_singleton a b))) else Gap
  | F_contains => r <- contains a b ;; Val (VBool r)
  | F_not_contains => r <- contains a b ;; Val (VBool (negb r))
  | F_add =>
      match a, b with
      | VStr s, VStr t => Val (VStr (s ++ t))
      | VTuple l, VTuple m => Val (VTuple (l ++ m))
      | VList l, VList m => Val (VList (l ++ m))
      | _, _ => int_op (fun x y => Val (VInt (x + y))) a b
      end
  | F_sub => int_op (fun x y => Val (VInt (x - y))) a b
  | F_mul =>
      match a, as_int b, as_int a, b with
      | VStr s, Some n, _, _ => repeat_seq VStr s n
      | VTuple l, Some n, _, _ => repeat_seq VTuple l n
      | VList l, Some n, _, _ => repeat_seq VList l n
      | _, _, Some n, VStr s => repeat_seq VStr s n
      | _, _, Some n, VTuple l => repeat_seq VTuple l n
      | _, _, Some n, VList l => repeat_seq VList l n
      | _, _, _, _ => int_op (fun x y => Val (VInt (x * y))) a b
      end
  | F_truediv => int_op (fun x y => if y =? 0 then Exc KZeroDiv else Gap) a b     (* float *)
  | F_floordiv => int_op (fun x y => if y =? 0 then Exc KZeroDiv else Val (VInt (x / y))) a b
  | F_mod =>
      match a with
      | VStr _ => Gap                                                         (* %-formatting *)
      | _ => int_op (fun x y => if y =? 0 then Exc KZeroDiv else Val (VInt (x mod y))) a b
      end
  | F_pow => int_op (fun x y =>
               if y <? 0 then (if x =? 0 then Exc KZeroDiv else Gap)           (* float *)
               else if SIZE_LIMIT <? y then Gap
               else Val (VInt (x ^ y))) a b
  | F_lshift => int_op (fun x y =>
               if y <? 0 then Exc KValue else if SIZE_LIMIT <? y then Gap
               else Val (VInt (Z.shiftl x y))) a b
  | F_rshift => int_op (fun x y =>
               if y <? 0 then Exc KValue else if SIZE_LIMIT <? y then Gap
               else Val (VInt (Z.shiftr x y))) a b
  | F_or_ => match both_bool a b with
             | Some (x, y) => Val (VBool (x || y))
             | None => int_op (fun x y => Val (VInt (Z.lor x y))) a b
             end
  | F_xor => match both_bool a b with
             | Some (x, y) => Val (VBool (xorb x y))
             | None => int_op (fun x y => Val (VInt (Z.lxor x y))) a b
             end
  | F_and_ => match both_bool a b with
              | Some (x, y) => Val (VBool (x && y))
              | None => int_op (fun x y => Val (VInt (Z.land x y))) a b
              end
  | F_matmul => Exc KType
  end.

(* what each operator token MEANS in Python (the reference; the tool's table is checked against it) *)
Definition cmpop_fn (o : cmpop) : opfn :=
  match o with
  | CEq => F_eq | CNotEq => F_ne | CLt => F_lt | CLtE => F_le | CGt => F_gt | CGtE => F_ge
  | CIs => F_is_ | CIsNot => F_is_not | CIn => F_contains | CNotIn => F_not_contains
  end.
Definition binop_fn (o : binop) : opfn :=
  match o with
  | BAdd => F_add | BSub => F_sub | BMult => F_mul | BDiv => F_truediv | BFloorDiv => F_floordiv
  | BMod => F_mod | BPow => F_pow | BLShift => F_lshift | BRShift => F_rshift
  | BBitOr => F_or_ | BBitXor => F_xor | BBitAnd => F_and_ | BMatMult => F_matmul
  end.

Inductive unop := UNot | UNeg | UPos | UInv.
Definition unop_apply (o : unop) (v : val) : res val :=
  match o with
  | UNot => Val (VBool (negb (truthy v)))
  | UNeg => match as_int v with Some z => Val (VInt (- z)) | None => Exc KType end
  | UPos => match as_int v with Some z => Val (VInt z) | None => Exc KType end
  | UInv => match as_int v with Some z => Val (VInt (- z - 1)) | None => Exc KType end
  end.

(* ---------------- text helpers ---------------- *)
Definition digit_char (d : Z) : Z := 48 + d.
Fixpoint pos_digits (fuel : nat) (n : Z) (acc : list Z) : list Z :=
  match fuel with
  | O => acc
  | S f => if n <? 10 then digit_char n :: acc
           else pos_digits f (n / 10) (digit_char (n mod 10) :: acc)
  end.
Definition decimal (z : Z) : list Z :=
  if z <? 0 then 45 :: pos_digits (S (Z.to_nat (Z.log2 (- z)))) (- z) []
  else pos_digits (S (Z.to_nat (Z.log2 z))) z [].

Definition text (s : string) : list Z :=
  map (fun c => Z.of_nat (nat_of_ascii c)) (list_ascii_of_string s).

(* repr of a str: only when no escaping / quote switching is needed *)
Definition plain_char (c : Z) : bool := (32 <=? c) && (c <=? 126) && negb (c =? 39) && negb (c =? 92).
Definition repr_str (s : list Z) : option (list Z) :=
  if forallb plain_char s then Some (39 :: s ++ [39]) else None.

Definition sep := [44; 32].      (* ", " *)
Fixpoint join_opt (parts : list (option (list Z))) : option (list Z) :=
  match parts with
  | [] => Some []
  | [p] => p
  | p :: tl => match p, join_opt tl with Some a, Some b => Some (a ++ sep ++ b) | _, _ => None end
  end.

Fixpoint repr_val (v : val) : option (list Z) :=
  match v with
  | VNone => Some (text "None")
  | VBool true => Some (text "True")
  | VBool false => Some (text "False")
  | VInt z => Some (decimal z)
  | VStr s => repr_str s
  | VTuple l =>
      match l with
      | [x] => match repr_val x with Some r => Some (40 :: r ++ [44; 41]) | None => None end
      | _ => match join_opt ((fix go (l : list val) := match l with [] => [] | x :: t => repr_val x :: go t end) l) with
             | Some r => Some (40 :: r ++ [41]) | None => None end
      end
  | VList l =>
      match join_opt ((fix go (l : list val) := match l with [] => [] | x :: t => repr_val x :: go t end) l) with
      | Some r => Some (91 :: r ++ [93]) | None => None end
  end.

Definition str_of (v : val) : res val :=
  match v with
  | VStr s => Val (VStr s)
  | _ => match repr_val v with Some r => Val (VStr r) | None => Gap end
  end.

(* int(<str>), base 10: optional blanks, optional sign, digits with single underscores between
   digits.  Exact for strings over printable ASCII; other code points are outside the model. *)
Definition is_digit (c : Z) : bool := (48 <=? c) && (c <=? 57).
Fixpoint drop_blanks (s : list Z) : list Z :=
  match s with 32 :: t => drop_blanks t | _ => s end.
(* digits with single inner underscores; [prev_digit]: the previous character was a digit *)
Fixpoint digits_value (s : list Z) (acc : Z) (prev_digit : bool) : option Z :=
  match s with
  | [] => if prev_digit then Some acc else None
  | c :: t =>
      if is_digit c then digits_value t (acc * 10 + (c - 48)) true
      else if (c =? 95) && prev_digit then
        match t with d :: _ => if is_digit d then digits_value t acc false else None | [] => None end
      else None
  end.
Definition parse_int (s : list Z) : res Z :=
  if negb (forallb (fun c => (32 <=? c) && (c <=? 126)) s) then Gap
  else
    let body := rev (drop_blanks (rev (drop_blanks s))) in
    let '(neg, ds) := match body with
                      | 45 :: t => (true, t)
                      | 43 :: t => (false, t)
                      | _ => (false, body)
                      end in
    match ds with
    | c :: _ => if is_digit c then
                  match digits_value ds 0 false with
                  | Some z => Val (if neg then - z else z)
                  | None => Exc KValue
                  end
                else Exc KValue
    | [] => Exc KValue
    end.

Definition ascii_upper (c : Z) : Z := if (97 <=? c) && (c <=? 122) then c - 32 else c.
Definition ascii_lower (c : Z) : Z := if (65 <=? c) && (c <=? 90) then c + 32 else c.
Definition all_ascii (s : list Z) : bool := forallb (fun c => (0 <=? c) && (c <=? 127)) s.

(* ---------------- iteration, builtins, methods ---------------- *)
Definition iter_of (v : val) : res (list val) :=
  match v with
  | VStr s => Val (map (fun c => VStr [c]) s)
  | VTuple l | VList l => Val l
  | _ => Exc KType
  end.

Definition val_lt (a b : val) : res bool :=
  c <- val_compare a b ;; Val (match c with Lt => true | _ => false end).

(* min / max: `if item < best: best = item` (resp. >), left to right *)
Fixpoint extremum (want : comparison) (best : val) (l : list val) : res val :=
  match l with
  | [] => Val best
  | x :: t => c <- val_compare x best ;;
              extremum want (if match c, want with Lt, Lt | Gt, Gt => true | _, _ => false end then x else best) t
  end.

(* stable insertion sort by <; used only when every pair is comparable.  x precedes every element
   of l in the input, so it goes before the first y that is not < x *)
Fixpoint insert_sorted (x : val) (l : list val) : res (list val) :=
  match l with
  | [] => Val [x]
  | y :: t => b <- val_lt y x ;;
              if b then (r <- insert_sorted x t ;; Val (y :: r)) else Val (x :: y :: t)
  end.
Fixpoint isort (l : list val) : res (list val) :=      (* processes from the right: stable *)
  match l with
  | [] => Val []
  | x :: t => r <- isort t ;; insert_sorted x r
  end.
Definition comparable (a b : val) : bool :=
  match val_compare a b with Val _ => true | _ => false end.
Definition pairwise_comparable (l : list val) : bool :=
  forallb (fun a => forallb (comparable a) l) l.
(* CPython's sort compares an implementation-chosen subset of the pairs: with three or more
   elements of which some pair is unordered, whether TypeError is raised is outside the model *)
Definition sorted_list (l : list val) : res (list val) :=
  match l with
  | [] | [_] => Val l
  | [a; b] => c <- val_lt b a ;; Val (if c then [b; a] else [a; b])
  | _ => if pairwise_comparable l then isort l else Gap
  end.

Fixpoint sum_from (acc : val) (l : list val) : res val :=
  match l with
  | [] => Val acc
  | x :: t => r <- opfn_apply F_add acc x ;; sum_from r t
  end.

Fixpoint join_strs (sepr : list Z) (l : list val) : res (list Z) :=
  match l with
  | [] => Val []
  | [VStr s] => Val s
  | VStr s :: t => r <- join_strs sepr t ;; Val (s ++ sepr ++ r)
  | _ => Exc KType
  end.
Definition all_strs (l : list val) : bool :=
  forallb (fun v => match v with VStr _ => true | _ => false end) l.

Open Scope string_scope.
(* builtins called with positional arguments only *)
Definition call_builtin (f : string) (args : list val) : res val :=
  if f =? "len" then
    match args with
    | [VStr s] => Val (VInt (Z.of_nat (List.length s)))
    | [VTuple l] | [VList l] => Val (VInt (Z.of_nat (List.length l)))
    | _ => Exc KType
    end
  else if f =? "abs" then
    match args with
    | [v] => match as_int v with Some z => Val (VInt (Z.abs z)) | None => Exc KType end
    | _ => Exc KType
    end
  else if f =? "bool" then
    match args with [] => Val (VBool false) | [v] => Val (VBool (truthy v)) | _ => Exc KType end
  else if f =? "int" then
    match args with
    | [] => Val (VInt 0)
    | [VStr s] => z <- parse_int s ;; Val (VInt z)
    | [v] => match as_int v with Some z => Val (VInt z) | None => Exc KType end
    | _ => Gap                                                   (* explicit base *)
    end
  else if f =? "str" then
    match args with [] => Val (VStr []) | [v] => str_of v | _ => Gap end
  else if f =? "tuple" then
    match args with [] => Val (VTuple []) | [v] => l <- iter_of v ;; Val (VTuple l) | _ => Exc KType end
  else if f =? "list" then
    match args with [] => Val (VList []) | [v] => l <- iter_of v ;; Val (VList l) | _ => Exc KType end
  else if f =? "sorted" then
    match args with [v] => l <- iter_of v ;; r <- sorted_list l ;; Val (VList r) | _ => Exc KType end
  else if f =? "min" then
    match args with
    | [] => Exc KType
    | [v] => l <- iter_of v ;; match l with [] => Exc KValue | x :: t => extremum Lt x t end
    | x :: t => extremum Lt x t
    end
  else if f =? "max" then
    match args with
    | [] => Exc KType
    | [v] => l <- iter_of v ;; match l with [] => Exc KValue | x :: t => extremum Gt x t end
    | x :: t => extremum Gt x t
    end
  else if f =? "sum" then
    match args with
    | [v] => l <- iter_of v ;; sum_from (VInt 0) l
    | [v; VStr _] => Exc KType
    | [v; start] => l <- iter_of v ;; sum_from start l
    | _ => Exc KType
    end
  else if f =? "all" then
    match args with [v] => l <- iter_of v ;; Val (VBool (forallb truthy l)) | _ => Exc KType end
  else if f =? "any" then
    match args with [v] => l <- iter_of v ;; Val (VBool (existsb truthy l)) | _ => Exc KType end
  else Gap.

(* with keyword arguments: only sorted(<iterable>, reverse=<flag>) is modelled *)
Definition call_builtin_kw (f : string) (args : list val) (kws : list (string * val)) : res val :=
  match kws with
  | [] => call_builtin f args
  | [(k, flag)] =>
      if (f =? "sorted") && (k =? "reverse") then
        match args, as_int flag with
        | [v], Some _ =>
            l <- iter_of v ;;
            if truthy flag then (r <- sorted_list (rev l) ;; Val (VList (rev r)))
            else (r <- sorted_list l ;; Val (VList r))
        | _, _ => Gap
        end
      else Gap
  | _ => Gap
  end.

(* methods of constants, positional arguments only *)
Definition call_method (recv : val) (m : string) (args : list val) : res val :=
  match recv with
  | VStr s =>
      if m =? "upper" then
        match args with [] => if all_ascii s then Val (VStr (map ascii_upper s)) else Gap | _ => Exc KType end
      else if m =? "lower" then
        match args with [] => if all_ascii s then Val (VStr (map ascii_lower s)) else Gap | _ => Exc KType end
      else if m =? "join" then
        match args with
        | [v] => l <- iter_of v ;; if all_strs l then (r <- join_strs s l ;; Val (VStr r)) else Exc KType
        | _ => Exc KType
        end
      else if m =? "startswith" then
        match args with
        | [VStr p] => Val (VBool (zs_prefix p s))
        | [VTuple _] => Gap
        | [_] => Exc KType
        | [] => Exc KType
        | _ => Gap
        end
      else if m =? "endswith" then
        match args with
        | [VStr p] => Val (VBool (zs_prefix (rev p) (rev s)))
        | [VTuple _] => Gap
        | [_] => Exc KType
        | [] => Exc KType
        | _ => Gap
        end
      else Gap
  | _ => Gap
  end.
(* the methods above: the only attribute lookups the model knows to succeed *)
Definition method_known (recv : val) (m : string) : bool :=
  match recv with
  | VStr _ => (m =? "upper") || (m =? "lower") || (m =? "join") || (m =? "startswith") || (m =? "endswith")
  | _ => false
  end.
Close Scope string_scope.

(* ---------------- expressions ---------------- *)
Inductive expr :=
| EConst (v : val)                         (* ast.Constant *)
| EName (x : string)
| EUn (o : unop) (e : expr)
| EBin (o : binop) (a b : expr)
| EBool (isand : bool) (es : list expr)
| ECmp (a : expr) (rest : list (cmpop * expr))
| EIf (c a b : expr)
| ETuple (es : list expr)
| EList (es : list expr)
| ECall (f : string) (args : list expr) (kws : list (string * expr))
| EMeth (recv : val) (m : string) (args : list expr) (kws : list (string * expr)).

(* evaluation schemes shared by the reference semantics and by the model of the tool: [ev] is the
   evaluator of sub-expressions *)
Section Schemes.
Variable ev : expr -> res val.
(* left to right; the first failure wins *)
Fixpoint eval_list (l : list expr) : res (list val) :=
  match l with
  | [] => Val []
  | x :: tl => v <- ev x ;; r <- eval_list tl ;; Val (v :: r)
  end.
Fixpoint eval_kws (l : list (string * expr)) : res (list (string * val)) :=
  match l with
  | [] => Val []
  | (n, x) :: tl => v <- ev x ;; r <- eval_kws tl ;; Val ((n, v) :: r)
  end.
(* `a and b and ...` / `a or b or ...`: the first operand that decides, else the last; VALUES *)
Fixpoint boolop_go (isand : bool) (l : list expr) : res val :=
  match l with
  | [] => Gap                                          (* not a Python expression *)
  | [x] => ev x
  | x :: tl => v <- ev x ;; if Bool.eqb (truthy v) isand then boolop_go isand tl else Val v
  end.
(* `prev op1 b1 op2 b2 ...`: every operand evaluated at most once, left to right, stops at the first
   falsy comparison result, whose value is the value of the chain *)
Fixpoint cmp_go (prev : val) (l : list (cmpop * expr)) : res val :=
  match l with
  | [] => Gap                                          (* not a Python expression *)
  | [(o, b)] => y <- ev b ;; opfn_apply (cmpop_fn o) prev y
  | (o, b) :: tl => y <- ev b ;; r <- opfn_apply (cmpop_fn o) prev y ;;
                    if truthy r then cmp_go y tl else Val r
  end.
End Schemes.

Section Eval.
Variable env : string -> option val.       (* the variables in scope; builtins are not rebound *)

Fixpoint eval (e : expr) : res val :=
  match e with
  | EConst v => Val v
  | EName x => match env x with Some v => Val v | None => Exc KName end
  | EUn o a => v <- eval a ;; unop_apply o v
  | EBin o a b => x <- eval a ;; y <- eval b ;; opfn_apply (binop_fn o) x y
  | EBool isand es => boolop_go eval isand es
  | ECmp a rest => x <- eval a ;; cmp_go eval x rest
  | EIf c a b => v <- eval c ;; if truthy v then eval a else eval b
  | ETuple es => l <- eval_list eval es ;; Val (VTuple l)
  | EList es => l <- eval_list eval es ;; Val (VList l)
  | ECall f args kws =>
      a <- eval_list eval args ;; k <- eval_kws eval kws ;; call_builtin_kw f a k
  | EMeth recv m args kws =>
      (* the attribute is looked up BEFORE the arguments are evaluated *)
      if method_known recv m then
        a <- eval_list eval args ;;
        match kws with [] => call_method recv m a | _ => Gap end
      else Gap
  end.
End Eval.

(* ---------------- correspondence plumbing ---------------- *)
(* exact structural equality (True and 1 are DIFFERENT here) *)
Fixpoint val_same (a b : val) : bool :=
  match a, b with
  | VNone, VNone => true
  | VBool x, VBool y => Bool.eqb x y
  | VInt x, VInt y => x =? y
  | VStr s, VStr t => zs_eqb s t
  | VTuple l, VTuple m | VList l, VList m =>
      (fix go (l m : list val) : bool :=
         match l, m with
         | [], [] => true
         | x :: l', y :: m' => val_same x y && go l' m'
         | _, _ => false
         end) l m
  | _, _ => false
  end.
Definition exn_eqb (a b : exn) : bool :=
  match a, b with
  | KZeroDiv, KZeroDiv | KType, KType | KValue, KValue | KOverflow, KOverflow | KAttr, KAttr
  | KName, KName | KIndex, KIndex | KOther, KOther | KSystemExit, KSystemExit => true
  | _, _ => false
  end.
(* observed outcome of CPython: a value, an exception class, or "outside the value domain" *)
Definition res_ok (model observed : res val) : bool :=
  match model, observed with
  | Val a, Val b => val_same a b
  | Exc j, Exc k => exn_eqb j k
  | Gap, _ => true                        (* the model makes no claim *)
  | _, _ => false
  end.
Definition is_gap {A} (r : res A) : bool := match r with Gap => true | _ => false end.
