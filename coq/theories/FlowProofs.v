(* K5 -- theorems about FlowModel.v: every statement tree of every depth, every choice of the
   unevaluable tests. *)
From Coq Require Import List Bool Lia.
Import ListNotations.
Require Import Pyrefact.FlowModel.

(* ---------------- induction principle for the nested-list statement type ---------------- *)
Section StmtInd.
  Variable P : stmt -> Prop.
  Hypothesis HPass : P SPass.
  Hypothesis HCall : P SCall.
  Hypothesis HReturn : P SReturn.
  Hypothesis HRaise : P SRaise.
  Hypothesis HBreak : P SBreak.
  Hypothesis HContinue : P SContinue.
  Hypothesis HAssert : forall t, P (SAssert t).
  Hypothesis HIf : forall t b o, Forall P b -> Forall P o -> P (SIf t b o).
  Hypothesis HWhile : forall t b o, Forall P b -> Forall P o -> P (SWhile t b o).
  Hypothesis HFor : forall i b o, Forall P b -> Forall P o -> P (SFor i b o).
  Hypothesis HWith : forall b, Forall P b -> P (SWith b).
  Hypothesis HTry : forall b hs o f,
      Forall P b -> Forall (Forall P) hs -> Forall P o -> Forall P f -> P (STry b hs o f).
  Hypothesis HDef : forall b, Forall P b -> P (SDef b).
  Hypothesis HMatch : forall cs, Forall (fun c => Forall P (snd c)) cs -> P (SMatch cs).

  Fixpoint stmt_ind' (s : stmt) : P s :=
    let go := fix go (l : list stmt) : Forall P l :=
                match l with
                | [] => Forall_nil P
                | x :: t => Forall_cons x (stmt_ind' x) (go t)
                end in
    let go2 := fix go2 (l : list (list stmt)) : Forall (Forall P) l :=
                 match l with
                 | [] => Forall_nil (Forall P)
                 | x :: t => Forall_cons x (go x) (go2 t)
                 end in
    let go3 := fix go3 (l : list (pat * mguard * list stmt)) : Forall (fun c => Forall P (snd c)) l :=
                 match l with
                 | [] => Forall_nil _
                 | c :: t => Forall_cons c (go (snd c)) (go3 t)
                 end in
    match s with
    | SPass => HPass
    | SCall => HCall
    | SReturn => HReturn
    | SRaise => HRaise
    | SBreak => HBreak
    | SContinue => HContinue
    | SAssert t => HAssert t
    | SIf t b o => HIf t b o (go b) (go o)
    | SWhile t b o => HWhile t b o (go b) (go o)
    | SFor i b o => HFor i b o (go b) (go o)
    | SWith b => HWith b (go b)
    | STry b hs o f => HTry b hs o f (go b) (go2 hs) (go o) (go f)
    | SDef b => HDef b (go b)
    | SMatch cs => HMatch cs (go3 cs)
    end.
End StmtInd.

(* ---------------- the nested helper functions as top-level functions ---------------- *)
Definition any_leave (l : list stmt) : bool := existsb may_leave l.
Definition any_leave2 (l : list (list stmt)) : bool := existsb any_leave l.
Definition any_leave_cases (l : list (pat * mguard * list stmt)) : bool := existsb (fun c => any_leave (snd c)) l.

Lemma may_leave_eq : forall s,
  may_leave s =
  match s with
  | SBreak | SContinue => true
  | SDef _ => false
  | SWhile _ _ orelse => any_leave orelse
  | SFor _ _ orelse => any_leave orelse
  | SIf _ body orelse => any_leave body || any_leave orelse
  | SWith body => any_leave body
  | STry body hs orelse final => any_leave body || any_leave2 hs || any_leave orelse || any_leave final
  | SMatch cs => any_leave_cases cs
  | _ => false
  end.
Proof. destruct s; reflexivity. Qed.

Definition any_block (l : list stmt) (p : parent) : bool := existsb (fun x => is_blocking x p) l.

Fixpoint scan (l : list stmt) (ty : parent) (dflt : bool) : bool :=
  match l with
  | [] => dflt
  | x :: tl => if may_leave x then false else if is_blocking x ty then true else scan tl ty dflt
  end.

Definition direct (p : parent) (s : stmt) : bool :=
  match p, s with
  | PNone, (SReturn | SContinue | SBreak) => true
  | (PFor | PWhile), SReturn => true
  | _, _ => false
  end.

Definition is_blocking_body (s : stmt) (p : parent) : bool :=
  if is_exception s then true
  else if direct p s then true
  else match s with
       | SIf TTrue body _ => any_block body p
       | SIf TFalse _ orelse => any_block orelse p
       | SIf TUnknown body orelse => any_block body p && any_block orelse p
       | SWhile TTrue body _ => scan body PWhile true
       | SWhile _ _ _ => false
       | SFor INonEmpty body _ => scan body PFor false
       | SFor _ _ _ => false
       | SWith body => any_block body p
       | _ => false
       end.

Definition anyb_raw :=
  fix anyb (l : list stmt) (p : parent) {struct l} : bool :=
     match l with [] => false | x :: tl => is_blocking x p || anyb tl p end.

Lemma anyb_eq : forall l p, anyb_raw l p = any_block l p.
Proof.
  induction l as [| x tl IH]; intro p; [reflexivity |].
  change (any_block (x :: tl) p) with (is_blocking x p || any_block tl p).
  rewrite <- IH. reflexivity.
Qed.

Lemma is_blocking_eq : forall s p, is_blocking s p = is_blocking_body s p.
Proof.
  intros s p. unfold is_blocking_body.
  destruct s as [| | | | | | t | t b o | t b o | it b o | b | b hs o f | b | cs]; try reflexivity.
  - (* If *)
    destruct t; destruct p; unfold is_exception, direct; rewrite <- ?anyb_eq; reflexivity.
  - (* With *) destruct p; unfold is_exception, direct; rewrite <- ?anyb_eq; reflexivity.
Qed.

Section SemEq.
  Variable sup : bool.
  Fixpoint outcomes_blocks (l : list (list stmt)) : outs :=
    match l with [] => o_none | x :: tl => o_union (outcomes_block sup x) (outcomes_blocks tl) end.
  Fixpoint outcomes_cases (l : list (pat * mguard * list stmt)) : outs :=
    match l with
    | [] => mkO true false false false false
    | c :: tl => match case_kind (fst c) with
                 | CAlways => outcomes_block sup (snd c)
                 | CNever => outcomes_cases tl
                 | CMay => o_union (outcomes_block sup (snd c)) (outcomes_cases tl)
                 end
    end.
End SemEq.

Lemma outcomes_eq : forall sup s,
  outcomes sup s =
  let block := outcomes_block sup in
  match s with
  | SPass => mkO true false false false false
  | SCall => mkO true false true false false
  | SReturn => mkO false true false false false
  | SRaise => mkO false false true false false
  | SBreak => mkO false false false true false
  | SContinue => mkO false false false false true
  | SAssert TTrue => mkO true false false false false
  | SAssert TFalse => mkO false false true false false
  | SAssert TUnknown => mkO true false true false false
  | SDef _ => mkO true false false false false
  | SIf TTrue body _ => block body
  | SIf TFalse _ orelse => block orelse
  | SIf TUnknown body orelse =>
      o_union (mkO false false true false false) (o_union (block body) (block orelse))
  | SWhile TFalse _ orelse => block orelse
  | SWhile TTrue body _ =>
      let B := block body in mkO (o_b B) (o_r B) (o_e B) false false
  | SWhile TUnknown body orelse =>
      let B := block body in let O := block orelse in
      mkO (o_n O || o_b B) (o_r B || o_r O) true (o_b O) (o_c O)
  | SFor IEmpty _ orelse => block orelse
  | SFor IUnknown body orelse =>
      let B := block body in let O := block orelse in
      mkO (o_n O || o_b B) (o_r B || o_r O) true (o_b O) (o_c O)
  | SFor INonEmpty body orelse =>
      let B := block body in let O := block orelse in
      let fin := o_n B || o_c B in
      mkO ((fin && o_n O) || o_b B) (o_r B || (fin && o_r O)) (o_e B || (fin && o_e O))
          (fin && o_b O) (fin && o_c O)
  | SWith body =>
      let B := block body in
      mkO (o_n B || (sup && o_e B)) (o_r B) true (o_b B) (o_c B)
  | STry body hs orelse final =>
      let B := block body in let O := block orelse in let H := outcomes_blocks sup hs in
      let F := block final in
      let pre := o_union (mkO false (o_r B) (o_e B) (o_b B) (o_c B))
                         (o_union (o_when (o_n B) O) (o_when (o_e B) H)) in
      o_union (o_when (o_n F) pre) (mkO false (o_r F) (o_e F) (o_b F) (o_c F))
  | SMatch cs =>
      let C := outcomes_cases sup cs in mkO (o_n C) (o_r C) true (o_b C) (o_c C)
  end.
Proof.
  intros sup s.
  destruct s as [| | | | | | t | t b o | t b o | it b o | b | b hs o f | b | cs]; try reflexivity;
    try (destruct t; reflexivity); try (destruct it; reflexivity).
Qed.

(* ---------------- may_leave ---------------- *)
Definition no_leave_P (sup : bool) (s : stmt) : Prop :=
  may_leave s = false -> o_b (outcomes sup s) = false /\ o_c (outcomes sup s) = false.

Lemma outcomes_block_cons : forall sup x tl,
  outcomes_block sup (x :: tl) = o_seq (outcomes sup x) (outcomes_block sup tl).
Proof. reflexivity. Qed.

Lemma any_leave_cons : forall x tl, any_leave (x :: tl) = may_leave x || any_leave tl.
Proof. reflexivity. Qed.

Lemma block_no_leave : forall sup l,
  Forall (no_leave_P sup) l -> any_leave l = false ->
  o_b (outcomes_block sup l) = false /\ o_c (outcomes_block sup l) = false.
Proof.
  intros sup l HF. induction HF as [| x tl Hx Htl IH]; intro Hl.
  - split; reflexivity.
  - rewrite any_leave_cons in Hl. apply orb_false_iff in Hl. destruct Hl as [Hx0 Htl0].
    destruct (Hx Hx0) as [Hb Hc]. destruct (IH Htl0) as [Hb' Hc'].
    rewrite outcomes_block_cons. unfold o_seq. cbn [o_b o_c].
    rewrite Hb, Hc, Hb', Hc'. rewrite !andb_false_r. split; reflexivity.
Qed.

Lemma blocks_no_leave : forall sup hs,
  Forall (Forall (no_leave_P sup)) hs -> any_leave2 hs = false ->
  o_b (outcomes_blocks sup hs) = false /\ o_c (outcomes_blocks sup hs) = false.
Proof.
  intros sup hs HF. induction HF as [| h tl Hh Htl IH]; intro Hl.
  - split; reflexivity.
  - change (any_leave2 (h :: tl)) with (any_leave h || any_leave2 tl) in Hl.
    apply orb_false_iff in Hl. destruct Hl as [Hh0 Htl0].
    destruct (block_no_leave sup h Hh Hh0) as [Hb Hc]. destruct (IH Htl0) as [Hb' Hc'].
    cbn [outcomes_blocks]. unfold o_union. cbn [o_b o_c]. rewrite Hb, Hc, Hb', Hc'. split; reflexivity.
Qed.

Lemma cases_no_leave : forall sup cs,
  Forall (fun c => Forall (no_leave_P sup) (snd c)) cs -> any_leave_cases cs = false ->
  o_b (outcomes_cases sup cs) = false /\ o_c (outcomes_cases sup cs) = false.
Proof.
  intros sup cs HF. induction HF as [| c tl Hc Htl IH]; intro Hl.
  - split; reflexivity.
  - change (any_leave_cases (c :: tl)) with (any_leave (snd c) || any_leave_cases tl) in Hl.
    apply orb_false_iff in Hl. destruct Hl as [Hc0 Htl0].
    destruct (block_no_leave sup (snd c) Hc Hc0) as [Hb Hc']. destruct (IH Htl0) as [Tb Tc].
    cbn [outcomes_cases]. destruct (case_kind (fst c)).
    + split; assumption.
    + split; assumption.
    + unfold o_union. cbn [o_b o_c]. rewrite Hb, Hc', Tb, Tc. split; reflexivity.
Qed.

(* a statement that contains no break/continue belonging to the enclosing loop cannot terminate by
   break or continue (whatever context managers do) *)
Theorem may_leave_sound :
  forall sup s, may_leave s = false ->
    o_b (outcomes sup s) = false /\ o_c (outcomes sup s) = false.
Proof.
  intros sup s. change (no_leave_P sup s).
  induction s as [| | | | | | t | t b o Hb Ho | t b o Hb Ho | it b o Hb Ho | b Hb | b hs o f Hb Hhs Ho Hf | b Hb | cs Hcs]
    using stmt_ind'; unfold no_leave_P; rewrite may_leave_eq, outcomes_eq; intro H;
    try discriminate; try (split; reflexivity).
  - destruct t; split; reflexivity.
  - (* If *)
    apply orb_false_iff in H. destruct H as [H1 H2].
    destruct (block_no_leave sup b Hb H1) as [B1 B2]. destruct (block_no_leave sup o Ho H2) as [O1 O2].
    destruct t; cbn [o_union o_b o_c]; rewrite ?B1, ?B2, ?O1, ?O2; split; reflexivity.
  - (* While *)
    destruct (block_no_leave sup o Ho H) as [O1 O2].
    destruct t; cbn [o_b o_c]; rewrite ?O1, ?O2; split; reflexivity.
  - (* For *)
    destruct (block_no_leave sup o Ho H) as [O1 O2].
    destruct it; cbn [o_b o_c]; rewrite ?O1, ?O2, ?andb_false_r; split; reflexivity.
  - (* With *)
    destruct (block_no_leave sup b Hb H) as [B1 B2]. cbn [o_b o_c]. split; assumption.
  - (* Try *)
    apply orb_false_iff in H. destruct H as [H Hf0].
    apply orb_false_iff in H. destruct H as [H Ho0].
    apply orb_false_iff in H. destruct H as [Hb0 Hh0].
    destruct (block_no_leave sup b Hb Hb0) as [B1 B2]. destruct (block_no_leave sup o Ho Ho0) as [O1 O2].
    destruct (block_no_leave sup f Hf Hf0) as [F1 F2].
    destruct (blocks_no_leave sup hs Hhs Hh0) as [H1 H2].
    cbv zeta. unfold o_union, o_when. cbn [o_b o_c].
    rewrite B1, B2, F1, F2.
    destruct (o_n (outcomes_block sup f)), (o_n (outcomes_block sup b)), (o_e (outcomes_block sup b));
      cbn [o_b o_c o_none orb]; rewrite ?O1, ?O2, ?H1, ?H2; split; reflexivity.
  - (* Match *)
    destruct (cases_no_leave sup cs Hcs H) as [C1 C2]. cbv zeta. cbn [o_b o_c]. split; assumption.
Qed.

(* ---------------- is_blocking ---------------- *)
(* statements without `with` (the guard of the version that holds whatever context managers do) *)
Fixpoint no_with (s : stmt) : bool :=
  let all := fix all (l : list stmt) : bool :=
               match l with [] => true | x :: tl => no_with x && all tl end in
  let all2 := fix all2 (l : list (list stmt)) : bool :=
               match l with [] => true | x :: tl => all x && all2 tl end in
  let allc := fix allc (l : list (pat * mguard * list stmt)) : bool :=
               match l with [] => true | c :: tl => all (snd c) && allc tl end in
  match s with
  | SWith _ => false
  | SIf _ b o | SWhile _ b o | SFor _ b o => all b && all o
  | STry b hs o f => all b && all2 hs && all o && all f
  | SDef b => all b
  | SMatch cs => allc cs
  | _ => true
  end.

Definition all_no_with (l : list stmt) : bool := forallb no_with l.

Lemma no_with_eq : forall s,
  no_with s =
  match s with
  | SWith _ => false
  | SIf _ b o | SWhile _ b o | SFor _ b o => all_no_with b && all_no_with o
  | STry b hs o f => all_no_with b && forallb all_no_with hs && all_no_with o && all_no_with f
  | SDef b => all_no_with b
  | SMatch cs => forallb (fun c => all_no_with (snd c)) cs
  | _ => true
  end.
Proof. destruct s; reflexivity. Qed.

Definition guard (sup : bool) (s : stmt) : Prop := sup = false \/ no_with s = true.
Definition guardl (sup : bool) (l : list stmt) : Prop := sup = false \/ all_no_with l = true.

Definition block_P (sup : bool) (s : stmt) : Prop :=
  guard sup s -> forall p, is_blocking s p = true -> o_n (outcomes sup s) = false.

Lemma guardl_cons : forall sup x tl, guardl sup (x :: tl) -> guard sup x /\ guardl sup tl.
Proof.
  intros sup x tl [H | H]; [split; left; exact H |].
  change (all_no_with (x :: tl)) with (no_with x && all_no_with tl) in H.
  apply andb_true_iff in H. destruct H as [H1 H2]. split; right; assumption.
Qed.

Lemma any_block_sound : forall sup l p,
  Forall (block_P sup) l -> guardl sup l -> any_block l p = true ->
  o_n (outcomes_block sup l) = false.
Proof.
  intros sup l p HF. induction HF as [| x tl Hx Htl IH]; intros G H.
  - discriminate.
  - destruct (guardl_cons _ _ _ G) as [Gx Gtl].
    change (any_block (x :: tl) p) with (is_blocking x p || any_block tl p) in H.
    rewrite outcomes_block_cons. unfold o_seq. cbn [o_n].
    apply orb_true_iff in H. destruct H as [H | H].
    + rewrite (Hx Gx p H). reflexivity.
    + rewrite (IH Gtl H). apply andb_false_r.
Qed.

Lemma scan_sound : forall sup l ty d,
  Forall (block_P sup) l -> guardl sup l -> scan l ty d = true ->
  o_b (outcomes_block sup l) = false /\
  (d = false -> o_n (outcomes_block sup l) = false /\ o_c (outcomes_block sup l) = false).
Proof.
  intros sup l ty d HF. induction HF as [| x tl Hx Htl IH]; intros G H.
  - cbn [scan] in H. subst d. split; [reflexivity | discriminate].
  - destruct (guardl_cons _ _ _ G) as [Gx Gtl].
    cbn [scan] in H.
    destruct (may_leave x) eqn:Eml; [discriminate |].
    destruct (may_leave_sound sup x Eml) as [Xb Xc].
    rewrite outcomes_block_cons. unfold o_seq. cbn [o_n o_b o_c]. rewrite Xb, Xc.
    destruct (is_blocking x ty) eqn:Eb.
    + rewrite (Hx Gx ty Eb). split; [reflexivity | intros _; split; reflexivity].
    + destruct (IH Gtl H) as [Tb Td]. rewrite Tb. rewrite andb_false_r.
      split; [reflexivity |]. intro Hd. destruct (Td Hd) as [Tn Tc]. rewrite Tn, Tc.
      rewrite !andb_false_r. split; reflexivity.
Qed.

Lemma guard_if : forall sup t b o, guard sup (SIf t b o) -> guardl sup b /\ guardl sup o.
Proof.
  intros sup t b o [H | H]; [split; left; exact H |].
  rewrite no_with_eq in H. apply andb_true_iff in H. destruct H; split; right; assumption.
Qed.
Lemma guard_while : forall sup t b o, guard sup (SWhile t b o) -> guardl sup b /\ guardl sup o.
Proof.
  intros sup t b o [H | H]; [split; left; exact H |].
  rewrite no_with_eq in H. apply andb_true_iff in H. destruct H; split; right; assumption.
Qed.
Lemma guard_for : forall sup t b o, guard sup (SFor t b o) -> guardl sup b /\ guardl sup o.
Proof.
  intros sup t b o [H | H]; [split; left; exact H |].
  rewrite no_with_eq in H. apply andb_true_iff in H. destruct H; split; right; assumption.
Qed.

Lemma blocking_sound_gen : forall sup s, block_P sup s.
Proof.
  intros sup s.
  induction s as [| | | | | | t | t b o Hb Ho | t b o Hb Ho | it b o Hb Ho | b Hb | b hs o f Hb Hhs Ho Hf | b Hb | cs Hcs]
    using stmt_ind'; unfold block_P; intros G p; rewrite is_blocking_eq, outcomes_eq;
    unfold is_blocking_body; intro H; try reflexivity.
  - destruct p; discriminate.
  - destruct p; discriminate.
  - destruct t; try reflexivity; destruct p; discriminate.
  - (* If *)
    destruct (guard_if _ _ _ _ G) as [Gb Go].
    assert (D : direct p (SIf t b o) = false) by (destruct p; reflexivity).
    cbn [is_exception] in H. rewrite D in H.
    destruct t; cbv zeta.
    + exact (any_block_sound sup b p Hb Gb H).
    + exact (any_block_sound sup o p Ho Go H).
    + apply andb_true_iff in H. destruct H as [H1 H2].
      unfold o_union. cbn [o_n].
      rewrite (any_block_sound sup b p Hb Gb H1), (any_block_sound sup o p Ho Go H2). reflexivity.
  - (* While *)
    destruct (guard_while _ _ _ _ G) as [Gb Go].
    assert (D : direct p (SWhile t b o) = false) by (destruct p; reflexivity).
    cbn [is_exception] in H. rewrite D in H.
    destruct t; try discriminate. cbv zeta. cbn [o_n].
    exact (proj1 (scan_sound sup b PWhile true Hb Gb H)).
  - (* For *)
    destruct (guard_for _ _ _ _ G) as [Gb Go].
    assert (D : direct p (SFor it b o) = false) by (destruct p; reflexivity).
    cbn [is_exception] in H. rewrite D in H.
    destruct it; try discriminate. cbv zeta. cbn [o_n].
    destruct (scan_sound sup b PFor false Hb Gb H) as [Sb Sd].
    destruct (Sd eq_refl) as [Sn Sc]. rewrite Sb, Sn, Sc. reflexivity.
  - (* With *)
    destruct G as [G | G]; [| rewrite no_with_eq in G; discriminate].
    assert (D : direct p (SWith b) = false) by (destruct p; reflexivity).
    cbn [is_exception] in H. rewrite D in H.
    cbv zeta. cbn [o_n]. subst sup.
    rewrite (any_block_sound false b p Hb (or_introl eq_refl) H). reflexivity.
  - destruct p; discriminate.
  - destruct p; discriminate.
  - (* Match: never judged blocking *) destruct p; discriminate.
Qed.

(* T16.1: a statement judged blocking (in a function body / at module level) never completes normally,
   under the tool's assumption that context managers do not swallow exceptions *)
Theorem blocking_sound :
  forall s, is_blocking s PNone = true -> o_n (outcomes false s) = false.
Proof. intros s H. exact (blocking_sound_gen false s (or_introl eq_refl) PNone H). Qed.

(* inside a loop body: a statement judged blocking that cannot leave the iteration always
   terminates by return or by an exception *)
Theorem blocking_loop_sound :
  forall s p, p <> PNone -> may_leave s = false -> is_blocking s p = true ->
    o_n (outcomes false s) = false /\ o_b (outcomes false s) = false /\ o_c (outcomes false s) = false.
Proof.
  intros s p _ Hml Hb. split.
  - exact (blocking_sound_gen false s (or_introl eq_refl) p Hb).
  - exact (may_leave_sound false s Hml).
Qed.

Lemma block_app_n : forall sup pre s,
  o_n (outcomes sup s) = false -> o_n (outcomes_block sup (pre ++ [s])) = false.
Proof.
  intros sup pre s H. induction pre as [| x tl IH].
  - cbn [app]. rewrite outcomes_block_cons. unfold o_seq. cbn [o_n]. rewrite H. reflexivity.
  - cbn [app]. rewrite outcomes_block_cons. unfold o_seq. cbn [o_n]. rewrite IH. apply andb_false_r.
Qed.

(* delete_unreachable_code: the statements after the first blocking one are never reached *)
Theorem unreachable_sound :
  forall body,
    unreachable_from body = [] \/
    exists pre s, body = pre ++ s :: unreachable_from body /\
                  o_n (outcomes_block false (pre ++ [s])) = false.
Proof.
  induction body as [| x tl IH].
  - left. reflexivity.
  - cbn [unreachable_from]. destruct (is_blocking x PNone) eqn:E.
    + right. exists [], x. split; [reflexivity |].
      apply (block_app_n false []). exact (blocking_sound x E).
    + destruct IH as [IH | [pre [s [H1 H2]]]]; [left; exact IH |].
      right. exists (x :: pre), s. split.
      * cbn [app]. rewrite <- H1. reflexivity.
      * cbn [app]. rewrite outcomes_block_cons. unfold o_seq. cbn [o_n]. rewrite H2. apply andb_false_r.
Qed.

(* R16.2: refuted as soon as a context manager may suppress an exception *)
Theorem blocking_refuted_with_suppression :
  exists s, is_blocking s PNone = true /\ o_n (outcomes true s) = true.
Proof. exists (SWith [SRaise]). split; vm_compute; reflexivity. Qed.

Theorem blocking_sound_no_with :
  forall sup s, no_with s = true -> is_blocking s PNone = true -> o_n (outcomes sup s) = false.
Proof. intros sup s G H. exact (blocking_sound_gen sup s (or_intror G) PNone H). Qed.

Example blocking_nonvacuous :
  is_blocking (SFor INonEmpty [SIf TUnknown [SCall; SReturn] [SWhile TTrue [SCall; SRaise] []]] []) PNone = true
  /\ no_with (SFor INonEmpty [SIf TUnknown [SCall; SReturn] [SWhile TTrue [SCall; SRaise] []]] []) = true.
Proof. split; reflexivity. Qed.

(* T16.8: the constant-test branch of delete_unreachable_code keeps the possible outcomes of the statement *)
Theorem dead_const_sound : forall sup s, outcomes_block sup (apply_dead s) = outcomes sup s.
Proof.
  intros sup s.
  assert (E1 : forall x, outcomes_block sup [x] = outcomes sup x).
  { intro x. cbn [outcomes_block]. destruct (outcomes sup x) as [n r e b c]. unfold o_seq. cbn.
    rewrite !andb_true_r, !andb_false_r, !orb_false_r. reflexivity. }
  destruct s as [| | | | | | t | t b o | t b o | it b o | b | b hs o f | b | cs];
    try (unfold apply_dead; cbn [dead_const]; apply E1).
  - (* If *)
    destruct t; [destruct b as [| x b'] | destruct o as [| x o'] |];
      unfold apply_dead; cbn [dead_const]; rewrite ?E1, !outcomes_eq; reflexivity.
  - (* While *)
    destruct t; try (unfold apply_dead; cbn [dead_const]; apply E1).
    destruct o as [| x o']; unfold apply_dead; cbn [dead_const]; rewrite ?E1, ?outcomes_eq; reflexivity.
Qed.

(* ---------------- match statements (seeded/C01-d) ---------------- *)
(* T16.9a: core.is_blocking has no clause for ast.Match: a match statement is never judged blocking, under any
   parent (conservative; the soundness theorems above cover it through the induction) *)
Theorem match_never_blocking : forall cs p, is_blocking (SMatch cs) p = false.
Proof. intros cs p. rewrite is_blocking_eq. destruct p; reflexivity. Qed.

(* T16.9b: a break / continue of the enclosing loop inside ANY case body is seen by _may_leave_iteration *)
Theorem match_case_leave_seen :
  forall cs c, List.In c cs -> any_leave (snd c) = true -> may_leave (SMatch cs) = true.
Proof.
  intros cs c Hin Hc. rewrite may_leave_eq. unfold any_leave_cases.
  apply existsb_exists. exists c. split; assumption.
Qed.

(* the loop scan of is_blocking with an arbitrary "may leave the iteration" test *)
Fixpoint scan_with (ml : stmt -> bool) (l : list stmt) (ty : parent) (dflt : bool) : bool :=
  match l with
  | [] => dflt
  | x :: tl => if ml x then false else if is_blocking x ty then true else scan_with ml tl ty dflt
  end.

Lemma scan_with_may_leave : forall l ty d, scan_with may_leave l ty d = scan l ty d.
Proof. induction l as [| x tl IH]; intros ty d; [reflexivity |]. cbn [scan_with scan]. rewrite IH. reflexivity. Qed.

(* R16.9: the walk of seeded/C01-d (statement-list fields only, Match.cases forgotten) is refuted: it misses a
   break that does leave the loop, and a `while True:` scanned with it is judged impossible to get past
   although it completes normally; same for a literal `for` whose case does `continue` before a return *)
Theorem stmt_list_walk_refuted :
  (exists s, may_leave_stmt_lists s = false /\ o_b (outcomes false s) = true) /\
  (exists body, scan_with may_leave_stmt_lists body PWhile true = true /\
                o_n (outcomes false (SWhile TTrue body [])) = true) /\
  (exists body, scan_with may_leave_stmt_lists body PFor false = true /\
                o_n (outcomes false (SFor INonEmpty body [])) = true).
Proof.
  split; [| split].
  - exists (SMatch [(PatOpaque, MGNone, [SBreak])]). split; vm_compute; reflexivity.
  - exists [SMatch [(PatOpaque, MGNone, [SBreak])]]. split; vm_compute; reflexivity.
  - exists [SMatch [(PatOpaque, MGNone, [SContinue])]; SReturn]. split; vm_compute; reflexivity.
Qed.

(* ... and it is fine on trees without a match statement (the partial counterpart of R16.9) *)
Fixpoint no_match (s : stmt) : bool :=
  let all := fix all (l : list stmt) : bool :=
               match l with [] => true | x :: tl => no_match x && all tl end in
  let all2 := fix all2 (l : list (list stmt)) : bool :=
               match l with [] => true | x :: tl => all x && all2 tl end in
  match s with
  | SMatch _ => false
  | SIf _ b o | SWhile _ b o | SFor _ b o => all b && all o
  | SWith b => all b
  | STry b hs o f => all b && all2 hs && all o && all f
  | _ => true                      (* a nested def is a separate scope: neither walk enters it *)
  end.

Definition all_no_match (l : list stmt) : bool := forallb no_match l.
Definition any_leave' (l : list stmt) : bool := existsb may_leave_stmt_lists l.

Lemma no_match_eq : forall s,
  no_match s =
  match s with
  | SMatch _ => false
  | SIf _ b o | SWhile _ b o | SFor _ b o => all_no_match b && all_no_match o
  | SWith b => all_no_match b
  | STry b hs o f => all_no_match b && forallb all_no_match hs && all_no_match o && all_no_match f
  | _ => true
  end.
Proof. destruct s; reflexivity. Qed.

Lemma may_leave_stmt_lists_eq : forall s,
  may_leave_stmt_lists s =
  match s with
  | SBreak | SContinue => true
  | SDef _ => false
  | SWhile _ _ orelse => any_leave' orelse
  | SFor _ _ orelse => any_leave' orelse
  | SIf _ body orelse => any_leave' body || any_leave' orelse
  | SWith body => any_leave' body
  | STry body hs orelse final => any_leave' body || existsb any_leave' hs || any_leave' orelse || any_leave' final
  | _ => false
  end.
Proof. destruct s; reflexivity. Qed.

Definition agree_P (s : stmt) : Prop := no_match s = true -> may_leave_stmt_lists s = may_leave s.

Lemma agree_block : forall l, Forall agree_P l -> all_no_match l = true -> any_leave' l = any_leave l.
Proof.
  intros l HF. induction HF as [| x tl Hx Htl IH]; intro H; [reflexivity |].
  change (all_no_match (x :: tl)) with (no_match x && all_no_match tl) in H.
  apply andb_true_iff in H. destruct H as [H1 H2].
  change (any_leave' (x :: tl)) with (may_leave_stmt_lists x || any_leave' tl).
  change (any_leave (x :: tl)) with (may_leave x || any_leave tl).
  rewrite (Hx H1), (IH H2). reflexivity.
Qed.

Lemma agree_blocks : forall hs, Forall (Forall agree_P) hs -> forallb all_no_match hs = true ->
  existsb any_leave' hs = any_leave2 hs.
Proof.
  intros hs HF. induction HF as [| h tl Hh Htl IH]; intro H; [reflexivity |].
  cbn [forallb] in H. apply andb_true_iff in H. destruct H as [H1 H2].
  change (any_leave2 (h :: tl)) with (any_leave h || any_leave2 tl).
  cbn [existsb]. rewrite (agree_block h Hh H1), (IH H2). reflexivity.
Qed.

Theorem stmt_list_walk_partial_no_match :
  forall s, no_match s = true -> may_leave_stmt_lists s = may_leave s.
Proof.
  intro s. change (agree_P s).
  induction s as [| | | | | | t | t b o Hb Ho | t b o Hb Ho | it b o Hb Ho | b Hb | b hs o f Hb Hhs Ho Hf | b Hb | cs Hcs]
    using stmt_ind'; unfold agree_P; rewrite no_match_eq, may_leave_stmt_lists_eq, may_leave_eq; intro H;
    try reflexivity; try discriminate.
  - apply andb_true_iff in H. destruct H as [H1 H2].
    rewrite (agree_block b Hb H1), (agree_block o Ho H2). reflexivity.
  - apply andb_true_iff in H. destruct H as [H1 H2]. exact (agree_block o Ho H2).
  - apply andb_true_iff in H. destruct H as [H1 H2]. exact (agree_block o Ho H2).
  - exact (agree_block b Hb H).
  - apply andb_true_iff in H. destruct H as [H Hf0].
    apply andb_true_iff in H. destruct H as [H Ho0].
    apply andb_true_iff in H. destruct H as [Hb0 Hh0].
    rewrite (agree_block b Hb Hb0), (agree_block o Ho Ho0), (agree_block f Hf Hf0), (agree_blocks hs Hhs Hh0).
    reflexivity.
Qed.

Example stmt_list_walk_partial_nonvacuous :
  no_match (SWhile TTrue [STry [SBreak] [[SPass]] [] []; SFor IUnknown [SBreak] [SContinue]] []) = true
  /\ may_leave (SFor IUnknown [SBreak] [SContinue]) = true.
Proof. split; reflexivity. Qed.

(* the reference semantics of match is not trivial: exhaustive = an irrefutable last case *)
Example match_semantics_examples :
  o_n (outcomes false (SMatch [(PatOpaque, MGNone, [SReturn]); (PatWild, MGNone, [SRaise])])) = false /\
  o_n (outcomes false (SMatch [(PatOpaque, MGNone, [SReturn]); (PatOpaque, MGIf TUnknown, [SRaise])])) = true /\
  o_n (outcomes false (SMatch [(PatWild, MGIf TFalse, [SPass]); (PatWild, MGIf TTrue, [SBreak])])) = false /\
  o_b (outcomes false (SMatch [(PatWild, MGIf TFalse, [SPass]); (PatWild, MGIf TTrue, [SBreak])])) = true.
Proof. repeat split; reflexivity. Qed.
