(* K5 -- theorems about FlowModel.v: every statement tree of every depth, every choice of the
   unevaluable tests. *)
From Coq Require Import List Bool Lia.
Import ListNotations.
Require Import Pyrefact.FlowModel.

(* a statement that contains no break/continue belonging to the enclosing loop cannot terminate by
   break or continue (whatever context managers do) *)
Theorem may_leave_sound :
  forall sup s, may_leave s = false ->
    o_b (outcomes sup s) = false /\ o_c (outcomes sup s) = false.
Proof.
Admitted.

(* T16.1: a statement judged blocking (in a function body / at module level) never completes normally,
   under the tool's assumption that context managers do not swallow exceptions *)
Theorem blocking_sound :
  forall s, is_blocking s PNone = true -> o_n (outcomes false s) = false.
Proof.
Admitted.

(* inside a loop body: a statement judged blocking that cannot leave the iteration always
   terminates by return or by an exception *)
Theorem blocking_loop_sound :
  forall s p, p <> PNone -> may_leave s = false -> is_blocking s p = true ->
    o_n (outcomes false s) = false /\ o_b (outcomes false s) = false /\ o_c (outcomes false s) = false.
Proof.
Admitted.

(* delete_unreachable_code: the statements after the first blocking one are never reached *)
Theorem unreachable_sound :
  forall body,
    unreachable_from body = [] \/
    exists pre s, body = pre ++ s :: unreachable_from body /\
                  o_n (outcomes_block false (pre ++ [s])) = false.
Proof.
Admitted.

(* R16.2: refuted as soon as a context manager may suppress an exception *)
Theorem blocking_refuted_with_suppression :
  exists s, is_blocking s PNone = true /\ o_n (outcomes true s) = true.
Proof.
Admitted.

(* guarded version that holds whatever context managers do: statements without `with` *)
Fixpoint no_with (s : stmt) : bool :=
  let all := fix all (l : list stmt) : bool :=
               match l with [] => true | x :: tl => no_with x && all tl end in
  let all2 := fix all2 (l : list (list stmt)) : bool :=
               match l with [] => true | x :: tl => all x && all2 tl end in
  match s with
  | SWith _ => false
  | SIf _ b o | SWhile _ b o | SFor _ b o => all b && all o
  | STry b hs o f => all b && all2 hs && all o && all f
  | SDef b => all b
  | _ => true
  end.

Theorem blocking_sound_no_with :
  forall sup s, no_with s = true -> is_blocking s PNone = true -> o_n (outcomes sup s) = false.
Proof.
Admitted.

Example blocking_nonvacuous :
  is_blocking (SFor INonEmpty [SIf TUnknown [SCall; SReturn] [SWhile TTrue [SCall; SRaise] []]] []) PNone = true
  /\ no_with (SFor INonEmpty [SIf TUnknown [SCall; SReturn] [SWhile TTrue [SCall; SRaise] []]] []) = true.
Proof. split; reflexivity. Qed.
