(* C02, tranche "idx", second part: fixes.inline_math_comprehensions over the store semantics of RulesPerfModel
   (lists with identity, one-shot iterators, opaque generator functions g<k>() with an event trace).
     y = V; S1; ..; Sn; z = sum(y)      ->      y = V; S1; ..; Sn; z = sum(V)          (also len)
   The assignment stays, the right hand side is evaluated a second time where y was read.
   Statements: the simple statements of RulesPerfModel + 'z = sum(e)' / 'z = len(e)'.  No loops, hence no fuel.
   No proofs in this file. *)
From Coq Require Import List ZArith Bool Lia.
From Pyrefact Require Import Base RulesPerfModel.
Import ListNotations.
Open Scope Z_scope.

Inductive istmt :=
| IS (s : simple)
| IMath (z : name) (ln : bool) (e : expr).      (* z = len(e) / z = sum(e) *)
Definition iprog := list istmt.

Definition zsum (zs : list Z) : Z := fold_right Z.add 0 zs.

Section ISem.
Variable W : nat -> list Z.

Definition math_eval (en : env) (ln : bool) (e : expr) (h : heap) : res val :=
  match eval W en e h with
  | Err x h1 => Err x h1
  | Ok v h1 =>
      if ln then match as_seq h1 v with
                 | Some (_, zs) => Ok (VInt (Z.of_nat (length zs))) h1
                 | None => Err TypeErr h1
                 end
      else with_items W v h1 (fun zs h2 => Ok (VInt (zsum zs)) h2)
  end.

Definition exec_i (en : env) (st : istmt) (h : heap) : outcome :=
  match st with
  | IS s => exec_simple W en s h
  | IMath z ln e =>
      match math_eval en ln e h with
      | Err ex h1 => (Some ex, en, h1)
      | Ok v h1 => (None, set_var en z v, h1)
      end
  end.

Fixpoint exec_ip (en : env) (p : iprog) (h : heap) : outcome :=
  match p with
  | [] => (None, en, h)
  | st :: t =>
      match exec_i en st h with
      | (Some ex, en1, h1) => (Some ex, en1, h1)
      | (None, en1, h1) => exec_ip en1 t h1
      end
  end.

Definition run_i (p : iprog) : outcome := exec_ip [] p empty_heap.
End ISem.

(* ---------------------------------------------------------------- the rule, as the code is (fixes.py:2706-2799) *)
(* the names an expression mentions, as ast.Name nodes: variables, the builtins it calls, the key function, the
   comprehension variable c, the generator function g<k> *)
Definition N_ABS : name := 1000%nat.
Definition N_C : name := 1001%nat.
Definition N_G (k : nat) : name := (2000 + k)%nat.
Definition anames (a : atom) : list name := match a with AVar x => [x] | _ => [] end.
Fixpoint enames (e : expr) : list name :=
  match e with
  | EAtom a => anames a
  | EDisp _ | ETupD _ => []
  | EGen k => [N_G k]
  | ECall f e1 => fn_name f :: enames e1
  | ESorted k e1 => N_SORTED :: (if k then [N_ABS] else []) ++ enames e1
  | EComp e1 | EGenx e1 => N_C :: N_C :: enames e1
  | _ => []
  end.
(* the fragment of expressions of this part *)
Fixpoint small (e : expr) : bool :=
  match e with
  | EAtom _ | EDisp _ | ETupD _ | EGen _ => true
  | ECall _ e1 | ESorted _ e1 | EComp e1 | EGenx e1 => small e1
  | _ => false
  end.
Definition mem (n : name) (l : list name) : bool := existsb (Nat.eqb n) l.

(* a call that is not one of _harmless_functions (pure builtins + print; iter is NOT among them); the fragment never
   rebinds a builtin *)
Fixpoint bad_call (e : expr) : bool :=
  match e with
  | EGen _ => true
  | ECall FIter _ => true
  | ECall _ e1 | ESorted _ e1 | EComp e1 | EGenx e1 => bad_call e1
  | _ => false
  end.
Definition snames (st : istmt) : list name :=
  match st with
  | IS (SAssign x e) => x :: enames e
  | IS (SPrint e) | IS (SExpr e) => enames e
  | IS (SAppend x a) | IS (SRemove x a) => x :: anames a
  | IMath z _ e => z :: enames e
  end.
Definition mutates (st : istmt) : bool :=
  match st with
  | IS (SAssign _ e) | IS (SPrint e) | IS (SExpr e) | IMath _ _ e => bad_call e
  | IS (SAppend _ _) | IS (SRemove _ _) => true
  end.
(* loads of y *)
Definition loads (y : name) (st : istmt) : nat :=
  let c (l : list name) := length (filter (Nat.eqb y) l) in
  match st with
  | IS (SAssign _ e) | IS (SPrint e) | IS (SExpr e) | IMath _ _ e => c (enames e)
  | IS (SAppend x a) | IS (SRemove x a) => c (x :: anames a)
  end.

(* comprehension_assignments: list / generator comprehension or a call of list tuple iter sorted (2717-2727) *)
Definition is_inl_value (v : expr) : bool :=
  match v with EComp _ | EGenx _ | ECall _ _ | ESorted _ _ => true | _ => false end.
Definition cand (st : istmt) : option (name * expr) :=
  match st with IS (SAssign y v) => if is_inl_value v then Some (y, v) else None | _ => None end.

Fixpoint split_cand (p : iprog) : option (iprog * name * expr * iprog) :=
  match p with
  | [] => None
  | st :: t =>
      match cand st with
      | Some (y, v) => Some ([], y, v, t)
      | None => match split_cand t with
                | Some (pre, y, v, rest) => Some (st :: pre, y, v, rest)
                | None => None
                end
      end
  end.
(* the first 'z = sum(y)' / 'z = len(y)' behind the assignment *)
Fixpoint split_use (y : name) (p : iprog) : option (iprog * name * bool * iprog) :=
  match p with
  | [] => None
  | st :: t =>
      match st with
      | IMath z ln (EAtom (AVar y')) =>
          if Nat.eqb y y' then Some ([], z, ln, t)
          else match split_use y t with Some (mid, z', ln', post) => Some (st :: mid, z', ln', post) | None => None end
      | _ => match split_use y t with Some (mid, z', ln', post) => Some (st :: mid, z', ln', post) | None => None end
      end
  end.

(* old = true: before 13da1a3 (no look at calls / method calls in between); nocall = true: before 07a567e (no look at
   calls inside the value, which is evaluated a second time).
   For modules with exactly ONE candidate assignment (the only ones the correspondence generates):
   exactly one load of y in the module (2743-2746), none of y and the names of the value mentioned between the
   value and the use, the target z of the use included, nothing in between that may mutate, nothing in the value
   that is not a harmless call *)
Definition inl_with (old nocall : bool) (p : iprog) : iprog :=
  match split_cand p with
  | None => p
  | Some (pre, y, v, rest) =>
      match split_use y rest with
      | None => p
      | Some (mid, z, ln, post) =>
          let deps := y :: enames v in
          if Nat.eqb (fold_right (fun st n => (loads y st + n)%nat) 0%nat p) 1
             && negb (existsb (fun n => mem n deps) (flat_map snames mid ++ [z]))
             && (old || negb (existsb mutates mid))
             && (nocall || negb (bad_call v))
          then pre ++ IS (SAssign y v) :: mid ++ IMath z ln v :: post
          else p
      end
  end.
Definition inl := inl_with false false.
Definition inl_before_13da1a3 := inl_with true true.
Definition inl_before_07a567e := inl_with false true.

(* ---------------------------------------------------------------- guard of the _partial theorem *)
(* the value is made of list / tuple / sorted / list comprehension over a display or a variable that holds a list of
   the store or a tuple: what it evaluates to, as (is a tuple, elements); ls = the lists of the store *)
Fixpoint pe (en : env) (ls : list (list Z)) (e : expr) : option (bool * list Z) :=
  match e with
  | EDisp zs => Some (false, zs)
  | ETupD zs => Some (true, zs)
  | EAtom (AVar a) =>
      match lookup en a with
      | Some (VList l) => if Nat.ltb l (length ls) then Some (false, nth l ls []) else None
      | Some (VTup zs) => Some (true, zs)
      | _ => None
      end
  | ECall FList e1 =>
      if bound en N_LIST then None else match pe en ls e1 with Some (_, zs) => Some (false, zs) | None => None end
  | ECall FTuple e1 =>
      if bound en N_TUPLE then None else match pe en ls e1 with Some (_, zs) => Some (true, zs) | None => None end
  | ESorted k e1 =>
      if bound en N_SORTED then None else match pe en ls e1 with Some (_, zs) => Some (false, isort k zs) | None => None end
  | EComp e1 => match pe en ls e1 with Some (_, zs) => Some (false, zs) | None => None end
  | _ => None
  end.
Definition plain (e : expr) : bool := match e with EAtom _ | EDisp _ | ETupD _ => true | _ => false end.
(* statements in between: bind another name to an atom / a display, print an atom / a display *)
Definition mid_ok (deps : list name) (st : istmt) : bool :=
  match st with
  | IS (SAssign w e) => plain e && negb (mem w deps)
  | IS (SPrint e) => plain e
  | _ => false
  end.
Definition step_ok (en : env) (h : heap) (y : name) (v : expr) (mid : iprog) : bool :=
  match pe en (lists h) v with Some _ => true | None => false end
  && negb (mem y (enames v)) && forallb (mid_ok (y :: enames v)) mid.

(* ---------------------------------------------------------------- case checkers *)
Definition istmt_eqb (a b : istmt) : bool :=
  match a, b with
  | IS s, IS t => simple_eqb s t
  | IMath z l e, IMath z' l' e' => Nat.eqb z z' && Bool.eqb l l' && expr_eqb e e'
  | _, _ => false
  end.
Definition iprog_eqb := list_eqb istmt_eqb.
Definition inl_case_ok (c : iprog * iprog) : bool := let '(p, q) := c in iprog_eqb (inl p) q.
(* semantics cases: program, world, expected exception code and trace; 0 agrees, 1 differs, 2 outside *)
Definition isem_status (c : iprog * list (list Z) * nat * list event) : nat :=
  let '(p, w, code, t) := c in
  let '(o, _, h) := run_i (world_of w) p in
  match o with
  | Some Stuck | Some OutOfFuel => 2%nat
  | _ => if Nat.eqb (exc_code o) code && list_eqb event_eqb (tr h) t then 0%nat else 1%nat
  end.
