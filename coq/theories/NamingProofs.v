(* K9 -- theorems about NamingModel.v (all texts, all lengths). *)
From Coq Require Import List NArith Bool Lia ZifyBool Arith.
Import ListNotations.
Require Import Pyrefact.NamingModel.
Open Scope N_scope.

(* ---------------------------------------------------------------------------------------- *)
(* character classes *)

Ltac cls := unfold to_lower, to_upper, is_alnum, is_alpha, US in *; unfold is_upper, is_lower, is_digit, is_under in *.

Lemma upper_not_lower c : is_upper c = true -> is_lower c = false.
Proof. cls; lia. Qed.
Lemma upper_not_digit c : is_upper c = true -> is_digit c = false.
Proof. cls; lia. Qed.
Lemma lower_not_upper c : is_lower c = true -> is_upper c = false.
Proof. cls; lia. Qed.
Lemma lower_not_digit c : is_lower c = true -> is_digit c = false.
Proof. cls; lia. Qed.
Lemma digit_not_upper c : is_digit c = true -> is_upper c = false.
Proof. cls; lia. Qed.
Lemma digit_not_lower c : is_digit c = true -> is_lower c = false.
Proof. cls; lia. Qed.
Lemma digit_not_alpha c : is_digit c = true -> is_alpha c = false.
Proof. cls; lia. Qed.
Lemma under_not_alnum c : is_under c = true -> is_alnum c = false.
Proof. cls; lia. Qed.
Lemma alnum_not_under c : is_alnum c = true -> is_under c = false.
Proof. cls; lia. Qed.
Lemma upper_alpha c : is_upper c = true -> is_alpha c = true.
Proof. cls; lia. Qed.
Lemma lower_alpha c : is_lower c = true -> is_alpha c = true.
Proof. cls; lia. Qed.
Lemma alpha_alnum c : is_alpha c = true -> is_alnum c = true.
Proof. cls; lia. Qed.
Lemma digit_alnum c : is_digit c = true -> is_alnum c = true.
Proof. cls; lia. Qed.

Lemma to_lower_alpha c : is_alpha c = true -> is_lower (to_lower c) = true.
Proof. cls. destruct ((65 <=? c) && (c <=? 90)) eqn:E; lia. Qed.
Lemma to_upper_alpha c : is_alpha c = true -> is_upper (to_upper c) = true.
Proof. cls. destruct ((97 <=? c) && (c <=? 122)) eqn:E; lia. Qed.
Lemma to_lower_digit c : is_digit c = true -> to_lower c = c.
Proof. cls. destruct ((65 <=? c) && (c <=? 90)) eqn:E; lia. Qed.
Lemma to_upper_digit c : is_digit c = true -> to_upper c = c.
Proof. cls. destruct ((97 <=? c) && (c <=? 122)) eqn:E; lia. Qed.
Lemma to_lower_lower c : is_lower c = true -> to_lower c = c.
Proof. cls. destruct ((65 <=? c) && (c <=? 90)) eqn:E; lia. Qed.
Lemma to_upper_upper c : is_upper c = true -> to_upper c = c.
Proof. cls. destruct ((97 <=? c) && (c <=? 122)) eqn:E; lia. Qed.
Lemma to_lower_alnum c : is_alnum c = true -> is_alnum (to_lower c) = true.
Proof. cls. destruct ((65 <=? c) && (c <=? 90)) eqn:E; lia. Qed.
Lemma to_upper_alnum c : is_alnum c = true -> is_alnum (to_upper c) = true.
Proof. cls. destruct ((97 <=? c) && (c <=? 122)) eqn:E; lia. Qed.

(* ---------------------------------------------------------------------------------------- *)
(* take_while / drop_while *)

Lemma tw_dw p l : take_while p l ++ drop_while p l = l.
Proof. induction l as [|c t IH]; cbn; [reflexivity|]. destruct (p c); cbn; [now rewrite IH|reflexivity]. Qed.

Lemma tw_all p l : forallb p (take_while p l) = true.
Proof. induction l as [|c t IH]; cbn; [reflexivity|]. destruct (p c) eqn:E; cbn; [now rewrite E|reflexivity]. Qed.

Definition stops (p : N -> bool) (b : text) : bool :=
  match b with [] => true | c :: _ => negb (p c) end.

Lemma dw_stops p l : stops p (drop_while p l) = true.
Proof. induction l as [|c t IH]; cbn; [reflexivity|]. destruct (p c) eqn:E; cbn; [exact IH|now rewrite E]. Qed.

Lemma tw_app p a b : forallb p a = true -> stops p b = true -> take_while p (a ++ b) = a.
Proof.
  induction a as [|c t IH]; cbn; intros Ha Hb.
  - destruct b as [|d b']; cbn in *; [reflexivity|]. now destruct (p d).
  - apply andb_true_iff in Ha as [Hc Ht]. rewrite Hc. now rewrite IH.
Qed.
Lemma dw_app p a b : forallb p a = true -> stops p b = true -> drop_while p (a ++ b) = b.
Proof.
  induction a as [|c t IH]; cbn; intros Ha Hb.
  - destruct b as [|d b']; cbn in *; [reflexivity|]. now destruct (p d).
  - apply andb_true_iff in Ha as [Hc Ht]. rewrite Hc. now apply IH.
Qed.

Lemma forallb_firstn {A} (p : A -> bool) k (l : list A) : forallb p l = true -> forallb p (firstn k l) = true.
Proof.
  revert l; induction k as [|k IH]; intros [|c t]; cbn; try reflexivity.
  intros H. apply andb_true_iff in H as [Hc Ht]. now rewrite Hc, IH.
Qed.

Lemma firstn_tw p k l : (k <= length (take_while p l))%nat -> forallb p (firstn k l) = true.
Proof.
  intros H. rewrite <- (tw_dw p l). rewrite firstn_app.
  replace (k - length (take_while p l))%nat with 0%nat by lia. cbn. rewrite app_nil_r.
  apply forallb_firstn, tw_all.
Qed.

Lemma forallb_imp {A} (p q : A -> bool) l :
  (forall x, p x = true -> q x = true) -> forallb p l = true -> forallb q l = true.
Proof.
  intros H. induction l as [|c t IH]; cbn; [reflexivity|]. intros Hl.
  apply andb_true_iff in Hl as [Hc Ht]. now rewrite (H _ Hc), IH.
Qed.

(* ---------------------------------------------------------------------------------------- *)
(* the shape of a word: letters then digits, non-empty *)

Definition wshape (w : text) : bool :=
  negb (match w with [] => true | _ => false end) && forallb is_digit (drop_while is_alpha w).

Lemma wshape_alnum w : wshape w = true -> forallb is_alnum w = true.
Proof.
  unfold wshape. intros H. apply andb_true_iff in H as [_ H].
  rewrite <- (tw_dw is_alpha w). rewrite forallb_app.
  rewrite (forallb_imp _ _ _ alpha_alnum (tw_all is_alpha w)).
  now rewrite (forallb_imp _ _ _ digit_alnum H).
Qed.

Lemma wshape_intro xs ds :
  forallb is_alpha xs = true -> forallb is_digit ds = true -> xs ++ ds <> [] -> wshape (xs ++ ds) = true.
Proof.
  intros Hx Hd Hne. unfold wshape. apply andb_true_iff. split.
  - destruct (xs ++ ds); [congruence|reflexivity].
  - rewrite dw_app; [exact Hd|exact Hx|].
    destruct ds as [|d ds']; cbn in *; [reflexivity|].
    apply andb_true_iff in Hd as [Hd _]. now rewrite (digit_not_alpha _ Hd).
Qed.

Lemma alt1_len_bound s k : alt1_len s = Some k -> (2 <= k <= length (take_while is_upper s))%nat.
Proof.
  unfold alt1_len. destruct (Nat.leb 2 (length (take_while is_upper s))) eqn:E2; [|discriminate].
  apply Nat.leb_le in E2.
  destruct (drop_while is_upper s) as [|c r].
  - intros [= <-]. lia.
  - destruct (is_lower c).
    + destruct (Nat.leb 3 (length (take_while is_upper s))) eqn:E3; [|discriminate].
      apply Nat.leb_le in E3. intros [= <-]. lia.
    + intros [= <-]. lia.
Qed.

Lemma match_at_split s : fst (match_at s) ++ snd (match_at s) = s.
Proof.
  unfold match_at. destruct (alt1_len s) as [k|]; cbn [fst snd].
  - rewrite <- app_assoc, tw_dw. apply firstn_skipn.
  - destruct s as [|c t]; [reflexivity|].
    destruct (is_upper c); cbn [fst snd]; rewrite <- !app_assoc; rewrite tw_dw, tw_dw; reflexivity.
Qed.

Lemma match_at_shape s : fst (match_at s) <> [] -> wshape (fst (match_at s)) = true.
Proof.
  unfold match_at. destruct (alt1_len s) as [k|] eqn:E; cbn [fst snd].
  - intros Hne. apply wshape_intro; [|apply tw_all|exact Hne].
    apply alt1_len_bound in E.
    apply (forallb_imp _ _ _ upper_alpha). apply firstn_tw. lia.
  - destruct s as [|c t]; [intros H; now contradiction H|].
    destruct (is_upper c) eqn:Ec; cbn [fst snd]; intros Hne.
    + rewrite app_assoc. apply wshape_intro; [|apply tw_all|now rewrite <- app_assoc].
      cbn. rewrite (upper_alpha _ Ec). apply (forallb_imp _ _ _ lower_alpha), tw_all.
    + cbn [app] in *. apply wshape_intro; [|apply tw_all|exact Hne].
      apply (forallb_imp _ _ _ lower_alpha), tw_all.
Qed.

Lemma list_words_fuel_shape f s : Forall (fun w => wshape w = true) (list_words_fuel f s).
Proof.
  revert s; induction f as [|f IH]; intros s; cbn; [constructor|].
  destruct s as [|c t]; [constructor|].
  pose proof (match_at_shape (c :: t)) as Hs.
  destruct (match_at (c :: t)) as [w r]; cbn [fst] in Hs.
  destruct w as [|d w']; [apply IH|].
  constructor; [apply Hs; discriminate|apply IH].
Qed.

Lemma list_words_shape s : Forall (fun w => wshape w = true) (list_words s).
Proof. apply list_words_fuel_shape. Qed.

(* fuel: any amount >= length s gives the same words *)
Lemma match_at_rest_len s : (length (fst (match_at s)) + length (snd (match_at s)) = length s)%nat.
Proof. rewrite <- app_length, match_at_split. reflexivity. Qed.

Lemma list_words_fuel_enough f1 : forall f2 s,
  (length s <= f1)%nat -> (length s <= f2)%nat -> list_words_fuel f1 s = list_words_fuel f2 s.
Proof.
  induction f1 as [|f1 IH]; intros f2 s H1 H2.
  - destruct s; [|cbn in H1; lia]. destruct f2; reflexivity.
  - destruct f2 as [|f2]; [destruct s; [reflexivity|cbn in H2; lia]|].
    cbn. destruct s as [|c t]; [reflexivity|].
    pose proof (match_at_rest_len (c :: t)) as Hl.
    destruct (match_at (c :: t)) as [w r]; cbn [fst snd] in Hl. cbn [length] in *.
    destruct w as [|d w'].
    + apply IH; lia.
    + f_equal. cbn [length] in Hl. apply IH; lia.
Qed.

Lemma list_words_fuel_eq f s : (length s <= f)%nat -> list_words_fuel f s = list_words s.
Proof. intros H. unfold list_words. apply list_words_fuel_enough; lia. Qed.

Lemma list_words_nil : list_words [] = [].
Proof. reflexivity. Qed.

(* one scanning step, as an equation on list_words *)
Lemma list_words_step c t :
  list_words (c :: t) =
    match fst (match_at (c :: t)) with
    | [] => list_words t
    | _ :: _ => fst (match_at (c :: t)) :: list_words (snd (match_at (c :: t)))
    end.
Proof.
  unfold list_words at 1. cbn [length list_words_fuel].
  pose proof (match_at_rest_len (c :: t)) as Hl.
  destruct (match_at (c :: t)) as [w r]; cbn [fst snd] in *. cbn [length] in Hl.
  destruct w as [|d w'].
  - reflexivity.
  - f_equal. apply list_words_fuel_eq. cbn [length] in Hl. lia.
Qed.

(* a character the regex cannot consume is skipped *)
Lemma match_at_skip c t : is_alnum c = false -> fst (match_at (c :: t)) = [].
Proof.
  intros H. assert (Hu : is_upper c = false) by (cls; lia).
  assert (Hl : is_lower c = false) by (cls; lia). assert (Hd : is_digit c = false) by (cls; lia).
  unfold match_at, alt1_len. cbn [take_while]. rewrite Hu. cbn [length Nat.leb].
  cbn [take_while drop_while]. rewrite Hl. cbn [take_while drop_while app fst]. now rewrite Hd.
Qed.

Lemma list_words_skip c t : is_alnum c = false -> list_words (c :: t) = list_words t.
Proof. intros H. rewrite list_words_step, (match_at_skip _ _ H). reflexivity. Qed.

(* ---------------------------------------------------------------------------------------- *)
(* T19.1: the result is a valid identifier or the name is left alone *)

Theorem rename_variable_ident_or_same v st pr :
  is_ident (rename_variable v st pr) = true \/ rename_variable v st pr = v.
Proof.
  unfold rename_variable.
  destruct (text_eqb v [US]); [now right|]. destruct (is_dunder v); [now right|].
  match goal with |- context [if is_ident ?r then _ else _] => destruct (is_ident r) eqn:E end;
    [now left|now right].
Qed.

Theorem rename_variable_ident v st pr : is_ident v = true -> is_ident (rename_variable v st pr) = true.
Proof. intros H. destruct (rename_variable_ident_or_same v st pr) as [E|E]; [exact E|now rewrite E]. Qed.

Theorem rename_class_ident_or_same n pr r :
  rename_class n pr = Some r -> is_ident r = true \/ r = n.
Proof.
  unfold rename_class. destruct (collapse_us false n); [discriminate|].
  match goal with |- context [if is_ident ?r then _ else _] => destruct (is_ident r) eqn:E end;
    intros [= <-]; [now left|now right].
Qed.

Theorem rename_class_ident n pr r : is_ident n = true -> rename_class n pr = Some r -> is_ident r = true.
Proof. intros H E. destruct (rename_class_ident_or_same _ _ _ E) as [E'|E']; [exact E'|now subst]. Qed.

Theorem rename_class_total n pr : n <> [] -> rename_class n pr <> None.
Proof.
  intros H. unfold rename_class. destruct n as [|c t]; [congruence|].
  cbn [collapse_us]. destruct (is_under c); discriminate.
Qed.

(* ---------------------------------------------------------------------------------------- *)
(* scanning a text that is already in snake form *)

Definition sep (r : text) : bool := match r with [] => true | c :: _ => negb (is_alnum c) end.

Lemma tw_stops p l : stops p l = true -> take_while p l = [] /\ drop_while p l = l.
Proof. destruct l as [|c t]; cbn; [now split|]. destruct (p c); [discriminate|now split]. Qed.

Lemma firstn_len_app {A} (a b : list A) : firstn (length a) (a ++ b) = a.
Proof. induction a as [|x a IH]; cbn; [now destruct b|now rewrite IH]. Qed.
Lemma skipn_len_app {A} (a b : list A) : skipn (length a) (a ++ b) = b.
Proof. induction a as [|x a IH]; cbn; [reflexivity|exact IH]. Qed.

Lemma alt1_none s : stops is_upper s = true -> alt1_len s = None.
Proof. intros H. unfold alt1_len. destruct (tw_stops _ _ H) as [-> _]. reflexivity. Qed.

Lemma sep_stops_lower r : sep r = true -> stops is_lower r = true.
Proof. destruct r as [|c t]; cbn; [reflexivity|]. cls; lia. Qed.
Lemma sep_stops_upper r : sep r = true -> stops is_upper r = true.
Proof. destruct r as [|c t]; cbn; [reflexivity|]. cls; lia. Qed.
Lemma sep_stops_digit r : sep r = true -> stops is_digit r = true.
Proof. destruct r as [|c t]; cbn; [reflexivity|]. cls; lia. Qed.

Lemma stops_digits_then p ds r :
  (forall c, is_digit c = true -> p c = false) ->
  forallb is_digit ds = true -> stops p r = true -> stops p (ds ++ r) = true.
Proof.
  intros Hp Hd Hr. destruct ds as [|d ds']; [exact Hr|]. cbn in *.
  apply andb_true_iff in Hd as [Hd _]. now rewrite (Hp _ Hd).
Qed.

(* lower-case word: [a-z]* then digits *)
Lemma match_at_lower xs ds r :
  forallb is_lower xs = true -> forallb is_digit ds = true -> xs ++ ds <> [] -> sep r = true ->
  match_at (xs ++ ds ++ r) = (xs ++ ds, r).
Proof.
  intros Hx Hd Hne Hr.
  assert (Hsl : stops is_lower (ds ++ r) = true)
    by (apply stops_digits_then; [exact digit_not_lower|exact Hd|now apply sep_stops_lower]).
  assert (Hsu : stops is_upper (xs ++ ds ++ r) = true).
  { destruct xs as [|x xs']; cbn [app].
    - apply stops_digits_then; [exact digit_not_upper|exact Hd|now apply sep_stops_upper].
    - cbn in *. apply andb_true_iff in Hx as [Hx _]. now rewrite (lower_not_upper _ Hx). }
  unfold match_at. rewrite (alt1_none _ Hsu).
  assert (Hs : exists c t, xs ++ ds ++ r = c :: t /\ is_upper c = false).
  { destruct (xs ++ ds ++ r) as [|c t] eqn:E.
    - destruct xs; [destruct ds; [now contradiction Hne|discriminate]|discriminate].
    - exists c, t. split; [reflexivity|]. cbn in Hsu. now destruct (is_upper c). }
  destruct Hs as (c & t & Es & Hc). rewrite Es, Hc, <- Es.
  rewrite (tw_app _ _ _ Hx Hsl), (dw_app _ _ _ Hx Hsl).
  rewrite (tw_app _ _ _ Hd (sep_stops_digit _ Hr)), (dw_app _ _ _ Hd (sep_stops_digit _ Hr)).
  reflexivity.
Qed.

(* upper-case word: [A-Z]* then digits *)
Lemma match_at_upper us ds r :
  forallb is_upper us = true -> forallb is_digit ds = true -> us ++ ds <> [] -> sep r = true ->
  match_at (us ++ ds ++ r) = (us ++ ds, r).
Proof.
  intros Hu Hd Hne Hr.
  assert (Hsu : stops is_upper (ds ++ r) = true)
    by (apply stops_digits_then; [exact digit_not_upper|exact Hd|now apply sep_stops_upper]).
  assert (Hsl : stops is_lower (ds ++ r) = true)
    by (apply stops_digits_then; [exact digit_not_lower|exact Hd|now apply sep_stops_lower]).
  assert (Hsd := sep_stops_digit _ Hr).
  unfold match_at, alt1_len.
  rewrite (tw_app _ _ _ Hu Hsu), (dw_app _ _ _ Hu Hsu).
  destruct (Nat.leb 2 (length us)) eqn:E2.
  - (* the whole run is taken: the next character is a digit, a separator or the end *)
    assert (Hk : match ds ++ r with
                 | [] => Some (length us)
                 | c :: _ => if is_lower c then if Nat.leb 3 (length us) then Some (Nat.pred (length us)) else None
                             else Some (length us)
                 end = Some (length us)).
    { destruct (ds ++ r) as [|c t]; [reflexivity|]. cbn in Hsl. now destruct (is_lower c). }
    rewrite Hk, firstn_len_app, skipn_len_app.
    now rewrite (tw_app _ _ _ Hd Hsd), (dw_app _ _ _ Hd Hsd).
  - destruct us as [|u [|u2 us']]; [| |cbn in E2; discriminate].
    + (* digits only *)
      cbn [app] in *. destruct ds as [|d ds']; [now contradiction Hne|].
      cbn [app]. cbn in Hd. apply andb_true_iff in Hd as [Hd1 Hd2].
      rewrite (digit_not_upper _ Hd1). cbn [take_while drop_while].
      rewrite (digit_not_lower _ Hd1). cbn [app].
      change (d :: ds' ++ r) with ((d :: ds') ++ r).
      assert (Hd' : forallb is_digit (d :: ds') = true) by (cbn; now rewrite Hd1, Hd2).
      now rewrite (tw_app _ _ _ Hd' Hsd), (dw_app _ _ _ Hd' Hsd).
    + (* a single capital *)
      cbn [app]. cbn in Hu. apply andb_true_iff in Hu as [Hu1 _]. rewrite Hu1.
      destruct (tw_stops _ _ Hsl) as [-> ->]. cbn [app].
      now rewrite (tw_app _ _ _ Hd Hsd), (dw_app _ _ _ Hd Hsd).
Qed.

Lemma list_words_word w r :
  w <> [] -> match_at (w ++ r) = (w, r) -> list_words (w ++ r) = w :: list_words r.
Proof.
  intros Hne Hm. destruct w as [|c t]; [now contradiction Hne|].
  cbn [app] in *. rewrite list_words_step, Hm. reflexivity.
Qed.

Section Join.
  Variable P : text -> Prop.
  Hypothesis HP : forall w r, P w -> sep r = true -> w <> [] /\ match_at (w ++ r) = (w, r).

  Lemma list_words_join ws : Forall P ws -> list_words (join_us ws) = ws.
  Proof.
    induction ws as [|w ws IH]; intros Hall; [reflexivity|].
    inversion Hall as [|? ? Hw Hws]; subst.
    destruct ws as [|w2 ws'].
    - cbn [join_us]. rewrite <- (app_nil_r w) at 1.
      destruct (HP w [] Hw eq_refl) as [Hne Hm]. now rewrite (list_words_word _ _ Hne Hm).
    - change (join_us (w :: w2 :: ws')) with (w ++ US :: join_us (w2 :: ws')).
      destruct (HP w (US :: join_us (w2 :: ws')) Hw eq_refl) as [Hne Hm].
      rewrite (list_words_word _ _ Hne Hm), list_words_skip by reflexivity.
      now rewrite (IH Hws).
  Qed.
End Join.

Definition lower_word (w : text) : Prop :=
  exists xs ds, w = xs ++ ds /\ forallb is_lower xs = true /\ forallb is_digit ds = true /\ w <> [].
Definition upper_word (w : text) : Prop :=
  exists xs ds, w = xs ++ ds /\ forallb is_upper xs = true /\ forallb is_digit ds = true /\ w <> [].

Lemma lower_word_scan w r : lower_word w -> sep r = true -> w <> [] /\ match_at (w ++ r) = (w, r).
Proof.
  intros (xs & ds & -> & Hx & Hd & Hne) Hr. split; [exact Hne|].
  rewrite <- app_assoc. now apply match_at_lower.
Qed.
Lemma upper_word_scan w r : upper_word w -> sep r = true -> w <> [] /\ match_at (w ++ r) = (w, r).
Proof.
  intros (xs & ds & -> & Hx & Hd & Hne) Hr. split; [exact Hne|].
  rewrite <- app_assoc. now apply match_at_upper.
Qed.

Lemma forallb_map {A B} (f : A -> B) (p : B -> bool) (q : A -> bool) l :
  (forall x, q x = true -> p (f x) = true) -> forallb q l = true -> forallb p (map f l) = true.
Proof.
  intros H. induction l as [|c t IH]; cbn; [reflexivity|]. intros Hl.
  apply andb_true_iff in Hl as [Hc Ht]. now rewrite (H _ Hc), IH.
Qed.
Lemma map_id_on {A} (f : A -> A) (q : A -> bool) l :
  (forall x, q x = true -> f x = x) -> forallb q l = true -> map f l = l.
Proof.
  intros H. induction l as [|c t IH]; cbn; [reflexivity|]. intros Hl.
  apply andb_true_iff in Hl as [Hc Ht]. now rewrite (H _ Hc), IH.
Qed.

Lemma wshape_split w : wshape w = true ->
  w = take_while is_alpha w ++ drop_while is_alpha w /\ forallb is_alpha (take_while is_alpha w) = true
  /\ forallb is_digit (drop_while is_alpha w) = true /\ w <> [].
Proof.
  unfold wshape. intros H. apply andb_true_iff in H as [Hn Hd].
  repeat split; [now rewrite tw_dw|apply tw_all|exact Hd|]. now destruct w.
Qed.

Lemma map_lower_word w : wshape w = true -> lower_word (map to_lower w).
Proof.
  intros H. destruct (wshape_split _ H) as (E & Hx & Hd & Hne).
  exists (map to_lower (take_while is_alpha w)), (drop_while is_alpha w). repeat split.
  - rewrite E at 1. rewrite map_app. f_equal. exact (map_id_on _ is_digit _ to_lower_digit Hd).
  - exact (forallb_map _ _ is_alpha _ to_lower_alpha Hx).
  - exact Hd.
  - now destruct w.
Qed.

Lemma map_upper_word w : wshape w = true -> upper_word (map to_upper w).
Proof.
  intros H. destruct (wshape_split _ H) as (E & Hx & Hd & Hne).
  exists (map to_upper (take_while is_alpha w)), (drop_while is_alpha w). repeat split.
  - rewrite E at 1. rewrite map_app. f_equal. exact (map_id_on _ is_digit _ to_upper_digit Hd).
  - exact (forallb_map _ _ is_alpha _ to_upper_alpha Hx).
  - exact Hd.
  - now destruct w.
Qed.

Lemma lower_word_fixed w : lower_word w -> map to_lower w = w.
Proof.
  intros (xs & ds & -> & Hx & Hd & _). rewrite map_app.
  now rewrite (map_id_on _ is_lower _ to_lower_lower Hx), (map_id_on _ is_digit _ to_lower_digit Hd).
Qed.
Lemma upper_word_fixed w : upper_word w -> map to_upper w = w.
Proof.
  intros (xs & ds & -> & Hx & Hd & _). rewrite map_app.
  now rewrite (map_id_on _ is_upper _ to_upper_upper Hx), (map_id_on _ is_digit _ to_upper_digit Hd).
Qed.

Lemma Forall_map_shape (f : N -> N) (Q : text -> Prop) ws :
  (forall w, wshape w = true -> Q (map f w)) ->
  Forall (fun w => wshape w = true) ws -> Forall Q (map (map f) ws).
Proof. intros H Hall. induction Hall; cbn; constructor; auto. Qed.

Lemma map_fixed (f : N -> N) (Q : text -> Prop) ws :
  (forall w, Q w -> map f w = w) -> Forall Q ws -> map (map f) ws = ws.
Proof. intros H Hall. induction Hall as [|w ws Hw _ IH]; cbn; [reflexivity|]. now rewrite (H _ Hw), IH. Qed.

(* the words of a snake-case text are the (case-mapped) words it was built from *)
Lemma list_words_snake st v :
  list_words (make_snakecase st v) = map (map (if st then to_upper else to_lower)) (list_words v).
Proof.
  unfold make_snakecase. destruct st.
  - apply (list_words_join upper_word upper_word_scan).
    apply Forall_map_shape; [exact map_upper_word|apply list_words_shape].
  - apply (list_words_join lower_word lower_word_scan).
    apply Forall_map_shape; [exact map_lower_word|apply list_words_shape].
Qed.

Theorem make_snakecase_idempotent st v : make_snakecase st (make_snakecase st v) = make_snakecase st v.
Proof.
  unfold make_snakecase at 1. rewrite list_words_snake. unfold make_snakecase. f_equal.
  destruct st.
  - apply (map_fixed _ upper_word); [exact upper_word_fixed|].
    apply Forall_map_shape; [exact map_upper_word|apply list_words_shape].
  - apply (map_fixed _ lower_word); [exact lower_word_fixed|].
    apply Forall_map_shape; [exact map_lower_word|apply list_words_shape].
Qed.

Lemma make_snakecase_skip st c t : is_alnum c = false -> make_snakecase st (c :: t) = make_snakecase st t.
Proof. intros H. unfold make_snakecase. now rewrite (list_words_skip _ _ H). Qed.

(* characters of a snake-case text *)
Definition is_idchar (c : N) : bool := is_alnum c || is_under c.

Lemma join_us_chars ws :
  Forall (fun w => forallb is_alnum w = true) ws -> forallb is_idchar (join_us ws) = true.
Proof.
  induction ws as [|w ws IH]; intros Hall; [reflexivity|].
  inversion Hall as [|? ? Hw Hws]; subst.
  assert (Hw' : forallb is_idchar w = true).
  { apply (forallb_imp is_alnum); [|exact Hw]. intros x Hx. unfold is_idchar. now rewrite Hx. }
  destruct ws as [|w2 ws']; [exact Hw'|].
  change (join_us (w :: w2 :: ws')) with (w ++ US :: join_us (w2 :: ws')).
  rewrite forallb_app, Hw'. cbn [forallb]. now rewrite (IH Hws).
Qed.

Lemma words_alnum_mapped (st : bool) v :
  Forall (fun w : text => forallb is_alnum w = true /\ w <> [])
         (map (map (if st then to_upper else to_lower)) (list_words v)).
Proof.
  pose proof (list_words_shape v) as Hall. induction Hall as [|w ws Hw _ IH]; cbn; constructor; [|exact IH].
  split.
  - apply (forallb_map _ _ is_alnum); [|now apply wshape_alnum].
    destruct st; [exact to_upper_alnum|exact to_lower_alnum].
  - destruct (wshape_split _ Hw) as (_ & _ & _ & Hne). now destruct w.
Qed.

Lemma make_snakecase_chars st v : forallb is_idchar (make_snakecase st v) = true.
Proof.
  apply join_us_chars. eapply Forall_impl; [|apply words_alnum_mapped]. now intros w [H _].
Qed.

Lemma join_us_head w ws : w <> [] -> hd_error (join_us (w :: ws)) = hd_error w.
Proof. intros H. destruct w as [|c t]; [now contradiction H|]. destruct ws; reflexivity. Qed.

Lemma make_snakecase_not_private st v : is_private (make_snakecase st v) = false.
Proof.
  unfold make_snakecase. pose proof (words_alnum_mapped st v) as Hall.
  destruct (map (map (if st then to_upper else to_lower)) (list_words v)) as [|w ws]; [reflexivity|].
  inversion Hall as [|? ? [Hw Hne] _]; subst.
  destruct w as [|c t]; [now contradiction Hne|].
  assert (E : join_us ((c :: t) :: ws) = c :: match ws with [] => t | _ => t ++ US :: join_us ws end)
    by (destruct ws; reflexivity).
  rewrite E. cbn [is_private]. cbn in Hw. apply andb_true_iff in Hw as [Hc _]. now apply alnum_not_under.
Qed.

(* rename_variable without the two dead branches: `lstrip` never fires (a snake-case text never
   starts with '_'), so dropping it is an EQUIVALENT mutant *)
Lemma rename_variable_simpl v st pr :
  rename_variable v st pr =
    if text_eqb v [US] then v else if is_dunder v then v else
    let r := if pr then US :: make_snakecase st v else make_snakecase st v in
    if is_ident r then r else v.
Proof.
  unfold rename_variable. destruct (text_eqb v [US]); [reflexivity|]. destruct (is_dunder v); [reflexivity|].
  rewrite (make_snakecase_not_private st v). destruct pr; cbn [andb negb is_private]; [reflexivity|].
  now rewrite (make_snakecase_not_private st v).
Qed.

Theorem lstrip_is_dead_code v st :
  let r := make_snakecase st v in drop_while is_under r = r.
Proof.
  cbn. pose proof (make_snakecase_not_private st v) as H.
  destruct (make_snakecase st v) as [|c t]; [reflexivity|]. cbn in *. now rewrite H.
Qed.

(* T19.3 idempotence of rename_variable on its own outputs, for EVERY text *)
Definition pref (pr : bool) (r : text) : text := if pr then US :: r else r.

Lemma rename_variable_simpl' v st pr :
  rename_variable v st pr =
    if text_eqb v [US] then v else if is_dunder v then v else
    if is_ident (pref pr (make_snakecase st v)) then pref pr (make_snakecase st v) else v.
Proof. rewrite rename_variable_simpl. unfold pref. destruct pr; reflexivity. Qed.

Theorem rename_variable_idempotent v st pr :
  rename_variable (rename_variable v st pr) st pr = rename_variable v st pr.
Proof.
  assert (Hsame : rename_variable v st pr = v ->
                  rename_variable (rename_variable v st pr) st pr = rename_variable v st pr)
    by (intros E; now rewrite !E).
  pose proof (rename_variable_simpl' v st pr) as Hs.
  destruct (text_eqb v [US]) eqn:E1; [apply Hsame; exact Hs|].
  destruct (is_dunder v) eqn:E2; [apply Hsame; exact Hs|].
  destruct (is_ident (pref pr (make_snakecase st v))) eqn:E3; [|apply Hsame; exact Hs].
  rewrite Hs. rewrite rename_variable_simpl'.
  destruct (text_eqb (pref pr (make_snakecase st v)) [US]); [reflexivity|].
  destruct (is_dunder (pref pr (make_snakecase st v))); [reflexivity|].
  assert (Es : make_snakecase st (pref pr (make_snakecase st v)) = make_snakecase st v).
  { unfold pref. destruct pr; [rewrite make_snakecase_skip by reflexivity|]; apply make_snakecase_idempotent. }
  rewrite Es, E3. reflexivity.
Qed.

(* ---------------------------------------------------------------------------------------- *)
(* When does the construction succeed?  Exactly when the first [A-Za-z0-9] character is a letter.
   (R19.2, before the repair: "_1x" became "1_x", and a name without any such character raised
   RuntimeError; now both are left alone.) *)

Definition non_alnum (c : N) : bool := negb (is_alnum c).
Definition first_alnum (v : text) : option N := hd_error (drop_while non_alnum v).

Lemma list_words_drop v : list_words v = list_words (drop_while non_alnum v).
Proof.
  induction v as [|c t IH]; [reflexivity|]. cbn [drop_while]. unfold non_alnum at 1.
  destruct (is_alnum c) eqn:E; cbn [negb]; [reflexivity|]. now rewrite list_words_skip.
Qed.

Lemma match_at_head c t : is_alnum c = true -> exists w', fst (match_at (c :: t)) = c :: w'.
Proof.
  intros Hc. destruct (is_upper c) eqn:Eu.
  - unfold match_at. destruct (alt1_len (c :: t)) as [k|] eqn:Ek.
    + apply alt1_len_bound in Ek. destruct k as [|k']; [lia|]. cbn [firstn app fst]. eauto.
    + rewrite Eu. cbn [fst app]. eauto.
  - assert (Hs : stops is_upper (c :: t) = true) by (cbn; now rewrite Eu).
    unfold match_at. rewrite (alt1_none _ Hs), Eu. cbn [app fst].
    destruct (is_lower c) eqn:El.
    + cbn [take_while]. rewrite El. cbn [app]. eauto.
    + assert (Hd : is_digit c = true) by (revert Hc Eu El; cls; lia).
      cbn [take_while drop_while]. rewrite El. cbn [app take_while]. rewrite Hd. eauto.
Qed.

Lemma snake_head st v c :
  first_alnum v = Some c ->
  exists t, make_snakecase st v = (if st then to_upper c else to_lower c) :: t.
Proof.
  unfold first_alnum, make_snakecase. rewrite (list_words_drop v).
  destruct (drop_while non_alnum v) as [|d r] eqn:E; [discriminate|]. intros [= ->].
  assert (Hc : is_alnum c = true).
  { pose proof (dw_stops non_alnum v) as Hs. rewrite E in Hs. cbn in Hs. unfold non_alnum in Hs.
    now destruct (is_alnum c). }
  rewrite list_words_step. destruct (match_at_head c r Hc) as [w' ->].
  cbn [map]. set (f := if st then to_upper else to_lower).
  replace (if st then to_upper c else to_lower c) with (f c) by (unfold f; now destruct st).
  destruct (map (map f) (list_words (snd (match_at (c :: r))))); cbn; eauto.
Qed.

Lemma snake_empty st v : first_alnum v = None -> make_snakecase st v = [].
Proof.
  unfold first_alnum, make_snakecase. rewrite (list_words_drop v).
  destruct (drop_while non_alnum v); [reflexivity|discriminate].
Qed.

Lemma is_ident_cons c t : is_ident (c :: t) = (is_alpha c || is_under c) && forallb is_idchar t.
Proof. reflexivity. Qed.

Lemma snake_tail_chars st v c t : make_snakecase st v = c :: t -> forallb is_idchar t = true.
Proof.
  intros E. pose proof (make_snakecase_chars st v) as H. rewrite E in H. cbn in H.
  now apply andb_true_iff in H as [_ H].
Qed.

Theorem snake_is_ident_iff st v :
  is_ident (make_snakecase st v) =
    match first_alnum v with Some c => is_alpha c | None => false end.
Proof.
  destruct (first_alnum v) as [c|] eqn:E.
  - destruct (snake_head st v c E) as [t Et]. rewrite Et, is_ident_cons, (snake_tail_chars _ _ _ _ Et).
    rewrite andb_true_r.
    assert (Ha : is_alnum c = true).
    { unfold first_alnum in E. pose proof (dw_stops non_alnum v) as Hs.
      destruct (drop_while non_alnum v) as [|d r]; [discriminate|]. injection E as ->.
      cbn in Hs. unfold non_alnum in Hs. now destruct (is_alnum c). }
    destruct (is_alpha c) eqn:Ea.
    + destruct st; [rewrite (upper_alpha _ (to_upper_alpha _ Ea))|rewrite (lower_alpha _ (to_lower_alpha _ Ea))]; reflexivity.
    + assert (Hd : is_digit c = true) by (revert Ha Ea; cls; lia).
      destruct st; [rewrite (to_upper_digit _ Hd)|rewrite (to_lower_digit _ Hd)];
        rewrite (digit_not_alpha _ Hd); revert Hd; cls; lia.
  - now rewrite (snake_empty st v E).
Qed.

(* complete description of rename_variable *)
Theorem rename_variable_public v st :
  rename_variable v st false =
    if text_eqb v [US] || is_dunder v then v
    else match first_alnum v with
         | Some c => if is_alpha c then make_snakecase st v else v
         | None => v
         end.
Proof.
  rewrite rename_variable_simpl'. unfold pref.
  destruct (text_eqb v [US]); [reflexivity|]. destruct (is_dunder v); [reflexivity|]. cbn [orb].
  rewrite snake_is_ident_iff. destruct (first_alnum v) as [c|]; reflexivity.
Qed.

Theorem rename_variable_private v st :
  rename_variable v st true = if text_eqb v [US] || is_dunder v then v else US :: make_snakecase st v.
Proof.
  rewrite rename_variable_simpl'. unfold pref.
  destruct (text_eqb v [US]); [reflexivity|]. destruct (is_dunder v); [reflexivity|]. cbn [orb].
  rewrite is_ident_cons. cbn. now rewrite (make_snakecase_chars st v).
Qed.

(* R19.2 (regression witnesses of the repaired defect): the raw construction is not an identifier *)
Example snake_1x_not_ident :
  make_snakecase false [95; 49; 120] = [49; 95; 120] /\ is_ident [49; 95; 120] = false
  /\ rename_variable [95; 49; 120] false false = [95; 49; 120].
Proof. vm_compute. repeat split. Qed.
Example snake_eacute_empty :
  make_snakecase false [233] = [] /\ rename_variable [233] false false = [233]
  /\ rename_class [233] false = Some [233].
Proof. vm_compute. repeat split. Qed.

(* ---------------------------------------------------------------------------------------- *)
(* CamelCase: rename_class is NOT idempotent (two adjacent one-letter words fuse into one
   upper-case run), but it is when every word starts with two letters. *)

Theorem rename_class_idempotent_refuted :
  exists n pr r r', rename_class n pr = Some r /\ rename_class r pr = Some r' /\ r <> r'.
Proof.
  (* "a_b" -> "AB" -> "Ab" *)
  exists [97; 95; 98], false, [65; 66], [65; 98]. vm_compute. repeat split. discriminate.
Qed.

Definition two_alpha (w : text) : bool :=
  match w with a :: b :: _ => is_alpha a && is_alpha b | _ => false end.
Definition camel_guard (n : text) : bool := forallb two_alpha (list_words (collapse_us false n)).

Definition capsep (r : text) : bool := match r with [] => true | c :: _ => is_upper c end.
Definition cap_word (w : text) : Prop :=
  exists u l ls ds, w = u :: (l :: ls) ++ ds /\ is_upper u = true /\ forallb is_lower (l :: ls) = true
                    /\ forallb is_digit ds = true.

Lemma capsep_stops_lower r : capsep r = true -> stops is_lower r = true.
Proof. destruct r as [|c t]; cbn; [reflexivity|]. cls; lia. Qed.
Lemma capsep_stops_digit r : capsep r = true -> stops is_digit r = true.
Proof. destruct r as [|c t]; cbn; [reflexivity|]. cls; lia. Qed.

Lemma match_at_cap w r : cap_word w -> capsep r = true -> match_at (w ++ r) = (w, r).
Proof.
  intros (u & l & ls & ds & -> & Hu & Hl & Hd) Hr.
  assert (Hl1 : is_lower l = true) by (cbn in Hl; now apply andb_true_iff in Hl as [H _]).
  assert (Hsl : stops is_lower (ds ++ r) = true)
    by (apply stops_digits_then; [exact digit_not_lower|exact Hd|now apply capsep_stops_lower]).
  assert (Hsd := capsep_stops_digit _ Hr).
  unfold match_at, alt1_len. cbn [app take_while]. rewrite Hu, (lower_not_upper _ Hl1).
  cbn [length Nat.leb].
  replace (l :: (ls ++ ds) ++ r) with ((l :: ls) ++ ds ++ r) by (cbn; now rewrite <- app_assoc).
  rewrite (tw_app _ _ _ Hl Hsl), (dw_app _ _ _ Hl Hsl).
  rewrite (tw_app _ _ _ Hd Hsd), (dw_app _ _ _ Hd Hsd).
  reflexivity.
Qed.

Lemma cap_word_ne w : cap_word w -> w <> [].
Proof. intros (u & l & ls & ds & -> & _). discriminate. Qed.

Lemma capsep_concat ws : Forall cap_word ws -> capsep (concat ws) = true.
Proof.
  intros H. destruct H as [|w ws Hw _]; [reflexivity|].
  destruct Hw as (u & l & ls & ds & -> & Hu & _). exact Hu.
Qed.

Lemma list_words_concat_cap ws : Forall cap_word ws -> list_words (concat ws) = ws.
Proof.
  induction ws as [|w ws IH]; intros Hall; [reflexivity|].
  inversion Hall as [|? ? Hw Hws]; subst. cbn [concat].
  rewrite (list_words_word _ _ (cap_word_ne _ Hw) (match_at_cap _ _ Hw (capsep_concat _ Hws))).
  now rewrite (IH Hws).
Qed.

Lemma capitalize_cap w : wshape w = true -> two_alpha w = true -> cap_word (capitalize w).
Proof.
  intros Hs Ht. destruct w as [|a [|b rest]]; try discriminate. cbn in Ht.
  apply andb_true_iff in Ht as [Ha Hb].
  unfold wshape in Hs. cbn [drop_while] in Hs. rewrite Ha, Hb in Hs. cbn in Hs.
  exists (to_upper a), (to_lower b), (map to_lower (take_while is_alpha rest)), (drop_while is_alpha rest).
  repeat split.
  - cbn. f_equal. f_equal. rewrite <- (tw_dw is_alpha rest) at 1. rewrite map_app. f_equal.
    exact (map_id_on _ is_digit _ to_lower_digit Hs).
  - now apply to_upper_alpha.
  - cbn. rewrite (to_lower_alpha _ Hb). exact (forallb_map _ _ is_alpha _ to_lower_alpha (tw_all _ _)).
  - exact Hs.
Qed.

Lemma capitalize_fixed w : cap_word w -> capitalize w = w.
Proof.
  intros (u & l & ls & ds & -> & Hu & Hl & Hd). cbn [capitalize]. rewrite (to_upper_upper _ Hu). f_equal.
  rewrite map_app. now rewrite (map_id_on _ is_lower _ to_lower_lower Hl), (map_id_on _ is_digit _ to_lower_digit Hd).
Qed.

Lemma Forall_cap ws :
  Forall (fun w => wshape w = true) ws -> forallb two_alpha ws = true -> Forall cap_word (map capitalize ws).
Proof.
  intros Hall. induction Hall as [|w ws Hw _ IH]; cbn; intros H; [constructor|].
  apply andb_true_iff in H as [H1 H2]. constructor; [now apply capitalize_cap|now apply IH].
Qed.

Lemma camel_of_camel s :
  forallb two_alpha (list_words s) = true -> make_camelcase (make_camelcase s) = make_camelcase s.
Proof.
  intros Hg. pose proof (Forall_cap _ (list_words_shape s) Hg) as Hc.
  unfold make_camelcase at 1. unfold make_camelcase at 1. rewrite (list_words_concat_cap _ Hc).
  unfold make_camelcase. f_equal.
  clear Hg. induction Hc as [|w ws Hw _ IH]; cbn; [reflexivity|]. now rewrite (capitalize_fixed _ Hw), IH.
Qed.

Lemma make_camelcase_skip c t : is_alnum c = false -> make_camelcase (c :: t) = make_camelcase t.
Proof. intros H. unfold make_camelcase. now rewrite (list_words_skip _ _ H). Qed.

Lemma capitalize_alnum w : forallb is_alnum w = true -> forallb is_alnum (capitalize w) = true.
Proof.
  destruct w as [|c t]; [reflexivity|]. cbn. intros H. apply andb_true_iff in H as [Hc Ht].
  rewrite (to_upper_alnum _ Hc). exact (forallb_map _ _ is_alnum _ to_lower_alnum Ht).
Qed.

Lemma make_camelcase_alnum s : forallb is_alnum (make_camelcase s) = true.
Proof.
  unfold make_camelcase. pose proof (list_words_shape s) as Hall.
  induction Hall as [|w ws Hw _ IH]; [reflexivity|]. cbn [map concat]. rewrite forallb_app, IH.
  now rewrite (capitalize_alnum _ (wshape_alnum _ Hw)).
Qed.

Lemma alnum_not_private s : forallb is_alnum s = true -> is_private s = false.
Proof.
  destruct s as [|c t]; [reflexivity|]. cbn. intros H. apply andb_true_iff in H as [Hc _].
  now apply alnum_not_under.
Qed.

Lemma collapse_alnum b s : forallb is_alnum s = true -> collapse_us b s = s.
Proof.
  revert b; induction s as [|c t IH]; intros b H; [reflexivity|]. cbn in *.
  apply andb_true_iff in H as [Hc Ht]. rewrite (alnum_not_under _ Hc). now rewrite IH.
Qed.

Lemma rename_class_simpl n pr :
  rename_class n pr =
    match collapse_us false n with
    | [] => None
    | _ :: _ => let c := make_camelcase (collapse_us false n) in
                Some (if is_ident (pref pr c) then pref pr c else n)
    end.
Proof.
  unfold rename_class. destruct (collapse_us false n) as [|x y]; [reflexivity|].
  cbv zeta. rewrite (alnum_not_private _ (make_camelcase_alnum (x :: y))).
  unfold pref. destruct pr; reflexivity.
Qed.

(* the dead branch of rename_class: a CamelCase text never starts with '_' *)
Theorem camelcase_never_private s : is_private (make_camelcase s) = false.
Proof. apply alnum_not_private, make_camelcase_alnum. Qed.

Theorem rename_class_idempotent_partial n pr r :
  camel_guard n = true -> rename_class n pr = Some r -> rename_class r pr = Some r.
Proof.
  unfold camel_guard. intros Hg. rewrite rename_class_simpl.
  destruct (collapse_us false n) as [|x y] eqn:En; [discriminate|]. cbv zeta.
  set (c := make_camelcase (x :: y)).
  destruct (is_ident (pref pr c)) eqn:Ei; intros [= <-].
  - (* converted: a second conversion reproduces it *)
    rewrite rename_class_simpl.
    assert (Hc : forallb is_alnum c = true) by apply make_camelcase_alnum.
    assert (Ecol : collapse_us false (pref pr c) = pref pr c).
    { unfold pref. destruct pr; [|now apply collapse_alnum].
      change (collapse_us false (US :: c)) with (US :: collapse_us true c). now rewrite (collapse_alnum true c Hc). }
    assert (Ecam : make_camelcase (pref pr c) = c).
    { unfold pref. destruct pr; [rewrite make_camelcase_skip by reflexivity|]; unfold c; now apply camel_of_camel. }
    rewrite Ecol. destruct (pref pr c) as [|p0 p1] eqn:Ep; [discriminate|]. cbv zeta.
    rewrite Ecam, Ep, Ei. reflexivity.
  - (* left alone *)
    rewrite rename_class_simpl, En. cbv zeta. fold c. now rewrite Ei.
Qed.

Example rename_class_idempotent_partial_example :
  (* "my_http_server2" -> "MyHttpServer2" *)
  camel_guard [109;121;95;104;116;116;112;95;115;101;114;118;101;114;50] = true
  /\ rename_class [109;121;95;104;116;116;112;95;115;101;114;118;101;114;50] false
     = Some [77;121;72;116;116;112;83;101;114;118;101;114;50].
Proof. vm_compute. split; reflexivity. Qed.
