(* K9 -- theorems about NamingModel.v (all texts, all lengths). *)
From Coq Require Import List NArith Bool Lia ZifyBool Arith.
Import ListNotations.
Require Import Pyrefact.NamingModel.
Open Scope N_scope.

(* ---------------------------------------------------------------------------------------- *)
(* character classes *)

Ltac cls := unfold to_lower, to_upper, is_alnum, is_alpha, US in *; unfold is_upper, is_lower, is_digit, is_under in *.

Lemma upper_not_lower c : is_upper c = true -> is_lower c = false.
Proof. cls; lia. Qed.
Lemma upper_not_digit c : is_upper c = true -> is_digit c = false.
Proof. cls; lia. Qed.
Lemma lower_not_upper c : is_lower c = true -> is_upper c = false.
Proof. cls; lia. Qed.
Lemma lower_not_digit c : is_lower c = true -> is_digit c = false.
Proof. cls; lia. Qed.
Lemma digit_not_upper c : is_digit c = true -> is_upper c = false.
Proof. cls; lia. Qed.
Lemma digit_not_lower c : is_digit c = true -> is_lower c = false.
Proof. cls; lia. Qed.
Lemma digit_not_alpha c : is_digit c = true -> is_alpha c = false.
Proof. cls; lia. Qed.
Lemma under_not_alnum c : is_under c = true -> is_alnum c = false.
Proof. cls; lia. Qed.
Lemma alnum_not_under c : is_alnum c = true -> is_under c = false.
Proof. cls; lia. Qed.
Lemma upper_alpha c : is_upper c = true -> is_alpha c = true.
Proof. cls; lia. Qed.
Lemma lower_alpha c : is_lower c = true -> is_alpha c = true.
Proof. cls; lia. Qed.
Lemma alpha_alnum c : is_alpha c = true -> is_alnum c = true.
Proof. cls; lia. Qed.
Lemma digit_alnum c : is_digit c = true -> is_alnum c = true.
Proof. cls; lia. Qed.

Lemma to_lower_alpha c : is_alpha c = true -> is_lower (to_lower c) = true.
Proof. cls. destruct ((65 <=? c) && (c <=? 90)) eqn:E; lia. Qed.
Lemma to_upper_alpha c : is_alpha c = true -> is_upper (to_upper c) = true.
Proof. cls. destruct ((97 <=? c) && (c <=? 122)) eqn:E; lia. Qed.
Lemma to_lower_digit c : is_digit c = true -> to_lower c = c.
Proof. cls. destruct ((65 <=? c) && (c <=? 90)) eqn:E; lia. Qed.
Lemma to_upper_digit c : is_digit c = true -> to_upper c = c.
Proof. cls. destruct ((97 <=? c) && (c <=? 122)) eqn:E; lia. Qed.
Lemma to_lower_lower c : is_lower c = true -> to_lower c = c.
Proof. cls. destruct ((65 <=? c) && (c <=? 90)) eqn:E; lia. Qed.
Lemma to_upper_upper c : is_upper c = true -> to_upper c = c.
Proof. cls. destruct ((97 <=? c) && (c <=? 122)) eqn:E; lia. Qed.
Lemma to_lower_alnum c : is_alnum c = true -> is_alnum (to_lower c) = true.
Proof. cls. destruct ((65 <=? c) && (c <=? 90)) eqn:E; lia. Qed.
Lemma to_upper_alnum c : is_alnum c = true -> is_alnum (to_upper c) = true.
Proof. cls. destruct ((97 <=? c) && (c <=? 122)) eqn:E; lia. Qed.

(* ---------------------------------------------------------------------------------------- *)
(* take_while / drop_while *)

Lemma tw_dw p l : take_while p l ++ drop_while p l = l.
Proof. induction l as [|c t IH]; cbn; [reflexivity|]. destruct (p c); cbn; [now rewrite IH|reflexivity]. Qed.

Lemma tw_all p l : forallb p (take_while p l) = true.
Proof. induction l as [|c t IH]; cbn; [reflexivity|]. destruct (p c) eqn:E; cbn; [now rewrite E|reflexivity]. Qed.

Definition stops (p : N -> bool) (b : text) : bool :=
  match b with [] => true | c :: _ => negb (p c) end.

Lemma dw_stops p l : stops p (drop_while p l) = true.
Proof. induction l as [|c t IH]; cbn; [reflexivity|]. destruct (p c) eqn:E; cbn; [exact IH|now rewrite E]. Qed.

Lemma tw_app p a b : forallb p a = true -> stops p b = true -> take_while p (a ++ b) = a.
Proof.
  induction a as [|c t IH]; cbn; intros Ha Hb.
  - destruct b as [|d b']; cbn in *; [reflexivity|]. now destruct (p d).
  - apply andb_true_iff in Ha as [Hc Ht]. rewrite Hc. now rewrite IH.
Qed.
Lemma dw_app p a b : forallb p a = true -> stops p b = true -> drop_while p (a ++ b) = b.
Proof.
  induction a as [|c t IH]; cbn; intros Ha Hb.
  - destruct b as [|d b']; cbn in *; [reflexivity|]. now destruct (p d).
  - apply andb_true_iff in Ha as [Hc Ht]. rewrite Hc. now apply IH.
Qed.

Lemma forallb_firstn {A} (p : A -> bool) k (l : list A) : forallb p l = true -> forallb p (firstn k l) = true.
Proof.
  revert l; induction k as [|k IH]; intros [|c t]; cbn; try reflexivity.
  intros H. apply andb_true_iff in H as [Hc Ht]. now rewrite Hc, IH.
Qed.

Lemma firstn_tw p k l : (k <= length (take_while p l))%nat -> forallb p (firstn k l) = true.
Proof.
  intros H. rewrite <- (tw_dw p l). rewrite firstn_app.
  replace (k - length (take_while p l))%nat with 0%nat by lia. cbn. rewrite app_nil_r.
  apply forallb_firstn, tw_all.
Qed.

Lemma forallb_imp {A} (p q : A -> bool) l :
  (forall x, p x = true -> q x = true) -> forallb p l = true -> forallb q l = true.
Proof.
  intros H. induction l as [|c t IH]; cbn; [reflexivity|]. intros Hl.
  apply andb_true_iff in Hl as [Hc Ht]. now rewrite (H _ Hc), IH.
Qed.

(* ---------------------------------------------------------------------------------------- *)
(* the shape of a word: letters then digits, non-empty *)

Definition wshape (w : text) : bool :=
  negb (match w with [] => true | _ => false end) && forallb is_digit (drop_while is_alpha w).

Lemma wshape_alnum w : wshape w = true -> forallb is_alnum w = true.
Proof.
  unfold wshape. intros H. apply andb_true_iff in H as [_ H].
  rewrite <- (tw_dw is_alpha w). rewrite forallb_app.
  rewrite (forallb_imp _ _ _ alpha_alnum (tw_all is_alpha w)).
  now rewrite (forallb_imp _ _ _ digit_alnum H).
Qed.

Lemma wshape_intro xs ds :
  forallb is_alpha xs = true -> forallb is_digit ds = true -> xs ++ ds <> [] -> wshape (xs ++ ds) = true.
Proof.
  intros Hx Hd Hne. unfold wshape. apply andb_true_iff. split.
  - destruct (xs ++ ds); [congruence|reflexivity].
  - rewrite dw_app; [exact Hd|exact Hx|].
    destruct ds as [|d ds']; cbn in *; [reflexivity|].
    apply andb_true_iff in Hd as [Hd _]. now rewrite (digit_not_alpha _ Hd).
Qed.

Lemma alt1_len_bound s k : alt1_len s = Some k -> (2 <= k <= length (take_while is_upper s))%nat.
Proof.
  unfold alt1_len. destruct (Nat.leb 2 (length (take_while is_upper s))) eqn:E2; [|discriminate].
  apply Nat.leb_le in E2.
  destruct (drop_while is_upper s) as [|c r].
  - intros [= <-]. lia.
  - destruct (is_lower c).
    + destruct (Nat.leb 3 (length (take_while is_upper s))) eqn:E3; [|discriminate].
      apply Nat.leb_le in E3. intros [= <-]. lia.
    + intros [= <-]. lia.
Qed.

Lemma match_at_split s : fst (match_at s) ++ snd (match_at s) = s.
Proof.
  unfold match_at. destruct (alt1_len s) as [k|]; cbn [fst snd].
  - rewrite <- app_assoc, tw_dw. apply firstn_skipn.
  - destruct s as [|c t]; [reflexivity|].
    destruct (is_upper c); cbn [fst snd]; rewrite <- !app_assoc; rewrite tw_dw, tw_dw; reflexivity.
Qed.

Lemma match_at_shape s : fst (match_at s) <> [] -> wshape (fst (match_at s)) = true.
Proof.
  unfold match_at. destruct (alt1_len s) as [k|] eqn:E; cbn [fst snd].
  - intros Hne. apply wshape_intro; [|apply tw_all|exact Hne].
    apply alt1_len_bound in E.
    apply (forallb_imp _ _ _ upper_alpha). apply firstn_tw. lia.
  - destruct s as [|c t]; [intros H; now contradiction H|].
    destruct (is_upper c) eqn:Ec; cbn [fst snd]; intros Hne.
    + rewrite app_assoc. apply wshape_intro; [|apply tw_all|now rewrite <- app_assoc].
      cbn. rewrite (upper_alpha _ Ec). apply (forallb_imp _ _ _ lower_alpha), tw_all.
    + cbn [app] in *. apply wshape_intro; [|apply tw_all|exact Hne].
      apply (forallb_imp _ _ _ lower_alpha), tw_all.
Qed.

Lemma list_words_fuel_shape f s : Forall (fun w => wshape w = true) (list_words_fuel f s).
Proof.
  revert s; induction f as [|f IH]; intros s; cbn; [constructor|].
  destruct s as [|c t]; [constructor|].
  pose proof (match_at_shape (c :: t)) as Hs.
  destruct (match_at (c :: t)) as [w r]; cbn [fst] in Hs.
  destruct w as [|d w']; [apply IH|].
  constructor; [apply Hs; discriminate|apply IH].
Qed.

Lemma list_words_shape s : Forall (fun w => wshape w = true) (list_words s).
Proof. apply list_words_fuel_shape. Qed.

(* fuel: any amount >= length s gives the same words *)
Lemma match_at_rest_len s : (length (fst (match_at s)) + length (snd (match_at s)) = length s)%nat.
Proof. rewrite <- app_length, match_at_split. reflexivity. Qed.

Lemma list_words_fuel_enough f1 : forall f2 s,
  (length s <= f1)%nat -> (length s <= f2)%nat -> list_words_fuel f1 s = list_words_fuel f2 s.
Proof.
  induction f1 as [|f1 IH]; intros f2 s H1 H2.
  - destruct s; [|cbn in H1; lia]. destruct f2; reflexivity.
  - destruct f2 as [|f2]; [destruct s; [reflexivity|cbn in H2; lia]|].
    cbn. destruct s as [|c t]; [reflexivity|].
    pose proof (match_at_rest_len (c :: t)) as Hl.
    destruct (match_at (c :: t)) as [w r]; cbn [fst snd] in Hl. cbn [length] in *.
    destruct w as [|d w'].
    + apply IH; lia.
    + f_equal. cbn [length] in Hl. apply IH; lia.
Qed.

Lemma list_words_fuel_eq f s : (length s <= f)%nat -> list_words_fuel f s = list_words s.
Proof. intros H. unfold list_words. apply list_words_fuel_enough; lia. Qed.

Lemma list_words_nil : list_words [] = [].
Proof. reflexivity. Qed.

(* one scanning step, as an equation on list_words *)
Lemma list_words_step c t :
  list_words (c :: t) =
    match fst (match_at (c :: t)) with
    | [] => list_words t
    | _ :: _ => fst (match_at (c :: t)) :: list_words (snd (match_at (c :: t)))
    end.
Proof.
  unfold list_words at 1. cbn [length list_words_fuel].
  pose proof (match_at_rest_len (c :: t)) as Hl.
  destruct (match_at (c :: t)) as [w r]; cbn [fst snd] in *. cbn [length] in Hl.
  destruct w as [|d w'].
  - reflexivity.
  - f_equal. apply list_words_fuel_eq. cbn [length] in Hl. lia.
Qed.

(* a character the regex cannot consume is skipped *)
Lemma match_at_skip c t : is_alnum c = false -> fst (match_at (c :: t)) = [].
Proof.
  intros H. assert (Hu : is_upper c = false) by (cls; lia).
  assert (Hl : is_lower c = false) by (cls; lia). assert (Hd : is_digit c = false) by (cls; lia).
  unfold match_at, alt1_len. cbn [take_while]. rewrite Hu. cbn [length Nat.leb].
  cbn [take_while drop_while]. rewrite Hl. cbn [take_while drop_while app fst]. now rewrite Hd.
Qed.

Lemma list_words_skip c t : is_alnum c = false -> list_words (c :: t) = list_words t.
Proof. intros H. rewrite list_words_step, (match_at_skip _ _ H). reflexivity. Qed.

(* ---------------------------------------------------------------------------------------- *)
(* T19.1: the result is a valid identifier or the name is left alone *)

Theorem rename_variable_ident_or_same v st pr :
  is_ident (rename_variable v st pr) = true \/ rename_variable v st pr = v.
Proof.
  unfold rename_variable.
  destruct (text_eqb v [US]); [now right|]. destruct (is_dunder v); [now right|].
  match goal with |- context [if is_ident ?r then _ else _] => destruct (is_ident r) eqn:E end;
    [now left|now right].
Qed.

Theorem rename_variable_ident v st pr : is_ident v = true -> is_ident (rename_variable v st pr) = true.
Proof. intros H. destruct (rename_variable_ident_or_same v st pr) as [E|E]; [exact E|now rewrite E]. Qed.

Theorem rename_class_ident_or_same n pr r :
  rename_class n pr = Some r -> is_ident r = true \/ r = n.
Proof.
  unfold rename_class. destruct (collapse_us false n); [discriminate|].
  match goal with |- context [if is_ident ?r then _ else _] => destruct (is_ident r) eqn:E end;
    intros [= <-]; [now left|now right].
Qed.

Theorem rename_class_ident n pr r : is_ident n = true -> rename_class n pr = Some r -> is_ident r = true.
Proof. intros H E. destruct (rename_class_ident_or_same _ _ _ E) as [E'|E']; [exact E'|now subst]. Qed.

Theorem rename_class_total n pr : n <> [] -> rename_class n pr <> None.
Proof.
  intros H. unfold rename_class. destruct n as [|c t]; [congruence|].
  cbn [collapse_us]. destruct (is_under c); discriminate.
Qed.
