(* K9 -- theorems about NamingModel.v (all texts, all lengths). *)
From Coq Require Import List NArith Bool Lia ZifyBool Arith.
Import ListNotations.
Require Import Pyrefact.NamingModel.
Open Scope N_scope.

(* ---------------------------------------------------------------------------------------- *)
(* character classes *)

Ltac cls := unfold to_lower, to_upper, is_alnum, is_alpha, US in *; unfold is_upper, is_lower, is_digit, is_under in *.

Lemma upper_not_lower c : is_upper c = true -> is_lower c = false.
Proof. cls; lia. Qed.
Lemma upper_not_digit c : is_upper c = true -> is_digit c = false.
Proof. cls; lia. Qed.
Lemma lower_not_upper c : is_lower c = true -> is_upper c = false.
Proof. cls; lia. Qed.
Lemma lower_not_digit c : is_lower c = true -> is_digit c = false.
Proof. cls; lia. Qed.
Lemma digit_not_upper c : is_digit c = true -> is_upper c = false.
Proof. cls; lia. Qed.
Lemma digit_not_lower c : is_digit c = true -> is_lower c = false.
Proof. cls; lia. Qed.
Lemma digit_not_alpha c : is_digit c = true -> is_alpha c = false.
Proof. cls; lia. Qed.
Lemma under_not_alnum c : is_under c = true -> is_alnum c = false.
Proof. cls; lia. Qed.
Lemma alnum_not_under c : is_alnum c = true -> is_under c = false.
Proof. cls; lia. Qed.
Lemma upper_alpha c : is_upper c = true -> is_alpha c = true.
Proof. cls; lia. Qed.
Lemma lower_alpha c : is_lower c = true -> is_alpha c = true.
Proof. cls; lia. Qed.
Lemma alpha_alnum c : is_alpha c = true -> is_alnum c = true.
Proof. cls; lia. Qed.
Lemma digit_alnum c : is_digit c = true -> is_alnum c = true.
Proof. cls; lia. Qed.

Lemma to_lower_alpha c : is_alpha c = true -> is_lower (to_lower c) = true.
Proof. cls. destruct ((65 <=? c) && (c <=? 90)) eqn:E; lia. Qed.
Lemma to_upper_alpha c : is_alpha c = true -> is_upper (to_upper c) = true.
Proof. cls. destruct ((97 <=? c) && (c <=? 122)) eqn:E; lia. Qed.
Lemma to_lower_digit c : is_digit c = true -> to_lower c = c.
Proof. cls. destruct ((65 <=? c) && (c <=? 90)) eqn:E; lia. Qed.
Lemma to_upper_digit c : is_digit c = true -> to_upper c = c.
Proof. cls. destruct ((97 <=? c) && (c <=? 122)) eqn:E; lia. Qed.
Lemma to_lower_lower c : is_lower c = true -> to_lower c = c.
Proof. cls. destruct ((65 <=? c) && (c <=? 90)) eqn:E; lia. Qed.
Lemma to_upper_upper c : is_upper c = true -> to_upper c = c.
Proof. cls. destruct ((97 <=? c) && (c <=? 122)) eqn:E; lia. Qed.
Lemma to_lower_alnum c : is_alnum c = true -> is_alnum (to_lower c) = true.
Proof. cls. destruct ((65 <=? c) && (c <=? 90)) eqn:E; lia. Qed.
Lemma to_upper_alnum c : is_alnum c = true -> is_alnum (to_upper c) = true.
Proof. cls. destruct ((97 <=? c) && (c <=? 122)) eqn:E; lia. Qed.

(* ---------------------------------------------------------------------------------------- *)
(* take_while / drop_while *)

Lemma tw_dw p l : take_while p l ++ drop_while p l = l.
Proof. induction l as [|c t IH]; cbn; [reflexivity|]. destruct (p c); cbn; [now rewrite IH|reflexivity]. Qed.

Lemma tw_all p l : forallb p (take_while p l) = true.
Proof. induction l as [|c t IH]; cbn; [reflexivity|]. destruct (p c) eqn:E; cbn; [now rewrite E|reflexivity]. Qed.

Definition stops (p : N -> bool) (b : text) : bool :=
  match b with [] => true | c :: _ => negb (p c) end.

Lemma dw_stops p l : stops p (drop_while p l) = true.
Proof. induction l as [|c t IH]; cbn; [reflexivity|]. destruct (p c) eqn:E; cbn; [exact IH|now rewrite E]. Qed.

Lemma tw_app p a b : forallb p a = true -> stops p b = true -> take_while p (a ++ b) = a.
Proof.
  induction a as [|c t IH]; cbn; intros Ha Hb.
  - destruct b as [|d b']; cbn in *; [reflexivity|]. now destruct (p d).
  - apply andb_true_iff in Ha as [Hc Ht]. rewrite Hc. now rewrite IH.
Qed.
Lemma dw_app p a b : forallb p a = true -> stops p b = true -> drop_while p (a ++ b) = b.
Proof.
  induction a as [|c t IH]; cbn; intros Ha Hb.
  - destruct b as [|d b']; cbn in *; [reflexivity|]. now destruct (p d).
  - apply andb_true_iff in Ha as [Hc Ht]. rewrite Hc. now apply IH.
Qed.

Lemma forallb_firstn {A} (p : A -> bool) k (l : list A) : forallb p l = true -> forallb p (firstn k l) = true.
Proof.
  revert l; induction k as [|k IH]; intros [|c t]; cbn; try reflexivity.
  intros H. apply andb_true_iff in H as [Hc Ht]. now rewrite Hc, IH.
Qed.

Lemma firstn_tw p k l : (k <= length (take_while p l))%nat -> forallb p (firstn k l) = true.
Proof.
  intros H. rewrite <- (tw_dw p l). rewrite firstn_app.
  replace (k - length (take_while p l))%nat with 0%nat by lia. cbn. rewrite app_nil_r.
  apply forallb_firstn, tw_all.
Qed.

Lemma forallb_imp {A} (p q : A -> bool) l :
  (forall x, p x = true -> q x = true) -> forallb p l = true -> forallb q l = true.
Proof.
  intros H. induction l as [|c t IH]; cbn; [reflexivity|]. intros Hl.
  apply andb_true_iff in Hl as [Hc Ht]. now rewrite (H _ Hc), IH.
Qed.

(* ---------------------------------------------------------------------------------------- *)
(* the shape of a word: letters then digits, non-empty *)

Definition wshape (w : text) : bool :=
  negb (match w with [] => true | _ => false end) && forallb is_digit (drop_while is_alpha w).

Lemma wshape_alnum w : wshape w = true -> forallb is_alnum w = true.
Proof.
  unfold wshape. intros H. apply andb_true_iff in H as [_ H].
  rewrite <- (tw_dw is_alpha w). rewrite forallb_app.
  rewrite (forallb_imp _ _ _ alpha_alnum (tw_all is_alpha w)).
  now rewrite (forallb_imp _ _ _ digit_alnum H).
Qed.

Lemma wshape_intro xs ds :
  forallb is_alpha xs = true -> forallb is_digit ds = true -> xs ++ ds <> [] -> wshape (xs ++ ds) = true.
Proof.
  intros Hx Hd Hne. unfold wshape. apply andb_true_iff. split.
  - destruct (xs ++ ds); [congruence|reflexivity].
  - rewrite dw_app; [exact Hd|exact Hx|].
    destruct ds as [|d ds']; cbn in *; [reflexivity|].
    apply andb_true_iff in Hd as [Hd _]. now rewrite (digit_not_alpha _ Hd).
Qed.

Lemma alt1_len_bound s k : alt1_len s = Some k -> (2 <= k <= length (take_while is_upper s))%nat.
Proof.
  unfold alt1_len. destruct (Nat.leb 2 (length (take_while is_upper s))) eqn:E2; [|discriminate].
  apply Nat.leb_le in E2.
  destruct (drop_while is_upper s) as [|c r].
  - intros [= <-]. lia.
  - destruct (is_lower c).
    + destruct (Nat.leb 3 (length (take_while is_upper s))) eqn:E3; [|discriminate].
      apply Nat.leb_le in E3. intros [= <-]. lia.
    + intros [= <-]. lia.
Qed.

Lemma match_at_split s : fst (match_at s) ++ snd (match_at s) = s.
Proof.
  unfold match_at. destruct (alt1_len s) as [k|]; cbn [fst snd].
  - rewrite <- app_assoc, tw_dw. apply firstn_skipn.
  - destruct s as [|c t]; [reflexivity|].
    destruct (is_upper c); cbn [fst snd]; rewrite <- !app_assoc; rewrite tw_dw, tw_dw; reflexivity.
Qed.

Lemma match_at_shape s : fst (match_at s) <> [] -> wshape (fst (match_at s)) = true.
Proof.
  unfold match_at. destruct (alt1_len s) as [k|] eqn:E; cbn [fst snd].
  - intros Hne. apply wshape_intro; [|apply tw_all|exact Hne].
    apply alt1_len_bound in E.
    apply (forallb_imp _ _ _ upper_alpha). apply firstn_tw. lia.
  - destruct s as [|c t]; [intros H; now contradiction H|].
    destruct (is_upper c) eqn:Ec; cbn [fst snd]; intros Hne.
    + rewrite app_assoc. apply wshape_intro; [|apply tw_all|now rewrite <- app_assoc].
      cbn. rewrite (upper_alpha _ Ec). apply (forallb_imp _ _ _ lower_alpha), tw_all.
    + cbn [app] in *. apply wshape_intro; [|apply tw_all|exact Hne].
      apply (forallb_imp _ _ _ lower_alpha), tw_all.
Qed.

Lemma list_words_fuel_shape f s : Forall (fun w => wshape w = true) (list_words_fuel f s).
Proof.
  revert s; induction f as [|f IH]; intros s; cbn; [constructor|].
  destruct s as [|c t]; [constructor|].
  pose proof (match_at_shape (c :: t)) as Hs.
  destruct (match_at (c :: t)) as [w r]; cbn [fst] in Hs.
  destruct w as [|d w']; [apply IH|].
  constructor; [apply Hs; discriminate|apply IH].
Qed.

Lemma list_words_shape s : Forall (fun w => wshape w = true) (list_words s).
Proof. apply list_words_fuel_shape. Qed.

(* fuel: any amount >= length s gives the same words *)
Lemma match_at_rest_len s : (length (fst (match_at s)) + length (snd (match_at s)) = length s)%nat.
Proof. rewrite <- app_length, match_at_split. reflexivity. Qed.

Lemma list_words_fuel_enough f1 : forall f2 s,
  (length s <= f1)%nat -> (length s <= f2)%nat -> list_words_fuel f1 s = list_words_fuel f2 s.
Proof.
  induction f1 as [|f1 IH]; intros f2 s H1 H2.
  - destruct s; [|cbn in H1; lia]. destruct f2; reflexivity.
  - destruct f2 as [|f2]; [destruct s; [reflexivity|cbn in H2; lia]|].
    cbn. destruct s as [|c t]; [reflexivity|].
    pose proof (match_at_rest_len (c :: t)) as Hl.
    destruct (match_at (c :: t)) as [w r]; cbn [fst snd] in Hl. cbn [length] in *.
    destruct w as [|d w'].
    + apply IH; lia.
    + f_equal. cbn [length] in Hl. apply IH; lia.
Qed.

Lemma list_words_fuel_eq f s : (length s <= f)%nat -> list_words_fuel f s = list_words s.
Proof. intros H. unfold list_words. apply list_words_fuel_enough; lia. Qed.

Lemma list_words_nil : list_words [] = [].
Proof. reflexivity. Qed.

(* one scanning step, as an equation on list_words *)
Lemma list_words_step c t :
  list_words (c :: t) =
    match fst (match_at (c :: t)) with
    | [] => list_words t
    | _ :: _ => fst (match_at (c :: t)) :: list_words (snd (match_at (c :: t)))
    end.
Proof.
  unfold list_words at 1. cbn [length list_words_fuel].
  pose proof (match_at_rest_len (c :: t)) as Hl.
  destruct (match_at (c :: t)) as [w r]; cbn [fst snd] in *. cbn [length] in Hl.
  destruct w as [|d w'].
  - reflexivity.
  - f_equal. apply list_words_fuel_eq. cbn [length] in Hl. lia.
Qed.

(* a character the regex cannot consume is skipped *)
Lemma match_at_skip c t : is_alnum c = false -> fst (match_at (c :: t)) = [].
Proof.
  intros H. assert (Hu : is_upper c = false) by (cls; lia).
  assert (Hl : is_lower c = false) by (cls; lia). assert (Hd : is_digit c = false) by (cls; lia).
  unfold match_at, alt1_len. cbn [take_while]. rewrite Hu. cbn [length Nat.leb].
  cbn [take_while drop_while]. rewrite Hl. cbn [take_while drop_while app fst]. now rewrite Hd.
Qed.

Lemma list_words_skip c t : is_alnum c = false -> list_words (c :: t) = list_words t.
Proof. intros H. rewrite list_words_step, (match_at_skip _ _ H). reflexivity. Qed.

(* ---------------------------------------------------------------------------------------- *)
(* T19.1: the result is a valid identifier or the name is left alone *)

Theorem rename_variable_ident_or_same v st pr :
  is_ident (rename_variable v st pr) = true \/ rename_variable v st pr = v.
Proof.
  unfold rename_variable.
  destruct (text_eqb v [US]); [now right|]. destruct (is_dunder v); [now right|].
  match goal with |- context [if is_ident ?r then _ else _] => destruct (is_ident r) eqn:E end;
    [now left|now right].
Qed.

Theorem rename_variable_ident v st pr : is_ident v = true -> is_ident (rename_variable v st pr) = true.
Proof. intros H. destruct (rename_variable_ident_or_same v st pr) as [E|E]; [exact E|now rewrite E]. Qed.

Theorem rename_class_ident_or_same n pr r :
  rename_class n pr = Some r -> is_ident r = true \/ r = n.
Proof.
  unfold rename_class. destruct (collapse_us false n); [discriminate|].
  match goal with |- context [if is_ident ?r then _ else _] => destruct (is_ident r) eqn:E end;
    intros [= <-]; [now left|now right].
Qed.

Theorem rename_class_ident n pr r : is_ident n = true -> rename_class n pr = Some r -> is_ident r = true.
Proof. intros H E. destruct (rename_class_ident_or_same _ _ _ E) as [E'|E']; [exact E'|now subst]. Qed.

Theorem rename_class_total n pr : n <> [] -> rename_class n pr <> None.
Proof.
  intros H. unfold rename_class. destruct n as [|c t]; [congruence|].
  cbn [collapse_us]. destruct (is_under c); discriminate.
Qed.

(* ---------------------------------------------------------------------------------------- *)
(* scanning a text that is already in snake form *)

Definition sep (r : text) : bool := match r with [] => true | c :: _ => negb (is_alnum c) end.

Lemma tw_stops p l : stops p l = true -> take_while p l = [] /\ drop_while p l = l.
Proof. destruct l as [|c t]; cbn; [now split|]. destruct (p c); [discriminate|now split]. Qed.

Lemma firstn_len_app {A} (a b : list A) : firstn (length a) (a ++ b) = a.
Proof. induction a as [|x a IH]; cbn; [now destruct b|now rewrite IH]. Qed.
Lemma skipn_len_app {A} (a b : list A) : skipn (length a) (a ++ b) = b.
Proof. induction a as [|x a IH]; cbn; [reflexivity|exact IH]. Qed.

Lemma alt1_none s : stops is_upper s = true -> alt1_len s = None.
Proof. intros H. unfold alt1_len. destruct (tw_stops _ _ H) as [-> _]. reflexivity. Qed.

Lemma sep_stops_lower r : sep r = true -> stops is_lower r = true.
Proof. destruct r as [|c t]; cbn; [reflexivity|]. cls; lia. Qed.
Lemma sep_stops_upper r : sep r = true -> stops is_upper r = true.
Proof. destruct r as [|c t]; cbn; [reflexivity|]. cls; lia. Qed.
Lemma sep_stops_digit r : sep r = true -> stops is_digit r = true.
Proof. destruct r as [|c t]; cbn; [reflexivity|]. cls; lia. Qed.

Lemma stops_digits_then p ds r :
  (forall c, is_digit c = true -> p c = false) ->
  forallb is_digit ds = true -> stops p r = true -> stops p (ds ++ r) = true.
Proof.
  intros Hp Hd Hr. destruct ds as [|d ds']; [exact Hr|]. cbn in *.
  apply andb_true_iff in Hd as [Hd _]. now rewrite (Hp _ Hd).
Qed.

(* lower-case word: [a-z]* then digits *)
Lemma match_at_lower xs ds r :
  forallb is_lower xs = true -> forallb is_digit ds = true -> xs ++ ds <> [] -> sep r = true ->
  match_at (xs ++ ds ++ r) = (xs ++ ds, r).
Proof.
  intros Hx Hd Hne Hr.
  assert (Hsl : stops is_lower (ds ++ r) = true)
    by (apply stops_digits_then; [exact digit_not_lower|exact Hd|now apply sep_stops_lower]).
  assert (Hsu : stops is_upper (xs ++ ds ++ r) = true).
  { destruct xs as [|x xs']; cbn [app].
    - apply stops_digits_then; [exact digit_not_upper|exact Hd|now apply sep_stops_upper].
    - cbn in *. apply andb_true_iff in Hx as [Hx _]. now rewrite (lower_not_upper _ Hx). }
  unfold match_at. rewrite (alt1_none _ Hsu).
  assert (Hs : exists c t, xs ++ ds ++ r = c :: t /\ is_upper c = false).
  { destruct (xs ++ ds ++ r) as [|c t] eqn:E.
    - destruct xs; [destruct ds; [now contradiction Hne|discriminate]|discriminate].
    - exists c, t. split; [reflexivity|]. cbn in Hsu. now destruct (is_upper c). }
  destruct Hs as (c & t & Es & Hc). rewrite Es, Hc, <- Es.
  rewrite (tw_app _ _ _ Hx Hsl), (dw_app _ _ _ Hx Hsl).
  rewrite (tw_app _ _ _ Hd (sep_stops_digit _ Hr)), (dw_app _ _ _ Hd (sep_stops_digit _ Hr)).
  reflexivity.
Qed.

(* upper-case word: [A-Z]* then digits *)
Lemma match_at_upper us ds r :
  forallb is_upper us = true -> forallb is_digit ds = true -> us ++ ds <> [] -> sep r = true ->
  match_at (us ++ ds ++ r) = (us ++ ds, r).
Proof.
  intros Hu Hd Hne Hr.
  assert (Hsu : stops is_upper (ds ++ r) = true)
    by (apply stops_digits_then; [exact digit_not_upper|exact Hd|now apply sep_stops_upper]).
  assert (Hsl : stops is_lower (ds ++ r) = true)
    by (apply stops_digits_then; [exact digit_not_lower|exact Hd|now apply sep_stops_lower]).
  assert (Hsd := sep_stops_digit _ Hr).
  unfold match_at, alt1_len.
  rewrite (tw_app _ _ _ Hu Hsu), (dw_app _ _ _ Hu Hsu).
  destruct (Nat.leb 2 (length us)) eqn:E2.
  - (* the whole run is taken: the next character is a digit, a separator or the end *)
    assert (Hk : match ds ++ r with
                 | [] => Some (length us)
                 | c :: _ => if is_lower c then if Nat.leb 3 (length us) then Some (Nat.pred (length us)) else None
                             else Some (length us)
                 end = Some (length us)).
    { destruct (ds ++ r) as [|c t]; [reflexivity|]. cbn in Hsl. now destruct (is_lower c). }
    rewrite Hk, firstn_len_app, skipn_len_app.
    now rewrite (tw_app _ _ _ Hd Hsd), (dw_app _ _ _ Hd Hsd).
  - destruct us as [|u [|u2 us']]; [| |cbn in E2; discriminate].
    + (* digits only *)
      cbn [app] in *. destruct ds as [|d ds']; [now contradiction Hne|].
      cbn [app]. cbn in Hd. apply andb_true_iff in Hd as [Hd1 Hd2].
      rewrite (digit_not_upper _ Hd1). cbn [take_while drop_while].
      rewrite (digit_not_lower _ Hd1). cbn [app].
      change (d :: ds' ++ r) with ((d :: ds') ++ r).
      assert (Hd' : forallb is_digit (d :: ds') = true) by (cbn; now rewrite Hd1, Hd2).
      now rewrite (tw_app _ _ _ Hd' Hsd), (dw_app _ _ _ Hd' Hsd).
    + (* a single capital *)
      cbn [app]. cbn in Hu. apply andb_true_iff in Hu as [Hu1 _]. rewrite Hu1.
      destruct (tw_stops _ _ Hsl) as [-> ->]. cbn [app].
      now rewrite (tw_app _ _ _ Hd Hsd), (dw_app _ _ _ Hd Hsd).
Qed.

Lemma list_words_word w r :
  w <> [] -> match_at (w ++ r) = (w, r) -> list_words (w ++ r) = w :: list_words r.
Proof.
  intros Hne Hm. destruct w as [|c t]; [now contradiction Hne|].
  cbn [app] in *. rewrite list_words_step, Hm. reflexivity.
Qed.

Section Join.
  Variable P : text -> Prop.
  Hypothesis HP : forall w r, P w -> sep r = true -> w <> [] /\ match_at (w ++ r) = (w, r).

  Lemma list_words_join ws : Forall P ws -> list_words (join_us ws) = ws.
  Proof.
    induction ws as [|w ws IH]; intros Hall; [reflexivity|].
    inversion Hall as [|? ? Hw Hws]; subst.
    destruct ws as [|w2 ws'].
    - cbn [join_us]. rewrite <- (app_nil_r w) at 1.
      destruct (HP w [] Hw eq_refl) as [Hne Hm]. now rewrite (list_words_word _ _ Hne Hm).
    - change (join_us (w :: w2 :: ws')) with (w ++ US :: join_us (w2 :: ws')).
      destruct (HP w (US :: join_us (w2 :: ws')) Hw eq_refl) as [Hne Hm].
      rewrite (list_words_word _ _ Hne Hm), list_words_skip by reflexivity.
      now rewrite (IH Hws).
  Qed.
End Join.

Definition lower_word (w : text) : Prop :=
  exists xs ds, w = xs ++ ds /\ forallb is_lower xs = true /\ forallb is_digit ds = true /\ w <> [].
Definition upper_word (w : text) : Prop :=
  exists xs ds, w = xs ++ ds /\ forallb is_upper xs = true /\ forallb is_digit ds = true /\ w <> [].

Lemma lower_word_scan w r : lower_word w -> sep r = true -> w <> [] /\ match_at (w ++ r) = (w, r).
Proof.
  intros (xs & ds & -> & Hx & Hd & Hne) Hr. split; [exact Hne|].
  rewrite <- app_assoc. now apply match_at_lower.
Qed.
Lemma upper_word_scan w r : upper_word w -> sep r = true -> w <> [] /\ match_at (w ++ r) = (w, r).
Proof.
  intros (xs & ds & -> & Hx & Hd & Hne) Hr. split; [exact Hne|].
  rewrite <- app_assoc. now apply match_at_upper.
Qed.

Lemma forallb_map {A B} (f : A -> B) (p : B -> bool) (q : A -> bool) l :
  (forall x, q x = true -> p (f x) = true) -> forallb q l = true -> forallb p (map f l) = true.
Proof.
  intros H. induction l as [|c t IH]; cbn; [reflexivity|]. intros Hl.
  apply andb_true_iff in Hl as [Hc Ht]. now rewrite (H _ Hc), IH.
Qed.
Lemma map_id_on {A} (f : A -> A) (q : A -> bool) l :
  (forall x, q x = true -> f x = x) -> forallb q l = true -> map f l = l.
Proof.
  intros H. induction l as [|c t IH]; cbn; [reflexivity|]. intros Hl.
  apply andb_true_iff in Hl as [Hc Ht]. now rewrite (H _ Hc), IH.
Qed.

Lemma wshape_split w : wshape w = true ->
  w = take_while is_alpha w ++ drop_while is_alpha w /\ forallb is_alpha (take_while is_alpha w) = true
  /\ forallb is_digit (drop_while is_alpha w) = true /\ w <> [].
Proof.
  unfold wshape. intros H. apply andb_true_iff in H as [Hn Hd].
  repeat split; [now rewrite tw_dw|apply tw_all|exact Hd|]. now destruct w.
Qed.

Lemma map_lower_word w : wshape w = true -> lower_word (map to_lower w).
Proof.
  intros H. destruct (wshape_split _ H) as (E & Hx & Hd & Hne).
  exists (map to_lower (take_while is_alpha w)), (drop_while is_alpha w). repeat split.
  - rewrite E at 1. rewrite map_app. f_equal. exact (map_id_on _ is_digit _ to_lower_digit Hd).
  - exact (forallb_map _ _ is_alpha _ to_lower_alpha Hx).
  - exact Hd.
  - now destruct w.
Qed.

Lemma map_upper_word w : wshape w = true -> upper_word (map to_upper w).
Proof.
  intros H. destruct (wshape_split _ H) as (E & Hx & Hd & Hne).
  exists (map to_upper (take_while is_alpha w)), (drop_while is_alpha w). repeat split.
  - rewrite E at 1. rewrite map_app. f_equal. exact (map_id_on _ is_digit _ to_upper_digit Hd).
  - exact (forallb_map _ _ is_alpha _ to_upper_alpha Hx).
  - exact Hd.
  - now destruct w.
Qed.

Lemma lower_word_fixed w : lower_word w -> map to_lower w = w.
Proof.
  intros (xs & ds & -> & Hx & Hd & _). rewrite map_app.
  now rewrite (map_id_on _ is_lower _ to_lower_lower Hx), (map_id_on _ is_digit _ to_lower_digit Hd).
Qed.
Lemma upper_word_fixed w : upper_word w -> map to_upper w = w.
Proof.
  intros (xs & ds & -> & Hx & Hd & _). rewrite map_app.
  now rewrite (map_id_on _ is_upper _ to_upper_upper Hx), (map_id_on _ is_digit _ to_upper_digit Hd).
Qed.

Lemma Forall_map_shape (f : N -> N) (Q : text -> Prop) ws :
  (forall w, wshape w = true -> Q (map f w)) ->
  Forall (fun w => wshape w = true) ws -> Forall Q (map (map f) ws).
Proof. intros H Hall. induction Hall; cbn; constructor; auto. Qed.

Lemma map_fixed (f : N -> N) (Q : text -> Prop) ws :
  (forall w, Q w -> map f w = w) -> Forall Q ws -> map (map f) ws = ws.
Proof. intros H Hall. induction Hall as [|w ws Hw _ IH]; cbn; [reflexivity|]. now rewrite (H _ Hw), IH. Qed.

(* the words of a snake-case text are the (case-mapped) words it was built from *)
Lemma list_words_snake st v :
  list_words (make_snakecase st v) = map (map (if st then to_upper else to_lower)) (list_words v).
Proof.
  unfold make_snakecase. destruct st.
  - apply (list_words_join upper_word upper_word_scan).
    apply Forall_map_shape; [exact map_upper_word|apply list_words_shape].
  - apply (list_words_join lower_word lower_word_scan).
    apply Forall_map_shape; [exact map_lower_word|apply list_words_shape].
Qed.

Theorem make_snakecase_idempotent st v : make_snakecase st (make_snakecase st v) = make_snakecase st v.
Proof.
  unfold make_snakecase at 1. rewrite list_words_snake. unfold make_snakecase. f_equal.
  destruct st.
  - apply (map_fixed _ upper_word); [exact upper_word_fixed|].
    apply Forall_map_shape; [exact map_upper_word|apply list_words_shape].
  - apply (map_fixed _ lower_word); [exact lower_word_fixed|].
    apply Forall_map_shape; [exact map_lower_word|apply list_words_shape].
Qed.

Lemma make_snakecase_skip st c t : is_alnum c = false -> make_snakecase st (c :: t) = make_snakecase st t.
Proof. intros H. unfold make_snakecase. now rewrite (list_words_skip _ _ H). Qed.

(* characters of a snake-case text *)
Definition is_idchar (c : N) : bool := is_alnum c || is_under c.

Lemma join_us_chars ws :
  Forall (fun w => forallb is_alnum w = true) ws -> forallb is_idchar (join_us ws) = true.
Proof.
  induction ws as [|w ws IH]; intros Hall; [reflexivity|].
  inversion Hall as [|? ? Hw Hws]; subst.
  assert (Hw' : forallb is_idchar w = true).
  { apply (forallb_imp is_alnum); [|exact Hw]. intros x Hx. unfold is_idchar. now rewrite Hx. }
  destruct ws as [|w2 ws']; [exact Hw'|].
  change (join_us (w :: w2 :: ws')) with (w ++ US :: join_us (w2 :: ws')).
  rewrite forallb_app, Hw'. cbn [forallb]. now rewrite (IH Hws).
Qed.

Lemma words_alnum_mapped (st : bool) v :
  Forall (fun w : text => forallb is_alnum w = true /\ w <> [])
         (map (map (if st then to_upper else to_lower)) (list_words v)).
Proof.
  pose proof (list_words_shape v) as Hall. induction Hall as [|w ws Hw _ IH]; cbn; constructor; [|exact IH].
  split.
  - apply (forallb_map _ _ is_alnum); [|now apply wshape_alnum].
    destruct st; [exact to_upper_alnum|exact to_lower_alnum].
  - destruct (wshape_split _ Hw) as (_ & _ & _ & Hne). now destruct w.
Qed.

Lemma make_snakecase_chars st v : forallb is_idchar (make_snakecase st v) = true.
Proof.
  apply join_us_chars. eapply Forall_impl; [|apply words_alnum_mapped]. now intros w [H _].
Qed.

Lemma join_us_head w ws : w <> [] -> hd_error (join_us (w :: ws)) = hd_error w.
Proof. intros H. destruct w as [|c t]; [now contradiction H|]. destruct ws; reflexivity. Qed.

Lemma make_snakecase_not_private st v : is_private (make_snakecase st v) = false.
Proof.
  unfold make_snakecase. pose proof (words_alnum_mapped st v) as Hall.
  destruct (map (map (if st then to_upper else to_lower)) (list_words v)) as [|w ws]; [reflexivity|].
  inversion Hall as [|? ? [Hw Hne] _]; subst.
  destruct w as [|c t]; [now contradiction Hne|].
  assert (E : join_us ((c :: t) :: ws) = c :: match ws with [] => t | _ => t ++ US :: join_us ws end)
    by (destruct ws; reflexivity).
  rewrite E. cbn [is_private]. cbn in Hw. apply andb_true_iff in Hw as [Hc _]. now apply alnum_not_under.
Qed.

(* rename_variable without the two dead branches: `lstrip` never fires (a snake-case text never
   starts with '_'), so dropping it is an EQUIVALENT mutant *)
Lemma rename_variable_simpl v st pr :
  rename_variable v st pr =
    if text_eqb v [US] then v else if is_dunder v then v else
    let r := if pr then US :: make_snakecase st v else make_snakecase st v in
    if is_ident r then r else v.
Proof.
  unfold rename_variable. destruct (text_eqb v [US]); [reflexivity|]. destruct (is_dunder v); [reflexivity|].
  rewrite (make_snakecase_not_private st v). destruct pr; cbn [andb negb is_private]; [reflexivity|].
  now rewrite (make_snakecase_not_private st v).
Qed.

Theorem lstrip_is_dead_code v st :
  let r := make_snakecase st v in drop_while is_under r = r.
Proof.
  cbn. pose proof (make_snakecase_not_private st v) as H.
  destruct (make_snakecase st v) as [|c t]; [reflexivity|]. cbn in *. now rewrite H.
Qed.

(* T19.3 idempotence of rename_variable on its own outputs, for EVERY text *)
Definition pref (pr : bool) (r : text) : text := if pr then US :: r else r.

Lemma rename_variable_simpl' v st pr :
  rename_variable v st pr =
    if text_eqb v [US] then v else if is_dunder v then v else
    if is_ident (pref pr (make_snakecase st v)) then pref pr (make_snakecase st v) else v.
Proof. rewrite rename_variable_simpl. unfold pref. destruct pr; reflexivity. Qed.

Theorem rename_variable_idempotent v st pr :
  rename_variable (rename_variable v st pr) st pr = rename_variable v st pr.
Proof.
  assert (Hsame : rename_variable v st pr = v ->
                  rename_variable (rename_variable v st pr) st pr = rename_variable v st pr)
    by (intros E; now rewrite !E).
  pose proof (rename_variable_simpl' v st pr) as Hs.
  destruct (text_eqb v [US]) eqn:E1; [apply Hsame; exact Hs|].
  destruct (is_dunder v) eqn:E2; [apply Hsame; exact Hs|].
  destruct (is_ident (pref pr (make_snakecase st v))) eqn:E3; [|apply Hsame; exact Hs].
  rewrite Hs. rewrite rename_variable_simpl'.
  destruct (text_eqb (pref pr (make_snakecase st v)) [US]); [reflexivity|].
  destruct (is_dunder (pref pr (make_snakecase st v))); [reflexivity|].
  assert (Es : make_snakecase st (pref pr (make_snakecase st v)) = make_snakecase st v).
  { unfold pref. destruct pr; [rewrite make_snakecase_skip by reflexivity|]; apply make_snakecase_idempotent. }
  rewrite Es, E3. reflexivity.
Qed.
