(* K10 -- public surface, safe-mode preserve set, per-rule preserve guards, cross-file name collection.

   Mirrors (repaired tree, see KNOWN_FINDINGS F07-1, F07-2, F07-4, F08-1, F08-2, F08-4):
     parsing._unpack_ast_target / iter_assignments          parsing.py:47-73
     main.format_code, the `if safe:` block                 main.py:190-211
     main._used_names_in_file(s), filename_preserve         main.py:352-359, 402-433
     the preserve tests of the deleting / renaming rules
       fixes.align_variable_names_with_convention           fixes.py:364-556   (tests at 440-460, 503-546)
       fixes.undefine_unused_variables                      fixes.py:559-603   (580-588, 590-603)
       fixes.delete_pointless_statements                    fixes.py:777-793 + core.has_side_effect 608-609, 673-674
       fixes.delete_unused_functions_and_classes            fixes.py:806-873   (825-838)
       fixes.remove_duplicate_functions                     fixes.py:1010-1061 (1023, 1033-1042)
       object_oriented.remove_unused_self_cls               object_oriented.py:11-93 (name never changes)
       object_oriented.move_staticmethod_static_scope       object_oriented.py:102-215 (106-110, 137-157)

   What is a model of the code and what is an abstraction:
   * the GUARDS (which definition a rule refuses to touch, as a function of `preserve`) are mirrored
     test by test;
   * WHICH unguarded definitions a rule actually touches (usage analysis, naming convention, hash
     equality of function bodies, side-effect analysis) and WHAT it puts in their place are an
     arbitrary [oracle]: the theorems hold for every oracle, i.e. for every usage analysis. *)
From Coq Require Import List Bool String Ascii.
Import ListNotations.
Open Scope string_scope.
Open Scope list_scope.

Definition name := string.

Definition mem (n : name) (l : list name) : bool := existsb (String.eqb n) l.
Definition pmem (p : name * name) (l : list (name * name)) : bool :=
  existsb (fun q => String.eqb (fst p) (fst q) && String.eqb (snd p) (snd q)) l.
Definition incl_b (a b : list name) : bool := forallb (fun n => mem n b) a.
Definition pincl_b (a b : list (name * name)) : bool := forallb (fun p => pmem p b) a.
Definition set_eqb (a b : list name) : bool := incl_b a b && incl_b b a.
Definition pset_eqb (a b : list (name * name)) : bool := pincl_b a b && pincl_b b a.

(* "Class.method" *)
Definition dotted (c f : name) : name := (c ++ "." ++ f)%string.

(* ---------------------------------------------------------------------------------------------- *)
(* assignment targets *)

Inductive target :=
| TName (n : name)
| TTuple (l : list target)
| TList (l : list target)
| TStarred (t : target)
| TAttr (b : name) (a : name)      (* b.a = ...   binds no variable *)
| TSub (b : name).                 (* b[...] = ... binds no variable *)

(* REFERENCE (definition, validated against CPython's symtable by the harness): the names an
   assignment to the target binds. *)
Fixpoint bound (t : target) : list name :=
  match t with
  | TName n => [n]
  | TTuple l => flat_map bound l
  | TList l => flat_map bound l
  | TStarred t' => bound t'
  | TAttr _ _ => []
  | TSub _ => []
  end.

(* parsing._unpack_ast_target as repaired (F07-1): Name, Tuple, List, Starred *)
Fixpoint unpack (t : target) : list name :=
  match t with
  | TName n => [n]
  | TTuple l => flat_map unpack l
  | TList l => flat_map unpack l
  | TStarred t' => unpack t'
  | TAttr _ _ => []
  | TSub _ => []
  end.

(* parsing._unpack_ast_target of the pinned tree (before F07-1): Name and Tuple only *)
Fixpoint unpack_pinned (t : target) : list name :=
  match t with
  | TName n => [n]
  | TTuple l => flat_map unpack_pinned l
  | _ => []
  end.

(* ---------------------------------------------------------------------------------------------- *)
(* modules *)

Inductive member :=
| MDef (f : name) (static : bool)        (* def / async def in a class body; static = @staticmethod *)
| MClass (n : name)                      (* class nested in a class body *)
| MAssign (ts : list target)             (* Assign *)
| MAnnAssign (t : target) (has_value : bool)
| MAugAssign (t : target)
| MOther.

Inductive item :=
| Def (n : name) (async : bool)
| Class (n : name) (bases : bool) (ms : list member)
| Assign (ts : list target)
| AnnAssign (t : target) (has_value : bool)
| AugAssign (t : target)
| Import (ns : list name)
| Other.

Definition module := list item.

(* the PROPERTY's surface (reference): functions/classes defined and variables bound by an assignment
   statement at top level; methods (and nested classes) defined and attributes assigned in the body of
   a top-level class.  Imports, loop and with targets (inside [Other]) are not part of it; an
   annotation without value binds nothing. *)
Definition item_binds (it : item) : list name :=
  match it with
  | Def n _ => [n]
  | Class n _ _ => [n]
  | Assign ts => flat_map bound ts
  | AnnAssign t true => bound t
  | AnnAssign t false => []
  | AugAssign t => bound t
  | Import _ => []
  | Other => []
  end.

Definition member_binds (mb : member) : list name :=
  match mb with
  | MDef f _ => [f]
  | MClass n => [n]
  | MAssign ts => flat_map bound ts
  | MAnnAssign t true => bound t
  | MAnnAssign t false => []
  | MAugAssign t => bound t
  | MOther => []
  end.

Definition top_surface (m : module) : list name := flat_map item_binds m.

Definition item_members (it : item) : list (name * name) :=
  match it with
  | Class c _ ms => map (pair c) (flat_map member_binds ms)
  | _ => []
  end.
Definition member_surface (m : module) : list (name * name) := flat_map item_members m.

(* ---------------------------------------------------------------------------------------------- *)
(* main.format_code, `if safe:` *)

(* parsing.iter_assignments on one statement *)
Definition item_assigned (it : item) : list name :=
  match it with
  | Assign ts => flat_map unpack ts
  | AnnAssign t _ => unpack t
  | AugAssign t => unpack t
  | _ => []
  end.
Definition member_assigned (mb : member) : list name :=
  match mb with
  | MAssign ts => flat_map unpack ts
  | MAnnAssign t _ => unpack t
  | MAugAssign t => unpack t
  | _ => []
  end.

Definition defs (m : module) : list name :=
  flat_map (fun it => match it with Def n _ => [n] | Class n _ _ => [n] | _ => [] end) m.

Definition class_funcs (m : module) : list name :=
  flat_map (fun it => match it with
                      | Class c _ ms => flat_map (fun mb => match mb with MDef f _ => [dotted c f] | _ => [] end) ms
                      | _ => []
                      end) m.

(* F07-2 / F07-4: bare names of methods, nested classes and class attributes *)
Definition member_bare (mb : member) : list name :=
  match mb with
  | MDef f _ => [f]
  | MClass n => [n]
  | _ => member_assigned mb
  end.
Definition class_members (m : module) : list name :=
  flat_map (fun it => match it with Class _ _ ms => flat_map member_bare ms | _ => [] end) m.

Definition assignments (m : module) : list name := flat_map item_assigned m.

Definition safe_preserve (P : list name) (m : module) : list name :=
  P ++ defs m ++ class_funcs m ++ class_members m ++ assignments m.

(* the pinned tree: no class_members, Name/Tuple targets only *)
Definition item_assigned_pinned (it : item) : list name :=
  match it with
  | Assign ts => flat_map unpack_pinned ts
  | AnnAssign t _ => unpack_pinned t
  | AugAssign t => unpack_pinned t
  | _ => []
  end.
Definition safe_preserve_pinned (P : list name) (m : module) : list name :=
  P ++ defs m ++ class_funcs m ++ flat_map item_assigned_pinned m.

(* ---------------------------------------------------------------------------------------------- *)
(* definition sites and the guards of the rules *)

Inductive site :=
| SDef (n : name) (async : bool)
| SClass (n : name) (bases : bool)
| SVar (n : name)                                         (* a name bound by a top-level assignment *)
| SMDef (c : name) (bases : bool) (f : name) (static : bool)
| SMClass (c : name) (bases : bool) (n : name)
| SMVar (c : name) (bases : bool) (n : name).

(* guard P s = true: the rule never deletes or renames the definition at site s *)
Definition guard := list name -> site -> bool.

Definition is_us (n : name) : bool := String.eqb n "_".

Fixpoint ends_with2 (s : string) : bool :=          (* s.endswith("__") *)
  match s with
  | String a (String b EmptyString) => Ascii.eqb a "_" && Ascii.eqb b "_"
  | String _ tl => ends_with2 tl
  | EmptyString => false
  end.
(* parsing.is_magic_method / the `startswith("__") and endswith("__")` test *)
Definition is_magic (n : name) : bool := prefix "__" n && ends_with2 n.

(* last component of a dotted name:  *_, property_name = name.split(".") *)
Fixpoint last_comp_aux (acc s : string) : string :=
  match s with
  | EmptyString => acc
  | String a tl => if Ascii.eqb a "." then last_comp_aux EmptyString tl
                   else last_comp_aux (acc ++ String a EmptyString)%string tl
  end.
Definition last_comp (s : string) : string := last_comp_aux EmptyString s.
Fixpoint has_dot (s : string) : bool :=
  match s with
  | EmptyString => false
  | String a tl => Ascii.eqb a "." || has_dot tl
  end.
(* object_oriented.py:106-110 (the part of attributes_to_preserve that comes from `preserve`) *)
Definition attr_suffixes (P : list name) : list name := map last_comp (filter has_dot P).

(* fixes.delete_unused_functions_and_classes: 825-838 *)
Definition g_delete_unused : guard := fun P s =>
  match s with
  | SDef n _ => mem n P
  | SClass n _ => mem n P
  | SVar _ => true
  | SMDef c b f _ => mem f P || mem (dotted c f) P || b || (mem c P && is_magic f)   (* last: F08-6 *)
  | SMClass _ _ n => mem n P
  | SMVar _ _ _ => true
  end.

(* fixes.undefine_unused_variables: a name is replaced by `_` unless preserved / already `_` / bound
   in a class body (580-588); statements that only bind `_` are then replaced by their value
   (590-603; the `class_body_blacklist` test there compares statements with names and never holds) *)
Definition g_undefine : guard := fun P s =>
  match s with
  | SVar n => mem n P && negb (is_us n)
  | SMVar _ _ n => negb (is_us n)
  | _ => true
  end.

(* fixes.delete_pointless_statements + core.has_side_effect: no `preserve` parameter at all;
   a def/class/assignment is "pointless" only when it is named `_` *)
Definition g_pointless : guard := fun _ s =>
  match s with
  | SDef n _ => negb (is_us n)
  | SClass n _ => negb (is_us n)
  | SVar n => negb (is_us n)
  | SMDef _ _ f _ => negb (is_us f)
  | SMClass _ _ n => negb (is_us n)
  | SMVar _ _ n => negb (is_us n)
  end.

(* fixes.align_variable_names_with_convention: 503-546 test the bare name; 440-460: members of a
   class with bases and magic members are never renamed *)
Definition g_align : guard := fun P s =>
  match s with
  | SDef n _ => mem n P
  | SClass n _ => mem n P
  | SVar n => mem n P
  | SMDef _ b f _ => b || is_magic f || mem f P
  | SMClass _ _ n => mem n P
  | SMVar _ b n => b || is_magic n || mem n P
  end.

(* fixes.remove_duplicate_functions: top-level FunctionDef (not async) only; 1033-1042 *)
(* ... and every ast.Name carrying a deleted function's name is renamed unless preserved
   (_fix_variable_names, fixes.py:109-113) *)
Definition g_duplicate : guard := fun P s =>
  match s with
  | SDef n async => async || mem n P
  | SVar n => mem n P
  | SMVar _ _ n => mem n P
  | _ => true
  end.

(* object_oriented.remove_unused_self_cls: decorators and first argument change, never the name *)
Definition g_self_cls : guard := fun _ _ => true.

(* object_oriented.move_staticmethod_static_scope: 137-157 (with F08-2: the bare name is tested) *)
Definition g_move_static : guard := fun P s =>
  match s with
  | SMDef c b f st =>
      b || negb st || mem f (attr_suffixes P) || mem f P || mem (dotted c f) P || is_magic f
  | _ => true
  end.
(* the pinned tree (before F08-2) *)
Definition g_move_static_pinned : guard := fun P s =>
  match s with
  | SMDef c b f st => b || negb st || mem f (attr_suffixes P) || mem (dotted c f) P || is_magic f
  | _ => true
  end.

(* fixes.delete_unreachable_code (with hunt=C07-0 repaired): the module body is not a visited scope; a
   statement of a class body that follows a blocking statement is kept when it defines a member whose
   bare name or `Class.member` key is preserved (fixes._defines_preserved_member) *)
Definition g_unreachable : guard := fun P s =>
  match s with
  | SDef _ _ => true
  | SClass _ _ => true
  | SVar _ => true
  | SMDef c _ f _ => mem f P || mem (dotted c f) P
  | SMClass c _ n => mem n P || mem (dotted c n) P
  | SMVar c _ n => mem n P || mem (dotted c n) P
  end.
(* the pinned rule: no preserve parameter, every member after a blocking statement may go *)
Definition g_unreachable_pinned : guard := fun _ s =>
  match s with
  | SMDef _ _ _ _ => false
  | SMClass _ _ _ => false
  | SMVar _ _ _ => false
  | _ => true
  end.

Inductive rule := RUndefine | RPointless | RDeleteUnused | RSelfCls | RMoveStatic | RDuplicate | RAlign | RUnreachable.
Definition rule_guard (r : rule) : guard :=
  match r with
  | RUndefine => g_undefine
  | RPointless => g_pointless
  | RDeleteUnused => g_delete_unused
  | RSelfCls => g_self_cls
  | RMoveStatic => g_move_static
  | RDuplicate => g_duplicate
  | RAlign => g_align
  | RUnreachable => g_unreachable
  end.

(* ---------------------------------------------------------------------------------------------- *)
(* a rule application: every unguarded definition may be replaced by anything the oracle chooses *)

Record oracle := {
  victim   : nat -> nat -> name -> bool;   (* statement i, member j (0 = the statement), name: touch it? *)
  svictim  : nat -> nat -> bool;           (* touch the whole (member) statement? *)
  fresh    : nat -> nat -> name -> name;   (* new name of a renamed target (`_`, snake_case, ...) *)
  repl     : nat -> list item;             (* what a deleted/renamed/moved statement becomes *)
  mrepl    : nat -> nat -> list member;    (* same for members *)
  extra    : nat -> list item;             (* statements inserted before statement i (moved statics, ...) *)
  restatic : nat -> nat -> bool -> bool    (* decorator change of a method that is kept *)
}.

Section Apply.
Variable g : guard.
Variable P : list name.
Variable o : oracle.

(* rename the unguarded names of a target; [gv n] = the name n is guarded at this place *)
Fixpoint rn_target (gv : name -> bool) (i j : nat) (t : target) : target :=
  match t with
  | TName n => if victim o i j n && negb (gv n) then TName (fresh o i j n) else TName n
  | TTuple l => TTuple (map (rn_target gv i j) l)
  | TList l => TList (map (rn_target gv i j) l)
  | TStarred t' => TStarred (rn_target gv i j t')
  | TAttr b a => TAttr b a
  | TSub b => TSub b
  end.

Definition all_unguarded (gv : name -> bool) (ns : list name) : bool := forallb (fun n => negb (gv n)) ns.

Definition apply_member (i : nat) (c : name) (b : bool) (j : nat) (mb : member) : list member :=
  let gv := fun n => g P (SMVar c b n) in
  match mb with
  | MDef f st => if victim o i j f && negb (g P (SMDef c b f st)) then mrepl o i j
                 else [MDef f (restatic o i j st)]
  | MClass n => if victim o i j n && negb (g P (SMClass c b n)) then mrepl o i j else [MClass n]
  | MAssign ts => if svictim o i j && all_unguarded gv (flat_map bound ts) then mrepl o i j
                  else [MAssign (map (rn_target gv i j) ts)]
  | MAnnAssign t hv => if svictim o i j && all_unguarded gv (bound t) then mrepl o i j
                       else [MAnnAssign (rn_target gv i j t) hv]
  | MAugAssign t => if svictim o i j && all_unguarded gv (bound t) then mrepl o i j
                    else [MAugAssign (rn_target gv i j t)]
  | MOther => if svictim o i j then mrepl o i j else [MOther]
  end.

Fixpoint apply_members (i : nat) (c : name) (b : bool) (j : nat) (ms : list member) : list member :=
  match ms with
  | [] => []
  | mb :: tl => apply_member i c b j mb ++ apply_members i c b (S j) tl
  end.

Definition apply_item (i : nat) (it : item) : list item :=
  let gv := fun n => g P (SVar n) in
  match it with
  | Def n a => if victim o i 0 n && negb (g P (SDef n a)) then repl o i else [Def n a]
  | Class c b ms => if victim o i 0 c && negb (g P (SClass c b)) then repl o i
                    else [Class c b (apply_members i c b 1 ms)]
  | Assign ts => if svictim o i 0 && all_unguarded gv (flat_map bound ts) then repl o i
                 else [Assign (map (rn_target gv i 0) ts)]
  | AnnAssign t hv => if svictim o i 0 && all_unguarded gv (bound t) then repl o i
                      else [AnnAssign (rn_target gv i 0 t) hv]
  | AugAssign t => if svictim o i 0 && all_unguarded gv (bound t) then repl o i
                   else [AugAssign (rn_target gv i 0 t)]
  | Import ns => if svictim o i 0 then repl o i else [Import ns]
  | Other => if svictim o i 0 then repl o i else [Other]
  end.

Fixpoint apply_from (i : nat) (m : module) : module :=
  match m with
  | [] => extra o i
  | it :: tl => extra o i ++ apply_item i it ++ apply_from (S i) tl
  end.
Definition apply_rule (m : module) : module := apply_from 0 m.

(* the definitions the guards protect, read off the actual sites of m *)
Definition protected_item (it : item) : list name :=
  match it with
  | Def n a => if g P (SDef n a) then [n] else []
  | Class c b _ => if g P (SClass c b) then [c] else []
  | _ => filter (fun n => g P (SVar n)) (item_binds it)
  end.
Definition protected_top (m : module) : list name := flat_map protected_item m.

Definition protected_member (c : name) (b : bool) (mb : member) : list name :=
  match mb with
  | MDef f st => if g P (SMDef c b f st) then [f] else []
  | MClass n => if g P (SMClass c b n) then [n] else []
  | _ => filter (fun n => g P (SMVar c b n)) (member_binds mb)
  end.
Definition protected_item_members (it : item) : list (name * name) :=
  match it with
  | Class c b ms => if g P (SClass c b) then map (pair c) (flat_map (protected_member c b) ms) else []
  | _ => []
  end.
Definition protected_members (m : module) : list (name * name) := flat_map protected_item_members m.
End Apply.

(* a sequence of rule applications (a pipeline prefix), each with its own oracle *)
Fixpoint run_rules (P : list name) (rs : list (rule * oracle)) (m : module) : module :=
  match rs with
  | [] => m
  | (r, o) :: tl => run_rules P tl (apply_rule (rule_guard r) P o m)
  end.

(* the name-level key that protects a definition against EVERY rule *)
Definition key_top (P : list name) (n : name) : bool := mem n P && negb (is_us n).
Definition key_member (P : list name) (c f : name) : bool :=
  mem c P && negb (is_us c) && mem f P && negb (is_us f).

(* ---------------------------------------------------------------------------------------------- *)
(* C08: names used by the preserved files *)

Inductive occ :=
| OName (n : name)                          (* an ast.Name anywhere in the file *)
| OAttr (base : option name) (a : name)     (* an ast.Attribute; base = Some b when its value is the Name b *)
| OKeyword (a : name)                       (* keyword.arg of a call / a MatchClass keyword pattern (hunt C08-3) *)
| OSubMember (n : name).                    (* a member defined in the body of a class WITH bases (hunt C08-4) *)

Record import_alias := { i_from : bool; i_name : name; i_as : option name }.
Record pyfile := { f_imports : list import_alias; f_occs : list occ }.

(* tracing.get_imported_names *)
Definition imported_names (f : pyfile) : list name :=
  map (fun a => match i_as a with Some x => x | None => i_name a end) (f_imports f).

(* obj._Class__name is the outside spelling of the private member __name: every suffix of the attribute
   that starts with "__" at index >= 2 and has at least 3 characters (hunt C08-6;
   `attr[i:] for i in range(2, len(attr) - 2) if attr.startswith("__", i)`) *)
Fixpoint dunder_suffixes (i : nat) (s : string) : list string :=
  match s with
  | EmptyString => []
  | String _ tl => (if Nat.leb 2 i && prefix "__" s && Nat.leb 3 (String.length s) then [s] else [])
                   ++ dunder_suffixes (S i) tl
  end.
Definition unmangled (a : name) : list name := if prefix "_" a then dunder_suffixes 0 a else [].

(* main._used_names_in_file (with F08-1, F08-4 and the round-4 repairs) *)
Definition from_names (f : pyfile) : list name :=
  flat_map (fun a => if i_from a then [if String.eqb (i_name a) "*" then "__all__" else i_name a] else [])
           (f_imports f).
Definition occ_names (imp : list name) (oc : occ) : list name :=
  match oc with
  | OName n => if mem n imp || mem "*" imp then [n] else []
  | OAttr b a => a :: unmangled a ++ match b with Some x => if mem x imp then [x] else [] | None => [] end
  | OKeyword a => [a]
  | OSubMember n => [n]
  end.
Definition used_names (f : pyfile) : list name :=
  from_names f ++ flat_map (occ_names (imported_names f)) (f_occs f).

(* the pinned tree: no from-import names, no starred import *)
Definition occ_names_pinned (imp : list name) (oc : occ) : list name :=
  match oc with
  | OName n => if mem n imp then [n] else []
  | OAttr b a => a :: match b with Some x => if mem x imp then [x] else [] | None => [] end
  | _ => []
  end.
Definition used_names_pinned (f : pyfile) : list name :=
  flat_map (occ_names_pinned (imported_names f)) (f_occs f).

(* main.format_files: filename_preserve[filename] (main.py:352-359); files are keyed by namespace name *)
Definition file_preserve (files : list (name * pyfile)) (self : name) : list name :=
  flat_map (fun nf => if String.eqb (fst nf) self then [] else used_names (snd nf)) files.

(* ---------------------------------------------------------------------------------------------- *)
(* correspondence case checkers *)

Record rule_case := mkRuleCase {
  rc_rule : rule; rc_P : list name; rc_in : module; rc_out : module; rc_exact : bool }.

(* refinement: what the guards protect is still defined in the implementation's output;
   with rc_exact (trigger families where every definition is eligible) also the converse:
   every definition of the input that survived under its name is a protected one *)
Definition rule_case_ok (c : rule_case) : bool :=
  let g := rule_guard (rc_rule c) in
  let pt := protected_top g (rc_P c) (rc_in c) in
  let pm := protected_members g (rc_P c) (rc_in c) in
  incl_b pt (top_surface (rc_out c)) && pincl_b pm (member_surface (rc_out c)) &&
  (negb (rc_exact c) ||
   (forallb (fun n => negb (mem n (top_surface (rc_out c))) || mem n pt) (top_surface (rc_in c)) &&
    forallb (fun p => negb (pmem p (member_surface (rc_out c))) || pmem p pm) (member_surface (rc_in c)))).

Definition preserve_case_ok (c : list name * module * list name) : bool :=
  let '(P, m, impl) := c in set_eqb (safe_preserve P m) impl.

Definition target_case_ok (c : target * list name * list name) : bool :=
  let '(t, impl_unpack, py_bound) := c in
  set_eqb (unpack t) impl_unpack && set_eqb (bound t) py_bound.

Definition surface_case_ok (c : module * list name * list (name * name)) : bool :=
  let '(m, top, mems) := c in set_eqb (top_surface m) top && pset_eqb (member_surface m) mems.

Definition used_case_ok (c : pyfile * list name) : bool :=
  let '(f, impl) := c in set_eqb (used_names f) impl.

Definition file_preserve_case_ok (c : list (name * pyfile) * name * list name) : bool :=
  let '(files, self, impl) := c in set_eqb (file_preserve files self) impl.
