(* Metatheory of the MiniPy semantics: fuel monotonicity, determinism, big-step characterisation of
   [runs]/[lruns] (so that rule proofs never mention fuel), and the congruence properties of [equiv]. *)
From Coq Require Import List Bool Arith Lia.
Import ListNotations.
Require Import Pyrefact.MiniPyModel.

(* ------------------------------------------------------------------------------------------ *)
(* environments *)
Lemma get_upd_same e x v : get (upd e x v) x = v.
Proof.
  unfold get. revert e. induction x as [|x IH]; intros [|a tl]; simpl; auto.
Qed.
Lemma get_nil x : get [] x = dflt.
Proof. unfold get. destruct x; reflexivity. Qed.
Lemma get_upd_other e x y v : y <> x -> get (upd e x v) y = get e y.
Proof.
  unfold get. revert e y. induction x as [|x IH]; intros [|a tl] [|y] H; simpl; try congruence; auto.
  - destruct y; reflexivity.
  - rewrite IH by congruence. destruct y; reflexivity.
Qed.
Lemma upd_upd_same e x v w : upd (upd e x v) x w = upd e x w.
Proof.
  revert e. induction x as [|x IH]; intros [|a tl]; simpl; auto; f_equal; apply IH.
Qed.
Lemma upd_comm e x y v w : x <> y -> upd (upd e x v) y w = upd (upd e y w) x v.
Proof.
  revert e y. induction x as [|x IH]; intros [|a tl] [|y] H; simpl; try congruence; auto;
    f_equal; apply IH; congruence.
Qed.

(* ------------------------------------------------------------------------------------------ *)
(* fuel monotonicity *)

Lemma step1_mono ex ex' lp lp' o st s r :
  (forall st p r, ex st p = Some r -> ex' st p = Some r) ->
  (forall st lk b e r, lp st lk b e = Some r -> lp' st lk b e = Some r) ->
  step1 ex lp o st s = Some r -> step1 ex' lp' o st s = Some r.
Proof.
  intros Hex Hlp. destruct s; simpl; auto.
  - destruct (eval_test o st t). apply Hex.
  - destruct (enter o st h). apply Hlp.
Qed.

Lemma mono_both : forall f,
  (forall o st p r, exec f o st p = Some r -> forall f', f <= f' -> exec f' o st p = Some r) /\
  (forall o st lk b e r, loop_ f o st lk b e = Some r ->
     forall f', f <= f' -> loop_ f' o st lk b e = Some r).
Proof.
  induction f as [|f [IHe IHl]]; split; intros; try discriminate.
  - destruct f' as [|f']; [lia|]. assert (Hle : f <= f') by lia.
    simpl in H |- *. destruct p as [|s rest]; [exact H|].
    destruct (step1 (exec f o) (loop_ f o) o st s) as [[out1 st1]|] eqn:E1; [|discriminate].
    erewrite step1_mono; [| | |exact E1]; eauto.
    destruct out1; simpl in *; eauto.
  - destruct f' as [|f']; [lia|]. assert (Hle : f <= f') by lia.
    simpl in H |- *. destruct (loop_next o st lk) as [[go st1] lk'].
    destruct go; eauto.
    destruct (exec f o st1 b) as [[out1 st2]|] eqn:E1; [|discriminate].
    erewrite IHe; eauto. destruct out1; simpl in *; eauto.
Qed.

Lemma exec_mono f f' o st p r : exec f o st p = Some r -> f <= f' -> exec f' o st p = Some r.
Proof. intros; eapply (proj1 (mono_both f)); eauto. Qed.
Lemma loop_mono f f' o st lk b e r :
  loop_ f o st lk b e = Some r -> f <= f' -> loop_ f' o st lk b e = Some r.
Proof. intros; eapply (proj2 (mono_both f)); eauto. Qed.

Lemma runs_det o st p r1 r2 : runs o st p r1 -> runs o st p r2 -> r1 = r2.
Proof.
  intros [f1 H1] [f2 H2].
  apply exec_mono with (f' := max f1 f2) in H1; [|lia].
  apply exec_mono with (f' := max f1 f2) in H2; [|lia]. congruence.
Qed.
Lemma lruns_det o st lk b e r1 r2 : lruns o st lk b e r1 -> lruns o st lk b e r2 -> r1 = r2.
Proof.
  intros [f1 H1] [f2 H2].
  apply loop_mono with (f' := max f1 f2) in H1; [|lia].
  apply loop_mono with (f' := max f1 f2) in H2; [|lia]. congruence.
Qed.

(* ------------------------------------------------------------------------------------------ *)
(* big-step characterisation *)

(* one statement *)
Definition runs1 (o : oracle) (st : state) (s : stmt) (r : res) : Prop :=
  match s with
  | SPass => r = (Normal, st)
  | SEv i rd => r = (Normal, emit (EvCall i (map (get (s_env st)) rd)) st)
  | SAssign x e => r = (Normal, set_var x (fst (eval_rexpr o st e)) (snd (eval_rexpr o st e)))
  | SReturn e => r = (Ret (fst (eval_rexpr o st e)), snd (eval_rexpr o st e))
  | SRaise => r = (Exc, st)
  | SBreak => r = (Brk, st)
  | SContinue => r = (Cnt, st)
  | SIf t b e => runs o (snd (eval_test o st t)) (if truthy (fst (eval_test o st t)) then b else e) r
  | SLoop h b e => lruns o (fst (enter o st h)) (snd (enter o st h)) b e r
  end.

(* what follows a statement / a block *)
Definition after (o : oracle) (r1 : res) (rest : list stmt) (r : res) : Prop :=
  match r1 with
  | (Normal, st') => runs o st' rest r
  | _ => r = r1
  end.

(* what follows one iteration of a loop body *)
Definition lafter (o : oracle) (r1 : res) (lk : lkind) (b e : list stmt) (r : res) : Prop :=
  match r1 with
  | (Normal, st2) | (Cnt, st2) => lruns o st2 lk b e r
  | (Brk, st2) => r = (Normal, st2)
  | _ => r = r1
  end.

Lemma runs_nil o st r : runs o st [] r <-> r = (Normal, st).
Proof.
  split.
  - intros [[|f] H]; simpl in H; congruence.
  - intros ->. exists 1. reflexivity.
Qed.

Lemma step1_runs1 f o st s r : step1 (exec f o) (loop_ f o) o st s = Some r -> runs1 o st s r.
Proof.
  destruct s; simpl; try congruence.
  - destruct (eval_rexpr o st e); simpl; congruence.
  - destruct (eval_rexpr o st e); simpl; congruence.
  - destruct (eval_test o st t); simpl. intros; eexists; eauto.
  - destruct (enter o st h); simpl. intros; eexists; eauto.
Qed.

Lemma runs1_step1 o st s r : runs1 o st s r -> exists f, step1 (exec f o) (loop_ f o) o st s = Some r.
Proof.
  destruct s; simpl; try (intros ->; exists 0; reflexivity).
  - intros ->. exists 0. destruct (eval_rexpr o st e); reflexivity.
  - intros ->. exists 0. destruct (eval_rexpr o st e); reflexivity.
  - destruct (eval_test o st t); simpl. intros [f H]; eauto.
  - destruct (enter o st h); simpl. intros [f H]; eauto.
Qed.

Lemma step1_fuel_mono f f' o st s r :
  step1 (exec f o) (loop_ f o) o st s = Some r -> f <= f' ->
  step1 (exec f' o) (loop_ f' o) o st s = Some r.
Proof.
  intros H Hle. eapply step1_mono; [| |exact H]; intros.
  - eapply exec_mono; eauto.
  - eapply loop_mono; eauto.
Qed.

Lemma runs_cons o st s rest r :
  runs o st (s :: rest) r <-> exists r1, runs1 o st s r1 /\ after o r1 rest r.
Proof.
  split.
  - intros [[|f] H]; [discriminate|]. simpl in H.
    destruct (step1 (exec f o) (loop_ f o) o st s) as [[out1 st1]|] eqn:E1; [|discriminate].
    exists (out1, st1). split; [eapply step1_runs1; eauto|].
    destruct out1; simpl in *; try congruence. eexists; eauto.
  - intros [[out1 st1] [H1 H2]]. apply runs1_step1 in H1. destruct H1 as [f1 H1].
    destruct out1; simpl in H2;
      try (subst r; exists (S f1); simpl; rewrite H1; reflexivity).
    destruct H2 as [f2 H2]. exists (S (max f1 f2)). simpl.
    erewrite step1_fuel_mono; [|exact H1|lia]. simpl. eapply exec_mono; eauto. lia.
Qed.

Lemma lruns_unfold o st lk b e r :
  lruns o st lk b e r <->
  match loop_next o st lk with
  | (true, st1, lk') => exists r1, runs o st1 b r1 /\ lafter o r1 lk' b e r
  | (false, st1, _) => runs o st1 e r
  end.
Proof.
  split.
  - intros [[|f] H]; [discriminate|]. simpl in H.
    destruct (loop_next o st lk) as [[go st1] lk']. destruct go; [|eexists; eauto].
    destruct (exec f o st1 b) as [[out1 st2]|] eqn:E1; [|discriminate].
    exists (out1, st2). split; [eexists; eauto|].
    destruct out1; simpl in *; try congruence; eexists; eauto.
  - destruct (loop_next o st lk) as [[go st1] lk'] eqn:EN. destruct go.
    + intros [[out1 st2] [[f1 H1] H2]].
      destruct out1; simpl in H2;
        try (subst r; exists (S f1); simpl; rewrite EN, H1; reflexivity).
      * destruct H2 as [f2 H2]. exists (S (max f1 f2)). simpl. rewrite EN.
        erewrite exec_mono; [|exact H1|lia]. simpl. eapply loop_mono; eauto. lia.
      * destruct H2 as [f2 H2]. exists (S (max f1 f2)). simpl. rewrite EN.
        erewrite exec_mono; [|exact H1|lia]. simpl. eapply loop_mono; eauto. lia.
    + intros [f H]. exists (S f). simpl. rewrite EN. exact H.
Qed.

(* induction over the iterations of a loop *)
Lemma lruns_ind' o b e (P : state -> lkind -> res -> Prop) :
  (forall st lk r,
      match loop_next o st lk with
      | (true, st1, lk') =>
          exists r1, runs o st1 b r1 /\
                     match r1 with
                     | (Normal, st2) | (Cnt, st2) => lruns o st2 lk' b e r /\ P st2 lk' r
                     | (Brk, st2) => r = (Normal, st2)
                     | _ => r = r1
                     end
      | (false, st1, _) => runs o st1 e r
      end -> P st lk r) ->
  forall st lk r, lruns o st lk b e r -> P st lk r.
Proof.
  intros HP st lk r [f H]. revert st lk r H.
  induction f as [|f IH]; intros; [discriminate|].
  apply HP. simpl in H. destruct (loop_next o st lk) as [[go st1] lk']. destruct go; [|eexists; eauto].
  destruct (exec f o st1 b) as [[out1 st2]|] eqn:E1; [|discriminate].
  exists (out1, st2). split; [eexists; eauto|].
  destruct out1; simpl in *; try congruence; (split; [eexists; eauto|eauto]).
Qed.

Lemma runs_single o st s r : runs o st [s] r <-> runs1 o st s r.
Proof.
  rewrite runs_cons. split.
  - intros [[out1 st1] [H1 H2]]. destruct out1; simpl in H2; try congruence.
    apply runs_nil in H2. congruence.
  - intros H. exists r. split; [exact H|]. destruct r as [[] st1]; simpl; auto. apply runs_nil; auto.
Qed.

Lemma runs_app o st p q r :
  runs o st (p ++ q) r <-> exists r1, runs o st p r1 /\ after o r1 q r.
Proof.
  revert st r. induction p as [|s p IH]; intros; simpl.
  - split.
    + intros H. exists (Normal, st). split; [apply runs_nil; auto|exact H].
    + intros [r1 [H1 H2]]. apply runs_nil in H1. subst. exact H2.
  - rewrite runs_cons. split.
    + intros [[out1 st1] [H1 H2]]. destruct out1; simpl in H2;
        try (subst r; eexists; split; [apply runs_cons; eexists; split; [exact H1|reflexivity]|reflexivity]).
      apply IH in H2. destruct H2 as [r2 [H2 H3]]. exists r2. split; [|exact H3].
      apply runs_cons. eexists; split; [exact H1|exact H2].
    + intros [r1 [H1 H2]]. apply runs_cons in H1. destruct H1 as [[out1 st1] [H1 H3]].
      exists (out1, st1). split; [exact H1|].
      destruct out1; simpl in *; try (subst r1; exact H2).
      apply IH. eexists; eauto.
Qed.

(* ------------------------------------------------------------------------------------------ *)
(* equiv is an equivalence and a congruence *)

Lemma equiv_refl p : equiv p p.
Proof. intros o st r; tauto. Qed.
Lemma equiv_sym p q : equiv p q -> equiv q p.
Proof. intros H o st r; symmetry; apply H. Qed.
Lemma equiv_trans p q s : equiv p q -> equiv q s -> equiv p s.
Proof. intros H1 H2 o st r. rewrite (H1 o st r). apply H2. Qed.

Lemma after_congr o r1 q q' r : equiv q q' -> after o r1 q r <-> after o r1 q' r.
Proof. intros H. destruct r1 as [[] st1]; simpl; try tauto. apply H. Qed.

Lemma equiv_app p p' q q' : equiv p p' -> equiv q q' -> equiv (p ++ q) (p' ++ q').
Proof.
  intros Hp Hq o st r. rewrite !runs_app. split; intros [r1 [H1 H2]]; exists r1.
  - split; [apply Hp; auto|]. eapply after_congr; [apply equiv_sym|]; eauto.
  - split; [apply Hp; auto|]. eapply after_congr; eauto.
Qed.

Lemma equiv_cons s q q' : equiv q q' -> equiv (s :: q) (s :: q').
Proof. intros H. apply (equiv_app [s] [s]); auto using equiv_refl. Qed.

Lemma equiv_if t b b' e e' : equiv b b' -> equiv e e' -> equiv [SIf t b e] [SIf t b' e'].
Proof.
  intros Hb He o st r. rewrite !runs_single. simpl.
  destruct (truthy (fst (eval_test o st t))); [apply Hb|apply He].
Qed.

Lemma lruns_congr o b b' e e' st lk r :
  equiv b b' -> equiv e e' -> lruns o st lk b e r -> lruns o st lk b' e' r.
Proof.
  intros Hb He. revert st lk r. apply lruns_ind'. intros st lk r H.
  apply lruns_unfold. destruct (loop_next o st lk) as [[go st1] lk']. destruct go.
  - destruct H as [r1 [H1 H2]]. exists r1. split; [apply Hb; auto|].
    destruct r1 as [[] st2]; simpl; tauto.
  - apply He; auto.
Qed.

Lemma equiv_loop h b b' e e' : equiv b b' -> equiv e e' -> equiv [SLoop h b e] [SLoop h b' e'].
Proof.
  intros Hb He o st r. rewrite !runs_single. simpl.
  split; apply lruns_congr; auto using equiv_sym.
Qed.

Lemma equiv_obs p q : equiv p q -> obs_equiv p q.
Proof.
  intros H o st. split; intros r Hr; exists r; (split; [apply H; auto|reflexivity]).
Qed.

(* a block is "blocked": it never completes normally *)
Definition blocks (p : list stmt) : Prop :=
  forall o st out st', runs o st p (out, st') -> out <> Normal.

(* [] and [pass] are the same block *)
Lemma equiv_pass : equiv [SPass] [].
Proof.
  intros o st r. rewrite runs_single, runs_nil. simpl. tauto.
Qed.

Lemma equiv_pass_cons p : equiv (SPass :: p) p.
Proof. apply (equiv_app [SPass] [] p p); auto using equiv_pass, equiv_refl. Qed.
