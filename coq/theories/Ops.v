(* Operator vocabularies shared by the generated tables and the models. *)
Inductive cmpop := CEq | CNotEq | CLt | CLtE | CGt | CGtE | CIs | CIsNot | CIn | CNotIn.
Inductive binop := BAdd | BSub | BMult | BDiv | BFloorDiv | BMod | BPow | BLShift | BRShift
                 | BBitOr | BBitXor | BBitAnd | BMatMult.
Inductive anyop := OC (c : cmpop) | OB (b : binop).
(* the Python-level function an operator class is mapped to in constants.COMPARISON_OPERATORS *)
Inductive opfn := F_eq | F_ne | F_lt | F_le | F_gt | F_ge | F_is_ | F_is_not | F_contains | F_not_contains
                | F_add | F_sub | F_mul | F_truediv | F_floordiv | F_mod | F_pow | F_lshift | F_rshift
                | F_or_ | F_xor | F_and_ | F_matmul.

Definition cmpop_eqb (a b : cmpop) : bool :=
  match a, b with
  | CEq, CEq | CNotEq, CNotEq | CLt, CLt | CLtE, CLtE | CGt, CGt | CGtE, CGtE
  | CIs, CIs | CIsNot, CIsNot | CIn, CIn | CNotIn, CNotIn => true
  | _, _ => false
  end.
