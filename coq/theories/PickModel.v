(* C06 (round 5) -- list model of the places where pyrefact picks ONE candidate out of a hash-ordered collection.
   The collection is modelled as the LIST of its elements in iteration order (what CPython hands to max/min/sorted);
   a different hash seed / heap layout is a permutation of that list.

   [argmax key l]  = Python's  max(l, key=key)  for a non-empty l: the FIRST element (in iteration order) whose
                     key is maximal -- `max` replaces its candidate only on a strictly greater key.
   [argmin key l]  = Python's  min(l, key=key): first element whose key is minimal.
   Reference semantics (definitions, trusted); validated against CPython by harness/c06.py (pick correspondence). *)
From Coq Require Import List ZArith Bool String.
Import ListNotations.
Open Scope Z_scope.

Section Pick.
Variable A : Type.
Variable key : A -> Z.

Fixpoint argmax_from (best : A) (l : list A) : A :=
  match l with
  | [] => best
  | x :: t => if key best <? key x then argmax_from x t else argmax_from best t
  end.

Definition argmax (l : list A) : option A :=
  match l with [] => None | x :: t => Some (argmax_from x t) end.

Fixpoint argmin_from (best : A) (l : list A) : A :=
  match l with
  | [] => best
  | x :: t => if key x <? key best then argmin_from x t else argmin_from best t
  end.

Definition argmin (l : list A) : option A :=
  match l with [] => None | x :: t => Some (argmin_from x t) end.

(* x is one of the best elements of l *)
Definition is_max (l : list A) (x : A) : Prop := List.In x l /\ forall z, List.In z l -> key z <= key x.

End Pick.

(* correspondence cases: (elements as (identity, key) pairs in iteration order, what CPython's max / min returned) *)
Definition pick_case := (list (Z * Z) * option (Z * Z) * option (Z * Z))%type.

Definition opt_pair_eqb (a b : option (Z * Z)) : bool :=
  match a, b with
  | None, None => true
  | Some (a1, a2), Some (b1, b2) => (a1 =? b1) && (a2 =? b2)
  | _, _ => false
  end.

Definition pick_case_ok (c : pick_case) : bool :=
  let '(l, mx, mn) := c in
  opt_pair_eqb (argmax (Z * Z) snd l) mx && opt_pair_eqb (argmin (Z * Z) snd l) mn.

(* the seeded change C06-d: among the spellings that collide on one conventional name, the one written most often *)
Definition mention_count (mentions : list string) (name : string) : Z :=
  Z.of_nat (count_occ string_dec mentions name).

Definition most_written (mentions : list string) (names : list string) : option string :=
  argmax string (mention_count mentions) names.
