(* K7 -- theorems about DriverModel.v (drivers of pyrefact/main.py).
   pipeline_invariant is the lemma meant for reuse (C01 C07 C08 C20): any reflexive-transitive
   relation that every stage respects is respected by format_code. *)
From Coq Require Import List Arith Bool Lia.
Import ListNotations.
Require Import Pyrefact.DriverModel Pyrefact.SchedModel Pyrefact.SchedProofs.

(* ======================================================================================== *)
(* 1. The history loop: characterisation of a history hit, cycle-cut idempotence (T09.1)     *)
(* ======================================================================================== *)
Section Loop.
Variable St : Type.
Variable eqb : St -> St -> bool.
Hypothesis eqb_spec : forall a b, eqb a b = true <-> a = b.
Variable f : St -> St.

Notation mem := (mem St eqb).
Notation loop := (hloop St eqb St (fun s => s) f).

Lemma mem_In x h : mem x h = true <-> In x h.
Proof.
  unfold DriverModel.mem. rewrite existsb_exists. split.
  - intros (y & Hy & E). apply eqb_spec in E. now subst.
  - intros H. exists x. split; auto. now apply eqb_spec.
Qed.

Fixpoint it (k : nat) (s : St) : St := match k with O => s | S k' => f (it k' s) end.

Lemma it_add a b s : it a (it b s) = it (a + b) s.
Proof. induction a; simpl; congruence. Qed.

Lemma it_shift m s : it m (f s) = f (it m s).
Proof. induction m; simpl; [reflexivity|rewrite IHm; reflexivity]. Qed.

(* orbit prefix, most recent first *)
Fixpoint orbit (k : nat) (s : St) : list St :=
  match k with O => [s] | S k' => it (S k') s :: orbit k' s end.

Lemma In_orbit k s x : In x (orbit k s) <-> exists j, j <= k /\ x = it j s.
Proof.
  induction k; simpl.
  - split.
    + intros [<-|[]]. exists 0; auto.
    + intros (j & Hj & ->). assert (j = 0) by lia. subst. auto.
  - rewrite IHk. split.
    + intros [<-|(j & Hj & ->)]; [exists (S k); auto | exists j; split; auto].
    + intros (j & Hj & ->). destruct (Nat.eq_dec j (S k)) as [->|]; [now left|].
      right. exists j. split; auto. lia.
Qed.

(* running from [it k s] with history [orbit k s]: a history hit after q more steps *)
Lemma loop_hit n k s r h :
  loop n (orbit k s) (it k s) = (r, h, true) ->
  exists q j, 1 <= q <= n /\ j < k + q /\ r = it (k + q) s /\ r = it j s /\
    h = orbit (k + q - 1) s /\
    (forall q', 1 <= q' < q -> ~ In (it (k + q') s) (orbit (k + q' - 1) s)).
Proof.
  revert k; induction n as [|n IH]; intros k H; simpl in H; [discriminate|].
  destruct (mem (f (it k s)) (orbit k s)) eqn:E.
  - injection H as <- <-. apply mem_In in E. apply In_orbit in E as (j & Hj & Ej).
    exists 1, j.
    split; [lia|]. split; [lia|]. split; [now rewrite Nat.add_1_r|]. split; [exact Ej|].
    split; [f_equal; lia|]. intros q' Hq'. lia.
  - change (f (it k s) :: orbit k s) with (orbit (S k) s) in H.
    change (f (it k s)) with (it (S k) s) in H.
    apply IH in H as (q & j & Hq & Hj & Er & Ej & Eh & Hno).
    exists (S q), j.
    split; [lia|]. split; [lia|].
    split; [rewrite Er; f_equal; lia|]. split; [exact Ej|].
    split; [rewrite Eh; f_equal; lia|].
    intros q' Hq'. destruct (Nat.eq_dec q' 1) as [->|Hne].
    + rewrite Nat.add_1_r. replace (S k - 1) with k by lia. intros HIn.
      apply mem_In in HIn. simpl in HIn. congruence.
    + replace (k + q') with (S k + (q' - 1)) by lia.
      apply Hno. lia.
Qed.

(* converse: no hit during the first q-1 steps and a hit at step q <= n *)
Lemma loop_hit_conv n k s q :
  1 <= q <= n ->
  (forall q', 1 <= q' < q -> ~ In (it (k + q') s) (orbit (k + q' - 1) s)) ->
  In (it (k + q) s) (orbit (k + q - 1) s) ->
  loop n (orbit k s) (it k s) = (it (k + q) s, orbit (k + q - 1) s, true).
Proof.
  revert k q; induction n as [|n IH]; intros k q Hq Hno Hhit; [lia|].
  simpl. destruct (Nat.eq_dec q 1) as [->|Hne].
  - replace (k + 1 - 1) with k in * by lia. rewrite Nat.add_1_r in *.
    apply mem_In in Hhit. simpl in Hhit. rewrite Hhit. reflexivity.
  - assert (E : mem (f (it k s)) (orbit k s) = false).
    { destruct (mem (f (it k s)) (orbit k s)) eqn:E; [|reflexivity].
      apply mem_In in E. exfalso. apply (Hno 1); [lia|].
      rewrite Nat.add_1_r. replace (S k - 1) with k by lia. exact E. }
    rewrite E.
    change (f (it k s) :: orbit k s) with (orbit (S k) s).
    change (f (it k s)) with (it (S k) s).
    replace (k + q) with (S k + (q - 1)) by lia.
    apply IH; [lia| |].
    + intros q' Hq'. replace (S k + q') with (k + S q') by lia.
      replace (k + S q' - 1) with (k + S q' - 1) by lia. apply Hno. lia.
    + replace (S k + (q - 1)) with (k + q) by lia. exact Hhit.
Qed.

Definition run (n : nat) (s : St) := loop n [s] s.

(* a history hit returns a periodic point of f, of period at most n *)
Theorem hit_is_periodic n s r h :
  run n s = (r, h, true) -> exists p, 1 <= p <= n /\ it p r = r.
Proof.
  intros H. unfold run in H. change [s] with (orbit 0 s) in H. change s with (it 0 s) in H at 2.
  apply loop_hit in H as (q & j & Hq & Hj & Er & Ej & _ & _). simpl in *.
  exists (q - j). split; [lia|]. rewrite Ej at 1. rewrite it_add.
  replace (q - j + j) with q by lia. congruence.
Qed.

(* T09.1 cycle-cut idempotence: if the loop stops on a history hit, running it again from its
   result stops on a history hit at the very same text -- whatever f is. *)
Theorem cycle_cut_idempotent n s r h :
  run n s = (r, h, true) -> exists h', run n r = (r, h', true).
Proof.
  intros H. unfold run in H. change [s] with (orbit 0 s) in H. change s with (it 0 s) in H at 2.
  apply loop_hit in H as (q & j & Hq & Hj & Er & Ej & _ & Hno). simpl in *.
  set (p := q - j).
  assert (Hit : forall i, it i r = it (j + i) s).
  { intros i. rewrite Ej, it_add. f_equal. lia. }
  exists (orbit (p - 1) r). unfold run.
  assert (Hr : it p r = r).
  { rewrite Hit. replace (j + p) with q by (unfold p; lia). symmetry. exact Er. }
  assert (X : loop n (orbit 0 r) (it 0 r) = (it (0 + p) r, orbit (0 + p - 1) r, true)).
  { apply loop_hit_conv.
    - unfold p; lia.
    - intros i Hi HIn. simpl in HIn. apply In_orbit in HIn as (i' & Hi' & E).
      rewrite !Hit in E.
      apply (Hno (j + i)); [unfold p in Hi; lia|].
      apply In_orbit. exists (j + i'). split; [lia|exact E].
    - simpl. rewrite Hr. apply In_orbit. exists 0. split; [lia|reflexivity]. }
  simpl in X. rewrite Hr in X. exact X.
Qed.

Corollary cycle_cut_idempotent_fst n s :
  snd (run n s) = true -> fst (fst (run n (fst (fst (run n s))))) = fst (fst (run n s)).
Proof.
  destruct (run n s) as [[r h] b] eqn:E. simpl. intros ->.
  destruct (cycle_cut_idempotent _ _ _ _ E) as [h' E']. rewrite E'. reflexivity.
Qed.

(* a fixed point of f is returned at once *)
Lemma run_fixed_point n s : f s = s -> run (S n) s = (s, [s], true).
Proof.
  intros E. unfold run.
  assert (M : mem (f s) [s] = true) by (rewrite E; apply mem_In; now left).
  cbn [hloop]. cbv zeta beta. rewrite M, E. reflexivity.
Qed.

(* the loop performs at most n applications of f and returns an iterate *)
Lemma loop_is_iterate n : forall h s, exists m, m <= n /\ fst (fst (loop n h s)) = it m s.
Proof.
  induction n as [|n IH]; intros h s; simpl.
  - exists 0. split; [lia|reflexivity].
  - destruct (mem (f s) h).
    + exists 1. split; [lia|reflexivity].
    + destruct (IH (f s :: h) (f s)) as (m & Hm & E). exists (S m). split; [lia|].
      rewrite E. apply it_shift.
Qed.

(* when the loop does not stop on a hit it has used its whole budget *)
Lemma loop_exhausted n : forall h s r h', loop n h s = (r, h', false) -> r = it n s.
Proof.
  induction n as [|n IH]; intros h s r h' H; simpl in H.
  - now injection H as <- _.
  - destruct (mem (f s) h); [discriminate|]. apply IH in H. rewrite H. apply it_shift.
Qed.

(* ---- T09.2: the history of processing.fix / chain is {source} only ---- *)
Notation fixm := (fix_model St eqb f).

Lemma fix_loop_g_spec n : forall orig cur,
  (exists m, 1 <= m <= n /\ it m cur = orig /\ (forall m', 1 <= m' < m -> it m' cur <> orig)
             /\ fix_loop_g St eqb f n orig cur = orig)
  \/ ((forall m', 1 <= m' <= n -> it m' cur <> orig) /\ fix_loop_g St eqb f n orig cur = it n cur).
Proof.
  induction n as [|n IH]; intros orig cur.
  - right. split; [intros; lia|reflexivity].
  - simpl. destruct (eqb (f cur) orig) eqn:E.
    + apply eqb_spec in E. left. exists 1. split; [lia|]. split; [exact E|].
      split; [intros; lia|exact E].
    + assert (NE : f cur <> orig) by (intros C; apply eqb_spec in C; congruence).
      assert (SH : forall m, it m (f cur) = it (S m) cur).
      { intros m. apply it_shift. }
      destruct (IH orig (f cur)) as [(m & Hm & Em & Hno & Er)|(Hno & Er)].
      * left. exists (S m). split; [lia|]. split; [rewrite <- SH; exact Em|].
        split; [|exact Er]. intros m' Hm'. destruct m' as [|m']; [lia|].
        destruct m' as [|m'']; [simpl; exact NE|]. rewrite <- SH. apply Hno. lia.
      * right. split; [|rewrite Er; apply SH].
        intros m' Hm'. destruct m' as [|m']; [lia|].
        destruct m' as [|m'']; [simpl; exact NE|]. rewrite <- SH. apply Hno. lia.
Qed.

(* fix stops early exactly at the first return to the INITIAL text; otherwise it runs all
   max_iter passes (no other repetition is ever noticed) *)
Theorem fix_history_initial_only n s :
  (exists m, 1 <= m <= n /\ it m s = s /\ (forall m', 1 <= m' < m -> it m' s <> s) /\ fixm n s = s)
  \/ ((forall m', 1 <= m' <= n -> it m' s <> s) /\ fixm n s = it n s).
Proof. apply fix_loop_g_spec. Qed.

(* fix() coincides with SchedModel.fix_wrapper (same loop, texts = list A there) *)
End Loop.

Lemma fix_model_is_fix_wrapper (A : Type) (pass : list A -> list A) (e : list A -> list A -> bool) n s :
  fix_wrapper A pass e n s = fix_model (list A) e pass n s.
Proof.
  unfold fix_wrapper, fix_model. generalize s at 1 3. revert s.
  induction n as [|n IH]; intros s o; simpl; [reflexivity|].
  destruct (e (pass s) o); [reflexivity|apply IH].
Qed.

(* fix() does not cut cycles that avoid the initial text: the result depends on the parity of
   max_iter (contrast with cycle_cut_idempotent for format_code's loop) *)
Example fix_no_cycle_cut :
  let pass := fun s => match s with 0 => 1 | 1 => 2 | _ => 1 end in
  fix_model nat Nat.eqb pass 5 0 = 1 /\ fix_model nat Nat.eqb pass 4 0 = 2
  /\ fst (fst (hloop nat Nat.eqb nat (fun s => s) pass 5 [0] 0)) = 1
  /\ fst (fst (hloop nat Nat.eqb nat (fun s => s) pass 4 [0] 0)) = 1.
Proof. vm_compute. repeat split. Qed.

(* ======================================================================================== *)
(* 2. format_code: pipeline invariant (T03.3), bounded driving (T04.1), early returns        *)
(* ======================================================================================== *)
Section DriverProofs.
Variable St : Type.
Variable eqb : St -> St -> bool.
Variable Pres : Type.
Variable skip_file is_blank valid : St -> bool.
Variable indent_level : St -> nat.
Variable surface : Pres -> St -> Pres.
Variable app : stage -> Pres -> St -> St.
Variable minws : St -> St -> St.
Variable n_multi max_file_passes : nat.

Notation run1 := (run1 St Pres app).
Notation multi_run := (multi_run St Pres app n_multi).
Notation multi_fun := (multi_fun St Pres app n_multi).
Notation tloop p := (hloop St eqb (tstate St) fst (multi_run p)).
Notation pre_gate := (pre_gate St Pres skip_file is_blank valid indent_level app).
Notation post_gate := (post_gate St eqb Pres app minws n_multi max_file_passes).
Notation fc_run := (format_code_run St eqb Pres skip_file is_blank valid indent_level surface app
                                    minws n_multi max_file_passes).
Notation fc_model := (format_code_model St eqb Pres skip_file is_blank valid indent_level surface app
                                        minws n_multi max_file_passes).
Notation fc_trace := (format_code_trace St eqb Pres skip_file is_blank valid indent_level surface app
                                        minws n_multi max_file_passes).

(* stages that run after the validity gate of main.py:185 *)
Definition post_stage (st : stage) : bool :=
  match st with StExpandtabs | StBlankLines | StDedent => false | _ => true end.

(* ---- traced and untraced multi-run agree ---- *)
Lemma multi_run_fst_gen p l : forall x,
  fst (fold_left (fun x i => run1 p (StMulti i) x) l x)
  = fold_left (fun s i => app (StMulti i) p s) l (fst x).
Proof. induction l as [|i l IH]; intros x; simpl; [reflexivity|]. rewrite IH. reflexivity. Qed.

Lemma multi_run_fst p x : fst (multi_run p x) = multi_fun p (fst x).
Proof. apply multi_run_fst_gen. Qed.

Lemma multi_run_len_gen p l : forall x,
  length (snd (fold_left (fun x i => run1 p (StMulti i) x) l x)) = length l + length (snd x).
Proof.
  induction l as [|i l IH]; intros x; simpl; [reflexivity|]. rewrite IH. simpl. lia.
Qed.

Lemma multi_run_len p x : length (snd (multi_run p x)) = n_multi + length (snd x).
Proof. unfold DriverModel.multi_run. rewrite multi_run_len_gen, seq_length. reflexivity. Qed.

(* the traced loop projects onto the plain loop over multi_fun *)
Lemma tloop_project p n : forall h x,
  let '(x', h', b) := tloop p n h x in
  hloop St eqb St (fun s => s) (multi_fun p) n h (fst x) = (fst x', h', b).
Proof.
  induction n as [|n IH]; intros h x; [reflexivity|].
  cbn [hloop]. cbv zeta beta.
  rewrite <- (multi_run_fst p x).
  destruct (mem St eqb (fst (multi_run p x)) h) eqn:E; [reflexivity|].
  apply (IH (fst (multi_run p x) :: h) (multi_run p x)).
Qed.

Lemma tloop_len p n : forall h x,
  length (snd (fst (fst (tloop p n h x)))) <= n * n_multi + length (snd x).
Proof.
  induction n as [|n IH]; intros h x; simpl; [lia|].
  destruct (mem St eqb (fst (multi_run p x)) h).
  - simpl. rewrite multi_run_len. lia.
  - specialize (IH (fst (multi_run p x) :: h) (multi_run p x)).
    rewrite multi_run_len in IH. lia.
Qed.

(* ---- T03.3 pipeline invariant ---- *)
Section Invariant.
Variable R : St -> St -> Prop.
Hypothesis R_refl : forall s, R s s.
Hypothesis R_trans : forall a b c, R a b -> R b c -> R a c.

Section PostGate.
Hypothesis H_post : forall st p s, post_stage st = true -> R s (app st p s).
Hypothesis H_minws : forall o s, R s (minws o s).

Lemma run1_R a p st x : post_stage st = true -> R a (fst x) -> R a (fst (run1 p st x)).
Proof. intros Hs H. simpl. eapply R_trans; [exact H|apply H_post; exact Hs]. Qed.

Lemma multi_run_R a p x : R a (fst x) -> R a (fst (multi_run p x)).
Proof.
  unfold DriverModel.multi_run. generalize (seq 0 n_multi). intros l. revert x.
  induction l as [|i l IH]; intros x H; simpl; [exact H|].
  apply IH. apply run1_R; [reflexivity|exact H].
Qed.

Lemma tloop_R a p n : forall h x, R a (fst x) -> R a (fst (fst (fst (tloop p n h x)))).
Proof.
  induction n as [|n IH]; intros h x H; simpl; [exact H|].
  destruct (mem St eqb (fst (multi_run p x)) h); simpl.
  - apply multi_run_R; exact H.
  - apply IH. apply multi_run_R; exact H.
Qed.

(* everything after the validity gate respects R *)
Lemma post_gate_invariant keep p original mi x a :
  R a (fst x) -> R a (fst (post_gate keep p original mi x)).
Proof.
  intros H. unfold DriverModel.post_gate.
  set (top := mi =? 0).
  set (x1 := if top then run1 p StAddImports x else x).
  assert (H1 : R a (fst x1)).
  { unfold x1. destruct top; [apply run1_R; [reflexivity|exact H]|exact H]. }
  set (x2 := run1 p (StSingleRun keep) x1).
  assert (H2 : R a (fst x2)) by (apply run1_R; [reflexivity|exact H1]).
  pose proof (tloop_R a p max_file_passes [fst x2] x2 H2) as H3.
  destruct (tloop p max_file_passes [fst x2] x2) as [[x3 hist] b]. simpl in H3.
  set (x4 := run1 p StSimplifyAssign (run1 p (StOverusedConstant top) x3)).
  assert (H4 : R a (fst x4)).
  { apply run1_R; [reflexivity|]. apply run1_R; [reflexivity|exact H3]. }
  set (x5 := if mem St eqb (fst x4) hist then x4
             else fst (fst (tloop p max_file_passes hist x4))).
  assert (H5 : R a (fst x5)).
  { unfold x5. destruct (mem St eqb (fst x4) hist); [exact H4|]. apply tloop_R; exact H4. }
  set (x6 := if top then run1 p StAlignNames x5 else x5).
  assert (H6 : R a (fst x6)).
  { unfold x6. destruct top; [apply run1_R; [reflexivity|exact H5]|exact H5]. }
  set (x7 := if top then (let y := run1 p StAddImports x6 in
                          if keep then y else run1 p StRemoveUnusedImports y) else x6).
  assert (H7 : R a (fst x7)).
  { unfold x7. destruct top; [|exact H6]. cbv zeta.
    destruct keep; [apply run1_R; [reflexivity|exact H6]|].
    apply run1_R; [reflexivity|]. apply run1_R; [reflexivity|exact H6]. }
  set (x8 := run1 p StRmspace (run1 p StLineLengths (run1 p StSortImports x7))).
  assert (H8 : R a (fst x8)).
  { repeat (apply run1_R; [reflexivity|]). exact H7. }
  set (x9 := if top then x8 else run1 p (StIndent mi) x8).
  assert (H9 : R a (fst x9)).
  { unfold x9. destruct top; [exact H8|apply run1_R; [reflexivity|exact H8]]. }
  simpl. eapply R_trans; [exact H9|apply H_minws].
Qed.
End PostGate.

(* T03.3: if EVERY stage respects R then so does format_code, for every option combination *)
Theorem pipeline_invariant :
  (forall st p s, R s (app st p s)) -> (forall o s, R s (minws o s)) ->
  forall safe keep p0 s0, R s0 (fc_model safe keep p0 s0).
Proof.
  intros H_all H_minws safe keep p0 s0.
  unfold DriverModel.format_code_model, DriverModel.format_code_run, DriverModel.pre_gate.
  destruct (skip_file s0); [apply R_refl|].
  set (x := run1 p0 StBlankLines (run1 p0 StRmspace (run1 p0 StExpandtabs (s0, [])))).
  assert (Hx : R s0 (fst x)).
  { simpl. eapply R_trans; [|apply H_all]. eapply R_trans; [|apply H_all]. apply H_all. }
  destruct (is_blank (fst x)); [exact Hx|].
  set (x' := if valid (fst x) then x else run1 p0 StDedent x).
  assert (Hx' : R s0 (fst x')).
  { unfold x'. destruct (valid (fst x)); [exact Hx|]. simpl. eapply R_trans; [exact Hx|apply H_all]. }
  destruct (negb (valid (fst x'))); [exact Hx'|].
  apply post_gate_invariant; [intros; apply H_all|exact H_minws|exact Hx'].
Qed.

End Invariant.

(* ---- C03 at the level of format_code ---- *)
Definition pre_text (p0 : Pres) (s0 : St) : St :=
  app StBlankLines p0 (app StRmspace p0 (app StExpandtabs p0 s0)).

(* partial: when the three whitespace pre-passes keep the input valid (boolean guard) and every
   stage after the gate preserves validity, format_code returns valid text for valid input *)
Theorem format_code_valid_partial :
  (forall st p s, post_stage st = true -> valid s = true -> valid (app st p s) = true) ->
  (forall o s, valid s = true -> valid (minws o s) = true) ->
  forall safe keep p0 s0,
    valid s0 = true -> valid (pre_text p0 s0) = true -> valid (fc_model safe keep p0 s0) = true.
Proof.
  intros H_post H_minws safe keep p0 s0 Hv0 Hpre.
  unfold DriverModel.format_code_model, DriverModel.format_code_run, DriverModel.pre_gate.
  destruct (skip_file s0); [exact Hv0|].
  set (x := run1 p0 StBlankLines (run1 p0 StRmspace (run1 p0 StExpandtabs (s0, [])))).
  change (fst x) with (pre_text p0 s0).
  destruct (is_blank (pre_text p0 s0)); [exact Hpre|].
  rewrite Hpre. change (fst x) with (pre_text p0 s0). rewrite Hpre. simpl negb. cbv iota.
  pose proof (post_gate_invariant (fun a b => valid a = true -> valid b = true)
                (fun a b c Hab Hbc Ha => Hbc (Hab Ha)) H_post H_minws) as PI.
  cbv beta in PI. apply PI with (a := fst x); [intros H; exact H|exact Hpre].
Qed.

(* no validity gate follows the pre-passes on the early-return path: an input that the
   pre-passes break is handed back broken.  (When the result is invalid nothing after the
   pre-passes + dedent has run.) *)
Theorem invalid_after_prepasses_returned_as_is safe keep p0 s0 :
  skip_file s0 = false -> is_blank (pre_text p0 s0) = false ->
  valid (pre_text p0 s0) = false -> valid (app StDedent p0 (pre_text p0 s0)) = false ->
  fc_model safe keep p0 s0 = app StDedent p0 (pre_text p0 s0)
  /\ fc_trace safe keep p0 s0 = [StExpandtabs; StRmspace; StBlankLines; StDedent].
Proof.
  intros Hs Hb Hv Hd.
  unfold DriverModel.format_code_trace, DriverModel.format_code_model,
         DriverModel.format_code_run, DriverModel.pre_gate.
  rewrite Hs.
  change (fst (run1 p0 StBlankLines (run1 p0 StRmspace (run1 p0 StExpandtabs (s0, [])))))
    with (pre_text p0 s0).
  rewrite Hb, Hv. simpl fst. fold (pre_text p0 s0). rewrite Hd. simpl. split; reflexivity.
Qed.

Theorem skip_file_returned_untouched safe keep p0 s0 :
  skip_file s0 = true -> fc_model safe keep p0 s0 = s0 /\ fc_trace safe keep p0 s0 = [].
Proof.
  intros Hs.
  unfold DriverModel.format_code_trace, DriverModel.format_code_model,
         DriverModel.format_code_run, DriverModel.pre_gate.
  rewrite Hs. split; reflexivity.
Qed.

(* ---- T04.1 bounded driving ---- *)
Lemma post_gate_len keep p original mi x :
  length (snd (post_gate keep p original mi x))
  <= 2 * max_file_passes * n_multi + 12 + length (snd x).
Proof.
  unfold DriverModel.post_gate.
  set (top := mi =? 0).
  set (x1 := if top then run1 p StAddImports x else x).
  assert (H1 : length (snd x1) <= 1 + length (snd x)).
  { unfold x1. destruct top; simpl; lia. }
  set (x2 := run1 p (StSingleRun keep) x1).
  assert (H2 : length (snd x2) <= 2 + length (snd x)) by (simpl; lia).
  pose proof (tloop_len p max_file_passes [fst x2] x2) as H3.
  destruct (tloop p max_file_passes [fst x2] x2) as [[x3 hist] b]. simpl in H3.
  set (x4 := run1 p StSimplifyAssign (run1 p (StOverusedConstant top) x3)).
  assert (H4 : length (snd x4) <= max_file_passes * n_multi + 4 + length (snd x)) by (simpl; lia).
  set (x5 := if mem St eqb (fst x4) hist then x4
             else fst (fst (tloop p max_file_passes hist x4))).
  assert (H5 : length (snd x5) <= 2 * max_file_passes * n_multi + 4 + length (snd x)).
  { unfold x5. destruct (mem St eqb (fst x4) hist); [lia|].
    pose proof (tloop_len p max_file_passes hist x4). lia. }
  set (x6 := if top then run1 p StAlignNames x5 else x5).
  set (x7 := if top then (let y := run1 p StAddImports x6 in
                          if keep then y else run1 p StRemoveUnusedImports y) else x6).
  set (x8 := run1 p StRmspace (run1 p StLineLengths (run1 p StSortImports x7))).
  set (x9 := if top then x8 else run1 p (StIndent mi) x8).
  assert (H9 : length (snd x9) <= 7 + length (snd x5)).
  { unfold x9, x8, x7, x6. destruct top; [destruct keep|]; simpl; lia. }
  simpl. lia.
Qed.

Theorem format_code_bounded safe keep p0 s0 :
  length (fc_trace safe keep p0 s0) <= 2 * max_file_passes * n_multi + 16.
Proof.
  unfold DriverModel.format_code_trace. rewrite rev_length.
  unfold DriverModel.format_code_run, DriverModel.pre_gate.
  destruct (skip_file s0); [simpl; lia|].
  set (x := run1 p0 StBlankLines (run1 p0 StRmspace (run1 p0 StExpandtabs (s0, [])))).
  assert (Lx : length (snd x) = 3) by reflexivity.
  destruct (is_blank (fst x)); [lia|].
  set (x' := if valid (fst x) then x else run1 p0 StDedent x).
  assert (Lx' : length (snd x') <= 4).
  { unfold x'. destruct (valid (fst x)); simpl; lia. }
  destruct (negb (valid (fst x'))); [lia|].
  pose proof (post_gate_len keep (eff_preserve St Pres surface safe p0 x')
                            (fst x) (if valid (fst x) then 0 else indent_level (fst x)) x').
  lia.
Qed.

(* ---- the multi-run phase of format_code is the plain history loop over multi_fun ---- *)
Theorem first_loop_is_history_loop p x :
  let '(x', h', b) := tloop p max_file_passes [fst x] x in
  run St eqb (multi_fun p) max_file_passes (fst x) = (fst x', h', b).
Proof. apply (tloop_project p max_file_passes [fst x] x). Qed.

End DriverProofs.

(* ---- the wrapper main.format_code around _format_code (final line break handling) ---- *)
Section Outer.
Variable St : Type.
Variable eqb : St -> St -> bool.
Variable Pres : Type.
Variable skip_file is_blank valid : St -> bool.
Variable indent_level : St -> nat.
Variable surface : Pres -> St -> Pres.
Variable app : stage -> Pres -> St -> St.
Variable minws : St -> St -> St.
Variable is_empty terminated : St -> bool.
Variable add_nl : St -> St.
Variable ends_lf : St -> bool.
Variable drop_last : St -> St.
Variable n_multi max_file_passes : nat.

Notation inner := (format_code_model St eqb Pres skip_file is_blank valid indent_level surface app
                                     minws n_multi max_file_passes).
Notation inner_run := (format_code_run St eqb Pres skip_file is_blank valid indent_level surface app
                                       minws n_multi max_file_passes).
Notation outer := (format_code_outer St eqb Pres skip_file is_blank valid indent_level surface app
                                     minws is_empty terminated add_nl ends_lf drop_last
                                     n_multi max_file_passes).
Notation outer_run := (format_code_outer_run St eqb Pres skip_file is_blank valid indent_level surface
                                             app minws is_empty terminated add_nl ends_lf drop_last
                                             n_multi max_file_passes).

(* pipeline invariant for the public entry point: additionally the two line-break operations of
   the wrapper must respect R *)
Theorem pipeline_invariant_outer (R : St -> St -> Prop) :
  (forall s, R s s) -> (forall a b c, R a b -> R b c -> R a c) ->
  (forall st p s, R s (app st p s)) -> (forall o s, R s (minws o s)) ->
  (forall s, R s (add_nl s)) -> (forall s, R s (drop_last s)) ->
  forall safe keep p0 s, R s (outer safe keep p0 s).
Proof.
  intros Rr Rt Hs Hm Ha Hd safe keep p0 s.
  pose proof (pipeline_invariant St eqb Pres skip_file is_blank valid indent_level surface app minws
                n_multi max_file_passes R Rr Rt Hs Hm) as PI.
  unfold format_code_outer, format_code_outer_run.
  destruct (needs_nl St is_empty terminated s).
  - cbv zeta. simpl fst.
    assert (H1 : R s (inner safe keep p0 (add_nl s))) by (eapply Rt; [apply Ha|apply PI]).
    unfold format_code_model in H1.
    destruct (ends_lf (fst (inner_run safe keep p0 (add_nl s)))); [|exact H1].
    eapply Rt; [exact H1|apply Hd].
  - apply PI.
Qed.

(* a terminated (or empty) source goes straight to _format_code *)
Theorem outer_terminated_is_inner safe keep p0 s :
  is_empty s = true \/ terminated s = true -> outer_run safe keep p0 s = inner_run safe keep p0 s.
Proof.
  intros H. unfold format_code_outer_run, needs_nl.
  destruct H as [H|H]; rewrite H; simpl; [reflexivity|]. rewrite andb_false_r. reflexivity.
Qed.

(* the wrapper applies no stage of its own: same bound on the number of stage applications *)
Theorem format_code_outer_bounded safe keep p0 s :
  length (snd (outer_run safe keep p0 s)) <= 2 * max_file_passes * n_multi + 16.
Proof.
  unfold format_code_outer_run.
  destruct (needs_nl St is_empty terminated s); cbv zeta; simpl snd.
  - pose proof (format_code_bounded St eqb Pres skip_file is_blank valid indent_level surface app minws
                  n_multi max_file_passes safe keep p0 (add_nl s)) as B.
    unfold format_code_trace in B. rewrite rev_length in B. exact B.
  - pose proof (format_code_bounded St eqb Pres skip_file is_blank valid indent_level surface app minws
                  n_multi max_file_passes safe keep p0 s) as B.
    unfold format_code_trace in B. rewrite rev_length in B. exact B.
Qed.

(* skip_file sources come back verbatim through the wrapper as well, given that appending "\n"
   keeps the marker and that dropping the last character undoes the appending *)
Theorem outer_skip_file_untouched safe keep p0 s :
  skip_file s = true ->
  (skip_file (add_nl s) = true /\ ends_lf (add_nl s) = true /\ drop_last (add_nl s) = s) ->
  outer safe keep p0 s = s /\ snd (outer_run safe keep p0 s) = [].
Proof.
  intros Hs (Hs' & He & Hd).
  unfold format_code_outer, format_code_outer_run.
  destruct (needs_nl St is_empty terminated s); cbv zeta.
  - unfold format_code_run, pre_gate. rewrite Hs'. simpl. rewrite He. split; [exact Hd|reflexivity].
  - unfold format_code_run, pre_gate. rewrite Hs. split; reflexivity.
Qed.

End Outer.

(* ---- lifting the cycle cut to format_code ---- *)
Section Lifted.
Variable St : Type.
Variable eqb : St -> St -> bool.
Hypothesis eqb_spec : forall a b, eqb a b = true <-> a = b.
Variable Pres : Type.
Variable indent_level : St -> nat.
Variable surface : Pres -> St -> Pres.
Variable app : stage -> Pres -> St -> St.
Variable n_multi max_file_passes : nat.

Definition is_multi (st : stage) : bool := match st with StMulti _ => true | _ => false end.

(* whatever the stages do: a text that every stage leaves alone is left alone by format_code
   (instance of pipeline_invariant with R a b := a = r -> b = r) *)
Theorem format_code_fixed_point
  (skip_file is_blank valid : St -> bool) (minws : St -> St -> St) r :
  (forall st p, app st p r = r) -> (forall o, minws o r = r) ->
  forall safe keep p0,
    format_code_model St eqb Pres skip_file is_blank valid indent_level surface app minws
                      n_multi max_file_passes safe keep p0 r = r.
Proof.
  intros Hs Hm safe keep p0.
  apply (pipeline_invariant St eqb Pres skip_file is_blank valid indent_level surface app minws
           n_multi max_file_passes (fun a b => a = r -> b = r)).
  - auto.
  - intros a b c Hab Hbc Ha. auto.
  - intros st p s ->. apply Hs.
  - intros o s ->. apply Hm.
  - reflexivity.
Qed.

(* from here on: every stage other than those of _multi_run_fixes is inert and every text is a
   valid, non-blank module without skip marker (safe = false, so the preserve set is constant) *)
Hypothesis H_inert : forall st p s, is_multi st = false -> app st p s = s.

Notation fcm := (format_code_model St eqb Pres (fun _ => false) (fun _ => false) (fun _ => true)
                                   indent_level surface app (fun _ s => s) n_multi max_file_passes).
Notation mrun p := (hloop St eqb (tstate St) fst (multi_run St Pres app n_multi p)).
Notation prun p := (run St eqb (multi_fun St Pres app n_multi p) max_file_passes).

Lemma hloop_result_in_history (f : St -> St) n : forall h s,
  In s h -> In (fst (fst (hloop St eqb St (fun s => s) f n h s)))
               (snd (fst (hloop St eqb St (fun s => s) f n h s))).
Proof.
  induction n as [|n IH]; intros h s Hs; simpl; [exact Hs|].
  destruct (mem St eqb (f s) h) eqn:E; simpl.
  - apply (mem_In St eqb eqb_spec). exact E.
  - apply IH. now left.
Qed.

(* then format_code IS the first history loop: the second loop is never entered because the text
   after loop 1 is always in the history *)
Theorem format_code_is_history_loop keep p0 s :
  fcm false keep p0 s = fst (fst (prun p0 s)).
Proof.
  unfold format_code_model, format_code_run, pre_gate. cbv beta iota.
  unfold eff_preserve. cbv iota.
  set (x0 := run1 St Pres app p0 StBlankLines (run1 St Pres app p0 StRmspace
               (run1 St Pres app p0 StExpandtabs (s, [])))).
  assert (E0 : fst x0 = s).
  { unfold x0. simpl. rewrite !H_inert by reflexivity. reflexivity. }
  simpl negb. cbv iota.
  unfold post_gate. simpl (0 =? 0). cbv iota.
  set (x1 := run1 St Pres app p0 (StSingleRun keep) (run1 St Pres app p0 StAddImports x0)).
  assert (E1 : fst x1 = s).
  { unfold x1. simpl. rewrite !H_inert by reflexivity. reflexivity. }
  pose proof (first_loop_is_history_loop St eqb Pres app n_multi max_file_passes p0 x1) as P.
  pose proof (hloop_result_in_history (multi_fun St Pres app n_multi p0) max_file_passes [s] s
                (or_introl eq_refl)) as Hin.
  destruct (mrun p0 max_file_passes [fst x1] x1) as [[x3 hist] b] eqn:EL.
  rewrite E1 in P. unfold run in P, Hin |- *. rewrite P in Hin |- *. simpl in Hin.
  set (x4 := run1 St Pres app p0 StSimplifyAssign (run1 St Pres app p0 (StOverusedConstant true) x3)).
  assert (E4 : fst x4 = fst x3).
  { unfold x4. simpl. rewrite !H_inert by reflexivity. reflexivity. }
  assert (M : mem St eqb (fst x4) hist = true).
  { rewrite E4. apply (mem_In St eqb eqb_spec). exact Hin. }
  rewrite M.
  destruct keep; simpl; rewrite ?H_inert by reflexivity; first [exact E4 | reflexivity].
Qed.

(* ... hence, when the loop stops on a history hit, format_code is idempotent on its own output,
   whatever the 76 multi-run stages do (they may even oscillate) *)
Theorem format_code_idempotent_when_inert keep p0 s :
  snd (prun p0 s) = true ->
  fcm false keep p0 (fcm false keep p0 s) = fcm false keep p0 s.
Proof.
  intros Hhit. rewrite !format_code_is_history_loop.
  apply (cycle_cut_idempotent_fst St eqb eqb_spec). exact Hhit.
Qed.
End Lifted.

(* the guard of format_code_valid_partial cannot be dropped: an instance where every stage after
   the gate preserves validity, the input is valid, and the result is not (texts: true = a text
   that parses; the tab pre-pass breaks it).  Real-code witness: finding F03-1. *)
Theorem format_code_valid_refuted :
  exists (app : stage -> unit -> bool -> bool),
    let valid := fun s : bool => s in
    (forall st p s, post_stage st = true -> valid s = true -> valid (app st p s) = true)
    /\ valid true = true
    /\ valid (format_code_model bool Bool.eqb unit (fun _ => false) (fun _ => false) valid
                (fun _ => 0) (fun p _ => p) app (fun _ s => s) 3 25 false false tt true) = false.
Proof.
  exists (fun st _ s => match st with StExpandtabs => false | _ => s end).
  split; [|split; [reflexivity|vm_compute; reflexivity]].
  intros st p s Hs Hv. destruct st; try exact Hv. discriminate.
Qed.

(* ======================================================================================== *)
(* 3. Validity guards of the rewriting machinery (T03.1) and of format_file (T03.2)          *)
(* ======================================================================================== *)
Section Guards.
Variable St : Type.
Variable eqb : St -> St -> bool.
Hypothesis eqb_spec : forall a b, eqb a b = true <-> a = b.
Variable valid : St -> bool.

Lemma guarded_pass_cases cand restore s :
  guarded_pass St valid cand restore s = s \/ valid (guarded_pass St valid cand restore s) = true.
Proof.
  unfold guarded_pass. destruct (valid (cand s)); simpl; [|now left].
  destruct (valid (restore s (cand s))) eqn:E; simpl; [now right|now left].
Qed.

Lemma guarded_pass_invalid_identity cand restore s :
  valid (cand s) = false -> guarded_pass St valid cand restore s = s.
Proof. intros H. unfold guarded_pass. rewrite H. reflexivity. Qed.

Lemma guarded_pass_valid cand restore s :
  valid s = true -> valid (guarded_pass St valid cand restore s) = true.
Proof. intros H. destruct (guarded_pass_cases cand restore s) as [->|E]; assumption. Qed.

Lemma guarded_once_valid cand s : valid s = true -> valid (guarded_once St valid cand s) = true.
Proof. intros H. unfold guarded_once. destruct (valid (cand s)) eqn:E; simpl; assumption. Qed.

Lemma fix_loop_g_preserves (P : St -> Prop) pass :
  (forall s, P s -> P (pass s)) ->
  forall n orig cur, P cur -> P (fix_loop_g St eqb pass n orig cur).
Proof.
  intros HP. induction n as [|n IH]; intros orig cur H; simpl; [exact H|].
  destruct (eqb (pass cur) orig); [apply HP; exact H|]. apply IH. apply HP. exact H.
Qed.

(* T03.1: a @processing.fix rule / chain / sub / subn maps valid text to valid text whatever the
   rule yields, whatever _do_rewrite and the string-restoration functions compute, for every
   max_iter *)
Theorem fix_rule_preserves_validity cand restore max_iter s :
  valid s = true ->
  valid (fix_model St eqb (guarded_pass St valid cand restore) max_iter s) = true.
Proof.
  intros H. unfold fix_model.
  apply (fix_loop_g_preserves (fun s => valid s = true)); [|exact H].
  intros s'. apply guarded_pass_valid.
Qed.

(* ... and either returns its input text or a valid text, even for invalid input *)
Theorem fix_rule_rollback cand restore max_iter s :
  let r := fix_model St eqb (guarded_pass St valid cand restore) max_iter s in
  r = s \/ valid r = true.
Proof.
  cbv zeta. unfold fix_model.
  apply (fix_loop_g_preserves (fun x => x = s \/ valid x = true)); [|now left].
  intros s' [->|Hv].
  - apply guarded_pass_cases.
  - right. apply guarded_pass_valid. exact Hv.
Qed.

(* T03.2: the write guard of format_file -- decision table *)
Theorem format_file_decision F c :
  let c' := F c in
  format_file_model St eqb valid F c =
    if eqb c' c then (c, false)
    else if valid c' then (c', true)
    else if valid c then (c, false)
    else (c', true).
Proof.
  cbv zeta. unfold format_file_model, write_guard.
  destruct (eqb (F c) c); simpl; [reflexivity|].
  destruct (valid (F c)); simpl; [reflexivity|]. destruct (valid c); reflexivity.
Qed.

Theorem format_file_never_breaks F c :
  valid c = true -> valid (fst (format_file_model St eqb valid F c)) = true.
Proof.
  intros H. rewrite format_file_decision. cbv zeta.
  destruct (eqb (F c) c); [exact H|]. destruct (valid (F c)) eqn:E; [exact E|].
  rewrite H. exact H.
Qed.

Theorem format_file_no_write_when_unchanged F c :
  F c = c -> format_file_model St eqb valid F c = (c, false).
Proof.
  intros E. rewrite format_file_decision. cbv zeta.
  assert (X : eqb (F c) c = true) by (apply eqb_spec; exact E). rewrite X. reflexivity.
Qed.

Theorem format_file_unwritten_unchanged F c :
  snd (format_file_model St eqb valid F c) = false -> fst (format_file_model St eqb valid F c) = c.
Proof.
  unfold format_file_model. destruct (write_guard St eqb valid c (F c)); simpl; [discriminate|reflexivity].
Qed.

Theorem format_file_written_iff F c :
  snd (format_file_model St eqb valid F c) = true <->
  F c <> c /\ (valid (F c) = true \/ valid c = false).
Proof.
  unfold format_file_model, write_guard.
  destruct (eqb (F c) c) eqn:E; simpl.
  - apply eqb_spec in E. split; [discriminate|]. intros [H _]. contradiction.
  - assert (NE : F c <> c) by (intros C; apply eqb_spec in C; congruence).
    destruct (valid (F c)); simpl; [tauto|].
    destruct (valid c); simpl; split; try discriminate; try tauto.
    intros [_ [H|H]]; discriminate.
Qed.

End Guards.

(* tie to the scheduler model of C10: _apply_rewrites there is an instance of guarded_pass *)
Lemma apply_rewrites_is_guarded_pass (A : Type) (valid : list A -> bool) restore src rws :
  apply_rewrites A valid restore src rws
  = guarded_pass (list A) valid (fun s => apply_all A s rws) restore src.
Proof. reflexivity. Qed.

Theorem sched_fix_preserves_validity
  (A : Type) (valid : list A -> bool) (restore : list A -> list A -> list A)
  (src_eqb : list A -> list A -> bool) (sched : list A -> list (range * list A)) max_iter src :
  valid src = true ->
  valid (fix_wrapper A (fun s => apply_rewrites A valid restore s (sched s)) src_eqb max_iter src) = true.
Proof.
  intros H. apply (fix_preserves A _ src_eqb (fun s => valid s = true)); [|exact H].
  intros s Hs. apply apply_preserves_valid. exact Hs.
Qed.

(* ======================================================================================== *)
(* 4. format_files: per-folder pass bookkeeping (T09.4)                                      *)
(* ======================================================================================== *)
Section FilesProofs.
Variable C Fid : Type.
Variable ff : Fid -> C -> C * bool.

Notation folder := (folder C Fid).
Notation active := (active C Fid).
Notation pass_folder := (pass_folder C Fid ff).
Notation passes := (passes C Fid ff).
Notation folder_run := (folder_run C Fid ff).
Notation format_one := (format_one C Fid ff).

Definition proj (d : folder) : list (file C Fid) * bool := (f_files d, f_changes d).

(* what is still going to happen to a folder when n passes remain *)
Definition folder_cont (n : nat) (d : folder) : list (file C Fid) * bool :=
  if f_changes d then fst (folder_run n (f_files d)) else (f_files d, false).

Lemma folder_cont_step n d :
  n < f_left d -> folder_cont n (pass_folder d) = folder_cont (S n) d.
Proof.
  intros Hl. unfold folder_cont, DriverModel.pass_folder, DriverModel.active.
  destruct (f_changes d) eqn:Ec; simpl.
  - assert (L : (0 <? f_left d) = true) by (apply Nat.ltb_lt; lia). rewrite L. simpl.
    destruct (existsb snd (map format_one (f_files d))) eqn:E; [|reflexivity].
    destruct (folder_run n (map fst (map format_one (f_files d)))) as [[fs' ch] k]. reflexivity.
  - reflexivity.
Qed.

Lemma passes_per_folder n : forall ds,
  Forall (fun d => n <= f_left d) ds ->
  map proj (fst (passes n ds)) = map (folder_cont n) ds.
Proof.
  induction n as [|n IH]; intros ds Hl; simpl.
  - apply map_ext_in. intros d _. unfold proj, folder_cont. destruct (f_changes d); reflexivity.
  - destruct (existsb active ds) eqn:Ea.
    + destruct (passes n (map pass_folder ds)) as [ds' tr] eqn:Ep. simpl.
      change ds' with (fst (ds', tr)). rewrite <- Ep. rewrite IH.
      * rewrite map_map. apply map_ext_in. intros d Hd. apply folder_cont_step.
        rewrite Forall_forall in Hl. specialize (Hl d Hd). lia.
      * rewrite Forall_forall in *. intros d' Hd'. apply in_map_iff in Hd' as (d & <- & Hd).
        specialize (Hl d Hd). unfold DriverModel.pass_folder.
        destruct (active d); simpl; lia.
    + simpl. apply map_ext_in. intros d Hd.
      assert (A : active d = false).
      { destruct (active d) eqn:A; [|reflexivity].
        assert (X : existsb active ds = true) by (apply existsb_exists; exists d; auto). congruence. }
      unfold DriverModel.active in A. rewrite Forall_forall in Hl. specialize (Hl d Hd).
      assert (L : (0 <? f_left d) = true) by (apply Nat.ltb_lt; lia).
      rewrite L, andb_true_r in A. unfold proj, folder_cont. rewrite A. reflexivity.
Qed.

(* T09.4 (a): the folders evolve independently; each one is formatted pass after pass for as long
   as the previous pass changed one of ITS files, at most max_passes times.  In particular the
   `passes_left > 0` test never decides anything. *)
Theorem format_files_per_folder max_passes folders :
  map proj (fst (format_files_model C Fid ff max_passes folders))
  = map (fun fs => fst (folder_run max_passes fs)) folders.
Proof.
  unfold format_files_model. rewrite passes_per_folder.
  - rewrite map_map. apply map_ext. intros fs. reflexivity.
  - apply Forall_forall. intros d Hd. apply in_map_iff in Hd as (fs & <- & _). simpl. lia.
Qed.

Definition pass_files (fs : list (file C Fid)) : list (file C Fid) := map fst (map format_one fs).

(* T09.4 (b): a folder gets k <= max_passes passes, every file of it exactly k applications *)
Theorem folder_run_bounded n : forall fs,
  let '(fs', ch, k) := folder_run n fs in
  k <= n /\ fs' = Nat.iter k pass_files fs /\ (ch = true -> k = n).
Proof.
  induction n as [|n IH]; intros fs; simpl.
  - split; [lia|]. split; [reflexivity|reflexivity].
  - destruct (existsb snd (map format_one fs)) eqn:E.
    + specialize (IH (map fst (map format_one fs))).
      destruct (folder_run n (map fst (map format_one fs))) as [[fs' ch] k].
      destruct IH as (Hk & Hf & Hc). split; [lia|]. split.
      * rewrite Hf. fold (pass_files fs). rewrite iter_succ_r. reflexivity.
      * intros Hch. rewrite (Hc Hch). reflexivity.
    + split; [lia|]. split; [reflexivity|discriminate].
Qed.

(* T09.4 (c): a folder that ends quiet has every file at a fixed point of format_file, provided
   format_file leaves the content alone when it reports "no change" (format_file_unwritten_unchanged) *)
Hypothesis ff_contract : forall id c, snd (ff id c) = false -> fst (ff id c) = c.

Lemma quiet_pass_fixed fs :
  existsb snd (map format_one fs) = false ->
  map fst (map format_one fs) = fs /\ Forall (fun x => ff (fst x) (snd x) = (snd x, false)) fs.
Proof.
  induction fs as [|[id c] fs IH]; simpl; intros H; [split; [reflexivity|constructor]|].
  apply orb_false_iff in H as [H1 H2]. destruct (IH H2) as [E F].
  pose proof (ff_contract id c H1) as Ec.
  split.
  - rewrite E. unfold DriverModel.format_one. simpl. rewrite Ec. reflexivity.
  - constructor; [|exact F]. simpl. destruct (ff id c) as [c' b]. simpl in *. subst. reflexivity.
Qed.

Theorem folder_run_quiet_fixed n : forall fs fs' k,
  folder_run n fs = (fs', false, k) ->
  Forall (fun x => ff (fst x) (snd x) = (snd x, false)) fs'.
Proof.
  induction n as [|n IH]; intros fs fs' k H; simpl in H; [discriminate|].
  destruct (existsb snd (map format_one fs)) eqn:E.
  - destruct (folder_run n (map fst (map format_one fs))) as [[fs2 ch] k2] eqn:E2.
    injection H as <- -> <-. eapply IH. exact E2.
  - injection H as <- _. destruct (quiet_pass_fixed fs E) as [Ef F]. rewrite Ef. exact F.
Qed.

(* T09.4 (d), after the repair feb2676: the return value is exactly "a pass ran and the first pass reported a
   change for some file" -- it no longer forgets the changes of earlier passes *)
Lemma existsb_active_no_changes (ds : list folder) :
  existsb (@f_changes C Fid) ds = false -> existsb active ds = false.
Proof.
  induction ds as [|d ds IH]; simpl; intros H; [reflexivity|].
  apply orb_false_iff in H as [H1 H2]. unfold DriverModel.active at 1. rewrite H1, (IH H2). reflexivity.
Qed.

Lemma passes_any_inactive n (ds : list folder) :
  existsb active ds = false -> passes_any C Fid ff n ds = false.
Proof. intros H. destruct n; simpl; [reflexivity|]. rewrite H. reflexivity. Qed.

Lemma first_pass_flags n (folders : list (list (file C Fid))) :
  existsb (@f_changes C Fid) (map pass_folder (map (init_folder C Fid (S n)) folders))
  = existsb (fun fs => existsb snd (map format_one fs)) folders.
Proof.
  induction folders as [|fs folders IH]; simpl; [reflexivity|].
  rewrite IH. reflexivity.
Qed.

Theorem format_files_result_char max_passes folders :
  format_files_result C Fid ff max_passes folders
  = (0 <? max_passes) && existsb (fun fs => existsb snd (map format_one fs)) folders.
Proof.
  unfold format_files_result. destruct max_passes as [|n]; [reflexivity|].
  cbn [passes_any Nat.ltb Nat.leb andb].
  rewrite first_pass_flags.
  destruct (existsb active (map (init_folder C Fid (S n)) folders)) eqn:A.
  - destruct (existsb (fun fs0 => existsb snd (map format_one fs0)) folders) eqn:E; [reflexivity|].
    simpl. apply passes_any_inactive. apply existsb_active_no_changes.
    rewrite first_pass_flags. exact E.
  - destruct folders as [|fs folders]; [reflexivity|]. simpl in A. discriminate.
Qed.

(* ... so False (when a pass was allowed at all) means that nothing was rewritten and every file is at a fixed
   point of format_file *)
Theorem format_files_false_all_fixed max_passes folders :
  0 < max_passes ->
  format_files_result C Fid ff max_passes folders = false ->
  map (@f_files C Fid) (fst (format_files_model C Fid ff max_passes folders)) = folders /\
  Forall (fun fs => Forall (fun x => ff (fst x) (snd x) = (snd x, false)) fs) folders.
Proof.
  intros Hp H. rewrite format_files_result_char in H.
  assert (L : (0 <? max_passes) = true) by (apply Nat.ltb_lt; exact Hp).
  rewrite L in H. simpl in H.
  assert (Q : forall fs, In fs folders -> existsb snd (map format_one fs) = false).
  { intros fs Hin. destruct (existsb snd (map format_one fs)) eqn:E; [|reflexivity].
    assert (X : existsb (fun fs0 => existsb snd (map format_one fs0)) folders = true)
      by (apply existsb_exists; exists fs; auto). congruence. }
  split.
  - pose proof (format_files_per_folder max_passes folders) as P.
    assert (M : map (@f_files C Fid) (fst (format_files_model C Fid ff max_passes folders))
                = map fst (map proj (fst (format_files_model C Fid ff max_passes folders)))).
    { rewrite map_map. reflexivity. }
    rewrite M, P, map_map. clear M P.
    rewrite <- (map_id folders) at 2. apply map_ext_in. intros fs Hin.
    destruct max_passes as [|n]; [lia|]. simpl. rewrite (Q fs Hin). simpl.
    apply (proj1 (quiet_pass_fixed fs (Q fs Hin))).
  - apply Forall_forall. intros fs Hin. apply (proj2 (quiet_pass_fixed fs (Q fs Hin))).
Qed.

End FilesProofs.

(* the return value before feb2676 forgot earlier passes: a run that rewrote a file in pass 1 and converged in
   pass 2 answered False; the repaired value answers True on the same run *)
Definition ff_once (_ : nat) (c : nat) : nat * bool := if c =? 0 then (1, true) else (c, false).
Theorem old_result_refuted :
  exists (max_passes : nat) (folders : list (list (file nat nat))),
    format_files_last_flags nat nat ff_once max_passes folders = false /\
    map (@f_files nat nat) (fst (format_files_model nat nat ff_once max_passes folders)) <> folders /\
    format_files_result nat nat ff_once max_passes folders = true.
Proof.
  exists 2, [[(0, 0)]]. split; [vm_compute; reflexivity|]. split; [|vm_compute; reflexivity].
  vm_compute. discriminate.
Qed.

(* ======================================================================================== *)
(* 5. The orientation heuristic is antisymmetric (T09.7)                                      *)
(* ======================================================================================== *)
Require Import ZifyBool.

(* if the heuristic prefers the else-branch as body, it does not prefer the original body back once
   the branches are swapped -- so swap_if_else is not re-applied to its own output -- for all
   well-formed branch summaries without dead code, except when both branches are only `pass` *)
Theorem orelse_preferred_antisym b o :
  branch_wf b = true -> branch_wf o = true -> no_dead_code b = true -> no_dead_code o = true ->
  br_all_pass b && br_all_pass o = false ->
  orelse_preferred b o = true -> orelse_preferred o b = false.
Proof.
  unfold branch_wf, no_dead_code, orelse_preferred.
  destruct b as [bp bb bn bl bf], o as [op ob on ol of_];
    cbn [br_all_pass br_blocking br_branches br_len br_first_exit].
  destruct bp, op, bb, ob, bf, of_; cbn [negb andb orb]; intros; try discriminate; try reflexivity;
    repeat match goal with
           | H : context[if ?c then _ else _] |- _ => destruct c eqn:?
           | |- context[if ?c then _ else _] => destruct c eqn:?
           end; try discriminate; try reflexivity; lia.
Qed.

(* the no-dead-code guard is needed: a branch that starts with `return` and still contains an `if`
   after it is preferred both ways *)
Theorem orelse_preferred_antisym_refuted :
  exists b o, branch_wf b = true /\ branch_wf o = true /\ br_all_pass b && br_all_pass o = false
              /\ orelse_preferred b o = true /\ orelse_preferred o b = true.
Proof.
  exists (mkBranch false true 2 2 true), (mkBranch false true 1 4 true). vm_compute. repeat split.
Qed.

Example orelse_preferred_example :
  (* body: 8 plain statements ending in return; else: [if y > 3: return y; return x] *)
  let b := mkBranch false true 1 8 false in
  let o := mkBranch false true 2 2 false in
  branch_wf b = true /\ no_dead_code o = true /\ orelse_preferred b o = false /\ orelse_preferred o b = true.
Proof. vm_compute. repeat split. Qed.

(* ---- round 5: the bound analysis of simplify_boolean_expressions only compares what is comparable ---- *)
Lemma admitted_orderable k1 k2 :
  bound_admitted k1 = true -> bound_admitted k2 = true -> orderable k1 k2 = true.
Proof. destruct k1, k2; simpl; intros H1 H2; try reflexivity; discriminate. Qed.

(* whatever constants an and/or compares one operand with: the pairwise comparisons among the
   COLLECTED bounds are all defined (no TypeError can come out of them) *)
Theorem collected_bounds_comparisons_total (ks : list bkind) :
  comparisons_total (collected_bounds ks) = true.
Proof.
  unfold comparisons_total, collected_bounds.
  apply forallb_forall. intros a Ha. apply forallb_forall. intros b Hb.
  apply filter_In in Ha. apply filter_In in Hb.
  apply admitted_orderable; [apply Ha|apply Hb].
Qed.

(* the guard is necessary, not only sufficient: admitting any further kind next to int breaks totality *)
Theorem wider_guard_not_total (k : bkind) :
  bound_admitted k = false -> comparisons_total [BkInt; k] = false.
Proof. destruct k; simpl; intros H; try reflexivity; discriminate. Qed.
