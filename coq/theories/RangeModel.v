(* K6 -- model of symbolic_math.simplify_constrained_range (pyrefact/symbolic_math.py:660-826) AFTER
   the repair commit "fix: simplify_constrained_range folded filters ..." : constant filters
   x > c, x < c, x >= c, x <= c, x == c (either operand order, under `and` and several `if`s) of a
   comprehension over range(...) are folded into the range arguments.
   The pre-repair clauses are kept as [old_*] (end of file) so that the defects the commit repaired
   stay documented by checked witnesses (RangeProofs.old_fold_refuted). *)
From Coq Require Import List ZArith Bool.
Import ListNotations.
Open Scope Z_scope.

(* ---------------- syntax ---------------- *)
(* a range() argument: an int literal (negative literals included: int_literal, :668-677) or
   anything else ([ASym id] = the unparsed expression number id) *)
Inductive arg := AInt (z : Z) | ASym (id : nat).

Inductive rop := RGt | RLt | RGe | RLe | REq | RNe.

(* a filter after flattening `and`s and several `if`s in source order (:711-719).
   [RCmp op c flipped] is the text "x op c" (flipped = false) or "c op x" (flipped = true) with an
   int literal c; [ROther id] is any other condition; [RTrue] is the constant True. *)
Inductive rcond := RCmp (op : rop) (c : Z) (flipped : bool) | ROther (id : nat) | RTrue.

(* ---------------- reference semantics (definitions; validated against CPython) ---------------- *)
(* list(range(s, e, st)); fuel |e - s| is enough because |st| >= 1.  range(.., 0) raises in Python:
   [] here, the rule never fires on it. *)
Fixpoint zrange_up (n : nat) (s e st : Z) : list Z :=
  match n with
  | O => []
  | S n' => if s <? e then s :: zrange_up n' (s + st) e st else []
  end.
Fixpoint zrange_down (n : nat) (s e st : Z) : list Z :=
  match n with
  | O => []
  | S n' => if e <? s then s :: zrange_down n' (s + st) e st else []
  end.
Definition zrange (s e st : Z) : list Z :=
  if 0 <? st then zrange_up (Z.to_nat (e - s)) s e st
  else if st <? 0 then zrange_down (Z.to_nat (s - e)) s e st
  else [].

Definition rop_sem (o : rop) (a b : Z) : bool :=
  match o with
  | RGt => b <? a | RLt => a <? b | RGe => b <=? a | RLe => a <=? b | REq => a =? b | RNe => negb (a =? b)
  end.

(* truth of a filter for the element x; sigma interprets the opaque conditions (assumed pure) *)
Definition cond_holds (sigma : nat -> Z -> bool) (x : Z) (c : rcond) : bool :=
  match c with
  | RCmp op k fl => if fl then rop_sem op k x else rop_sem op x k
  | ROther i => sigma i x
  | RTrue => true
  end.

Definition arg_val (rho : nat -> Z) (a : arg) : Z := match a with AInt z => z | ASym i => rho i end.

(* range(args...) for 1, 2 or 3 integer arguments (anything else raises: [] here, the rule skips it) *)
Definition range_of (vs : list Z) : list Z :=
  match vs with
  | [e] => zrange 0 e 1
  | [s; e] => zrange s e 1
  | [s; e; st] => zrange s e st
  | _ => []
  end.

(* list(x for x in range(args...) if c1 if c2 ...)  -- `and` and several `if`s mean the same for pure
   conditions *)
Definition comp_sem (rho : nat -> Z) (sigma : nat -> Z -> bool) (args : list arg) (cs : list rcond) : list Z :=
  filter (fun x => forallb (cond_holds sigma x) cs) (range_of (map (arg_val rho) args)).

(* ---------------- the rule ---------------- *)
Inductive rkind := KGt | KLt | KGe | KLe | KEq.

(* gt_template .. eq_template (:721-756): which clause a comparison belongs to *)
Definition kind_of (op : rop) (flipped : bool) : option rkind :=
  match op, flipped with
  | RGt, false | RLt, true => Some KGt
  | RLt, false | RGt, true => Some KLt
  | RGe, false | RLe, true => Some KGe
  | RLe, false | RGe, true => Some KLe
  | REq, _ => Some KEq
  | RNe, _ => None
  end.

(* the templates ask for an ast.Constant comparator: a negative literal is a UnaryOp and is not
   recognised; the `type(value) is not int` guard is in the term language (c : Z) *)
Definition recognised (c : Z) : bool := 0 <=? c.

Inductive cres := CKeep | CFold (start stop : option Z) | CInfeasible.

(* one clause (:768-806); a bound is used only when it is a known int *)
Definition clause (k : rkind) (c : Z) (start stop : option Z) (step : Z) : cres :=
  match k with
  | KGt => match start with
           | Some s => if s <? c then CFold (Some (c + 1 + (s - c - 1) mod step)) stop else CKeep
           | None => CKeep
           end
  | KLt => match stop with
           | Some e => if c <=? e then CFold start (Some c) else CKeep
           | None => CKeep
           end
  | KGe => match start with
           | Some s => if s <=? c then CFold (Some (c + (s - c) mod step)) stop else CKeep
           | None => CKeep
           end
  | KLe => match stop with
           | Some e => if c <? e then CFold start (Some (c + 1)) else CKeep
           | None => CKeep
           end
  | KEq =>
      if match start with Some s => (c <? s) || negb ((c - s) mod step =? 0) | None => false end
      then CInfeasible
      else if match stop with Some e => e <=? c | None => false end then CInfeasible
      else match start, stop with
           | Some _, Some _ => CFold (Some c) (Some (c + 1))
           | _, _ => CKeep
           end
  end.

Definition cond_step (cd : rcond) (start stop : option Z) (step : Z) : cres :=
  match cd with
  | RCmp op c fl =>
      match kind_of op fl with
      | Some k => if recognised c then clause k c start stop step else CKeep
      | None => CKeep
      end
  | _ => CKeep
  end.

(* the loop over the conditions in source order: None = infeasible (`break`), else the final bounds
   and, per condition, whether it was made redundant *)
Fixpoint process (step : Z) (start stop : option Z) (cs : list rcond)
  : option (option Z * option Z * list bool) :=
  match cs with
  | [] => Some (start, stop, [])
  | cd :: tl =>
      match cond_step cd start stop step with
      | CInfeasible => None
      | CKeep => match process step start stop tl with
                 | Some (s, e, red) => Some (s, e, false :: red)
                 | None => None
                 end
      | CFold s1 e1 => match process step s1 e1 tl with
                       | Some (s, e, red) => Some (s, e, true :: red)
                       | None => None
                       end
      end
  end.

Definition lit (a : arg) : option Z := match a with AInt z => Some z | ASym _ => None end.

(* :692-699 *)
Definition normalise (args : list arg) : option (arg * arg * arg) :=
  match args with
  | [e] => Some (AInt 0, e, AInt 1)
  | [s; e] => Some (s, e, AInt 1)
  | [s; e; st] => Some (s, e, st)
  | _ => None
  end.

Inductive verdict :=
| VNone                                        (* nothing yielded *)
| VEmpty                                       (* the comprehension is replaced by one over () *)
| VFold (args : list arg) (red : list bool).   (* new range arguments; redundant filters -> True *)

Definition new_arg (o : option Z) (orig : arg) : arg := match o with Some z => AInt z | None => orig end.

(* :815-826 *)
Definition out_args (a0 a1 : arg) (s e : option Z) (step : Z) : list arg :=
  if step =? 1 then
    match s with
    | Some 0 => [new_arg e a1]
    | _ => [new_arg s a0; new_arg e a1]
    end
  else [new_arg s a0; new_arg e a1; AInt step].

Definition known_empty (s e : option Z) : bool :=
  match s, e with Some a, Some b => b <=? a | _, _ => false end.

Definition fold_range (args : list arg) (cs : list rcond) : verdict :=
  match cs with
  | [] => VNone
  | _ =>
      match normalise args with
      | None => VNone
      | Some (a0, a1, a2) =>
          match lit a2 with
          | None => VNone
          | Some step =>
              if step <=? 0 then VNone
              else match process step (lit a0) (lit a1) cs with
                   | None => VEmpty
                   | Some (s, e, red) =>
                       if known_empty s e then VEmpty
                       else if existsb (fun b => b) red then VFold (out_args a0 a1 s e step) red
                       else VNone
                   end
          end
      end
  end.

(* redundant filters become the constant True *)
Fixpoint mask_true (red : list bool) (cs : list rcond) : list rcond :=
  match red, cs with
  | r :: rt, c :: ct => (if r then RTrue else c) :: mask_true rt ct
  | _, _ => cs
  end.

(* ---------------- the pre-repair clauses (documentation of the defects; see old_fold_refuted) ----
   An unknown bound (None) passed every `start is None or ..` test and was then overwritten; `x <= c`
   compared with `<=`; a moved start ignored the step; with start == 0 and step <> 1 the final `else`
   branch emitted range(stop).  Conditions: the old code iterated a set (no defined order); the model
   processes them in list order, the witnesses have a single condition. *)
Definition old_clause (k : rkind) (c : Z) (start stop : option Z) : cres :=
  match k with
  | KGt => if match start with Some s => s <? c | None => true end then CFold (Some (c + 1)) stop else CKeep
  | KLt => if match stop with Some e => c <=? e | None => true end then CFold start (Some c) else CKeep
  | KGe => if match start with Some s => s <=? c | None => true end then CFold (Some c) stop else CKeep
  | KLe => if match stop with Some e => c <=? e | None => true end then CFold start (Some (c + 1)) else CKeep
  | KEq => CKeep   (* not needed by the witnesses *)
  end.

Definition old_cond_step (cd : rcond) (start stop : option Z) : cres :=
  match cd with
  | RCmp op c fl =>
      match kind_of op fl with
      | Some k => if recognised c then old_clause k c start stop else CKeep
      | None => CKeep
      end
  | _ => CKeep
  end.

Fixpoint old_process (start stop : option Z) (cs : list rcond) : option (option Z * option Z * list bool) :=
  match cs with
  | [] => Some (start, stop, [])
  | cd :: tl =>
      match old_cond_step cd start stop with
      | CInfeasible => None
      | CKeep => match old_process start stop tl with
                 | Some (s, e, red) => Some (s, e, false :: red)
                 | None => None
                 end
      | CFold s1 e1 => match old_process s1 e1 tl with
                       | Some (s, e, red) => Some (s, e, true :: red)
                       | None => None
                       end
      end
  end.

(* old :807-840 for known final bounds: start == 0 -> omitted; step == 1 -> omitted; 3 arguments only
   when both are present *)
Definition old_out_args (s e step : Z) : list arg :=
  if s =? 0 then [AInt e]
  else if step =? 1 then [AInt s; AInt e]
  else [AInt s; AInt e; AInt step].

Definition old_fold_range (args : list arg) (cs : list rcond) : verdict :=
  match normalise args with
  | Some (a0, a1, AInt step) =>
      match old_process (lit a0) (lit a1) cs with
      | Some (Some s, Some e, red) =>
          if e <=? s then VEmpty                     (* also reached with a negative step: dead guard *)
          else if existsb (fun b => b) red then VFold (old_out_args s e step) red
          else VNone
      | _ => VNone
      end
  | _ => VNone
  end.

(* ---------------- correspondence checkers (generated case files) ---------------- *)
Definition arg_eqb (a b : arg) : bool :=
  match a, b with
  | AInt x, AInt y => x =? y
  | ASym i, ASym j => Nat.eqb i j
  | _, _ => false
  end.

Fixpoint list_eqb {X} (eqb : X -> X -> bool) (a b : list X) : bool :=
  match a, b with
  | [], [] => true
  | x :: ta, y :: tb => eqb x y && list_eqb eqb ta tb
  | _, _ => false
  end.

Definition verdict_eqb (a b : verdict) : bool :=
  match a, b with
  | VNone, VNone | VEmpty, VEmpty => true
  | VFold a1 r1, VFold a2 r2 => list_eqb arg_eqb a1 a2 && list_eqb Bool.eqb r1 r2
  | _, _ => false
  end.

(* (range arguments, filters, what the real rule yielded) *)
Definition range_case_ok (c : list arg * list rcond * verdict) : bool :=
  let '(args, cs, v) := c in verdict_eqb (fold_range args cs) v.

(* (s, e, st, list(range(s, e, st)) from CPython) *)
Definition zrange_case_ok (c : Z * Z * Z * list Z) : bool :=
  let '(s, e, st, l) := c in list_eqb Z.eqb (zrange s e st) l.

(* (arguments, filters without opaque conditions, value of every symbolic argument,
   list(<comprehension>) from CPython) *)
Definition sem_case_ok (c : list arg * list rcond * Z * list Z) : bool :=
  let '(args, cs, n, l) := c in
  list_eqb Z.eqb (comp_sem (fun _ => n) (fun _ _ => true) args cs) l.
