(* K12c -- the dedent / re-indent frame fixes.fix_line_lengths puts around the formatter (fixes.py:345-358):
     indent = formatting.indentation_level(current_code)       minimum indent over the non-blank lines
     if indent > 0: current_code = textwrap.dedent(current_code)    removes the margin common to those lines,
                                                                    whitespace-only lines become empty
     new_code = <black> ...                                     NOT modelled (the frame is what is modelled)
     if indent > 0: new_code = textwrap.indent(new_code, " " * indent)   prefixes every non-blank line
   A code range is a list of lines (split at NL, terminators dropped).  Domain: indentation made of spaces
   (format_code has expanded the tabs before this stage); the harness only sends such ranges.
   Mirrors the code as it is.  No proofs in this file. *)
From Coq Require Import List NArith Arith Bool.
Import ListNotations.
Require Import Pyrefact.LayoutModel.

Definition cline := list N.

Fixpoint lead (l : cline) : nat :=
  match l with
  | c :: tl => if N.eqb c SP then S (lead tl) else 0
  | [] => 0
  end.
(* line.strip() is empty *)
Definition blankl (l : cline) : bool := forallb is_space l.

(* formatting.indentation_level: min over the non-blank lines, default 0 *)
Fixpoint level_opt (ls : list cline) : option nat :=
  match ls with
  | [] => None
  | l :: tl => if blankl l then level_opt tl
               else match level_opt tl with None => Some (lead l) | Some m => Some (Nat.min (lead l) m) end
  end.
Definition level (ls : list cline) : nat := match level_opt ls with Some m => m | None => 0 end.

(* textwrap.dedent: the common margin of the non-blank lines is their minimum indent *)
Definition dedent (ls : list cline) : list cline :=
  let m := level ls in map (fun l => if blankl l then [] else skipn m l) ls.
(* textwrap.indent(text, " " * n) *)
Definition indent_by (n : nat) (ls : list cline) : list cline :=
  map (fun l => if blankl l then l else repeat SP n ++ l) ls.

(* the frame with the formatter doing nothing, for an indent n however it was obtained *)
Definition frame (n : nat) (ls : list cline) : list cline :=
  if 0 <? n then indent_by n (dedent ls) else ls.
(* as in the code: n = indentation_level(current_code) *)
Definition fix_frame (ls : list cline) : list cline := frame (level ls) ls.

(* whitespace-only lines lose their blanks *)
Definition normal (ls : list cline) : list cline := map (fun l => if blankl l then [] else l) ls.
