(* K6 -- the BoolOp branch of simplify_boolean_expressions after the value-context repair
   (BoundModel.simplify_ctx): where the VALUE of the expression is used it is preserved as a value
   (bool or integer, Python's and/or return an operand), elsewhere the truth value is preserved. *)
From Coq Require Import List ZArith Bool Lia.
Import ListNotations.
Require Import Pyrefact.Ops PyrefactGen.Tables Pyrefact.BoundModel Pyrefact.BoolRwModel Pyrefact.BoundProofs.
Open Scope Z_scope.

Definition tsig (tau : nat -> val) : nat -> bool := fun i => truthy (tau i).

Lemma opval_OBool_one : forall rho tau a v, opval rho tau (OBool a [v]) = opval rho tau v.
Proof. reflexivity. Qed.

Lemma opval_OBool_cons2 : forall rho tau a v w tl,
  opval rho tau (OBool a (v :: w :: tl)) =
  if Bool.eqb (truthy (opval rho tau v)) a then opval rho tau (OBool a (w :: tl)) else opval rho tau v.
Proof. reflexivity. Qed.

Lemma bool_valued_OBool_cons : forall a v tl,
  bool_valued (OBool a (v :: tl)) = bool_valued v && bool_valued (OBool a tl).
Proof. reflexivity. Qed.

(* the truth value of the value is the truth-value semantics of BoundModel.eval *)
Lemma truthy_oval : forall rho tau o, truthy (opval rho tau o) = eval rho (tsig tau) o.
Proof.
  intros rho tau o. induction o as [k op c fl | i | x | o IH | a vs IH | t0 ls] using operand_ind';
    [| | | | |reflexivity].
  - reflexivity.
  - reflexivity.
  - reflexivity.
  - cbn [opval eval truthy]. rewrite IH. reflexivity.
  - induction vs as [|v tl IHl].
    + reflexivity.
    + pose proof (Forall_inv IH) as Hv. pose proof (Forall_inv_tail IH) as Htl. cbn beta in Hv.
      specialize (IHl Htl). destruct tl as [|w tl'].
      * rewrite opval_OBool_one, eval_OBool_cons, eval_OBool_nil, Hv.
        destruct a, (eval rho (tsig tau) v); reflexivity.
      * rewrite opval_OBool_cons2, eval_OBool_cons.
        destruct (Bool.eqb (truthy (opval rho tau v)) a) eqn:E.
        -- rewrite IHl. apply eqb_prop in E. rewrite <- Hv, E. destruct a; reflexivity.
        -- rewrite Hv in *. destruct a, (eval rho (tsig tau) v); cbn in E; try discriminate E; reflexivity.
Qed.

Lemma bool_valued_VB : forall rho tau o, bool_valued o = true -> exists b, opval rho tau o = VB b.
Proof.
  intros rho tau o. induction o as [k op c fl | i | x | o IH | a vs IH | t0 ls] using operand_ind'; intros H;
    [| | | | |eexists; reflexivity].
  - eexists. reflexivity.
  - discriminate H.
  - eexists. reflexivity.
  - eexists. reflexivity.
  - induction vs as [|v tl IHl].
    + eexists. reflexivity.
    + pose proof (Forall_inv IH) as Hv. pose proof (Forall_inv_tail IH) as Htl. cbn beta in Hv.
      rewrite bool_valued_OBool_cons in H. apply andb_true_iff in H. destruct H as [H1 H2].
      destruct tl as [|w tl'].
      * rewrite opval_OBool_one. apply Hv. exact H1.
      * rewrite opval_OBool_cons2. destruct (Bool.eqb (truthy (opval rho tau v)) a).
        -- apply IHl; assumption.
        -- apply Hv. exact H1.
Qed.

Lemma bool_valued_oval : forall rho tau o,
  bool_valued o = true -> opval rho tau o = VB (eval rho (tsig tau) o).
Proof.
  intros rho tau o H. destruct (bool_valued_VB rho tau o H) as [b Hb].
  rewrite Hb. f_equal. rewrite <- truthy_oval, Hb. reflexivity.
Qed.

Lemma bool_valued_OBool : forall a vs, bool_valued (OBool a vs) = forallb bool_valued vs.
Proof.
  intros a vs. induction vs as [|v tl IH]; [reflexivity|].
  rewrite bool_valued_OBool_cons, IH. reflexivity.
Qed.

(* what the rule keeps is a sub-list of the operands *)
Lemma filter_idx_incl : forall rm vs i, incl (filter_idx rm i vs) vs.
Proof.
  intros rm vs. induction vs as [|v tl IH]; intros i; cbn [filter_idx].
  - apply incl_refl.
  - destruct (existsb (Nat.eqb i) rm).
    + apply incl_tl. apply IH.
    + intros x [Hx|Hx]; [left; exact Hx | right; apply (IH (S i)); exact Hx].
Qed.

Lemma const_section_incl : forall isand vs vs',
  const_section isand vs = RValues vs' -> incl vs' vs.
Proof.
  intros isand vs vs'. unfold const_section.
  destruct (existsb (is_const (negb isand)) vs); [discriminate|].
  destruct (filter (fun v => negb (is_const isand v)) vs) as [|o l] eqn:Hf; [discriminate|].
  assert (Hin : incl (o :: l) vs).
  { rewrite <- Hf. intros x Hx. apply filter_In in Hx. tauto. }
  destruct (all_same (o :: l)).
  - intros H. inversion H. subst. intros x [Hx|[]]. subst. apply Hin. left. reflexivity.
  - destruct (Nat.ltb (length (o :: l)) (length vs)); [|discriminate].
    intros H. inversion H. subst. exact Hin.
Qed.

Lemma simplify_incl : forall isand vs vs', simplify isand vs = RValues vs' -> incl vs' vs.
Proof.
  intros isand vs vs'. unfold simplify.
  destruct (opposite_present vs); [discriminate|]. cbv zeta.
  match goal with |- context [always_false ?s] => destruct (always_false s) end; [discriminate|].
  match goal with |- context [always_true ?s] => destruct (always_true s) end; [discriminate|].
  match goal with |- (if ?b then _ else _) = _ -> _ => destruct b end.
  { intros H. inversion H. apply filter_idx_incl. }
  match goal with |- (if ?b then _ else _) = _ -> _ => destruct b end.
  { intros H. inversion H. apply filter_idx_incl. }
  apply const_section_incl.
Qed.

(* T17.3v: in a value context the VALUE is preserved, in a truth context the truth value; for every
   operand list, every integer valuation and every value of the opaque operands *)
Theorem simplify_ctx_sound :
  forall ctx isand vs rho tau,
    match simplify_ctx ctx isand vs with
    | RConst b =>
        if ctx then truthy (opval rho tau (OBool isand vs)) = b
        else opval rho tau (OBool isand vs) = VB b
    | RValues vs' =>
        if ctx then truthy (opval rho tau (OBool isand vs')) = truthy (opval rho tau (OBool isand vs))
        else opval rho tau (OBool isand vs') = opval rho tau (OBool isand vs)
    | RNone => True
    end.
Proof.
  intros ctx isand vs rho tau. unfold simplify_ctx.
  pose proof (simplify_sound isand vs rho (tsig tau)) as Hs.
  pose proof (simplify_incl isand vs) as Hi.
  destruct ctx; cbn [orb].
  - destruct (simplify isand vs) as [b|vs'|]; [| |exact I].
    + rewrite truthy_oval. exact Hs.
    + rewrite !truthy_oval. exact Hs.
  - destruct (bool_valued (OBool isand vs)) eqn:Hb; [|exact I].
    destruct (simplify isand vs) as [b|vs'|]; [| |exact I].
    + rewrite bool_valued_oval by exact Hb. f_equal. exact Hs.
    + assert (Hb' : bool_valued (OBool isand vs') = true).
      { rewrite bool_valued_OBool in *. rewrite forallb_forall in *. intros x Hx. apply Hb.
        apply (Hi vs' eq_refl). exact Hx. }
      rewrite !bool_valued_oval by assumption. f_equal. exact Hs.
Qed.

(* the guard is needed: without it `x and True` -> `x` changes the value for x = 2 *)
Theorem simplify_value_refuted :
  exists isand vs vs' rho tau,
    simplify isand vs = RValues vs' /\ opval rho tau (OBool isand vs') <> opval rho tau (OBool isand vs).
Proof.
  exists true, [OVar 0; OConst true], [OVar 0], (fun _ => 0), (fun _ => VI 2).
  split; [vm_compute; reflexivity | vm_compute; discriminate].
Qed.

(* T17.9b sum(range(a, b)) after the repair of literal empty ranges: right whenever a <= b or the
   bounds are literals; still refuted for symbolic bounds with b < a (known finding F17-1) *)
Theorem sum_range_out_sound :
  forall literal a b, a <= b \/ literal = true -> 2 * sum_range a b = sum_range_out2 literal a b.
Proof.
  intros literal a b H. unfold sum_range_out2.
  destruct (Z.ltb_spec b a) as [Hlt|Hge].
  - destruct H as [H|H]; [lia|]. subst. cbn [andb].
    unfold sum_range. replace (Z.to_nat (b - a)) with O by lia. reflexivity.
  - rewrite andb_false_r. apply sum_range_closed_form. exact Hge.
Qed.

Theorem sum_range_out_symbolic_refuted :
  exists a b, b < a /\ 2 * sum_range a b <> sum_range_out2 false a b.
Proof. exists 5, 3. split; [lia | vm_compute; discriminate]. Qed.

Print Assumptions simplify_ctx_sound.
Print Assumptions sum_range_out_sound.
Print Assumptions simplify_value_refuted.
