(* C02, definition / class tranche -- models (no proofs in this file).

   Part L  fixes.undefine_unused_variables on MiniPy (MiniPyModel.v is the reference semantics):
           the rewrite `x = e  ->  e`, a liveness analysis with a checker for the rule's output
           (which assignments may be dropped), and the rule's own decision on straight-line code.
   Part O  an object model (classes with one base, instance / class / super lookup, plain / static /
           class methods, properties) with an executable semantics, and the models of
             object_oriented.remove_unused_self_cls, object_oriented.move_staticmethod_static_scope,
             fixes.delete_unused_functions_and_classes.
   Part U  object_oriented.fix_unconventional_class_definitions (class-body scope vs module scope).
   Part D  fixes.remove_duplicate_functions / abstractions.hash_node (first-occurrence numbering).

   The semantics (exec of MiniPy, run of Part O, ceval of Part U, fcall of Part D) are definitions
   (trusted), validated against CPython by harness/c02_cls.py on every run. *)
From Coq Require Import List Bool Arith.
Import ListNotations.
Require Import Pyrefact.Base Pyrefact.MiniPyModel.

(* ============================================================================================== *)
(* Part L : liveness                                                                              *)
(* ============================================================================================== *)

Definition vset := list var.
Definition vmem (x : var) (s : vset) : bool := existsb (Nat.eqb x) s.
Definition vremove (x : var) (s : vset) : vset := filter (fun y => negb (Nat.eqb x y)) s.
Definition vsubset (a b : vset) : bool := forallb (fun x => vmem x b) a.
(* the same set without repetitions (keeps the sets small; the first occurrence stays) *)
Fixpoint vnorm (s : vset) : vset :=
  match s with [] => [] | x :: tl => x :: vremove x (vnorm tl) end.

Fixpoint t_reads (t : test) : vset :=
  match t with Known _ => [] | Unknown _ rd => rd | TNot t' => t_reads t' end.
Definition r_reads (e : rexpr) : vset :=
  match e with RVal _ => [] | RVar y => [y] | RTest t => t_reads t end.
(* read when the loop is entered / at the head of every iteration *)
Definition h_entry_reads (h : head) : vset :=
  match h with HFor (IUnknown _ rd) => rd | _ => [] end.
Definition h_iter_reads (h : head) : vset :=
  match h with HWhile t => t_reads t | _ => [] end.

(* what `x = e` becomes when the rule un-assigns it: the bare expression.  A bare constant or name
   does nothing; a bare opaque call is evaluated (event + oracle draw) and its value is dropped. *)
Definition drop_asg (e : rexpr) : stmt :=
  match e with RTest t => SIf t [] [] | _ => SPass end.

Fixpoint iter_n {A} (n : nat) (f : A -> A) (x : A) : A :=
  match n with O => x | S n' => iter_n n' f (f x) end.

(* variables live before s, given the variables live after it normally (o), at the target of a
   break (b), of a continue (c), and when the code is left by return / raise (x).
   n bounds the fixpoint iteration for loops; the checker below verifies the fixpoint. *)
Fixpoint lv_stmt (n : nat) (s : stmt) (o b c x : vset) {struct s} : vset :=
  let blk := fix blk (l : list stmt) (o b c : vset) {struct l} : vset :=
               match l with
               | [] => o
               | s' :: tl => lv_stmt n s' (blk tl o b c) b c x
               end in
  match s with
  | SPass => o
  | SEv _ rd => rd ++ o
  | SAssign v e => r_reads e ++ vremove v o
  | SReturn e => r_reads e ++ x
  | SRaise => x
  | SBreak => b
  | SContinue => c
  | SIf t b1 b2 => vnorm (t_reads t ++ blk b1 o b c ++ blk b2 o b c)
  | SLoop h bd el =>
      let x0 := h_iter_reads h ++ blk el o b c in
      h_entry_reads h ++ iter_n n (fun X => vnorm (x0 ++ blk bd X o X)) (vnorm x0)
  end.
Fixpoint lv_block (n : nat) (l : list stmt) (o b c x : vset) : vset :=
  match l with
  | [] => o
  | s :: tl => lv_stmt n s (lv_block n tl o b c x) b c x
  end.
Definition loop_x0 (n : nat) (h : head) (el : list stmt) (o b c x : vset) : vset :=
  h_iter_reads h ++ lv_block n el o b c x.
Definition loop_head (n : nat) (h : head) (bd el : list stmt) (o b c x : vset) : vset :=
  let x0 := loop_x0 n h el o b c x in
  iter_n n (fun X => vnorm (x0 ++ lv_block n bd X o X x)) (vnorm x0).

(* checker: p' is p with some assignments un-assigned, each of them dead in p' *)
Fixpoint ok_stmt (n : nat) (s s' : stmt) (o b c x : vset) {struct s} : bool :=
  let blk := fix blk (l l' : list stmt) (o b c : vset) {struct l} : bool :=
               match l, l' with
               | [], [] => true
               | s1 :: tl, s1' :: tl' => ok_stmt n s1 s1' (lv_block n tl' o b c x) b c x && blk tl tl' o b c
               | _, _ => false
               end in
  match s, s' with
  | SAssign v e, _ =>
      stmt_eqb s s' || (stmt_eqb s' (drop_asg e) && negb (vmem v o))
  | SIf t b1 b2, SIf t' b1' b2' => test_eqb t t' && blk b1 b1' o b c && blk b2 b2' o b c
  | SLoop h bd el, SLoop h' bd' el' =>
      let X := loop_head n h' bd' el' o b c x in
      head_eqb h h'
      && vsubset (loop_x0 n h' el' o b c x ++ lv_block n bd' X o X x) X
      && blk bd bd' X o X && blk el el' o b c
  | _, _ => stmt_eqb s s'
  end.
Fixpoint ok_block (n : nat) (l l' : list stmt) (o b c x : vset) : bool :=
  match l, l' with
  | [], [] => true
  | s :: tl, s' :: tl' => ok_stmt n s s' (lv_block n tl' o b c x) b c x && ok_block n tl tl' o b c x
  | _, _ => false
  end.

(* a module: nothing is live at the end, break/continue do not occur outside loops *)
Definition uv_ok (n : nat) (p p' : list stmt) : bool := ok_block n p p' [] [] [] [].

(* ---- the rule's own decision on straight-line code (fixes._iter_unused_names with
        tracing.code_dependencies_outputs on a body of simple statements): the assignment `x = e` at
        position i is un-assigned iff the next statement that mentions x does not read it (or there is
        none).  `x = f(x)` reads x. ---- *)
Definition s_reads (s : stmt) : vset :=
  match s with SEv _ rd => rd | SAssign _ e => r_reads e | _ => [] end.
Definition s_writes (s : stmt) : vset := match s with SAssign x _ => [x] | _ => [] end.
Definition simple (s : stmt) : bool :=
  match s with SPass | SEv _ _ | SAssign _ _ => true | _ => false end.
(* is x read before it is written again in l ? *)
Fixpoint read_next (x : var) (l : list stmt) : bool :=
  match l with
  | [] => false
  | s :: tl => if vmem x (s_reads s) then true
               else if vmem x (s_writes s) then false
               else read_next x tl
  end.
Fixpoint uv_line (l : list stmt) : list stmt :=
  match l with
  | [] => []
  | SAssign x e :: tl =>
      (if read_next x tl then SAssign x e else drop_asg e) :: uv_line tl
  | s :: tl => s :: uv_line tl
  end.

(* plumbing for the correspondence: (p, what the real rule made of it) *)
Definition uv_case_ok (n : nat) (c : list stmt * list stmt) : bool := uv_ok n (fst c) (snd c).
Definition uv_line_case_ok (c : list stmt * list stmt) : bool :=
  forallb simple (fst c) && prog_eqb (uv_line (fst c)) (snd c).

(* ============================================================================================== *)
(* Part O : classes, methods, attribute lookup                                                     *)
(* ============================================================================================== *)
(* Names are numbers; the harness prints them:
     classes  C<c>;  module functions f<n> (n < 1000), 1000 + j = the function moved out of a class for
     method j ("_m<j>", or "_p<j>" for a private method), 2000 + 100 c + j = "_C<c>_m<j>";
     methods  m<j> (j < 30), _p<j> (30..39, private), __q<j> (40..49, name-mangled),
              __d<j>__ (>= 50, magic; 50 is __init__). *)
Definition name := nat.
Definition is_private (m : name) : bool := 30 <=? m.
Definition is_mangled (m : name) : bool := (40 <=? m) && (m <? 50).
Definition is_magic (m : name) : bool := 50 <=? m.
Definition INIT : name := 50.
Definition moved_name (j : name) : name := 1000 + j.
Definition moved_name_c (c j : name) : name := 2000 + 100 * c + j.

Inductive mkind := KPlain | KStatic | KClassm | KProp.
Inductive recv :=
| RMod                       (* f(...)                         a module-level name *)
| RCls (c : name)            (* C.m(...)                       the class object *)
| RNew (c : name)            (* C().m(...)                     a fresh instance *)
| ROpq (c : name)            (* (lambda: C())().m(...)         an instance the rules cannot see through *)
| RObj (c : name)            (* o<c>.m(...)                    a module variable that holds an instance of C *)
| RSelf                      (* self.m(...) / cls.m(...)       the first parameter of the enclosing method *)
| RSuper.                    (* super().m(...) *)
Inductive act :=
| AEv (k : nat)                              (* e(k) *)
| AUse                                       (* u(self)           the first parameter used as a value *)
| ACall (r : recv) (m : name) (nargs : nat)  (* r.m(0, ..., 0) *)
| ARead (r : recv) (m : name)                (* _ = r.m           read, not called (properties) *)
| ADyn (r : recv) (m : name) (nargs : nat)   (* getattr(r, "m")(0, ..., 0) *)
| AInit (c : name).                          (* o<c> = C<c>()     only in the prelude of a module *)
Record meth := mkMeth { m_name : name; m_kind : mkind; m_params : nat; m_body : list act }.
(* c_alias: `a = m` in the class body (the attribute a is the function m at that point) *)
Record cls := mkCls { c_name : name; c_base : option name; c_meths : list meth; c_alias : list (name * name) }.
Record func := mkFunc { f_name : name; f_params : nat; f_body : list act }.
Inductive item := IClass (c : cls) | IFunc (f : func).
(* m_vars: `o<c> = C<c>()` after the definitions; m_stores: `<function name> = 0` after them;
   m_main: the statements that follow *)
Record module := mkMod { m_items : list item; m_vars : list name; m_stores : list name; m_main : list act }.

(* ---- semantics ---- *)
Inductive selfv := SNone | SInst (c : name) | SCls (c : name) | SArg.
Inductive tev := TEv (k : nat) | TUse (s : selfv).
Inductive outc := OOk | OTypeErr | OAttrErr | ONameErr | ORunErr | OFuel.

Definition nmem (x : name) (l : list name) : bool := existsb (Nat.eqb x) l.
Fixpoint find_cls (its : list item) (c : name) : option cls :=
  match its with
  | [] => None
  | IClass k :: tl => if Nat.eqb (c_name k) c then Some k else find_cls tl c
  | _ :: tl => find_cls tl c
  end.
Fixpoint find_fn (its : list item) (f : name) : option func :=
  match its with
  | [] => None
  | IFunc g :: tl => if Nat.eqb (f_name g) f then Some g else find_fn tl f
  | _ :: tl => find_fn tl f
  end.
Fixpoint find_meth (ms : list meth) (m : name) : option meth :=
  match ms with
  | [] => None
  | x :: tl => if Nat.eqb (m_name x) m then Some x else find_meth tl m
  end.
Fixpoint find_alias (al : list (name * name)) (a : name) : option name :=
  match al with
  | [] => None
  | (x, m) :: tl => if Nat.eqb x a then Some m else find_alias tl a
  end.
(* the attribute m in the namespace of class k: a method, or an alias of one *)
Definition cls_attr (k : cls) (m : name) : option meth :=
  match find_alias (c_alias k) m with
  | Some m' => find_meth (c_meths k) m'
  | None => find_meth (c_meths k) m
  end.
(* the classes of the inheritance chain of c, most derived first (fuel bounds cyclic bases) *)
Fixpoint chain (its : list item) (fuel : nat) (c : name) : list cls :=
  match fuel with
  | O => []
  | S f => match find_cls its c with
           | None => []
           | Some k => k :: match c_base k with Some b => chain its f b | None => [] end
           end
  end.
Fixpoint lookup_in (ks : list cls) (m : name) : option (name * meth) :=
  match ks with
  | [] => None
  | k :: tl => match cls_attr k m with Some x => Some (c_name k, x) | None => lookup_in tl m end
  end.
(* the part of the chain behind class `owner` (zero-argument super) *)
Fixpoint after_owner (ks : list cls) (owner : name) : list cls :=
  match ks with
  | [] => []
  | k :: tl => if Nat.eqb (c_name k) owner then tl else after_owner tl owner
  end.
Definition CHAIN_FUEL := 8.

(* how a method found on the chain is bound: through an instance of class c, or through the class
   object c.  Result: the value of the first parameter, and whether nargs explicit arguments fit. *)
Inductive how := ViaInst (c : name) | ViaCls (c : name).
Definition bind (h : how) (x : meth) (nargs : nat) : selfv * bool :=
  match h, m_kind x with
  | ViaInst c, KPlain => (SInst c, Nat.eqb (m_params x) (S nargs))
  | ViaCls _, KPlain => ((if Nat.eqb nargs 0 then SNone else SArg), Nat.eqb (m_params x) nargs)
  | _, KStatic => (SNone, Nat.eqb (m_params x) nargs)
  | ViaInst c, KClassm | ViaCls c, KClassm => (SCls c, Nat.eqb (m_params x) (S nargs))
  | ViaInst c, KProp => (SInst c, Nat.eqb (m_params x) 1)
  | ViaCls _, KProp => (SNone, false)
  end.

Inductive target :=
| TErr (o : outc)
| TInt                       (* a module name that was rebound to 0 *)
| TFn (g : func)
| TMeth (h : how) (owner : name) (x : meth).

Definition resolve (M : module) (self : selfv) (owner : option name) (r : recv) (m : name) : target :=
  let its := m_items M in
  let via (h : how) (ks : list cls) :=
    match lookup_in ks m with Some (o, x) => TMeth h o x | None => TErr OAttrErr end in
  let on_class (c : name) (mk : name -> how) :=
    match find_cls its c with None => TErr ONameErr | Some _ => via (mk c) (chain its CHAIN_FUEL c) end in
  match r with
  | RMod => if nmem m (m_stores M) then TInt
            else match find_fn its m with Some g => TFn g | None => TErr ONameErr end
  | RCls c => on_class c ViaCls
  | RNew c | ROpq c => on_class c ViaInst
  | RObj c => if nmem c (m_vars M) then on_class c ViaInst else TErr ONameErr
  | RSelf => match self with
             | SInst c => via (ViaInst c) (chain its CHAIN_FUEL c)
             | SCls c => via (ViaCls c) (chain its CHAIN_FUEL c)
             | SArg => TErr OAttrErr
             | SNone => TErr ONameErr
             end
  | RSuper => match self, owner with
              | SInst c, Some o => via (ViaInst c) (after_owner (chain its CHAIN_FUEL c) o)
              | SCls c, Some o => via (ViaCls c) (after_owner (chain its CHAIN_FUEL c) o)
              | SArg, Some _ => TErr OTypeErr
              | _, _ => TErr ORunErr
              end
  end.

(* does evaluating the receiver create an instance (and run __init__)? *)
Definition creates (r : recv) : option name :=
  match r with RNew c | ROpq c => Some c | _ => None end.

Definition res2 := (list tev * outc)%type.
Definition andthen2 (r : res2) (k : list tev -> res2) : res2 :=
  match r with (tr, OOk) => k tr | _ => r end.

Fixpoint run (M : module) (fuel : nat) (self : selfv) (owner : option name) (body : list act)
             (tr : list tev) {struct fuel} : res2 :=
  match fuel with
  | O => (tr, OFuel)
  | S f =>
      match body with
      | [] => (tr, OOk)
      | a :: rest =>
          let call (t : target) (nargs : nat) (read : bool) (tr : list tev) : res2 :=
            match t with
            | TErr o => (tr, o)
            | TInt => if read then (tr, OOk) else (tr, OTypeErr)
            | TFn g => if read then (tr, OOk)
                       else if Nat.eqb (f_params g) nargs then run M f SNone None (f_body g) tr
                       else (tr, OTypeErr)
            | TMeth h o x =>
                let (sv, fits) := bind h x nargs in
                match m_kind x, read with
                | KProp, true => match h with
                                 | ViaInst _ => if fits then run M f sv (Some o) (m_body x) tr else (tr, OTypeErr)
                                 | ViaCls _ => (tr, OOk)
                                 end
                | KProp, false => match h with
                                  | ViaInst _ => if fits then andthen2 (run M f sv (Some o) (m_body x) tr)
                                                                       (fun tr' => (tr', OTypeErr))
                                                 else (tr, OTypeErr)
                                  | ViaCls _ => (tr, OTypeErr)
                                  end
                | _, true => (tr, OOk)
                | _, false => if fits then run M f sv (Some o) (m_body x) tr else (tr, OTypeErr)
                end
            end in
          (* evaluating the receiver: C() runs __init__ when the chain defines it *)
          let recv_then (r : recv) (k : list tev -> res2) : res2 :=
            match creates r with
            | None => k tr
            | Some c =>
                match find_cls (m_items M) c with
                | None => (tr, ONameErr)
                | Some _ =>
                    match lookup_in (chain (m_items M) CHAIN_FUEL c) INIT with
                    | None => k tr
                    | Some (o, x) =>
                        let (sv, fits) := bind (ViaInst c) x 0 in
                        if fits
                        then match m_kind x with
                             | KProp => andthen2 (run M f sv (Some o) (m_body x) tr) (fun tr' => (tr', OTypeErr))
                             | _ => andthen2 (run M f sv (Some o) (m_body x) tr) k
                             end
                        else (tr, OTypeErr)
                    end
                end
            end in
          let r1 : res2 :=
            match a with
            | AEv k => (tr ++ [TEv k], OOk)
            | AUse => match self with
                      | SNone => (tr, ONameErr)
                      | _ => (tr ++ [TUse self], OOk)
                      end
            | ACall r m nargs => recv_then r (fun tr1 => call (resolve M self owner r m) nargs false tr1)
            | ARead r m => recv_then r (fun tr1 => call (resolve M self owner r m) 0 true tr1)
            | ADyn r m nargs => recv_then r (fun tr1 => call (resolve M self owner r m) nargs false tr1)
            | AInit c => recv_then (RNew c) (fun tr1 => (tr1, OOk))
            end in
          andthen2 r1 (fun tr1 => run M f self owner rest tr1)
      end
  end.

(* the module as a program: create the instance variables (their __init__ runs), then the statements *)
Definition run_module (fuel : nat) (M : module) : res2 :=
  run M fuel SNone None (map AInit (m_vars M) ++ m_main M) [].

(* ---- syntax helpers shared by the rule models ---- *)
Definition classes (M : module) : list cls :=
  flat_map (fun it => match it with IClass k => [k] | _ => [] end) (m_items M).
Definition funcs (M : module) : list func :=
  flat_map (fun it => match it with IFunc g => [g] | _ => [] end) (m_items M).
(* every action of the module with the class whose lines contain it *)
Definition ctx_acts (M : module) : list (option name * act) :=
  flat_map (fun it => match it with
                      | IClass k => flat_map (fun x => map (fun a => (Some (c_name k), a)) (m_body x)) (c_meths k)
                      | IFunc g => map (fun a => (None, a)) (f_body g)
                      end) (m_items M)
  ++ map (fun a => (None, a)) (m_main M).
Definition pair_mem (p : name * name) (l : list (name * name)) : bool :=
  existsb (fun q => Nat.eqb (fst p) (fst q) && Nat.eqb (snd p) (snd q)) l.
Definition cfn (M : module) : list (name * name) :=
  flat_map (fun k => map (fun x => (c_name k, m_name x)) (c_meths k)) (classes M).
Definition opt_name_eqb (a b : option name) : bool :=
  match a, b with Some x, Some y => Nat.eqb x y | None, None => true | _, _ => false end.
(* the receiver mentions the class name c *)
Definition recv_class (r : recv) : option name :=
  match r with RCls c | RNew c | ROpq c => Some c | _ => None end.
(* the attribute access (receiver, attribute) of an action; getattr with a string is none *)
Definition attr_of (a : act) : option (recv * name) :=
  match a with
  | ACall RMod _ _ | ARead RMod _ => None
  | ACall r m _ | ARead r m => Some (r, m)
  | _ => None
  end.

(* ---------------------------------------------------------------------------------------------- *)
(* object_oriented.remove_unused_self_cls (after the repairs: magic methods, methods looked up on a
   class or read by the class body are left alone) *)
Definition noninst (x : meth) : bool := match m_kind x with KStatic | KClassm => true | _ => false end.
(* names that some class of the module defines as an instance method (or property) *)
Definition inst_names (M : module) : list name :=
  flat_map (fun k => flat_map (fun x => if noninst x then [] else [m_name x]) (c_meths k)) (classes M).
(* the static / class methods of k whose name is nowhere the name of an instance method *)
Definition non_instance (I : list name) (k : cls) : list name :=
  flat_map (fun x => if noninst x && negb (nmem (m_name x) I) then [m_name x] else []) (c_meths k).
Definition has_super (b : list act) : bool :=
  existsb (fun a => match a with
                    | ACall RSuper _ _ | ARead RSuper _ | ADyn RSuper _ _ => true
                    | _ => false end) b.
Definition inst_access (I : list name) (k : cls) (b : list act) : bool :=
  existsb (fun a => match a with
                    | AUse => true
                    | ADyn RSelf _ _ | ARead RSelf _ => true
                    | ACall RSelf m _ => negb (nmem m (non_instance I k))
                    | _ => false end) b.
Definition static_access (I : list name) (k : cls) (b : list act) : bool :=
  existsb (fun a => match a with ACall RSelf m _ => nmem m (non_instance I k) | _ => false end) b.
(* attributes looked up on a Name that is a class of the module, on `cls`, or on super() *)
Definition looked_of (cn : list name) (in_classm : bool) (a : act) : list name :=
  match attr_of a with
  | Some (RCls c, m) => if nmem c cn then [m] else []
  | Some (RSelf, m) => if in_classm then [m] else []
  | Some (RSuper, m) => [m]
  | _ => []
  end.
Definition is_classm (x : meth) : bool := match m_kind x with KClassm => true | _ => false end.
Definition looked_up_on_class (M : module) : list name :=
  let cn := map c_name (classes M) in
  flat_map (fun it => match it with
     | IClass k => flat_map (fun x => flat_map (looked_of cn (is_classm x)) (m_body x)) (c_meths k)
     | IFunc g => flat_map (looked_of cn false) (f_body g)
     end) (m_items M)
  ++ flat_map (looked_of cn false) (m_main M).
Definition rs_meth (looked I : list name) (k : cls) (x : meth) : meth :=
  if Nat.eqb (m_params x) 0 then x
  else if is_magic (m_name x) then x
  else if nmem (m_name x) (map snd (c_alias k)) then x
  else if nmem (m_name x) looked && negb (nmem (m_name x) (non_instance I k)) then x
  else if has_super (m_body x) then x
  else match m_kind x with
       | KProp | KStatic => x
       | kd =>
           if inst_access I k (m_body x) then x
           else if static_access I k (m_body x)
                then match kd with KClassm => x | _ => mkMeth (m_name x) KClassm (m_params x) (m_body x) end
                else mkMeth (m_name x) KStatic (pred (m_params x)) (m_body x)
       end.
Definition rs_item (looked I : list name) (it : item) : item :=
  match it with
  | IClass k => IClass (mkCls (c_name k) (c_base k) (map (rs_meth looked I k) (c_meths k)) (c_alias k))
  | _ => it
  end.
Definition rs_pass (M : module) : module :=
  mkMod (map (rs_item (looked_up_on_class M) (inst_names M)) (m_items M)) (m_vars M) (m_stores M) (m_main M).
Definition rs_model (M : module) : module := iter_n 5 rs_pass M.

(* ---------------------------------------------------------------------------------------------- *)
(* object_oriented.move_staticmethod_static_scope (after the repairs), preserve = {} *)
(* classes whose creation does something: a base class, or an __init__ of their own *)
Definition ctor_classes (M : module) : list name :=
  flat_map (fun k => match c_base k with
                     | Some _ => [c_name k]
                     | None => if nmem INIT (map m_name (c_meths k)) then [c_name k] else []
                     end) (classes M).
Definition recognised_in (cf : list (name * name)) (ct : list name) (ctx : option name) (r : recv) (m : name) : bool :=
  match r with
  | RCls c => pair_mem (c, m) cf
  | RNew c => pair_mem (c, m) cf && negb (nmem c ct)
  | RSelf => match ctx with Some k => pair_mem (k, m) cf | None => false end
  | _ => false
  end.
Definition recognised (M : module) := recognised_in (cfn M) (ctor_classes M).
Definition attrs_to_preserve (M : module) : list name :=
  let cf := cfn M in
  let ct := ctor_classes M in
  flat_map (fun ca => match attr_of (snd ca) with
                      | Some (r, m) => if recognised_in cf ct (fst ca) r m then [] else [m]
                      | None => [] end) (ctx_acts M).
(* the classes strictly above d in its chain *)
Definition ancestors (M : module) (d : cls) : list name :=
  match c_base d with Some b => map c_name (chain (m_items M) CHAIN_FUEL b) | None => [] end.
Definition overridden_in (cf : list (name * name)) (M : module) (k m : name) : bool :=
  existsb (fun d => pair_mem (c_name d, m) cf && nmem k (ancestors M d)) (classes M).
Definition overridden (M : module) := overridden_in (cfn M) M.
Definition static_names (M : module) : list name := map f_name (funcs M) ++ m_stores M.
Definition ms_new_name_in (atp sn : list name) (cf : list (name * name)) (M : module) (k : cls) (x : meth)
  : option name :=
  if nmem (m_name x) atp then None
  else if nmem (m_name x) (map snd (c_alias k)) then None
  else if is_magic (m_name x) then None
  else match m_kind x with
       | KStatic =>
           if overridden_in cf M (c_name k) (m_name x) then None
           else if is_mangled (m_name x) then None
           else if negb (nmem (moved_name (m_name x)) sn) then Some (moved_name (m_name x))
           else if negb (nmem (moved_name_c (c_name k) (m_name x)) sn)
                then Some (moved_name_c (c_name k) (m_name x))
                else None
       | _ => None
       end.
Definition ms_new_name (M : module) :=
  ms_new_name_in (attrs_to_preserve M) (static_names M) (cfn M) M.
(* ((class, method), new name) for every method that moves *)
Definition ms_plan (M : module) : list ((name * name) * name) :=
  let atp := attrs_to_preserve M in
  let sn := static_names M in
  let cf := cfn M in
  flat_map (fun k => match c_base k with
                     | Some _ => []
                     | None => flat_map (fun x => match ms_new_name_in atp sn cf M k x with
                                                  | Some n => [((c_name k, m_name x), n)]
                                                  | None => [] end) (c_meths k)
                     end) (classes M).
Fixpoint plan_find (pl : list ((name * name) * name)) (k m : name) : option name :=
  match pl with
  | [] => None
  | ((k', m'), n) :: tl => if Nat.eqb k k' && Nat.eqb m m' then Some n else plan_find tl k m
  end.
Fixpoint nodup_names (l : list name) : bool :=
  match l with [] => true | x :: tl => negb (nmem x tl) && nodup_names tl end.
Definition ms_act (pl : list ((name * name) * name)) (ctx : option name) (a : act) : act :=
  let redirect (r : recv) (m : name) : option name :=
    match r with
    | RCls c | RNew c => plan_find pl c m
    | RSelf => match ctx with Some k => plan_find pl k m | None => None end
    | _ => None
    end in
  match a with
  | ACall r m n => match r with
                   | RMod => a
                   | _ => match redirect r m with Some f => ACall RMod f n | None => a end
                   end
  | ARead r m => match r with
                 | RMod => a
                 | _ => match redirect r m with Some f => ARead RMod f | None => a end
                 end
  | _ => a
  end.
Definition ms_items (pl : list ((name * name) * name)) (its : list item) : list item :=
  flat_map (fun it =>
    match it with
    | IFunc g => [IFunc (mkFunc (f_name g) (f_params g) (map (ms_act pl None) (f_body g)))]
    | IClass k =>
        let ctx := Some (c_name k) in
        flat_map (fun x => match plan_find pl (c_name k) (m_name x) with
                           | Some n => [IFunc (mkFunc n (m_params x) (map (ms_act pl ctx) (m_body x)))]
                           | None => [] end) (c_meths k)
        ++ [IClass (mkCls (c_name k) (c_base k)
                      (flat_map (fun x => match plan_find pl (c_name k) (m_name x) with
                                          | Some _ => []
                                          | None => [mkMeth (m_name x) (m_kind x) (m_params x)
                                                            (map (ms_act pl ctx) (m_body x))] end) (c_meths k))
                      (c_alias k))]
    end) its.
(* cca2e92: one transaction per method that moves = its removal, the new function and every redirected
   access outside the method.  processing._schedule_rewrites takes the transactions in source order and
   discards one that overlaps an already scheduled one AS A WHOLE: a planned method whose body holds an
   access of an already scheduled method (that edit lies in the range being removed), or which an
   already scheduled method accesses, stays in its class with its accesses (a later pass may move it). *)
Definition act_key (pl : list ((name * name) * name)) (ctx : option name) (a : act) : option (name * name) :=
  match attr_of a with
  | Some (r, m) =>
      match r with
      | RCls c | RNew c => match plan_find pl c m with Some _ => Some (c, m) | None => None end
      | RSelf => match ctx with
                 | Some k => match plan_find pl k m with Some _ => Some (k, m) | None => None end
                 | None => None
                 end
      | _ => None
      end
  | None => None
  end.
Definition pair_eqb (p q : name * name) : bool := Nat.eqb (fst p) (fst q) && Nat.eqb (snd p) (snd q).
(* the other planned methods that the body of x (a method of class k) accesses *)
Definition body_keys (pl : list ((name * name) * name)) (k : name) (x : meth) : list (name * name) :=
  flat_map (fun a => match act_key pl (Some k) a with
                     | Some p => if pair_eqb p (k, m_name x) then [] else [p]
                     | None => [] end) (m_body x).
Definition cand := ((name * name) * name * list (name * name))%type.
Definition ms_cands (M : module) (pl : list ((name * name) * name)) : list cand :=
  flat_map (fun k => flat_map (fun x => match plan_find pl (c_name k) (m_name x) with
                                        | Some n => [((c_name k, m_name x), n, body_keys pl (c_name k) x)]
                                        | None => [] end) (c_meths k)) (classes M).
Definition conflicts (c : cand) (sch : list cand) : bool :=
  let '(key, _, B) := c in
  existsb (fun s : cand => let '(key', _, B') := s in pair_mem key B' || pair_mem key' B) sch.
Fixpoint sched_go (cands sch : list cand) : list cand :=
  match cands with
  | [] => sch
  | c :: tl => sched_go tl (if conflicts c sch then sch else sch ++ [c])
  end.
Definition ms_sched (M : module) (pl : list ((name * name) * name)) : list ((name * name) * name) :=
  map (fun c : cand => let '(key, n, _) := c in (key, n)) (sched_go (ms_cands M pl) []).
(* the methods that one pass really moves *)
Definition ms_moved (M : module) : list ((name * name) * name) := ms_sched M (ms_plan M).
Definition ms_pass (M : module) : module :=
  let pl := ms_plan M in
  if nodup_names (map snd pl)
  then let pl' := ms_sched M pl in
       mkMod (ms_items pl' (m_items M)) (m_vars M) (m_stores M) (map (ms_act pl' None) (m_main M))
  else M.
(* before cca2e92: every access was a transaction of its own and all planned methods moved *)
Definition ms_pass_old (M : module) : module :=
  let pl := ms_plan M in
  if nodup_names (map snd pl)
  then mkMod (ms_items pl (m_items M)) (m_vars M) (m_stores M) (map (ms_act pl None) (m_main M))
  else M.
Definition ms_model (M : module) : module := iter_n 5 ms_pass M.

(* ---------------------------------------------------------------------------------------------- *)
(* fixes.delete_unused_functions_and_classes, preserve = {} *)
Definition attr_used_in (ca : list (option name * act)) (cs : list cls) (m : name) : bool :=
  existsb (fun ca => match attr_of (snd ca) with Some (_, m') => Nat.eqb m m' | None => false end) ca
  || existsb (fun k => nmem m (map snd (c_alias k))) cs.
Definition attr_used (M : module) := attr_used_in (ctx_acts M) (classes M).
Definition mod_call_of (a : act) : option name :=
  match a with ACall RMod f _ | ARead RMod f => Some f | _ => None end.
(* f is read as a plain name somewhere outside its own definition *)
Definition fn_used (M : module) (f : name) : bool :=
  let uses (b : list act) := existsb (fun a => match mod_call_of a with Some g => Nat.eqb f g | None => false end) b in
  existsb (fun it => match it with
                     | IFunc g => negb (Nat.eqb (f_name g) f) && uses (f_body g)
                     | IClass k => existsb (fun x => uses (m_body x)) (c_meths k)
                     end) (m_items M)
  || uses (m_main M).
Definition act_class (a : act) : option name :=
  match a with ACall r _ _ | ARead r _ | ADyn r _ _ => recv_class r | AInit c => Some c | _ => None end.
Definition is_dyn (a : act) : bool := match a with ADyn _ _ _ => true | _ => false end.
(* the class name C<c> is written somewhere (any use) *)
Definition cls_named_in (ca : list (option name * act)) (cs : list cls) (vars : list name) (c : name) : bool :=
  existsb (fun k => opt_name_eqb (c_base k) (Some c)) cs
  || nmem c vars
  || existsb (fun ca => opt_name_eqb (act_class (snd ca)) (Some c)) ca.
Definition cls_named (M : module) := cls_named_in (ctx_acts M) (classes M) (m_vars M).
(* ... outside the plain names inside the class itself (an attribute access counts everywhere) *)
Definition cls_used_in (ca : list (option name * act)) (cs : list cls) (vars : list name) (c : name) : bool :=
  existsb (fun k => opt_name_eqb (c_base k) (Some c)) cs
  || nmem c vars
  || existsb (fun ca => opt_name_eqb (act_class (snd ca)) (Some c)
                        && (negb (is_dyn (snd ca)) || negb (opt_name_eqb (fst ca) (Some c)))) ca.
Definition cls_used (M : module) := cls_used_in (ctx_acts M) (classes M) (m_vars M).
Definition meth_kept_in (ca : list (option name * act)) (cs : list cls) (vars : list name) (k : cls) (x : meth) : bool :=
  match c_base k with
  | Some _ => true
  | None => attr_used_in ca cs (m_name x) || (is_magic (m_name x) && cls_named_in ca cs vars (c_name k))
  end.
Definition meth_kept (M : module) := meth_kept_in (ctx_acts M) (classes M) (m_vars M).
Definition du_pass (M : module) : module :=
  let ca := ctx_acts M in
  let cs := classes M in
  let vars := m_vars M in
  mkMod (flat_map (fun it => match it with
                             | IFunc g => if fn_used M (f_name g) then [it] else []
                             | IClass k =>
                                 (* the removal of a class overlaps the removals of its methods: the
                                    scheduler keeps the inner ones, the class goes in a later pass *)
                                 if cls_used_in ca cs vars (c_name k) || negb (forallb (meth_kept_in ca cs vars k) (c_meths k))
                                 then [IClass (mkCls (c_name k) (c_base k)
                                                     (filter (meth_kept_in ca cs vars k) (c_meths k)) (c_alias k))]
                                 else []
                             end) (m_items M))
        (m_vars M) (m_stores M) (m_main M).
Definition du_model (M : module) : module := iter_n 5 du_pass M.

(* ---- decidable equality (items compared up to their order) ---- *)
Definition kind_eqb (a b : mkind) : bool :=
  match a, b with KPlain, KPlain | KStatic, KStatic | KClassm, KClassm | KProp, KProp => true | _, _ => false end.
Definition recv_eqb (a b : recv) : bool :=
  match a, b with
  | RMod, RMod | RSelf, RSelf | RSuper, RSuper => true
  | RCls x, RCls y | RNew x, RNew y | ROpq x, ROpq y | RObj x, RObj y => Nat.eqb x y
  | _, _ => false
  end.
Definition act_eqb (a b : act) : bool :=
  match a, b with
  | AEv x, AEv y => Nat.eqb x y
  | AUse, AUse => true
  | ACall r m n, ACall r' m' n' | ADyn r m n, ADyn r' m' n' => recv_eqb r r' && Nat.eqb m m' && Nat.eqb n n'
  | ARead r m, ARead r' m' => recv_eqb r r' && Nat.eqb m m'
  | AInit c, AInit c' => Nat.eqb c c'
  | _, _ => false
  end.
Definition meth_eqb (a b : meth) : bool :=
  Nat.eqb (m_name a) (m_name b) && kind_eqb (m_kind a) (m_kind b) && Nat.eqb (m_params a) (m_params b)
  && list_eqb act_eqb (m_body a) (m_body b).
Definition cls_eqb (a b : cls) : bool :=
  Nat.eqb (c_name a) (c_name b) && opt_name_eqb (c_base a) (c_base b)
  && list_eqb meth_eqb (c_meths a) (c_meths b)
  && list_eqb (fun p q => Nat.eqb (fst p) (fst q) && Nat.eqb (snd p) (snd q)) (c_alias a) (c_alias b).
Definition func_eqb (a b : func) : bool :=
  Nat.eqb (f_name a) (f_name b) && Nat.eqb (f_params a) (f_params b) && list_eqb act_eqb (f_body a) (f_body b).
Definition item_eqb (a b : item) : bool :=
  match a, b with IClass x, IClass y => cls_eqb x y | IFunc x, IFunc y => func_eqb x y | _, _ => false end.
Definition items_eqb_perm (l m : list item) : bool :=
  Nat.eqb (length l) (length m) && forallb (fun a => existsb (item_eqb a) m) l
  && forallb (fun b => existsb (item_eqb b) l) m.
Definition mod_eqb (a b : module) : bool :=
  items_eqb_perm (m_items a) (m_items b) && list_eqb Nat.eqb (m_vars a) (m_vars b)
  && list_eqb Nat.eqb (m_stores a) (m_stores b) && list_eqb act_eqb (m_main a) (m_main b).

(* ---- correspondence plumbing ---- *)
Inductive orule := ORs | OMs | ODu.
Definition orule_model (r : orule) : module -> module :=
  match r with ORs => rs_model | OMs => ms_model | ODu => du_model end.
Definition o_case_ok (c : orule * module * module) : bool :=
  let '(r, M, M') := c in mod_eqb (orule_model r M) M'.
Definition tev_eqb (a b : tev) : bool :=
  match a, b with
  | TEv x, TEv y => Nat.eqb x y
  | TUse SNone, TUse SNone | TUse SArg, TUse SArg => true
  | TUse (SInst x), TUse (SInst y) | TUse (SCls x), TUse (SCls y) => Nat.eqb x y
  | _, _ => false
  end.
Definition outc_eqb (a b : outc) : bool :=
  match a, b with
  | OOk, OOk | OTypeErr, OTypeErr | OAttrErr, OAttrErr | ONameErr, ONameErr | ORunErr, ORunErr | OFuel, OFuel => true
  | _, _ => false
  end.
(* CPython's run of the printed module: trace and the class of the exception that ended it *)
Definition o_sem_case_ok (c : module * list tev * outc) : bool :=
  let '(M, tr, o) := c in
  match run_module 200 M with (tr', o') => list_eqb tev_eqb tr tr' && outc_eqb o o' end.

(* ============================================================================================== *)
(* Part U : object_oriented.fix_unconventional_class_definitions                                   *)
(* ============================================================================================== *)
(* `class C: <bindings>` followed by `C.a = v` statements; the rule moves the assignments into the class
   body.  Names (globals, class attributes) are numbers n<i> in ONE namespace (a class attribute hides
   the global of the same name inside the class body); names >= 40 are written __q<i> (mangled in a
   class body).  Values are opaque: constants, and results of logged calls g(k, v). *)
Inductive vexpr :=
| VConst (k : nat)
| VName (x : name)                 (* a plain name *)
| VAttr (a : name)                 (* C.a : an attribute of THE class *)
| VCall (k : nat) (arg : vexpr).   (* g(k, arg): logged *)
Inductive uval := UInt (k : nat) | URes (k : nat) (v : uval) | UHook (attrs : list name).
Definition ns := list (name * uval).
Fixpoint ns_get (n : ns) (x : name) : option uval :=
  match n with [] => None | (y, v) :: tl => if Nat.eqb x y then Some v else ns_get tl x end.
(* binding a name: replace in place, or append *)
Fixpoint ns_set (n : ns) (x : name) (v : uval) : ns :=
  match n with
  | [] => [(x, v)]
  | (y, w) :: tl => if Nat.eqb x y then (y, v) :: tl else (y, w) :: ns_set tl x v
  end.
Record uprog := mkU { u_globals : ns; u_hook : bool; u_body : list (name * vexpr);
                      u_post : list (name * vexpr); u_rest : list vexpr }.

(* look: plain names; attr: C.a (None = NameError / AttributeError) *)
Fixpoint veval (look attr : name -> option uval) (e : vexpr) (tr : list uval) : option uval * list uval :=
  match e with
  | VConst k => (Some (UInt k), tr)
  | VName x => (look x, tr)
  | VAttr a => (attr a, tr)
  | VCall k a => match veval look attr a tr with
                 | (Some v, tr') => (Some (URes k v), tr' ++ [URes k v])
                 | r => r
                 end
  end.
(* the class body: names are looked up in the class namespace first, the class itself does not exist yet *)
Fixpoint ubody (G : ns) (N : ns) (b : list (name * vexpr)) (tr : list uval) : option ns * list uval :=
  match b with
  | [] => (Some N, tr)
  | (a, e) :: tl =>
      match veval (fun x => match ns_get N x with Some v => Some v | None => ns_get G x end) (fun _ => None) e tr with
      | (Some v, tr') => ubody G (ns_set N a v) tl tr'
      | (None, tr') => (None, tr')
      end
  end.
(* C.a = v after the class statement: module scope *)
Fixpoint upost (G : ns) (N : ns) (b : list (name * vexpr)) (tr : list uval) : option ns * list uval :=
  match b with
  | [] => (Some N, tr)
  | (a, e) :: tl =>
      match veval (ns_get G) (ns_get N) e tr with
      | (Some v, tr') => upost G (ns_set N a v) tl tr'
      | (None, tr') => (None, tr')
      end
  end.
Fixpoint urest (G N : ns) (b : list vexpr) (tr : list uval) : bool * list uval :=
  match b with
  | [] => (true, tr)
  | e :: tl => match veval (ns_get G) (ns_get N) e tr with
               | (Some v, tr') => urest G N tl (tr' ++ [v])
               | (None, tr') => (false, tr')
               end
  end.
(* result: finished normally?, the log, the attributes of the class at the end.  A class with a
   decorator / a base with __init_subclass__ (u_hook) shows its attributes when it is created. *)
Definition urun (p : uprog) : bool * list uval * ns :=
  match ubody (u_globals p) [] (u_body p) [] with
  | (None, tr) => (false, tr, [])
  | (Some N, tr) =>
      let tr1 := if u_hook p then tr ++ [UHook (map fst N)] else tr in
      match upost (u_globals p) N (u_post p) tr1 with
      | (None, tr2) => (false, tr2, [])
      | (Some N2, tr2) => let (ok, tr3) := urest (u_globals p) N2 (u_rest p) tr2 in (ok, tr3, N2)
      end
  end.

Fixpoint v_names (e : vexpr) : list name :=
  match e with VConst _ => [] | VName x => [x] | VAttr _ => [] | VCall _ a => v_names a end.
Fixpoint v_reads_class (e : vexpr) : bool :=
  match e with VAttr _ => true | VCall _ a => v_reads_class a | _ => false end.
Definition u_mangled (a : name) : bool := 40 <=? a.
(* the longest prefix of the assignments that may move, given the names bound in the class body *)
Fixpoint fu_split (bound : list name) (post : list (name * vexpr)) : list (name * vexpr) * list (name * vexpr) :=
  match post with
  | [] => ([], [])
  | (a, e) :: tl =>
      if u_mangled a || v_reads_class e || existsb (fun x => nmem x bound) (v_names e) then ([], post)
      else let (mv, st) := fu_split (a :: bound) tl in ((a, e) :: mv, st)
  end.
Definition fu_model (p : uprog) : uprog :=
  let (mv, st) := fu_split (map fst (u_body p)) (u_post p) in
  mkU (u_globals p) (u_hook p) (u_body p ++ mv) st (u_rest p).

Fixpoint vexpr_eqb (a b : vexpr) : bool :=
  match a, b with
  | VConst x, VConst y | VName x, VName y | VAttr x, VAttr y => Nat.eqb x y
  | VCall k x, VCall j y => Nat.eqb k j && vexpr_eqb x y
  | _, _ => false
  end.
Definition bind_eqb (p q : name * vexpr) : bool := Nat.eqb (fst p) (fst q) && vexpr_eqb (snd p) (snd q).
Definition u_case_ok (c : uprog * list (name * vexpr) * list (name * vexpr)) : bool :=
  let '(p, body', post') := c in
  list_eqb bind_eqb (u_body (fu_model p)) body' && list_eqb bind_eqb (u_post (fu_model p)) post'.

(* ---- well-formedness guard used by the theorems of Part O (boolean, evaluated on examples):
        no class-body alias `a = m` has the name of a method of some class of the module ---- *)
Definition all_meth_names (M : module) : list name :=
  flat_map (fun k => map m_name (c_meths k)) (classes M).
Definition wf_mod (M : module) : bool :=
  forallb (fun k => forallb (fun a => negb (nmem (fst a) (all_meth_names M))) (c_alias k)) (classes M).

(* ---- plumbing for Part U: CPython's run of the printed program ---- *)
Fixpoint uval_eqb (a b : uval) : bool :=
  match a, b with
  | UInt x, UInt y => Nat.eqb x y
  | URes k v, URes j w => Nat.eqb k j && uval_eqb v w
  | UHook l, UHook m => list_eqb Nat.eqb l m
  | _, _ => false
  end.
Definition ns_eqb (a b : ns) : bool :=
  list_eqb (fun p q => Nat.eqb (fst p) (fst q) && uval_eqb (snd p) (snd q)) a b.
Definition u_sem_case_ok (c : uprog * bool * list uval * ns) : bool :=
  let '(p, ok, tr, N) := c in
  match urun p with (ok', tr', N') => Bool.eqb ok ok' && list_eqb uval_eqb tr tr' && ns_eqb N N' end.

(* ============================================================================================== *)
(* Part D : fixes.remove_duplicate_functions / abstractions.hash_node                               *)
(* ============================================================================================== *)
(* hash_node hashes the breadth-first walk of a tree: per node its type and plain fields (TK), and for
   Name / arg / FunctionDef nodes the name (TN; b = the occurrence binds the name: parameter, store,
   nested definition).  A name is hashed literally when it is preserved, otherwise as the number of
   first occurrences of names seen so far.  remove_duplicate_functions (after repair 45d5772) preserves
   the names that the function does not bind itself. *)
Inductive tok := TK (k : nat) | TN (x : name) (b : bool).
Inductive ctok := CK (k : nat) | CKeep (x : name) | CIdx (i : nat).
Fixpoint index_of (x : name) (l : list name) : option nat :=
  match l with
  | [] => None
  | y :: tl => if Nat.eqb x y then Some 0 else option_map S (index_of x tl)
  end.
Fixpoint canon_go (keep seen : list name) (l : list tok) : list ctok :=
  match l with
  | [] => []
  | TK k :: tl => CK k :: canon_go keep seen tl
  | TN x _ :: tl =>
      if nmem x keep then CKeep x :: canon_go keep seen tl
      else match index_of x seen with
           | Some i => CIdx i :: canon_go keep seen tl
           | None => CIdx (length seen) :: canon_go keep (seen ++ [x]) tl
           end
  end.
Definition tok_names (l : list tok) : list name :=
  flat_map (fun t => match t with TN x _ => [x] | _ => [] end) l.
Definition bound_names (l : list tok) : list name :=
  flat_map (fun t => match t with TN x true => [x] | _ => [] end) l.
(* fixes._names_bound_elsewhere *)
Definition free_names (l : list tok) : list name :=
  filter (fun x => negb (nmem x (bound_names l))) (tok_names l).
Definition canon (preserve : list name) (l : list tok) : list ctok :=
  canon_go (preserve ++ free_names l) [] l.
Definition ctok_eqb (a b : ctok) : bool :=
  match a, b with
  | CK x, CK y | CKeep x, CKeep y | CIdx x, CIdx y => Nat.eqb x y
  | _, _ => false
  end.
Definition dup_eqb (preserve : list name) (f g : list tok) : bool :=
  list_eqb ctok_eqb (canon preserve f) (canon preserve g).
(* the code before the repair: every name outside the preserve set is abstracted *)
Definition dup_eqb_old (preserve : list name) (f g : list tok) : bool :=
  list_eqb ctok_eqb (canon_go preserve [] f) (canon_go preserve [] g).
Definition d_case_ok (c : list tok * list tok * bool) : bool :=
  let '(f, g, merged) := c in Bool.eqb (dup_eqb [] f g) merged.
