(* C02, definition / class tranche -- models (no proofs in this file).

   Part L  fixes.undefine_unused_variables on MiniPy (MiniPyModel.v is the reference semantics):
           the rewrite `x = e  ->  e`, a liveness analysis with a checker for the rule's output
           (which assignments may be dropped), and the rule's own decision on straight-line code.
   Part O  an object model (classes with one base, instance / class / super lookup, plain / static /
           class methods, properties) with an executable semantics, and the models of
             object_oriented.remove_unused_self_cls, object_oriented.move_staticmethod_static_scope,
             fixes.delete_unused_functions_and_classes.
   Part U  object_oriented.fix_unconventional_class_definitions (class-body scope vs module scope).
   Part D  fixes.remove_duplicate_functions / abstractions.hash_node (first-occurrence numbering).

   The semantics (exec of MiniPy, run of Part O, ceval of Part U, fcall of Part D) are definitions
   (trusted), validated against CPython by harness/c02_cls.py on every run. *)
From Coq Require Import List Bool Arith.
Import ListNotations.
Require Import Pyrefact.Base Pyrefact.MiniPyModel.

(* ============================================================================================== *)
(* Part L : liveness                                                                              *)
(* ============================================================================================== *)

Definition vset := list var.
Definition vmem (x : var) (s : vset) : bool := existsb (Nat.eqb x) s.
Definition vremove (x : var) (s : vset) : vset := filter (fun y => negb (Nat.eqb x y)) s.
Definition vsubset (a b : vset) : bool := forallb (fun x => vmem x b) a.

Fixpoint t_reads (t : test) : vset :=
  match t with Known _ => [] | Unknown _ rd => rd | TNot t' => t_reads t' end.
Definition r_reads (e : rexpr) : vset :=
  match e with RVal _ => [] | RVar y => [y] | RTest t => t_reads t end.
(* read when the loop is entered / at the head of every iteration *)
Definition h_entry_reads (h : head) : vset :=
  match h with HFor (IUnknown _ rd) => rd | _ => [] end.
Definition h_iter_reads (h : head) : vset :=
  match h with HWhile t => t_reads t | _ => [] end.

(* what `x = e` becomes when the rule un-assigns it: the bare expression.  A bare constant or name
   does nothing; a bare opaque call is evaluated (event + oracle draw) and its value is dropped. *)
Definition drop_asg (e : rexpr) : stmt :=
  match e with RTest t => SIf t [] [] | _ => SPass end.

Fixpoint iter_n {A} (n : nat) (f : A -> A) (x : A) : A :=
  match n with O => x | S n' => iter_n n' f (f x) end.

(* variables live before s, given the variables live after it normally (o), at the target of a
   break (b), of a continue (c), and when the code is left by return / raise (x).
   n bounds the fixpoint iteration for loops; the checker below verifies the fixpoint. *)
Fixpoint lv_stmt (n : nat) (s : stmt) (o b c x : vset) {struct s} : vset :=
  let blk := fix blk (l : list stmt) (o b c : vset) {struct l} : vset :=
               match l with
               | [] => o
               | s' :: tl => lv_stmt n s' (blk tl o b c) b c x
               end in
  match s with
  | SPass => o
  | SEv _ rd => rd ++ o
  | SAssign v e => r_reads e ++ vremove v o
  | SReturn e => r_reads e ++ x
  | SRaise => x
  | SBreak => b
  | SContinue => c
  | SIf t b1 b2 => t_reads t ++ blk b1 o b c ++ blk b2 o b c
  | SLoop h bd el =>
      let x0 := h_iter_reads h ++ blk el o b c in
      h_entry_reads h ++ iter_n n (fun X => x0 ++ blk bd X o X) x0
  end.
Fixpoint lv_block (n : nat) (l : list stmt) (o b c x : vset) : vset :=
  match l with
  | [] => o
  | s :: tl => lv_stmt n s (lv_block n tl o b c x) b c x
  end.
Definition loop_x0 (n : nat) (h : head) (el : list stmt) (o b c x : vset) : vset :=
  h_iter_reads h ++ lv_block n el o b c x.
Definition loop_head (n : nat) (h : head) (bd el : list stmt) (o b c x : vset) : vset :=
  let x0 := loop_x0 n h el o b c x in
  iter_n n (fun X => x0 ++ lv_block n bd X o X x) x0.

(* checker: p' is p with some assignments un-assigned, each of them dead in p' *)
Fixpoint ok_stmt (n : nat) (s s' : stmt) (o b c x : vset) {struct s} : bool :=
  let blk := fix blk (l l' : list stmt) (o b c : vset) {struct l} : bool :=
               match l, l' with
               | [], [] => true
               | s1 :: tl, s1' :: tl' => ok_stmt n s1 s1' (lv_block n tl' o b c x) b c x && blk tl tl' o b c
               | _, _ => false
               end in
  match s, s' with
  | SAssign v e, _ =>
      stmt_eqb s s' || (stmt_eqb s' (drop_asg e) && negb (vmem v o))
  | SIf t b1 b2, SIf t' b1' b2' => test_eqb t t' && blk b1 b1' o b c && blk b2 b2' o b c
  | SLoop h bd el, SLoop h' bd' el' =>
      let X := loop_head n h' bd' el' o b c x in
      head_eqb h h'
      && vsubset (loop_x0 n h' el' o b c x ++ lv_block n bd' X o X x) X
      && blk bd bd' X o X && blk el el' o b c
  | _, _ => stmt_eqb s s'
  end.
Fixpoint ok_block (n : nat) (l l' : list stmt) (o b c x : vset) : bool :=
  match l, l' with
  | [], [] => true
  | s :: tl, s' :: tl' => ok_stmt n s s' (lv_block n tl' o b c x) b c x && ok_block n tl tl' o b c x
  | _, _ => false
  end.

(* a module: nothing is live at the end, break/continue do not occur outside loops *)
Definition uv_ok (n : nat) (p p' : list stmt) : bool := ok_block n p p' [] [] [] [].

(* ---- the rule's own decision on straight-line code (fixes._iter_unused_names with
        tracing.code_dependencies_outputs on a body of simple statements): the assignment `x = e` at
        position i is un-assigned iff the next statement that mentions x does not read it (or there is
        none).  `x = f(x)` reads x. ---- *)
Definition s_reads (s : stmt) : vset :=
  match s with SEv _ rd => rd | SAssign _ e => r_reads e | _ => [] end.
Definition s_writes (s : stmt) : vset := match s with SAssign x _ => [x] | _ => [] end.
Definition simple (s : stmt) : bool :=
  match s with SPass | SEv _ _ | SAssign _ _ => true | _ => false end.
(* is x read before it is written again in l ? *)
Fixpoint read_next (x : var) (l : list stmt) : bool :=
  match l with
  | [] => false
  | s :: tl => if vmem x (s_reads s) then true
               else if vmem x (s_writes s) then false
               else read_next x tl
  end.
Fixpoint uv_line (l : list stmt) : list stmt :=
  match l with
  | [] => []
  | SAssign x e :: tl =>
      (if read_next x tl then SAssign x e else drop_asg e) :: uv_line tl
  | s :: tl => s :: uv_line tl
  end.

(* plumbing for the correspondence: (p, what the real rule made of it) *)
Definition uv_case_ok (n : nat) (c : list stmt * list stmt) : bool := uv_ok n (fst c) (snd c).
Definition uv_line_case_ok (c : list stmt * list stmt) : bool :=
  forallb simple (fst c) && prog_eqb (uv_line (fst c)) (snd c).
