(* K6 -- chained comparisons (`0 < x <= 9`) as operands of the BoolOp branch of
   symbolic_math.simplify_boolean_expressions.

   The code as it is: regular_compare_template has `comparators=[object]`, so a Compare with two or more
   operators is never a bound; it is an operand like any other (BoundModel.OChain contributes no atom).
   That is sound because BoundProofs.simplify_sound / BoundValueProofs.simplify_ctx_sound quantify over
   every operand (corollaries below).

   A tempting generalisation lets the LINKS of a chain (`0 < x`, `x <= 9`) take part in the pairwise bound
   analysis next to the chain (as nested, non-removable constraints).  A chain is the CONJUNCTION of its
   links: under `and` the links are implied by the operand list and the generalisation is sound
   ([links_and_sound], ready for a future rule); under `or` a conjunct is treated as a disjunct and
   `0 < x < 10 or y > 3` becomes True ([links_or_refuted]). *)
From Coq Require Import List ZArith Bool Lia.
Import ListNotations.
Require Import Pyrefact.BoundModel Pyrefact.BoundProofs Pyrefact.BoundValueProofs.
Open Scope Z_scope.

(* ---------- a chain means the conjunction of its links ---------- *)
(* a link between the unparsed text and a literal is an ordinary bound; a link between two texts or two
   literals is a one-operator comparison the bound analysis skips ("both unparsed" / "pure literal") *)
Definition link_operand (l : cterm) (op : bop) (r : cterm) : operand :=
  match l, r with
  | TKey k, TLit c => OCmp k op c false
  | TLit c, TKey k => OCmp k op c true
  | _, _ => OChain l [(op, r)]
  end.

Fixpoint links_of (l : cterm) (ls : list (bop * cterm)) : list operand :=
  match ls with
  | [] => []
  | (op, r) :: tl => link_operand l op r :: links_of r tl
  end.

Lemma link_operand_sem : forall rho sigma l op r,
  eval rho sigma (link_operand l op r) = cmp_sem op (term_val rho l) (term_val rho r).
Proof.
  intros rho sigma [k|c] op [k'|c']; cbn [link_operand eval chain_eval chain_sem term_val];
    try reflexivity; apply andb_true_r.
Qed.

Theorem chain_is_conjunction : forall rho sigma t0 ls,
  eval rho sigma (OChain t0 ls) = eval_list rho sigma true (links_of t0 ls).
Proof.
  intros rho sigma t0 ls. unfold eval_list.
  change (eval rho sigma (OChain t0 ls)) with (chain_sem rho (term_val rho t0) ls).
  revert t0. induction ls as [|[op r] tl IH]; intros t0.
  - reflexivity.
  - cbn [links_of chain_sem]. rewrite eval_OBool_cons, link_operand_sem. cbv zeta.
    rewrite <- IH. reflexivity.
Qed.

(* ---------- chains are opaque to the rule as it is ---------- *)
Lemma chain_no_atoms : forall isand d t0 ls,
  atom_of d (OChain t0 ls) = [] /\ nested_atoms isand (OChain t0 ls) = [].
Proof. intros. split; reflexivity. Qed.

(* the modelled rule is sound on operand lists that contain chains (it keeps or drops a chain as a
   whole, it never looks inside): an instance of the general theorems *)
Corollary chain_operand_opaque_sound :
  forall ctx isand pre t0 ls post rho tau,
    let vs := pre ++ OChain t0 ls :: post in
    match simplify_ctx ctx isand vs with
    | RConst b =>
        if ctx then truthy (opval rho tau (OBool isand vs)) = b
        else opval rho tau (OBool isand vs) = VB b
    | RValues vs' =>
        if ctx then truthy (opval rho tau (OBool isand vs')) = truthy (opval rho tau (OBool isand vs))
        else opval rho tau (OBool isand vs') = opval rho tau (OBool isand vs)
    | RNone => True
    end.
Proof. intros ctx isand pre t0 ls post rho tau vs. apply simplify_ctx_sound. Qed.

Definition ch_0_x_10 : operand := OChain (TLit 0) [(BLt, TKey 0%nat); (BLt, TLit 10)].

(* `0 < x < 10 or y > 3` is left alone; `0 < x < 10 and x > 5 and x > 3` loses `x > 3` only *)
Example chain_opaque_or : simplify_ctx false false [ch_0_x_10; OCmp 1 BGt 3 false] = RNone.
Proof. vm_compute. reflexivity. Qed.
Example chain_opaque_and :
  simplify_ctx false true [ch_0_x_10; OCmp 0 BGt 5 false; OCmp 0 BGt 3 false] = RValues [ch_0_x_10; OCmp 0 BGt 5 false].
Proof. vm_compute. reflexivity. Qed.

(* ---------- the generalisation: links take part in the analysis ---------- *)
(* every chain among the operands (and among the operands of nested same-operator BoolOps, which the rule
   flattens) is accompanied by its links, as members of a nested same-operator BoolOp: exactly the
   position of constraints that are analysed but are not direct operands, hence never removed *)
Fixpoint with_links (isand : bool) (o : operand) : operand :=
  match o with
  | OChain t0 ls => OBool isand (o :: links_of t0 ls)
  | OBool a vs =>
      if Bool.eqb a isand then
        OBool a ((fix go (l : list operand) : list operand :=
                    match l with [] => [] | v :: tl => with_links isand v :: go tl end) vs)
      else o
  | _ => o
  end.

Definition simplify_links (isand : bool) (vs : list operand) : result :=
  simplify isand (map (with_links isand) vs).

Lemma with_links_OBool : forall isand a vs,
  with_links isand (OBool a vs) = if Bool.eqb a isand then OBool a (map (with_links isand) vs) else OBool a vs.
Proof.
  intros isand a vs. cbn [with_links]. destruct (Bool.eqb a isand); reflexivity.   (* the local fix IS map *)
Qed.

Lemma eval_list_map_ext : forall rho sigma a (f : operand -> operand) vs,
  Forall (fun v => eval rho sigma (f v) = eval rho sigma v) vs ->
  eval rho sigma (OBool a (map f vs)) = eval rho sigma (OBool a vs).
Proof.
  intros rho sigma a f vs H. induction H as [|v tl Hv Htl IH]; [reflexivity|].
  cbn [map]. rewrite !eval_OBool_cons, Hv, IH. reflexivity.
Qed.

(* under `and` the links add nothing: chain and (its links) = chain *)
Lemma with_links_and : forall rho sigma o, eval rho sigma (with_links true o) = eval rho sigma o.
Proof.
  intros rho sigma o.
  induction o as [k op c fl | i | x | o IH | a vs IH | t0 ls] using operand_ind'; try reflexivity.
  - rewrite with_links_OBool. destruct (Bool.eqb a true); [|reflexivity].
    apply eval_list_map_ext. exact IH.
  - cbn [with_links]. rewrite eval_OBool_cons.
    change (eval rho sigma (OBool true (links_of t0 ls))) with (eval_list rho sigma true (links_of t0 ls)).
    rewrite <- chain_is_conjunction. apply andb_diag.
Qed.

Lemma with_links_and_list : forall rho sigma vs,
  eval_list rho sigma true (map (with_links true) vs) = eval_list rho sigma true vs.
Proof.
  intros rho sigma vs. unfold eval_list. apply eval_list_map_ext.
  apply Forall_forall. intros v _. apply with_links_and.
Qed.

(* the kept operands are operands of the input (with their links) *)
Lemma incl_map_inv : forall (f : operand -> operand) ws vs,
  incl ws (map f vs) -> exists vs', ws = map f vs' /\ incl vs' vs.
Proof.
  intros f ws vs. induction ws as [|w tl IH]; intros H.
  - exists []. split; [reflexivity | intros x []].
  - assert (Hw : In w (map f vs)) by (apply H; left; reflexivity).
    apply in_map_iff in Hw. destruct Hw as [v [Hv Hin]].
    destruct IH as [vs' [E Hi]]; [intros x Hx; apply H; right; exact Hx|].
    exists (v :: vs'). split; [cbn [map]; rewrite Hv, E; reflexivity|].
    intros x [Hx|Hx]; [subst; exact Hin | apply Hi; exact Hx].
Qed.

(* T17.14: the bound analysis with the links of chained comparisons is sound for an `and` node:
   a constant verdict is the truth value of the ORIGINAL operand list, and what is kept are original
   operands vs' (a sub-list of the input) whose conjunction has the truth value of the input *)
Theorem links_and_sound :
  forall vs rho sigma,
    match simplify_links true vs with
    | RConst b => eval_list rho sigma true vs = b
    | RValues ws =>
        exists vs', ws = map (with_links true) vs' /\ incl vs' vs /\
                    eval_list rho sigma true vs' = eval_list rho sigma true vs
    | RNone => True
    end.
Proof.
  intros vs rho sigma. unfold simplify_links.
  pose proof (simplify_sound true (map (with_links true) vs) rho sigma) as Hs.
  pose proof (simplify_incl true (map (with_links true) vs)) as Hi.
  destruct (simplify true (map (with_links true) vs)) as [b|ws|]; [| |exact I].
  - rewrite with_links_and_list in Hs. exact Hs.
  - destruct (incl_map_inv (with_links true) ws vs (Hi ws eq_refl)) as [vs' [E Hin]].
    exists vs'. split; [exact E|]. split; [exact Hin|].
    rewrite <- (with_links_and_list rho sigma vs'), <- E, Hs. apply with_links_and_list.
Qed.

(* the theorem is not vacuous: `0 < x < 10 and x > 20` is False, `0 < x < 10 and x < 20 and p` loses `x < 20` *)
Example links_and_false : simplify_links true [ch_0_x_10; OCmp 0 BGt 20 false] = RConst false.
Proof. vm_compute. reflexivity. Qed.
Example links_and_redundant :
  simplify_links true [ch_0_x_10; OCmp 0 BLt 20 false; OVar 0] = RValues (map (with_links true) [ch_0_x_10; OVar 0]).
Proof. vm_compute. reflexivity. Qed.

(* R17.14: the same analysis for an `or` node is wrong: `0 < x < 10 or y > 3` -> True, false at x = y = -40;
   already the underlying identity fails: (chain or its links) is not the chain *)
Theorem links_or_refuted :
  exists vs rho sigma b, simplify_links false vs = RConst b /\ eval_list rho sigma false vs <> b.
Proof.
  exists [ch_0_x_10; OCmp 1 BGt 3 false], (fun _ => -40), (fun _ => false), true.
  split; [vm_compute; reflexivity | vm_compute; discriminate].
Qed.

Theorem with_links_or_refuted :
  exists rho sigma o, eval rho sigma (with_links false o) <> eval rho sigma o.
Proof. exists (fun _ => -40), (fun _ => false), ch_0_x_10. vm_compute. discriminate. Qed.

(* a second shape of the same mistake: a link makes a bound "redundant" under `or`:
   `x < y < 10 or y < -3` keeps the chain only (y < -3 is stronger than the link y < 10); differs at x = y = -5 *)
Definition ch_x_y_10 : operand := OChain (TKey 0%nat) [(BLt, TKey 1%nat); (BLt, TLit 10)].
Example links_or_redundant_wrong :
  simplify_links false [ch_x_y_10; OCmp 1 BLt (-3) false] = RValues (map (with_links false) [ch_x_y_10]) /\
  eval_list (fun _ => -5) (fun _ => false) false [ch_x_y_10] <>
  eval_list (fun _ => -5) (fun _ => false) false [ch_x_y_10; OCmp 1 BLt (-3) false].
Proof. split; [vm_compute; reflexivity | vm_compute; discriminate]. Qed.

Print Assumptions chain_is_conjunction.
Print Assumptions chain_operand_opaque_sound.
Print Assumptions links_and_sound.
Print Assumptions links_or_refuted.
