(* K1 side model -- the character loop of processing.remove_nodes (processing.py:279-308, after
   the repair F03-2 that removed the three-character skip): keep-mask + heap of "pass" positions.
   No proofs in this file. *)
From Coq Require Import List Arith Bool.
Import ListNotations.

Section RN.
Variable A : Type.
Variable PASS : list A.              (* the five characters "pass\n" *)

(* heapq pops in ascending order: the heap is modelled by its sorted content *)
Fixpoint insert_sorted (x : nat) (l : list nat) : list nat :=
  match l with
  | [] => [x]
  | y :: tl => if x <=? y then x :: l else y :: insert_sorted x tl
  end.
Definition heap_order (l : list nat) : list nat := fold_right insert_sorted [] l.

(* for i, char, keep in zip(range(len(source)), source, keep_mask):
       if i == next_pass: chars.extend("pass\n")
       else:
           if i > next_pass: next_pass = heapq.heappop(passes)
           if keep: chars.append(char)
   next = next_pass, rest = what is still in the heap, in pop order *)
Fixpoint rn_loop (i : nat) (src : list A) (keep : list bool) (next : nat) (rest : list nat) : list A :=
  match src, keep with
  | c :: src', k :: keep' =>
      if i =? next then PASS ++ rn_loop (S i) src' keep' next rest
      else
        let '(next', rest') :=
          if next <? i
          then match rest with n :: r => (n, r) | [] => (next, []) end   (* heappop; [] unreachable: sentinel *)
          else (next, rest) in
        (if k then [c] else []) ++ rn_loop (S i) src' keep' next' rest'
  | _, _ => []
  end.

(* passes = [len(source) + 1] + [start of the first child of every emptied body]; heapify; pop *)
Definition remove_nodes_model (src : list A) (keep : list bool) (ps : list nat) : list A :=
  match heap_order ((length src + 1) :: ps) with
  | n :: r => rn_loop 0 src keep n r
  | [] => []
  end.

(* reference reading: every kept character survives, in order, and one "pass\n" is emitted in
   front of position p for every pass position p *)
Definition emit_ideal (P : nat -> bool) (i : nat) (c : A) (k : bool) : list A :=
  (if P i then PASS else []) ++ (if k then [c] else []).
Fixpoint rn_ideal (P : nat -> bool) (i : nat) (src : list A) (keep : list bool) : list A :=
  match src, keep with
  | c :: src', k :: keep' => emit_ideal P i c k ++ rn_ideal P (S i) src' keep'
  | _, _ => []
  end.

End RN.

Definition in_list (ps : list nat) (i : nat) : bool := existsb (Nat.eqb i) ps.

(* structural facts about what the first half of remove_nodes hands to the loop (boolean, checked
   by the harness on every case): pass positions ascending and at least 2 apart, inside the text,
   each on a removed character (it is the first character of a removed statement) *)
Fixpoint gaps_ok (ps : list nat) : bool :=
  match ps with
  | a :: ((b :: _) as tl) => (a + 2 <=? b) && gaps_ok tl
  | _ => true
  end.
Definition in_range (n : nat) (ps : list nat) : bool := forallb (fun p => p <? n) ps.
Definition on_removed (keep : list bool) (ps : list nat) : bool :=
  forallb (fun p => negb (nth p keep false)) ps.

(* correspondence case: source, keep mask, pass positions (ascending), expected output *)
Record rn_case := mkRn { rn_src : list nat; rn_keep : list bool; rn_ps : list nat; rn_exp : list nat }.
Definition PASS_TEXT : list nat := [112; 97; 115; 115; 10].
Fixpoint natlist_eqb (a b : list nat) : bool :=
  match a, b with
  | [], [] => true
  | x :: a', y :: b' => (x =? y) && natlist_eqb a' b'
  | _, _ => false
  end.
Definition rn_case_ok (c : rn_case) : bool :=
  natlist_eqb (remove_nodes_model nat PASS_TEXT (rn_src c) (rn_keep c) (rn_ps c)) (rn_exp c).
Definition rn_guards_ok (c : rn_case) : bool :=
  gaps_ok (rn_ps c) && in_range (length (rn_src c)) (rn_ps c) && on_removed (rn_keep c) (rn_ps c)
  && (length (rn_keep c) =? length (rn_src c)).
