(* K6 -- reference semantics and per-instance validation of the sums symbolic_math.simplify_math_iterators
   hands to sympy (symbolic_math._integrate_over / _sum_range / _sum_constants, symbolic_math.py:170-260).
   sympy is NOT modelled.  [comp_sum] is what Python computes for
       sum(<elt> for x1 in <iter1> for x2 in <iter2> ...)
   over the integers (a definition, validated against CPython by the harness); the closed form the real
   rule emits is parsed back into [aexp] and compared with it: by computation on a box of valuations of
   the free variables (sum_case_code), and, for one range with step 1, by the telescoping theorem of
   SumPolyProofs.v whose two premises are polynomial identities the generated instance files prove with
   `field`.  Arithmetic is exact (Q): Python's `/` on ints is a float division -- floats are outside. *)
From Coq Require Import List ZArith QArith Qround Bool.
Import ListNotations.
Require Import Pyrefact.RangeModel Pyrefact.BoolEquivModel.
Open Scope Z_scope.

Inductive aexp :=
| ANum (z : Z)
| AVar (i : nat)
| ANeg (e : aexp)
| AAdd (a b : aexp)
| ASub (a b : aexp)
| AMul (a b : aexp)
| ADiv (a b : aexp)
| APow (a : aexp) (n : nat)
| AFdiv (a b : aexp).   (* Python's floor division a // b *)

Fixpoint qpow (q : Q) (n : nat) : Q := match n with O => 1%Q | S n' => (q * qpow q n')%Q end.

(* value over the rationals; variables are integers *)
Fixpoint aeval (rho : nat -> Z) (e : aexp) : Q :=
  match e with
  | ANum z => inject_Z z
  | AVar i => inject_Z (rho i)
  | ANeg a => (- aeval rho a)%Q
  | AAdd a b => (aeval rho a + aeval rho b)%Q
  | ASub a b => (aeval rho a - aeval rho b)%Q
  | AMul a b => (aeval rho a * aeval rho b)%Q
  | ADiv a b => (aeval rho a / aeval rho b)%Q
  | APow a n => qpow (aeval rho a) n
  | AFdiv a b => inject_Z (Qfloor (aeval rho a / aeval rho b))
  end.

(* integer value of a range bound / list element: no division *)
Fixpoint zeval (rho : nat -> Z) (e : aexp) : option Z :=
  match e with
  | ANum z => Some z
  | AVar i => Some (rho i)
  | ANeg a => option_map Z.opp (zeval rho a)
  | AAdd a b => match zeval rho a, zeval rho b with Some x, Some y => Some (x + y) | _, _ => None end
  | ASub a b => match zeval rho a, zeval rho b with Some x, Some y => Some (x - y) | _, _ => None end
  | AMul a b => match zeval rho a, zeval rho b with Some x, Some y => Some (x * y) | _, _ => None end
  | ADiv _ _ => None
  | APow a n => option_map (fun x => Z.pow x (Z.of_nat n)) (zeval rho a)
  | AFdiv a b => match zeval rho a, zeval rho b with
                 | Some x, Some y => if y =? 0 then None else Some (x / y)
                 | _, _ => None
                 end
  end.

(* one `for x in ...` clause: a range (1-3 arguments are normalised by the harness reader) or a
   tuple / list / set display of integer expressions *)
Inductive gen :=
| GRange (x : nat) (lo hi st : aexp)
| GList (x : nat) (es : list aexp) (isset : bool).

Definition upd (rho : nat -> Z) (x : nat) (z : Z) : nat -> Z :=
  fun y => if Nat.eqb y x then z else rho y.

Definition qsum (l : list (option Q)) : option Q :=
  fold_right (fun o acc => match o, acc with Some a, Some b => Some (a + b)%Q | _, _ => None end) (Some 0%Q) l.

Fixpoint zevals (rho : nat -> Z) (es : list aexp) : option (list Z) :=
  match es with
  | [] => Some []
  | e :: tl => match zeval rho e, zevals rho tl with Some z, Some zs => Some (z :: zs) | _, _ => None end
  end.

(* the elements a generator clause iterates over; None: not an integer iteration (division in a bound,
   step 0) *)
Definition gen_elems (rho : nat -> Z) (g : gen) : option (nat * list Z) :=
  match g with
  | GRange x lo hi st =>
      match zeval rho lo, zeval rho hi, zeval rho st with
      | Some a, Some b, Some s => if s =? 0 then None else Some (x, zrange a b s)
      | _, _, _ => None
      end
  | GList x es isset =>
      match zevals rho es with
      | Some zs => Some (x, if isset then dedup Z.eqb zs else zs)
      | None => None
      end
  end.

Fixpoint comp_sum (gens : list gen) (rho : nat -> Z) (e : aexp) : option Q :=
  match gens with
  | [] => Some (aeval rho e)
  | g :: tl =>
      match gen_elems rho g with
      | Some (x, zs) => qsum (map (fun z => comp_sum tl (upd rho x z) e) zs)
      | None => None
      end
  end.

(* does some range that is iterated have its bounds the wrong way round (stop < start for a positive
   step, stop > start for a negative one)?  This is the class of known finding F17-1: sympy's
   summation convention gives the negated sum of the missing terms, Python gives 0. *)
Fixpoint any_reversed (gens : list gen) (rho : nat -> Z) : bool :=
  match gens with
  | [] => false
  | g :: tl =>
      (match g with
       | GRange _ lo hi st =>
           match zeval rho lo, zeval rho hi, zeval rho st with
           | Some a, Some b, Some s => if 0 <? s then b <? a else a <? b
           | _, _, _ => false
           end
       | GList _ _ _ => false
       end) ||
      match gen_elems rho g with
      | Some (x, zs) => existsb (fun z => any_reversed tl (upd rho x z)) zs
      | None => false
      end
  end.

Definition Qopt_eqb (a : option Q) (b : Q) : bool :=
  match a with Some x => Qeq_bool x b | None => false end.

(* one output of the real rule: generators, element expression, emitted closed form, free variables,
   box [lo, hi] for the free variables.
   verdict: 0 = equal on the whole box; 1 = differs only where a range is reversed (F17-1);
            2 = differs at a valuation where no range is reversed; 3 = outside the model somewhere *)
Definition sum_case := (list gen * aexp * aexp * list nat * (Z * Z))%type.

Definition sum_point_code (gens : list gen) (elt out : aexp) (asg : list (nat * Z)) : nat :=
  let rho := lookup asg in
  match comp_sum gens rho elt with
  | None => 3
  | Some v => if Qeq_bool v (aeval rho out) then 0 else if any_reversed gens rho then 1 else 2
  end%nat.

Definition sum_case_code (c : sum_case) : nat :=
  let '(gens, elt, out, fv, (lo, hi)) := c in
  fold_right Nat.max 0%nat (map (sum_point_code gens elt out) (assignments fv (zrange lo (hi + 1) 1))).

(* validation of comp_sum against CPython: value of sum(...) at a valuation, as a fraction *)
Definition comp_sum_case_ok (c : list gen * aexp * list (nat * Z) * (Z * positive)) : bool :=
  let '(gens, elt, asg, (n, d)) := c in Qopt_eqb (comp_sum gens (lookup asg) elt) (n # d).
