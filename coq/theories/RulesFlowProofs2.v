(* C02, control-flow tranche, part 2 -- breakout_common_code_in_ifs and move_before_loop. *)
From Coq Require Import List Bool Arith Lia.
Import ListNotations.
Require Import Pyrefact.MiniPyModel Pyrefact.MiniPyProofs Pyrefact.RulesFlowModel Pyrefact.RulesFlowProofs.

(* ------------------------------------------------------------------------------------------ *)
(* the boolean equalities decide equality *)
Lemma list_eqb_eq {A} (eqb : A -> A -> bool) :
  (forall a b, eqb a b = true -> a = b) -> forall l m, list_eqb eqb l m = true -> l = m.
Proof.
  intros H. induction l as [|a l IH]; destruct m as [|b m]; simpl; try discriminate; auto.
  intros E. apply andb_true_iff in E. destruct E as [E1 E2]. f_equal; auto.
Qed.
Lemma nat_list_eqb_eq l m : list_eqb Nat.eqb l m = true -> l = m.
Proof. apply list_eqb_eq. intros a b H. apply Nat.eqb_eq; auto. Qed.
Lemma bool_eqb_eq a b : Bool.eqb a b = true -> a = b.
Proof. destruct a, b; simpl; congruence. Qed.
Lemma val_eqb_eq a b : val_eqb a b = true -> a = b.
Proof.
  destruct a, b; simpl; try discriminate.
  - intros H. apply bool_eqb_eq in H. congruence.
  - intros H. apply andb_true_iff in H. destruct H as [H1 H2].
    apply bool_eqb_eq in H1. apply Nat.eqb_eq in H2. congruence.
Qed.
Lemma test_eqb_eq a : forall b, test_eqb a b = true -> a = b.
Proof.
  induction a as [x|i r|u IH]; destruct b; simpl; try discriminate.
  - intros H. apply bool_eqb_eq in H. congruence.
  - intros H. apply andb_true_iff in H. destruct H as [H1 H2].
    apply Nat.eqb_eq in H1. apply nat_list_eqb_eq in H2. congruence.
  - intros H. f_equal. auto.
Qed.
Lemma rexpr_eqb_eq a b : rexpr_eqb a b = true -> a = b.
Proof.
  destruct a, b; simpl; try discriminate; intros H.
  - apply val_eqb_eq in H. congruence.
  - apply Nat.eqb_eq in H. congruence.
  - apply test_eqb_eq in H. congruence.
Qed.
Lemma head_eqb_eq a b : head_eqb a b = true -> a = b.
Proof.
  destruct a as [t|i], b as [u|j]; simpl; try discriminate; intros H.
  - apply test_eqb_eq in H. congruence.
  - destruct i, j; simpl in H; try discriminate.
    + apply Nat.eqb_eq in H. congruence.
    + apply andb_true_iff in H. destruct H as [H1 H2].
      apply Nat.eqb_eq in H1. apply nat_list_eqb_eq in H2. congruence.
Qed.

Definition eqb_ok (a : stmt) : Prop := forall b, stmt_eqb a b = true -> a = b.

Lemma blk_eqb_eq l :
  Forall eqb_ok l ->
  forall m,
    (fix blk (l m : list stmt) : bool :=
       match l, m with
       | [], [] => true
       | x :: l', y :: m' => stmt_eqb x y && blk l' m'
       | _, _ => false
       end) l m = true -> l = m.
Proof.
  induction l as [|a l IH]; intros HF m; destruct m as [|b m]; try discriminate; auto.
  inversion HF as [|? ? Ha HF']; subst. intros E. apply andb_true_iff in E. destruct E as [E1 E2].
  f_equal; [apply Ha; exact E1|apply IH; assumption].
Qed.

Lemma stmt_eqb_eq a : eqb_ok a.
Proof.
  induction a using stmt_ind'; unfold eqb_ok.
  - destruct a; try discriminate; destruct b; simpl; try discriminate; auto; intros E.
    + apply andb_true_iff in E. destruct E as [E1 E2].
      apply Nat.eqb_eq in E1. apply nat_list_eqb_eq in E2. congruence.
    + apply andb_true_iff in E. destruct E as [E1 E2].
      apply Nat.eqb_eq in E1. apply rexpr_eqb_eq in E2. congruence.
    + apply rexpr_eqb_eq in E. congruence.
  - destruct b0; simpl; try discriminate. intros E.
    apply andb_true_iff in E. destruct E as [E E3]. apply andb_true_iff in E. destruct E as [E1 E2].
    apply test_eqb_eq in E1. apply (blk_eqb_eq _ H) in E2. apply (blk_eqb_eq _ H0) in E3. congruence.
  - destruct b0; simpl; try discriminate. intros E.
    apply andb_true_iff in E. destruct E as [E E3]. apply andb_true_iff in E. destruct E as [E1 E2].
    apply head_eqb_eq in E1. apply (blk_eqb_eq _ H) in E2. apply (blk_eqb_eq _ H0) in E3. congruence.
Qed.

Lemma all_same_spec l : all_same l = true -> forall y, In y l -> y = hd SPass l.
Proof.
  destruct l as [|x tl]; [discriminate|]. simpl. intros H y [<-|Hy]; [reflexivity|].
  rewrite forallb_forall in H. symmetry. apply stmt_eqb_eq. apply H. exact Hy.
Qed.

(* ------------------------------------------------------------------------------------------ *)
(* lists *)
Lemma split_last_spec {A} (l : list A) i z : split_last l = Some (i, z) -> l = i ++ [z].
Proof.
  revert i z. induction l as [|x tl IH]; intros i z H; [discriminate|].
  simpl in H. destruct tl as [|y tl'].
  - inversion H; subst. reflexivity.
  - destruct (split_last (y :: tl')) as [[i' z']|] eqn:E; [|discriminate].
    inversion H; subst. simpl. f_equal. apply IH. reflexivity.
Qed.

Lemma pick_front b x : pick true b = Some x -> exists tl, b = x :: tl.
Proof. destruct b; simpl; [discriminate|]. intros H; inversion H; subst. eauto. Qed.
Lemma pick_back b x : pick false b = Some x -> exists i, split_last b = Some (i, x) /\ b = i ++ [x].
Proof.
  unfold pick. destruct (split_last b) as [[i z]|] eqn:E; simpl; [|discriminate].
  intros H; inversion H; subst. exists i. split; [reflexivity|apply split_last_spec; exact E].
Qed.

(* ------------------------------------------------------------------------------------------ *)
(* moving a common LAST statement behind the `if` is always sound *)
Lemma if_tail t B E X : equiv [SIf t (B ++ [X]) (E ++ [X])] [SIf t B E; X].
Proof.
  intros o st r. rewrite runs_single, runs_if. simpl.
  destruct (truthy (fst (eval_test o st t))); rewrite runs_app; tauto.
Qed.

Lemma fixb_app b q : equiv (fixb b ++ q) (b ++ q).
Proof. apply equiv_app; [apply fixb_equiv|apply equiv_refl]. Qed.

(* a leaf is either kept because it blocks, or it is the common statement *)
Definition leaf_ok (nb : bool) (X y : stmt) : Prop :=
  (nb = true /\ is_blocking y PNone = true) \/ y = X.

Lemma leaf_case nb X s :
  leaf_ok nb X s -> equiv [s] ((if nb && is_blocking s PNone then [s] else []) ++ [X]).
Proof.
  intros H. destruct (nb && is_blocking s PNone) eqn:E.
  - apply andb_true_iff in E. destruct E as [_ E].
    apply equiv_sym, (cut_after [s] [X]), anyb_blocks. unfold anyb. simpl. rewrite E. reflexivity.
  - destruct H as [[-> Hb]| ->]; [rewrite Hb in E; discriminate|apply equiv_refl].
Qed.

Lemma strip_tail nb X n : forall s l,
  leaves false n s = Some l -> (forall y, In y l -> leaf_ok nb X y) ->
  equiv [s] (strip false nb n s ++ [X]).
Proof.
  induction n as [|n IH]; intros s l Hl Hall; [discriminate|].
  cbn [leaves] in Hl.
  destruct s; try (inversion Hl; subst; simpl; apply leaf_case; apply Hall; left; reflexivity).
  destruct (pick false body) as [x|] eqn:Px; [|discriminate].
  destruct (pick false orelse) as [y|] eqn:Py; [|discriminate].
  destruct (leaves false n x) as [l1|] eqn:L1; [|discriminate].
  destruct (leaves false n y) as [l2|] eqn:L2; [|discriminate].
  inversion Hl; subst.
  destruct (pick_back _ _ Px) as [ib [Sb Eb]]. destruct (pick_back _ _ Py) as [ie [Se Ee]].
  assert (Hx : equiv [x] (strip false nb n x ++ [X])).
  { eapply IH; eauto. intros; apply Hall, in_or_app; auto. }
  assert (Hy : equiv [y] (strip false nb n y ++ [X])).
  { eapply IH; eauto. intros; apply Hall, in_or_app; auto. }
  simpl. rewrite Sb, Se.
  eapply equiv_trans; [|apply if_tail].
  apply equiv_if.
  - rewrite Eb at 1. eapply equiv_trans; [apply equiv_app; [apply equiv_refl|exact Hx]|].
    rewrite app_assoc. apply equiv_sym, fixb_app.
  - rewrite Ee at 1. eapply equiv_trans; [apply equiv_app; [apply equiv_refl|exact Hy]|].
    rewrite app_assoc. apply equiv_sym, fixb_app.
Qed.

(* ------------------------------------------------------------------------------------------ *)
(* moving a common FIRST statement before the `if` is sound when it commutes with the test *)
Lemma eval_test_set_var o st x v t :
  existsb (Nat.eqb x) (test_reads t) = false ->
  eval_test o (set_var x v st) t = (fst (eval_test o st t), set_var x v (snd (eval_test o st t))).
Proof.
  induction t as [b|i rd|u IH]; simpl; intros Hr.
  - reflexivity.
  - unfold draw, emit, set_var. simpl. f_equal. f_equal. f_equal. f_equal.
    apply map_ext_in. intros a Ha. apply get_upd_other. intros ->.
    assert (existsb (Nat.eqb x) rd = true) by (apply existsb_exists; exists x; split; [exact Ha|apply Nat.eqb_refl]).
    congruence.
  - rewrite (IH Hr). destruct (eval_test o st u); reflexivity.
Qed.

Lemma head_top X t B E : commutes X t = true -> equiv [SIf t (X :: B) (X :: E)] (X :: [SIf t B E]).
Proof.
  unfold commutes. intros Hc. destruct (tval t) as [v|] eqn:Et.
  - (* literal test *)
    destruct v.
    + eapply equiv_trans; [apply if_true; exact Et|]. apply equiv_cons, equiv_sym, if_true; exact Et.
    + eapply equiv_trans; [apply if_false; exact Et|]. apply equiv_cons, equiv_sym, if_false; exact Et.
  - destruct X; try discriminate. destruct e; try discriminate.
    apply negb_true_iff in Hc.
    intros o st r. rewrite runs_single, runs_assign. simpl runs1. unfold eval_rexpr. simpl fst. simpl snd.
    rewrite runs_single. simpl runs1. rewrite (eval_test_set_var o st x v t Hc). simpl fst. simpl snd.
    destruct (truthy (fst (eval_test o st t))); rewrite runs_assign; unfold eval_rexpr; simpl; tauto.
Qed.

Lemma strip_head X n : forall s l,
  leaves true n s = Some l -> (forall y, In y l -> y = X) ->
  forallb (commutes X) (front_tests n s) = true ->
  equiv [s] (X :: strip true false n s).
Proof.
  induction n as [|n IH]; intros s l Hl Hall Hc; [discriminate|].
  cbn [leaves] in Hl.
  destruct s; try (inversion Hl; subst; simpl; rewrite (Hall _ (or_introl eq_refl)); apply equiv_refl).
  destruct (pick true body) as [x|] eqn:Px; [|discriminate].
  destruct (pick true orelse) as [y|] eqn:Py; [|discriminate].
  destruct (leaves true n x) as [l1|] eqn:L1; [|discriminate].
  destruct (leaves true n y) as [l2|] eqn:L2; [|discriminate].
  inversion Hl; subst.
  destruct (pick_front _ _ Px) as [tb ->]. destruct (pick_front _ _ Py) as [te ->].
  cbn [front_tests] in Hc. simpl in Hc. apply andb_true_iff in Hc. destruct Hc as [Hct Hc].
  rewrite forallb_app in Hc. apply andb_true_iff in Hc. destruct Hc as [Hcx Hcy].
  assert (Hx : equiv [x] (X :: strip true false n x)).
  { eapply IH; eauto. intros; apply Hall, in_or_app; auto. }
  assert (Hy : equiv [y] (X :: strip true false n y)).
  { eapply IH; eauto. intros; apply Hall, in_or_app; auto. }
  cbn [strip].
  eapply equiv_trans; [|apply equiv_cons, equiv_if; apply equiv_sym, fixb_equiv].
  eapply equiv_trans; [|apply head_top; exact Hct].
  apply equiv_if.
  - apply (equiv_app [x] (X :: strip true false n x) tb tb); [exact Hx|apply equiv_refl].
  - apply (equiv_app [y] (X :: strip true false n y) te te); [exact Hy|apply equiv_refl].
Qed.

(* ------------------------------------------------------------------------------------------ *)
(* what a decision of bc_decide guarantees *)
Definition dec_spec (n : nat) (b e : list stmt) (d : bdec) : Prop :=
  let X := bd_stmt d in
  exists b0 tb e0 te ib bl ie el,
    b = b0 :: tb /\ e = e0 :: te /\ split_last b = Some (ib, bl) /\ split_last e = Some (ie, el) /\
    match bd_front d, bd_mode d with
    | true, MTop => b0 = X /\ e0 = X
    | true, MDeep => exists s1 s2, leaves true n b0 = Some s1 /\ leaves true n e0 = Some s2 /\
                                    forall y, In y (s1 ++ s2) -> y = X
    | true, MDeepNB => False
    | false, MTop => bl = X /\ el = X
    | false, MDeep => exists f1 f2, leaves false n bl = Some f1 /\ leaves false n el = Some f2 /\
                                     forall y, In y (f1 ++ f2) -> leaf_ok false X y
    | false, MDeepNB => exists f1 f2, leaves false n bl = Some f1 /\ leaves false n el = Some f2 /\
                                       forall y, In y (f1 ++ f2) -> leaf_ok true X y
    end.

Lemma bc_decide_spec n ex b e d : bc_decide n ex b e = Some d -> dec_spec n b e d.
Proof.
  unfold bc_decide.
  destruct (pick true b) as [b0|] eqn:P1; [|discriminate].
  destruct (pick true e) as [e0|] eqn:P2; [|discriminate].
  destruct (pick false b) as [bl|] eqn:P3; [|discriminate].
  destruct (pick false e) as [el|] eqn:P4; [|discriminate].
  destruct (pick_front _ _ P1) as [tb Hb]. destruct (pick_front _ _ P2) as [te He].
  destruct (pick_back _ _ P3) as [ib [Sb _]]. destruct (pick_back _ _ P4) as [ie [Se _]].
  set (d0 := if stmt_eqb b0 e0 then Some (mkB true MTop b0)
             else if ex && stmt_eqb bl el then Some (mkB false MTop bl) else None).
  assert (H0 : forall d', d0 = Some d' -> dec_spec n b e d').
  { intros d' Hd. unfold d0 in Hd. destruct (stmt_eqb b0 e0) eqn:E1.
    - inversion Hd; subst d'. apply stmt_eqb_eq in E1. subst e0.
      exists b0, tb, b0, te, ib, bl, ie, el. simpl. auto 10.
    - destruct (ex && stmt_eqb bl el) eqn:E2; [|discriminate]. inversion Hd; subst d'.
      apply andb_true_iff in E2. destruct E2 as [_ E2]. apply stmt_eqb_eq in E2. subst el.
      exists b0, tb, e0, te, ib, bl, ie, bl. simpl. auto 10. }
  fold d0.
  intros H.
  assert (Hfin : forall d1, (match d1 with Some d' => if is_pass (bd_stmt d') then None else Some d' | None => None end) = Some d ->
                            d1 = Some d).
  { intros [d'|]; [|discriminate]. destruct (is_pass (bd_stmt d')); [discriminate|]. intros Hd; inversion Hd; reflexivity. }
  apply Hfin in H. clear Hfin.
  destruct (leaves true n b0) as [s1|] eqn:L1; [|apply H0; exact H].
  destruct (leaves true n e0) as [s2|] eqn:L2; [|apply H0; exact H].
  destruct (leaves false n bl) as [f1|] eqn:L3; [|apply H0; exact H].
  destruct (leaves false n el) as [f2|] eqn:L4; [|apply H0; exact H].
  destruct (all_same (s1 ++ s2)) eqn:A1.
  - inversion H; subst d. exists b0, tb, e0, te, ib, bl, ie, el. simpl.
    repeat (split; [assumption|]). exists s1, s2. repeat (split; [assumption|]).
    apply all_same_spec; exact A1.
  - destruct (ex && all_same (f1 ++ f2)) eqn:A2.
    + inversion H; subst d. apply andb_true_iff in A2. destruct A2 as [_ A2].
      exists b0, tb, e0, te, ib, bl, ie, el. simpl.
      repeat (split; [assumption|]). exists f1, f2. repeat (split; [assumption|]).
      intros y Hy. right. apply all_same_spec; assumption.
    + set (nbl := filter (fun x => negb (is_blocking x PNone)) (f1 ++ f2)) in *.
      destruct (ex && (2 <=? length nbl) && all_same nbl) eqn:A3; [|apply H0; exact H].
      inversion H; subst d. apply andb_true_iff in A3. destruct A3 as [_ A3].
      exists b0, tb, e0, te, ib, bl, ie, el. simpl.
      repeat (split; [assumption|]). exists f1, f2. repeat (split; [assumption|]).
      intros y Hy. destruct (is_blocking y PNone) eqn:Eb; [left; auto|right].
      apply all_same_spec; [exact A3|]. unfold nbl. apply filter_In. split; [exact Hy|].
      rewrite Eb. reflexivity.
Qed.

Lemma bc_decide_front n b e d : bc_decide n false b e = Some d -> bd_front d = true.
Proof.
  unfold bc_decide.
  destruct (pick true b) as [b0|]; [|discriminate]. destruct (pick true e) as [e0|]; [|discriminate].
  destruct (pick false b) as [bl|]; [|discriminate]. destruct (pick false e) as [el|]; [|discriminate].
  simpl.
  assert (Hfin : forall d1, (forall d', d1 = Some d' -> bd_front d' = true) ->
             (match d1 with Some d' => if is_pass (bd_stmt d') then None else Some d' | None => None end) = Some d ->
             bd_front d = true).
  { intros [d'|] Hd; [|discriminate]. destruct (is_pass (bd_stmt d')); [discriminate|].
    intros E; inversion E; subst. apply Hd; reflexivity. }
  apply Hfin. intros d' Hd.
  assert (H0 : forall d'', (if stmt_eqb b0 e0 then Some (mkB true MTop b0) else None) = Some d'' -> bd_front d'' = true).
  { intros d''. destruct (stmt_eqb b0 e0); [|discriminate]. intros E; inversion E; reflexivity. }
  destruct (leaves true n b0); [|apply H0; exact Hd].
  destruct (leaves true n e0); [|apply H0; exact Hd].
  destruct (leaves false n bl); [|apply H0; exact Hd].
  destruct (leaves false n el); [|apply H0; exact Hd].
  destruct (all_same (l ++ l0)); [inversion Hd; reflexivity|apply H0; exact Hd].
Qed.

(* the blocks after the removals, related to the original blocks *)
Lemma bc_strip_front n t b e d :
  dec_spec n b e d -> bd_front d = true -> hoist_ok n d t b e = true ->
  equiv b (bd_stmt d :: bc_strip n d b) /\ equiv e (bd_stmt d :: bc_strip n d e).
Proof.
  intros (b0 & tb & e0 & te & ib & bl & ie & el & -> & -> & Sb & Se & Hm) Hf Hh.
  unfold hoist_ok in Hh. rewrite Hf in Hh, Hm. simpl in Hh. apply andb_true_iff in Hh. destruct Hh as [Hct Hh].
  unfold bc_strip. rewrite Hf. destruct (bd_mode d).
  - destruct Hm as [-> ->]. simpl. split; apply equiv_refl.
  - destruct Hm as (s1 & s2 & L1 & L2 & Hall). simpl in Hh. rewrite forallb_app in Hh.
    apply andb_true_iff in Hh. destruct Hh as [H1 H2]. simpl. split.
    + apply (equiv_app [b0] (bd_stmt d :: strip true false n b0) tb tb); [|apply equiv_refl].
      eapply strip_head; eauto. intros; apply Hall, in_or_app; auto.
    + apply (equiv_app [e0] (bd_stmt d :: strip true false n e0) te te); [|apply equiv_refl].
      eapply strip_head; eauto. intros; apply Hall, in_or_app; auto.
  - contradiction.
Qed.

Lemma bc_strip_back n b e d :
  dec_spec n b e d -> bd_front d = false ->
  equiv b (bc_strip n d b ++ [bd_stmt d]) /\ equiv e (bc_strip n d e ++ [bd_stmt d]).
Proof.
  intros (b0 & tb & e0 & te & ib & bl & ie & el & Eb & Ee & Sb & Se & Hm) Hf.
  rewrite Hf in Hm. unfold bc_strip, drop_top, strip_block. rewrite Hf, Sb, Se.
  pose proof (split_last_spec _ _ _ Sb) as Hb. pose proof (split_last_spec _ _ _ Se) as He.
  destruct (bd_mode d).
  - destruct Hm as [-> ->]. rewrite Hb at 1. rewrite He at 1. split; apply equiv_refl.
  - destruct Hm as (f1 & f2 & L1 & L2 & Hall). split.
    + rewrite Hb at 1. rewrite <- app_assoc. apply equiv_app; [apply equiv_refl|].
      eapply strip_tail; eauto. intros; apply Hall, in_or_app; auto.
    + rewrite He at 1. rewrite <- app_assoc. apply equiv_app; [apply equiv_refl|].
      eapply strip_tail; eauto. intros; apply Hall, in_or_app; auto.
  - destruct Hm as (f1 & f2 & L1 & L2 & Hall). split.
    + rewrite Hb at 1. rewrite <- app_assoc. apply equiv_app; [apply equiv_refl|].
      eapply strip_tail; eauto. intros; apply Hall, in_or_app; auto.
    + rewrite He at 1. rewrite <- app_assoc. apply equiv_app; [apply equiv_refl|].
      eapply strip_tail; eauto. intros; apply Hall, in_or_app; auto.
Qed.

Lemma bc_else'_equiv n d e : equiv (bc_else' n d e) (bc_strip n d e).
Proof.
  unfold bc_else'. destruct (bd_mode d) eqn:Em; try apply fixb_equiv.
  destruct (is_elif e) eqn:Ee; [|apply fixb_equiv].
  destruct e as [|s tl]; [discriminate|]. destruct s; try discriminate. destruct tl; [|discriminate].
  unfold bc_strip. rewrite Em. unfold drop_top. destruct (bd_front d); simpl; apply equiv_refl.
Qed.

Lemma explicit_site n t b e d :
  dec_spec n b e d -> hoist_ok n d t b e = true ->
  equiv [SIf t b e]
        (if bd_front d then [bd_stmt d; SIf t (bc_strip n d b) (bc_strip n d e)]
         else [SIf t (bc_strip n d b) (bc_strip n d e); bd_stmt d]).
Proof.
  intros Hs Hh. destruct (bd_front d) eqn:Hf.
  - destruct (bc_strip_front n t b e d Hs Hf Hh) as [Hb He].
    eapply equiv_trans; [apply equiv_if; [exact Hb|exact He]|].
    apply head_top. unfold hoist_ok in Hh. rewrite Hf in Hh. simpl in Hh.
    apply andb_true_iff in Hh. tauto.
  - destruct (bc_strip_back n b e d Hs Hf) as [Hb He].
    eapply equiv_trans; [apply equiv_if; [exact Hb|exact He]|]. apply if_tail.
Qed.

Lemma implicit_site_bc n t b rest d :
  dec_spec n b rest d -> bd_front d = true -> hoist_ok n d t b rest = true -> blocks b ->
  equiv (SIf t b [] :: rest) (bd_stmt d :: SIf t (bc_strip n d b) [] :: bc_strip n d rest).
Proof.
  intros Hs Hf Hh Hbl.
  destruct (bc_strip_front n t b rest d Hs Hf Hh) as [Hb Hr].
  assert (Hct : commutes (bd_stmt d) t = true).
  { unfold hoist_ok in Hh. rewrite Hf in Hh. simpl in Hh. apply andb_true_iff in Hh. tauto. }
  set (X := bd_stmt d) in *. set (Sb := bc_strip n d b) in *. set (Sr := bc_strip n d rest) in *.
  apply equiv_sym.
  (* X :: if t: Sb :: Sr  ~  if t: X; Sb else: X  followed by Sr *)
  eapply equiv_trans.
  { apply (equiv_app [X; SIf t Sb []] [SIf t (X :: Sb) [X]] Sr Sr); [|apply equiv_refl].
    apply equiv_sym, (head_top X t Sb []); exact Hct. }
  eapply equiv_trans.
  { apply (redundant_else t (X :: Sb) [X] Sr). eapply blocks_equiv; [exact Hb|exact Hbl]. }
  apply (equiv_app [SIf t (X :: Sb) []] [SIf t b []] ([X] ++ Sr) rest).
  - apply equiv_if; [apply equiv_sym; exact Hb|apply equiv_refl].
  - apply equiv_sym; exact Hr.
Qed.

Lemma bcp_sound n :
  (forall p, bcs n p = true -> equiv p (bcp n p)) /\
  (forall e, bcs_else n e = true -> equiv e (bcp_else n e)).
Proof.
  induction n as [|n [IHp IHe]]; split; intros; simpl; try apply equiv_refl.
  - destruct p as [|s rest]; [apply equiv_refl|]. cbn [bcs] in H.
    destruct s; try (apply equiv_cons; apply IHp; exact H).
    + (* if *)
      destruct orelse as [|x xs].
      * (* implicit *)
        destruct (bc_implicit (SIf t body [] :: rest) body rest) as [d|] eqn:Ei.
        -- destruct (bc_bad d rest).
           ++ apply andb_true_iff in H. destruct H as [H1 H2].
              apply (equiv_app [_] [_] rest (bcp n rest)); [apply equiv_if; [apply IHp; exact H1|apply equiv_refl]|apply IHp; exact H2].
           ++ apply andb_true_iff in H. destruct H as [H H3]. apply andb_true_iff in H. destruct H as [H1 H2].
              unfold bc_implicit in Ei. destruct (anyb body) eqn:Ea; [|discriminate].
              destruct rest as [|r0 rs]; [discriminate|].
              pose proof (bc_decide_spec _ _ _ _ _ Ei) as Hs. pose proof (bc_decide_front _ _ _ _ Ei) as Hf.
              eapply equiv_trans; [apply (implicit_site_bc _ _ _ _ _ Hs Hf H1), anyb_blocks, Ea|].
              apply equiv_cons.
              apply (equiv_app [_] [_] _ _); [|apply IHp; exact H3].
              apply equiv_if; [|apply equiv_refl].
              eapply equiv_trans; [apply equiv_sym, fixb_equiv|apply IHp; exact H2].
        -- apply andb_true_iff in H. destruct H as [H1 H2].
           apply (equiv_app [_] [_] rest (bcp n rest)); [apply equiv_if; [apply IHp; exact H1|apply equiv_refl]|apply IHp; exact H2].
      * (* explicit *)
        destruct (bc_decide (fuel_of (SIf t body (x :: xs) :: rest)) true body (x :: xs)) as [d|] eqn:Ed.
        -- destruct (bc_bad d rest).
           ++ apply andb_true_iff in H. destruct H as [H H3]. apply andb_true_iff in H. destruct H as [H1 H2].
              apply (equiv_app [_] [_] rest (bcp n rest)); [apply equiv_if; [apply IHp; exact H1|apply IHe; exact H2]|apply IHp; exact H3].
           ++ apply andb_true_iff in H. destruct H as [H H4]. apply andb_true_iff in H. destruct H as [H H3].
              apply andb_true_iff in H. destruct H as [H1 H2].
              pose proof (bc_decide_spec _ _ _ _ _ Ed) as Hs.
              pose proof (explicit_site _ t _ _ _ Hs H1) as Hx.
              assert (Hk : equiv [SIf t (bc_strip (fuel_of (SIf t body (x :: xs) :: rest)) d body)
                                        (bc_strip (fuel_of (SIf t body (x :: xs) :: rest)) d (x :: xs))]
                                 [SIf t (bcp n (fixb (bc_strip (fuel_of (SIf t body (x :: xs) :: rest)) d body)))
                                        (bcp_else n (bc_else' (fuel_of (SIf t body (x :: xs) :: rest)) d (x :: xs)))]).
              { apply equiv_if.
                - eapply equiv_trans; [apply equiv_sym, fixb_equiv|apply IHp; exact H2].
                - eapply equiv_trans; [apply equiv_sym, bc_else'_equiv|apply IHe; exact H3]. }
              destruct (bd_front d).
              ** apply (equiv_app [_] [_; _] rest (bcp n rest)); [|apply IHp; exact H4].
                 eapply equiv_trans; [exact Hx|]. apply equiv_cons. exact Hk.
              ** apply (equiv_app [_] [_; _] rest (bcp n rest)); [|apply IHp; exact H4].
                 eapply equiv_trans; [exact Hx|].
                 apply (equiv_app [_] [_] [bd_stmt d] [bd_stmt d]); [exact Hk|apply equiv_refl].
        -- apply andb_true_iff in H. destruct H as [H H3]. apply andb_true_iff in H. destruct H as [H1 H2].
           apply (equiv_app [_] [_] rest (bcp n rest)); [apply equiv_if; [apply IHp; exact H1|apply IHe; exact H2]|apply IHp; exact H3].
    + (* loop *)
      apply andb_true_iff in H. destruct H as [H H3]. apply andb_true_iff in H. destruct H as [H1 H2].
      apply (equiv_app [_] [_] rest (bcp n rest)); [apply equiv_loop; apply IHp; assumption|apply IHp; exact H3].
  - cbn [bcs_else] in H. destruct e as [|s tl]; [apply IHp; exact H|].
    destruct s; try (apply IHp; exact H). destruct tl; [|apply IHp; exact H].
    apply andb_true_iff in H. destruct H as [H1 H2]. apply equiv_if; [apply IHp; exact H1|apply IHe; exact H2].
Qed.

Lemma bc_pass_sound p : bc_pass_safe p = true -> equiv p (bc_pass p).
Proof.
  unfold bc_pass_safe, bc_pass. destruct (bcx (fuel_of p) p); [intros; apply equiv_refl|].
  simpl. apply (proj1 (bcp_sound (fuel_of p))).
Qed.

Theorem breakout_common_code_partial p :
  bc_safe p = true -> equiv p (breakout_common_code_model p).
Proof.
  unfold bc_safe, breakout_common_code_model, fix5. intros H.
  repeat (apply andb_true_iff in H; destruct H as [H ?]).
  destruct (_ || _ || _ || _); [apply equiv_refl|].
  eapply equiv_trans; [apply bc_pass_sound; eassumption|].
  eapply equiv_trans; [apply bc_pass_sound; eassumption|].
  eapply equiv_trans; [apply bc_pass_sound; eassumption|].
  eapply equiv_trans; [apply bc_pass_sound; eassumption|].
  apply bc_pass_sound; assumption.
Qed.

Definition bc_witness : list stmt :=
  [SIf (Unknown 1 []) [SEv 1 []; SEv 2 []] [SEv 1 []; SEv 3 []]; SEv 4 []].

Theorem breakout_common_code_refuted : exists p, ~ obs_equiv p (breakout_common_code_model p).
Proof.
  exists bc_witness.
  refute_with (fun _ : nat => VBool true) st0 bc_witness (breakout_common_code_model bc_witness).
Qed.

(* non-trivial instances of the guard: a tail hoist (any statement), and a head hoist of a constant
   assignment over a test that does not read the variable *)
Example breakout_partial_nontrivial_tail :
  let p := [SIf (Unknown 1 [0]) [SEv 2 []; SEv 1 [0]] [SEv 3 []; SEv 1 [0]]; SEv 4 []] in
  bc_safe p = true /\ breakout_common_code_model p = [SIf (Unknown 1 [0]) [SEv 2 []] [SEv 3 []]; SEv 1 [0]; SEv 4 []].
Proof. split; vm_compute; reflexivity. Qed.

Example breakout_partial_nontrivial_head :
  let p := [SIf (Unknown 1 [1]) [SAssign 0 (RVal (VBool true)); SEv 2 [0]] [SAssign 0 (RVal (VBool true)); SEv 3 [0]]] in
  bc_safe p = true /\
  breakout_common_code_model p = [SAssign 0 (RVal (VBool true)); SIf (Unknown 1 [1]) [SEv 2 [0]] [SEv 3 [0]]].
Proof. split; vm_compute; reflexivity. Qed.

(* ------------------------------------------------------------------------------------------ *)
(* move_before_loop *)
Definition absorbs (x : var) (v : val) (st : state) : Prop := set_var x v st = st.

Lemma absorbs_set x v st : absorbs x v (set_var x v st).
Proof. unfold absorbs, set_var. simpl. rewrite upd_upd_same. reflexivity. Qed.

Lemma set_var_comm x v z w st : x <> z -> set_var x v (set_var z w st) = set_var z w (set_var x v st).
Proof. intros H. unfold set_var. simpl. rewrite (upd_comm _ z x w v) by congruence. reflexivity. Qed.

Lemma absorbs_other x v z w st : x <> z -> absorbs x v st -> absorbs x v (set_var z w st).
Proof. unfold absorbs. intros H Ha. rewrite set_var_comm by assumption. rewrite Ha. reflexivity. Qed.

Lemma mem_false_neq x z : mem x [z] = false -> x <> z.
Proof. unfold mem. simpl. rewrite orb_false_r. intros H ->. rewrite Nat.eqb_refl in H. discriminate. Qed.

Lemma eval_test_env o st t : s_env (snd (eval_test o st t)) = s_env st.
Proof.
  induction t as [b|i rd|u IH]; simpl; auto.
  destruct (eval_test o st u); simpl in *; auto.
Qed.
Lemma eval_rexpr_env o st e : s_env (snd (eval_rexpr o st e)) = s_env st.
Proof. destruct e; simpl; auto. apply eval_test_env. Qed.

Lemma absorbs_env x v st st' : s_env st' = s_env st -> absorbs x v st -> upd (s_env st') x v = s_env st'.
Proof. unfold absorbs. intros E H. rewrite E. apply (f_equal s_env) in H. simpl in H. exact H. Qed.

Lemma absorbs_of_env x v st : upd (s_env st) x v = s_env st -> absorbs x v st.
Proof. unfold absorbs, set_var. intros ->. destruct st; reflexivity. Qed.

Lemma absorbs_same_env x v st st' : s_env st' = s_env st -> absorbs x v st -> absorbs x v st'.
Proof. intros E H. apply absorbs_of_env. eapply absorbs_env; eauto. Qed.

(* evaluation when x is not read *)
Lemma eval_rexpr_set_var o st x v e :
  mem x (rexpr_reads e) = false ->
  eval_rexpr o (set_var x v st) e = (fst (eval_rexpr o st e), set_var x v (snd (eval_rexpr o st e))).
Proof.
  destruct e as [w|y|t]; simpl; intros H.
  - reflexivity.
  - rewrite get_upd_other; [reflexivity|]. apply mem_false_neq in H. congruence.
  - apply eval_test_set_var. exact H.
Qed.

(* straight-line code *)
Definition flat (c : list stmt) : Prop := forallb is_simple_stmt c = true.

(* (F2) code that does not assign x preserves "x = v is absorbed" *)
Lemma flat_absorbs o x v : forall c st out st',
  flat c -> writes_in x c = false -> absorbs x v st -> runs o st c (out, st') -> absorbs x v st'.
Proof.
  induction c as [|s c IH]; intros st out st' Hf Hw Ha Hr.
  - apply runs_nil in Hr. inversion Hr; subst. exact Ha.
  - unfold flat in Hf. simpl in Hf, Hw. apply andb_true_iff in Hf. destruct Hf as [Hs Hf].
    apply orb_false_iff in Hw. destruct Hw as [Hws Hw].
    apply runs_cons in Hr. destruct Hr as [[out1 st1] [H1 H2]].
    assert (Ha1 : absorbs x v st1).
    { destruct s; simpl in H1; try discriminate; try (inversion H1; subst; exact Ha).
      - inversion H1; subst. eapply absorbs_same_env; [|exact Ha]. reflexivity.
      - inversion H1; subst. simpl in Hws. apply absorbs_other; [apply mem_false_neq; exact Hws|].
        eapply absorbs_same_env; [apply eval_rexpr_env|exact Ha].
      - inversion H1; subst. eapply absorbs_same_env; [apply eval_rexpr_env|exact Ha]. }
    destruct out1; simpl in H2; try (inversion H2; subst; exact Ha1).
    eapply IH; eauto.
Qed.

(* (F1) jump-free code in which x does not occur always completes and commutes with x := v *)
Lemma flat_commute o x v : forall c st,
  flat c -> existsb is_jump c = false -> occurs x c = false ->
  (forall r, runs o st c r -> exists st1, r = (Normal, st1) /\ runs o (set_var x v st) c (Normal, set_var x v st1)) /\
  (forall r, runs o (set_var x v st) c r -> exists st1, r = (Normal, set_var x v st1) /\ runs o st c (Normal, st1)).
Proof.
  induction c as [|s c IH]; intros st Hf Hj Ho.
  - split; intros r Hr; apply runs_nil in Hr; subst; eexists; (split; [reflexivity|apply runs_nil; reflexivity]).
  - unfold flat in Hf. simpl in Hf, Hj, Ho. apply andb_true_iff in Hf. destruct Hf as [Hs Hf].
    apply orb_false_iff in Hj. destruct Hj as [Hjs Hj]. apply orb_false_iff in Ho. destruct Ho as [Hos Ho].
    apply orb_false_iff in Hos. destruct Hos as [Hrd Hwr].
    (* one simple, non-jump statement *)
    assert (Hstep : exists st1 : state,
               runs1 o st s (Normal, st1) /\ runs1 o (set_var x v st) s (Normal, set_var x v st1)).
    { destruct s; simpl in Hs, Hjs; try discriminate.
      - exists st. simpl. auto.
      - exists (emit (EvCall i (map (get (s_env st)) rd)) st). simpl. split; [reflexivity|].
        f_equal. unfold emit, set_var. simpl. f_equal. f_equal. f_equal. symmetry.
        apply map_ext_in. intros a Ha. apply get_upd_other. intros ->. simpl in Hrd.
        assert (mem x rd = true) by (apply existsb_exists; exists x; split; [exact Ha|apply Nat.eqb_refl]).
        congruence.
      - simpl in Hrd, Hwr. eexists. simpl. split; [reflexivity|].
        rewrite (eval_rexpr_set_var o st x v e Hrd). simpl. f_equal.
        apply set_var_comm. apply not_eq_sym, mem_false_neq. unfold mem in *. simpl in *.
        rewrite Nat.eqb_sym. exact Hwr. }
    destruct Hstep as [st1 [Hs1 Hs2]].
    destruct (IH st1 Hf Hj Ho) as [IH1 IH2].
    split; intros r Hr; apply runs_cons in Hr; destruct Hr as [r1 [H1 H2]].
    + assert (r1 = (Normal, st1)) by (eapply runs_det; apply runs_single; eassumption). subst r1.
      simpl in H2. destruct (IH1 _ H2) as [st2 [-> Hr2]]. exists st2. split; [reflexivity|].
      apply runs_cons. eexists; split; [exact Hs2|exact Hr2].
    + assert (r1 = (Normal, set_var x v st1)) by (eapply runs_det; apply runs_single; eassumption). subst r1.
      simpl in H2. destruct (IH2 _ H2) as [st2 [-> Hr2]]. exists st2. split; [reflexivity|].
      apply runs_cons. eexists; split; [exact Hs1|exact Hr2].
Qed.

Lemma occurs_writes x c : occurs x c = false -> writes_in x c = false.
Proof.
  unfold occurs, writes_in. induction c as [|s c IH]; simpl; auto.
  intros H. apply orb_false_iff in H. destruct H as [H1 H2]. apply orb_false_iff in H1. destruct H1 as [_ H1].
  rewrite H1. simpl. auto.
Qed.

Section Hoist.
  Variables (o : oracle) (x : var) (v : val) (before after : list stmt).
  Hypothesis Hfb : flat before.
  Hypothesis Hfa : flat after.
  Hypothesis Hjb : existsb is_jump before = false.
  Hypothesis Hob : occurs x before = false.
  Hypothesis Hwa : writes_in x after = false.
  Let B := before ++ SAssign x (RVal v) :: after.
  Let B' := before ++ after.

  (* (F3) once x = v is absorbed the assignment is a no-op *)
  Lemma body_absorbed st r : absorbs x v st -> (runs o st B r <-> runs o st B' r).
  Proof.
    intros Ha. unfold B, B'. rewrite !runs_app.
    split; intros [[out1 st1] [H1 H2]]; exists (out1, st1); (split; [exact H1|]);
      destruct out1; simpl in *; auto.
    - apply runs_assign in H2. simpl in H2.
      assert (Ha1 : absorbs x v st1) by (exact (flat_absorbs o x v before st Normal st1 Hfb (occurs_writes _ _ Hob) Ha H1)).
      unfold absorbs in Ha1. rewrite Ha1 in H2. exact H2.
    - apply runs_assign. simpl.
      assert (Ha1 : absorbs x v st1) by (exact (flat_absorbs o x v before st Normal st1 Hfb (occurs_writes _ _ Hob) Ha H1)).
      unfold absorbs in Ha1. rewrite Ha1. exact H2.
  Qed.

  Lemma body_keeps st out st' : absorbs x v st -> runs o st B' (out, st') -> absorbs x v st'.
  Proof.
    intros Ha Hr. unfold B' in Hr. apply runs_app in Hr. destruct Hr as [[out1 st1] [H1 H2]].
    assert (Ha1 : absorbs x v st1) by (exact (flat_absorbs o x v before st out1 st1 Hfb (occurs_writes _ _ Hob) Ha H1)).
    destruct out1; simpl in H2; try (inversion H2; subst; exact Ha1).
    exact (flat_absorbs o x v after st1 out st' Hfa Hwa Ha1 H2).
  Qed.

  (* (F4) the first iteration *)
  Lemma body_first st r : runs o st B r <-> runs o (set_var x v st) B' r.
  Proof.
    unfold B, B'. rewrite !runs_app. destruct (flat_commute o x v before st Hfb Hjb Hob) as [C1 C2]. split.
    - intros [r1 [H1 H2]]. destruct (C1 _ H1) as [st1 [-> Hc]]. simpl in H2. apply runs_assign in H2. simpl in H2.
      eexists; split; [exact Hc|exact H2].
    - intros [r1 [H1 H2]]. destruct (C2 _ H1) as [st1 [-> Hc]]. simpl in H2.
      eexists; split; [exact Hc|]. simpl. apply runs_assign. exact H2.
  Qed.

  Lemma body_first_keeps st out st' : runs o (set_var x v st) B' (out, st') -> absorbs x v st'.
  Proof. apply body_keeps. apply absorbs_set. Qed.

  Lemma loop_next_env st lk : s_env (snd (fst (loop_next o st lk))) = s_env st.
  Proof.
    destruct lk as [t|[|n]|i]; simpl; auto.
    pose proof (eval_test_env o st t). destruct (eval_test o st t); simpl in *; auto.
  Qed.

  Lemma loop_absorbed e : forall st lk r,
    lruns o st lk B e r -> absorbs x v st -> lruns o st lk B' e r.
  Proof.
    apply (lruns_ind' o B e (fun st lk r => absorbs x v st -> lruns o st lk B' e r)).
    intros st lk r Hstep Ha. apply lruns_unfold.
    pose proof (loop_next_env st lk) as Henv.
    destruct (loop_next o st lk) as [[go st1] lk']. simpl in Henv.
    assert (Ha1 : absorbs x v st1) by (eapply absorbs_same_env; eauto).
    destruct go; [|exact Hstep].
    destruct Hstep as [[out1 st2] [H1 H2]]. apply (body_absorbed _ _ Ha1) in H1.
    exists (out1, st2). split; [exact H1|].
    pose proof (body_keeps _ _ _ Ha1 H1) as Ha2.
    destruct out1; simpl in *; tauto.
  Qed.

  Lemma loop_absorbed_rev e : forall st lk r,
    lruns o st lk B' e r -> absorbs x v st -> lruns o st lk B e r.
  Proof.
    apply (lruns_ind' o B' e (fun st lk r => absorbs x v st -> lruns o st lk B e r)).
    intros st lk r Hstep Ha. apply lruns_unfold.
    pose proof (loop_next_env st lk) as Henv.
    destruct (loop_next o st lk) as [[go st1] lk']. simpl in Henv.
    assert (Ha1 : absorbs x v st1) by (eapply absorbs_same_env; eauto).
    destruct go; [|exact Hstep].
    destruct Hstep as [[out1 st2] [H1 H2]].
    pose proof (body_keeps _ _ _ Ha1 H1) as Ha2.
    apply (body_absorbed _ _ Ha1) in H1.
    exists (out1, st2). split; [exact H1|].
    destruct out1; simpl in *; tauto.
  Qed.
End Hoist.

Lemma hoist_loop o0 x v before after h e :
  flat before -> flat after -> existsb is_jump before = false -> occurs x before = false ->
  writes_in x after = false -> mem x (head_reads h) = false -> runs_once h = true ->
  forall st r,
    runs o0 st [SLoop h (before ++ SAssign x (RVal v) :: after) e] r <->
    runs o0 st [SAssign x (RVal v); SLoop h (before ++ after) e] r.
Proof.
  intros Hfb Hfa Hjb Hob Hwa Hh Ho st r.
  rewrite runs_assign. simpl eval_rexpr. simpl fst. simpl snd. rewrite !runs_single. simpl runs1.
  set (B := before ++ SAssign x (RVal v) :: after). set (B' := before ++ after).
  set (st' := set_var x v st).
  assert (Hloop : forall lk lk',
             (forall s0, loop_next o0 s0 lk = (true, s0, lk')) ->
             (lruns o0 st lk B e r <-> lruns o0 st' lk B' e r)).
  { intros lk lk' Hn. rewrite !lruns_unfold, !Hn. split.
    - intros [[out1 st2] [H1 H2]]. apply (body_first o0 x v before after Hfb Hjb Hob) in H1.
      pose proof (body_first_keeps o0 x v before after Hfb Hfa Hob Hwa _ _ _ H1) as Ha2.
      exists (out1, st2). split; [exact H1|].
      destruct out1; simpl in *; auto; eapply loop_absorbed; eauto.
    - intros [[out1 st2] [H1 H2]].
      pose proof (body_first_keeps o0 x v before after Hfb Hfa Hob Hwa _ _ _ H1) as Ha2.
      apply (body_first o0 x v before after Hfb Hjb Hob) in H1.
      exists (out1, st2). split; [exact H1|].
      destruct out1; simpl in *; auto; eapply loop_absorbed_rev; eauto. }
  destruct h as [t|[[|n]|i rd]]; simpl in Ho; try discriminate.
  - destruct (tval t) as [[|]|] eqn:Et; try discriminate. simpl.
    apply (Hloop (LWhile t) (LWhile t)). intros s0. simpl. rewrite (tval_sound _ _ o0 s0 Et). reflexivity.
  - simpl. apply (Hloop (LCount (S n)) (LCount n)). intros s0. reflexivity.
Qed.

Lemma hoist_one_spec h : forall l acc s body',
  hoist_one h acc l = Some (s, body') ->
  exists before after, l = before ++ s :: after /\ body' = acc ++ before ++ after /\
                       hoistable h (acc ++ before) s after = true.
Proof.
  induction l as [|a l IH]; intros acc s body' H; [discriminate|].
  simpl in H. destruct (hoistable h acc a l) eqn:E.
  - inversion H; subst. exists [], l. rewrite app_nil_r. auto.
  - destruct (IH _ _ _ H) as (before & after & -> & -> & Hh).
    exists (a :: before), after. rewrite <- !app_assoc in *. simpl in *. auto.
Qed.

Lemma flat_app a b : flat (a ++ b) <-> flat a /\ flat b.
Proof. unfold flat. rewrite forallb_app, andb_true_iff. tauto. Qed.

Lemma hoist_all_sound e n : forall h body pre b',
  flat body -> hoist_all n h body = (pre, b') -> hoist_all_safe n h body = true ->
  equiv [SLoop h body e] (pre ++ [SLoop h b' e]) /\ flat b'.
Proof.
  induction n as [|n IH]; intros h body pre b' Hf Hh Hs; simpl in Hh, Hs.
  - inversion Hh; subst. split; [apply equiv_refl|exact Hf].
  - destruct (hoist_one h [] body) as [[s body']|] eqn:E1.
    + destruct (hoist_all n h body') as [pre' b''] eqn:E2. inversion Hh; subst.
      apply andb_true_iff in Hs. destruct Hs as [Hs Hs3]. apply andb_true_iff in Hs. destruct Hs as [Hro Hs2].
      destruct (hoist_one_spec _ _ _ _ _ E1) as (before & after & -> & -> & Hh1). simpl in *.
      destruct s; try discriminate. destruct e0; try discriminate.
      apply negb_true_iff in Hs2.
      unfold hoistable in Hh1. repeat (apply andb_true_iff in Hh1; destruct Hh1 as [Hh1 ?]).
      repeat match goal with H : negb _ = true |- _ => apply negb_true_iff in H end.
      apply flat_app in Hf. destruct Hf as [Hfb Hfa]. unfold flat in Hfa. simpl in Hfa.
      assert (Hf' : flat (before ++ after)) by (apply flat_app; split; assumption).
      unfold writes_in in Hs2. rewrite existsb_app in Hs2. apply orb_false_iff in Hs2. destruct Hs2 as [_ Hwa].
      destruct (IH _ _ _ _ Hf' E2 Hs3) as [IHe IHf]. split; [|exact IHf].
      eapply equiv_trans.
      * intros o st r. apply hoist_loop; eauto.
      * apply equiv_cons. exact IHe.
    + inversion Hh; subst. split; [apply equiv_refl|exact Hf].
Qed.

Lemma flat_map_equiv_in (F : stmt -> list stmt) p :
  (forall s, In s p -> equiv [s] (F s)) -> equiv p (flat_map F p).
Proof.
  induction p as [|s p IH]; intros H; simpl; [apply equiv_refl|].
  apply (equiv_app [s] (F s) p (flat_map F p)); [apply H; left; reflexivity|].
  apply IH. intros; apply H; right; assumption.
Qed.

Lemma mbl_sound n : forall p, mbl_safe n p = true -> equiv p (mbl n p).
Proof.
  induction n as [|n IH]; intros p Hs; simpl; [apply equiv_refl|].
  simpl in Hs. rewrite forallb_forall in Hs.
  apply flat_map_equiv_in. intros s Hin. specialize (Hs s Hin).
  destruct s; try apply equiv_refl.
  - apply andb_true_iff in Hs. destruct Hs. apply equiv_if; apply IH; assumption.
  - destruct (forallb is_simple_stmt body) eqn:Ef; [|apply equiv_refl].
    apply andb_true_iff in Hs. destruct Hs as [Hs1 Hs2].
    destruct (hoist_all (length body) h body) as [pre b'] eqn:Eh.
    destruct (hoist_all_sound orelse _ _ _ _ _ Ef Eh Hs1) as [He _].
    eapply equiv_trans; [exact He|].
    apply equiv_app; [apply equiv_refl|].
    apply equiv_loop; [apply equiv_sym, fixb_equiv|apply IH; exact Hs2].
Qed.

Theorem move_before_loop_partial p :
  mbl_safe (fuel_of p) p = true -> equiv p (move_before_loop_model p).
Proof. apply mbl_sound. Qed.

(* refutation: a loop that runs zero times *)
Definition mbl_witness_zero : list stmt :=
  [SLoop (HWhile (Unknown 1 [])) [SAssign 0 (RVal (VObj true 0))] []; SEv 3 [0]].
Theorem move_before_loop_refuted : exists p, ~ obs_equiv p (move_before_loop_model p).
Proof.
  exists mbl_witness_zero.
  refute_with (fun _ : nat => VBool false) st0 mbl_witness_zero (move_before_loop_model mbl_witness_zero).
Qed.

(* before repair d47dff7 the rule also hoisted out of this loop, which certainly runs: the variable is read
   and assigned again later in the body.  Pinned: the output of the old rule is not equivalent; the repaired
   rule leaves the program alone. *)
Definition mbl_witness_reassigned : list stmt :=
  [SLoop (HFor (IKnown 2)) [SAssign 0 (RVal (VObj true 0)); SEv 1 [0]; SAssign 0 (RVal (VObj true 1))] []].
Definition mbl_witness_reassigned_old_output : list stmt :=
  [SAssign 0 (RVal (VObj true 0)); SLoop (HFor (IKnown 2)) [SEv 1 [0]; SAssign 0 (RVal (VObj true 1))] []].
Theorem old_move_before_loop_refuted_reassigned :
  ~ obs_equiv mbl_witness_reassigned mbl_witness_reassigned_old_output
  /\ move_before_loop_model mbl_witness_reassigned = mbl_witness_reassigned.
Proof.
  split; [|reflexivity].
  refute_with (fun _ : nat => VBool false) st0 mbl_witness_reassigned mbl_witness_reassigned_old_output.
Qed.

(* an assignment that is overwritten before it is read is still moved (and the guard of the partial theorem
   does not cover it: modelled, not verified) *)
Example move_before_loop_overwritten_still_hoisted :
  move_before_loop_model
    [SLoop (HFor (IKnown 2)) [SAssign 0 (RVal (VObj true 0)); SAssign 0 (RVal (VObj true 1)); SEv 1 [0]] []]
  = [SAssign 0 (RVal (VObj true 0)); SAssign 0 (RVal (VObj true 1)); SLoop (HFor (IKnown 2)) [SEv 1 [0]] []].
Proof. reflexivity. Qed.

Example move_before_loop_partial_nontrivial :
  let p := [SLoop (HFor (IKnown 3)) [SEv 1 [1]; SAssign 0 (RVal (VObj true 0)); SEv 2 [0]] []; SEv 3 [0]] in
  mbl_safe (fuel_of p) p = true /\
  move_before_loop_model p =
    [SAssign 0 (RVal (VObj true 0)); SLoop (HFor (IKnown 3)) [SEv 1 [1]; SEv 2 [0]] []; SEv 3 [0]].
Proof. split; vm_compute; reflexivity. Qed.

(* ------------------------------------------------------------------------------------------ *)
(* Independence from the scheduling of processing.fix: the unconditional local rewrites may be applied at
   any positions of the tree, in any order, any number of times. *)
Inductive ctx (R : list stmt -> list stmt -> Prop) : list stmt -> list stmt -> Prop :=
| ctx_base p q : R p q -> ctx R p q
| ctx_refl p : ctx R p p
| ctx_sym p q : ctx R p q -> ctx R q p
| ctx_trans p q s : ctx R p q -> ctx R q s -> ctx R p s
| ctx_app p p' q q' : ctx R p p' -> ctx R q q' -> ctx R (p ++ q) (p' ++ q')
| ctx_if t b b' e e' : ctx R b b' -> ctx R e e' -> ctx R [SIf t b e] [SIf t b' e']
| ctx_loop h b b' e e' : ctx R b b' -> ctx R e e' -> ctx R [SLoop h b e] [SLoop h b' e'].

Lemma ctx_sound (R : list stmt -> list stmt -> Prop) :
  (forall p q, R p q -> equiv p q) -> forall p q, ctx R p q -> equiv p q.
Proof.
  intros HR p q H. induction H.
  - apply HR; assumption.
  - apply equiv_refl.
  - apply equiv_sym; assumption.
  - eapply equiv_trans; eassumption.
  - apply equiv_app; assumption.
  - apply equiv_if; assumption.
  - apply equiv_loop; assumption.
Qed.

Inductive local_rule : list stmt -> list stmt -> Prop :=
| lr_pass : local_rule [SPass] []
| lr_if_true t b e : tval t = Some true -> local_rule [SIf t b e] b
| lr_if_false t b e : tval t = Some false -> local_rule [SIf t b e] e
| lr_while_false t b e : tval t = Some false -> local_rule [SLoop (HWhile t) b e] e
| lr_redundant_else t b e rest : anyb b = true -> local_rule (SIf t b e :: rest) (SIf t b [] :: e ++ rest)
| lr_swap t b e : local_rule [SIf t b e] [SIf (negate t) e (nopass b)]
| lr_unreachable q rest : anyb q = true -> local_rule (q ++ rest) q
| lr_tail t B E X : local_rule [SIf t (B ++ [X]) (E ++ [X])] [SIf t B E; X]
| lr_continue h pre t bb ee e :
    local_rule [SLoop h (pre ++ [SIf t bb ee]) e] [SLoop h (pre ++ [SIf t (bb ++ [SContinue]) ee]) e].

Lemma lbsim2_prefix pre b b' : lbsim2 b b' -> lbsim2 (pre ++ b) (pre ++ b').
Proof.
  intros [H1 H2]. induction pre as [|s pre IH]; [split; assumption|].
  destruct IH as [I1 I2]. split; simpl; apply lbsim_cons; auto using equiv_refl.
Qed.

Lemma local_rule_sound p q : local_rule p q -> equiv p q.
Proof.
  intros H. destruct H.
  - apply equiv_pass.
  - apply if_true; assumption.
  - apply if_false; assumption.
  - apply while_false; assumption.
  - apply redundant_else, anyb_blocks; assumption.
  - apply swap_local.
  - apply cut_after, anyb_blocks; assumption.
  - apply if_tail.
  - apply lbsim2_loop; [|apply equiv_refl]. apply lbsim2_prefix, ec_append_lbsim2.
Qed.

Theorem any_schedule_sound p q : ctx local_rule p q -> equiv p q.
Proof. apply ctx_sound. apply local_rule_sound. Qed.
