(* K7 (file part) -- model of the pass bookkeeping of pyrefact/main.py:format_files (lines 296-373).

   A file is (folder, name); the absolute Path order is the lexicographic order.  What format_file does to
   a file is abstracted to its boolean result [chg f p] = "format_file changed f in pass p" (the files of a
   folder are formatted in consecutive passes 1, 2, ... until the folder converges, so the p-th formatting
   of a file happens in pass p).  pool.starmap is [map] (results in argument order): the number of workers
   and their completion order do not occur.
   No proofs in this file. *)
From Coq Require Import List Arith Bool.
Import ListNotations.

Definition file := (nat * nat)%type.

Definition file_leb (a b : file) : bool :=
  (fst a <? fst b) || ((fst a =? fst b) && (snd a <=? snd b)).
Definition file_eqb (a b : file) : bool := (fst a =? fst b) && (snd a =? snd b).

(* sorted(...) *)
Fixpoint insert_file (x : file) (l : list file) : list file :=
  match l with
  | [] => [x]
  | y :: tl => if file_leb x y then x :: l else y :: insert_file x tl
  end.
Definition sort_files (l : list file) : list file := fold_right insert_file [] l.

(* set(...) : first occurrences *)
Fixpoint nodup_acc (seen : list file) (l : list file) : list file :=
  match l with
  | [] => []
  | x :: tl => if existsb (file_eqb x) seen then nodup_acc seen tl else x :: nodup_acc (x :: seen) tl
  end.
Definition nodup_files (l : list file) : list file := nodup_acc [] l.

(* folder_contents: dict folder -> files, in order of first appearance in the sorted list *)
Fixpoint folders_of (l : list file) : list nat :=
  match l with
  | [] => []
  | x :: tl => fst x :: filter (fun d => negb (d =? fst x)) (folders_of tl)
  end.

(* module_changes_pass_counts : folder -> (changes, passes_left) *)
Definition fstate := list (nat * (bool * nat)).

Definition active (st : fstate) (d : nat) : bool :=
  existsb (fun e => (fst e =? d) && fst (snd e) && (0 <? snd (snd e))) st.

Section Files.
Variable chg : file -> nat -> bool.

(* filename_changes.get(f, False) *)
Definition result_of (results : list (file * bool)) (f : file) : bool :=
  existsb (fun r => file_eqb (fst r) f && snd r) results.

Definition one_pass (p : nat) (fs : list file) (st : fstate) : option (list file * fstate) :=
  let todo := sort_files (nodup_files (filter (fun f => active st (fst f)) fs)) in
  match todo with
  | [] => None                                             (* if not files_to_format: break *)
  | _ =>
      let results := map (fun f => (f, chg f p)) todo in   (* pool.starmap(format_file, ...) *)
      let st' := map (fun e : nat * (bool * nat) =>
                        (fst e, (existsb (fun f => (fst f =? fst e) && result_of results f) fs,
                                 snd (snd e) - 1))) st in
      Some (todo, st')
  end.

Fixpoint pass_loop (fuel p : nat) (fs : list file) (st : fstate) : list (list file) * fstate :=
  match fuel with
  | O => ([], st)
  | S n => match one_pass p fs st with
           | None => ([], st)
           | Some (todo, st') => let '(log, stf) := pass_loop n (S p) fs st' in (todo :: log, stf)
           end
  end.

(* any_changes = any_changes or any(results), accumulated over the passes (pass p dispatched batch number p) *)
Fixpoint log_changes (p : nat) (log : list (list file)) : bool :=
  match log with
  | [] => false
  | batch :: tl => existsb (fun f => chg f p) batch || log_changes (S p) tl
  end.

(* returns (the files formatted in each pass, in dispatch order; the return value of format_files).
   Since the repair of hunt item C06-4 the return value is the accumulated any_changes, no longer the
   per-folder flags of the last pass. *)
Definition format_files_model (max_passes : nat) (filenames : list file) : list (list file) * bool :=
  let fs := sort_files filenames in
  let st0 := map (fun d => (d, (true, max_passes))) (folders_of fs) in
  let '(log, st) := pass_loop max_passes 1 fs st0 in
  (log, log_changes 1 log).

End Files.

(* ---- correspondence case: scripted change table, expected trace and return value *)
Fixpoint table_chg (tbl : list (file * nat)) (f : file) (p : nat) : bool :=
  match tbl with
  | [] => false
  | (g, q) :: tl => (file_eqb g f && (q =? p)) || table_chg tl f p
  end.

Fixpoint files_eqb (a b : list file) : bool :=
  match a, b with
  | [], [] => true
  | x :: a', y :: b' => file_eqb x y && files_eqb a' b'
  | _, _ => false
  end.
Fixpoint logs_eqb (a b : list (list file)) : bool :=
  match a, b with
  | [], [] => true
  | x :: a', y :: b' => files_eqb x y && logs_eqb a' b'
  | _, _ => false
  end.

Record files_case := mkFCase {
  fc_passes : nat;
  fc_files : list file;                (* as given (any order, duplicates allowed) *)
  fc_table : list (file * nat);        (* (f, p): format_file reports a change of f in pass p *)
  fc_log : list (list file);           (* what the implementation dispatched, pass by pass *)
  fc_ret : bool
}.

Definition files_case_ok (c : files_case) : bool :=
  let '(log, ret) := format_files_model (table_chg (fc_table c)) (fc_passes c) (fc_files c) in
  logs_eqb log (fc_log c) && Bool.eqb ret (fc_ret c).
