(* K5 -- the classification step inside core.is_blocking for `for` loops (pyrefact/core.py:1132-1138):
     iterator = literal_value(node.iter)            (ValueError -> not blocking)
     if not any(True for _ in iterator): return False
   over a small language of compile-time evaluable iterables, mirroring what core.literal_value does for
   them (ast.literal_eval for displays / strings, the PURE_BUILTIN_FUNCTIONS range, enumerate, zip, reversed,
   sorted, list, tuple, set; `iter` is not among them), with a reference semantics [elements]: the items the
   loop iterates over at run time.  FlowModel abstracts the iterable of a `for` to IEmpty / INonEmpty /
   IUnknown; [classify] is the map from iterables to that abstraction. *)
From Coq Require Import List Bool ZArith.
Import ListNotations.
Require Pyrefact.RangeModel.
Require Import Pyrefact.FlowModel.
Open Scope Z_scope.

(* values of the items: ints, characters, tuples (a tuple (a, b) is VPair a (VPair b VUnit)) *)
Inductive val := VInt (z : Z) | VChr (c : nat) | VUnit | VPair (a b : val).

Fixpoint val_eqb (x y : val) : bool :=
  match x, y with
  | VInt a, VInt b => a =? b
  | VChr a, VChr b => Nat.eqb a b
  | VUnit, VUnit => true
  | VPair a b, VPair c d => val_eqb a c && val_eqb b d
  | _, _ => false
  end.

(* the order used by sorted(); items of one iterable have the same shape in every generated case *)
Fixpoint val_leb (x y : val) : bool :=
  match x, y with
  | VInt a, VInt b => a <=? b
  | VChr a, VChr b => Nat.leb a b
  | VUnit, _ => true
  | VPair a b, VPair c d => if val_eqb a c then val_leb b d else val_leb a c
  | VInt _, _ => true
  | VChr _, VInt _ => false
  | VChr _, _ => true
  | VPair _ _, _ => false
  end.

Fixpoint insert (v : val) (l : list val) : list val :=
  match l with
  | [] => [v]
  | x :: tl => if val_leb v x then v :: l else x :: insert v tl
  end.
Definition sort_vals (l : list val) : list val := fold_right insert [] l.

Fixpoint dedupe_raw (l : list val) : list val :=
  match l with
  | [] => []
  | x :: tl => if existsb (val_eqb x) tl then dedupe_raw tl else x :: dedupe_raw tl
  end.
(* the items of a set: distinct, in CPython's iteration order for small non-negative ints (ascending);
   only the emptiness matters to the theorems *)
Definition dedupe (l : list val) : list val := sort_vals (dedupe_raw l).

Fixpoint index_from (i : Z) (l : list val) : list val :=
  match l with [] => [] | x :: tl => VPair (VInt i) (VPair x VUnit) :: index_from (i + 1) tl end.

Fixpoint zip2 (a b : list val) : list val :=
  match a, b with
  | x :: ta, y :: tb => VPair x (VPair y VUnit) :: zip2 ta tb
  | _, _ => []
  end.

Definition range_items (args : list Z) : option (list val) :=
  match args with
  | [e] => Some (map VInt (RangeModel.zrange 0 e 1))
  | [s; e] => Some (map VInt (RangeModel.zrange s e 1))
  | [s; e; st] => if st =? 0 then None else Some (map VInt (RangeModel.zrange s e st))
  | _ => None
  end.

(* ---------------- syntax ---------------- *)
Inductive lkind := KList | KTuple | KSet | KStr.

Inductive iterexp :=
| XLit (k : lkind) (vs : list val)            (* display / string literal whose items are literals *)
| XRange (args : list Z)                      (* range(...) with int literals *)
| XEnumerate (e : iterexp)
| XReversed (e : iterexp)
| XSorted (e : iterexp)
| XList (e : iterexp)
| XTuple (e : iterexp)
| XSet (e : iterexp)
| XIter (e : iterexp)
| XZip0
| XZip1 (e : iterexp)
| XZip2 (a b : iterexp)
| XOpaque.                                    (* a name, a call of anything else *)

(* ---------------- the implementation: literal_value, then the emptiness test ---------------- *)
Inductive okind := OKList | OKTuple | OKStr | OKSet | OKRange | OKIter.   (* OKIter: enumerate / zip / reversed objects *)
Definition pyobj := (okind * list val)%type.

Definition lit_kind (k : lkind) : okind :=
  match k with KList => OKList | KTuple => OKTuple | KSet => OKSet | KStr => OKStr end.

Definition reversible (k : okind) : bool :=
  match k with OKList | OKTuple | OKStr | OKRange => true | OKSet | OKIter => false end.

Fixpoint lit_value (x : iterexp) : option pyobj :=
  match x with
  | XLit KSet vs => Some (OKSet, dedupe vs)
  | XLit k vs => Some (lit_kind k, vs)
  | XRange args => option_map (fun l => (OKRange, l)) (range_items args)
  | XEnumerate e => option_map (fun o => (OKIter, index_from 0 (snd o))) (lit_value e)
  | XReversed e =>
      match lit_value e with
      | Some (k, l) => if reversible k then Some (OKIter, rev l) else None      (* TypeError -> ValueError *)
      | None => None
      end
  | XSorted e => option_map (fun o => (OKList, sort_vals (snd o))) (lit_value e)
  | XList e => option_map (fun o => (OKList, snd o)) (lit_value e)
  | XTuple e => option_map (fun o => (OKTuple, snd o)) (lit_value e)
  | XSet e => option_map (fun o => (OKSet, dedupe (snd o))) (lit_value e)
  | XIter _ => None                               (* iter is not in PURE_BUILTIN_FUNCTIONS *)
  | XZip0 => Some (OKIter, [])
  | XZip1 e => option_map (fun o => (OKIter, map (fun v => VPair v VUnit) (snd o))) (lit_value e)
  | XZip2 a b =>
      match lit_value a, lit_value b with
      | Some oa, Some ob => Some (OKIter, zip2 (snd oa) (snd ob))
      | _, _ => None
      end
  | XOpaque => None
  end.

(* `any(True for _ in iterator)`: emptiness is decided by ITERATING *)
Definition classify (x : iterexp) : iter :=
  match lit_value x with
  | None => IUnknown
  | Some (_, []) => IEmpty
  | Some (_, _ :: _) => INonEmpty
  end.

(* Python's truth value of the object -- what a test `if not iterator` would look at *)
Definition py_truthy (o : pyobj) : bool :=
  match o with
  | (OKIter, _) => true                            (* enumerate / zip / reversed objects are always truthy *)
  | (_, []) => false
  | (_, _ :: _) => true
  end.
Definition classify_by_truthiness (x : iterexp) : iter :=
  match lit_value x with
  | None => IUnknown
  | Some o => if py_truthy o then INonEmpty else IEmpty
  end.

(* ---------------- reference semantics: the items a `for` loop over the expression iterates over ----------------
   None: not known / evaluating the expression raises *)
Definition static_kind (x : iterexp) : option okind :=
  match x with
  | XLit k _ => Some (lit_kind k)
  | XRange _ => Some OKRange
  | XEnumerate _ | XReversed _ | XIter _ | XZip0 | XZip1 _ | XZip2 _ _ => Some OKIter
  | XSorted _ | XList _ => Some OKList
  | XTuple _ => Some OKTuple
  | XSet _ => Some OKSet
  | XOpaque => None
  end.

Fixpoint elements (x : iterexp) : option (list val) :=
  match x with
  | XLit KSet vs => Some (dedupe vs)
  | XLit _ vs => Some vs
  | XRange args => range_items args
  | XEnumerate e => option_map (index_from 0) (elements e)
  | XReversed e =>
      match static_kind e with
      | Some k => if reversible k then option_map (@rev val) (elements e) else None
      | None => None
      end
  | XSorted e => option_map sort_vals (elements e)
  | XList e | XTuple e | XIter e => elements e
  | XSet e => option_map dedupe (elements e)
  | XZip0 => Some []
  | XZip1 e => option_map (map (fun v => VPair v VUnit)) (elements e)
  | XZip2 a b =>
      match elements a, elements b with
      | Some la, Some lb => Some (zip2 la lb)
      | _, _ => None
      end
  | XOpaque => None
  end.

(* ---------------- correspondence plumbing ---------------- *)
Fixpoint list_eqb (a b : list val) : bool :=
  match a, b with
  | [], [] => true
  | x :: ta, y :: tb => val_eqb x y && list_eqb ta tb
  | _, _ => false
  end.

(* expected = what CPython's list(<expression>) gives (None: it raises) *)
Definition elements_ok (c : iterexp * option (list val)) : bool :=
  let '(x, expected) := c in
  match elements x, expected with
  | None, None => true
  | Some l, Some l' => list_eqb l l'
  | _, _ => false
  end.
