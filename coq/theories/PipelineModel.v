(* K7/C01 -- model of the ORCHESTRATION of main.format_code / main._format_code (pyrefact/main.py, after repair 9438482:
   format_code is a thin wrapper that terminates an unterminated text, runs _format_code = the former body, and removes
   one trailing LF again; line numbers below refer to the former body) and of
   main._multi_run_fixes (pyrefact/main.py:66-156).  Only the control flow is modelled: which stage
   runs, in which order, on which text, under which option / guard; the stages themselves are
   parameters (a stage is a function  src -> src  that may depend on the call context).
   Mirrors the code as it is; no proofs in this file.

     main.py:167-168   skip_file early return                         is_skip
     main.py:170-172   expandtabs / rmspace / fix_too_many_blank_lines KExpandTabs KRmspace KBlankLines
     main.py:174-175   blank early return                             is_blank
     main.py:177       original_source                                c_orig
     main.py:179-183   valid ? indent 0 : indentation_level + dedent  valid indent_level KDedent
     main.py:185-187   still invalid: return the (dedented) text      second early return
     main.py:189-201   safe: preserve := preserve U module surface    safe_preserve (abstract)
     main.py:203-204   add_missing_imports if minimum_indent = 0      KAddImports
     main.py:207-220   single-run chain, two variants by keep_imports KSingleRun keep
     main.py:225-232   first history loop, MAX_FILE_PASSES            loop
     main.py:234-235   overused_constant, simplify_assign_immediate_return
     main.py:239-245   second loop only if text not in the history (the text itself is NOT added)
     main.py:247-253   naming / import stages under minimum_indent = 0 and keep_imports
     main.py:255-258   sort_imports, fix_line_lengths, rmspace
     main.py:260-261   re-indent if minimum_indent > 0
     main.py:263       minimize_whitespace_line_differences(original_source, source)
     main.py:66-156    _multi_run_fixes = the n_multi rule calls in sequence, no branching   multi_pass *)
From Coq Require Import List Arith Bool.
Import ListNotations.

(* stage kinds.  KMulti i = the i-th call inside _multi_run_fixes (the harness reads the list of callee
   names from the running code; the theorems hold for every length n_multi). *)
Inductive kind : Type :=
| KExpandTabs | KRmspace | KBlankLines | KDedent
| KAddImports | KSingleRun (keep_imports : bool) | KMulti (i : nat)
| KOverused | KSimplifyAssign | KAlign | KRemoveUnused | KSortImports | KLineLengths
| KIndent | KMinWs.

Definition kind_eqb (a b : kind) : bool :=
  match a, b with
  | KExpandTabs, KExpandTabs | KRmspace, KRmspace | KBlankLines, KBlankLines | KDedent, KDedent
  | KAddImports, KAddImports | KOverused, KOverused | KSimplifyAssign, KSimplifyAssign
  | KAlign, KAlign | KRemoveUnused, KRemoveUnused | KSortImports, KSortImports
  | KLineLengths, KLineLengths | KIndent, KIndent | KMinWs, KMinWs => true
  | KSingleRun x, KSingleRun y => Bool.eqb x y
  | KMulti i, KMulti j => Nat.eqb i j
  | _, _ => false
  end.

Section Pipeline.
  Variables src P : Type.                      (* texts; preserve sets (abstract) *)
  Variable src_eqb : src -> src -> bool.       (* str.__eq__ (set membership of content_history) *)

  (* what a stage call can see besides the text: exists only after main.py:201 *)
  Record ctx : Type := mkCtx {
    c_preserve : P;          (* preserve (after the safe-mode extension) *)
    c_indent : nat;          (* minimum_indent; root_is_static = (c_indent =? 0) *)
    c_maxlen : nat;          (* max_line_length *)
    c_orig : src }.          (* original_source (after the whitespace pre-passes) *)

  Variable stage : kind -> option ctx -> src -> src.
  Variables is_skip is_blank valid : src -> bool.
  Variable indent_level : src -> nat.
  Variable safe_preserve : P -> src -> P.      (* main.py:189-201 *)
  Variable n_multi : nat.                      (* number of rule calls in _multi_run_fixes *)
  Variable max_passes : nat.                   (* MAX_FILE_PASSES *)

  (* state = current text + the trace of stage applications so far *)
  Definition state : Type := (src * list kind)%type.
  Definition run (c : option ctx) (k : kind) (st : state) : state :=
    (stage k c (fst st), snd st ++ [k]).
  Definition run_if (b : bool) (c : option ctx) (k : kind) (st : state) : state :=
    if b then run c k st else st.

  Definition multi_kinds : list kind := map KMulti (seq 0 n_multi).
  Definition multi_pass (c : option ctx) (st : state) : state :=
    fold_left (fun st k => run c k st) multi_kinds st.

  Definition mem (s : src) (h : list src) : bool := existsb (src_eqb s) h.

  (* for _ in range(1, 1 + MAX): source = multi(source); if source in history: break; history.add(source) *)
  Fixpoint loop (fuel : nat) (c : option ctx) (hist : list src) (st : state) : list src * state :=
    match fuel with
    | O => (hist, st)
    | S f =>
        let st' := multi_pass c st in
        if mem (fst st') hist then (hist, st') else loop f c (fst st' :: hist) st'
    end.

  Record opts : Type := mkOpts { o_safe : bool; o_keep : bool; o_preserve : P; o_maxlen : nat }.

  (* the text after the three whitespace pre-passes *)
  Definition prepass (s : src) : state :=
    run None KBlankLines (run None KRmspace (run None KExpandTabs (s, []))).

  (* main.py:179-183 *)
  Definition min_indent (orig : src) : nat := if valid orig then 0 else indent_level orig.
  Definition dedented (st : state) : state := run_if (negb (valid (fst st))) None KDedent st.

  (* main.py:189-201 + the values every later stage call receives *)
  Definition the_ctx (o : opts) (orig dsrc : src) : ctx :=
    mkCtx (if o_safe o then safe_preserve (o_preserve o) dsrc else o_preserve o)
          (min_indent orig) (o_maxlen o) orig.

  (* main.py:203-263, entered with the dedented valid text *)
  Definition body (o : opts) (orig : src) (st : state) : state :=
    let c := Some (the_ctx o orig (fst st)) in
    let top := Nat.eqb (min_indent orig) 0 in
    let st := run_if top c KAddImports st in
    let st := run c (KSingleRun (o_keep o)) st in
    let '(hist, st) := loop max_passes c [fst st] st in
    let st := run c KOverused st in
    let st := run c KSimplifyAssign st in
    let '(hist, st) := if mem (fst st) hist then (hist, st) else loop max_passes c hist st in
    let st := run_if top c KAlign st in
    let st := run_if top c KAddImports st in
    let st := run_if (top && negb (o_keep o)) c KRemoveUnused st in
    let st := run c KSortImports st in
    let st := run c KLineLengths st in
    let st := run c KRmspace st in
    let st := run_if (negb top) c KIndent st in
    run c KMinWs st.

  Definition format_code_traced (o : opts) (s : src) : state :=
    if is_skip s then (s, []) else
    let st := prepass s in
    if is_blank (fst st) then st else
    let orig := fst st in
    let st := dedented st in
    if negb (valid (fst st)) then st else
    body o orig st.

  Definition format_code_model (o : opts) (s : src) : src := fst (format_code_traced o s).
  Definition format_code_trace (o : opts) (s : src) : list kind := snd (format_code_traced o s).

  (* which of the three early returns fires, if any *)
  Inductive exit_kind : Type := ExitSkip | ExitBlank | ExitInvalid | NoExit.
  Definition exit_of (s : src) : exit_kind :=
    if is_skip s then ExitSkip else
    let st := prepass s in
    if is_blank (fst st) then ExitBlank else
    if negb (valid (fst (dedented st))) then ExitInvalid else NoExit.

  (* the stages that can run: depends on keep_imports, on whether the pre-passed text had to be dedented
     and on whether minimum_indent is 0 (the two differ only when an invalid text has an unindented line) *)
  Definition reachable (keep was_dedented top : bool) : list kind :=
    [KExpandTabs; KRmspace; KBlankLines]
    ++ (if was_dedented then [KDedent] else [])
    ++ (if top then [KAddImports] else [])
    ++ [KSingleRun keep] ++ multi_kinds ++ [KOverused; KSimplifyAssign]
    ++ (if top then [KAlign] else [])
    ++ (if top && negb keep then [KRemoveUnused] else [])
    ++ [KSortImports; KLineLengths]
    ++ (if top then [] else [KIndent])
    ++ [KMinWs].

  Definition reachable_for (o : opts) (s : src) : list kind :=
    let orig := fst (prepass s) in
    reachable (o_keep o) (negb (valid orig)) (Nat.eqb (min_indent orig) 0).

  (* ---- main.format_code, the wrapper (repair 9438482):
            if source and source[-1] not in "\r\n":
                formatted = _format_code(source + "\n", ...)
                return formatted[:-1] if formatted.endswith("\n") else formatted
            return _format_code(source, ...)
          format_code_traced above is _format_code. *)
  Variable needs_nl : src -> bool.             (* non-empty and last character not CR / LF *)
  Variable add_nl : src -> src.                (* source + "\n" *)
  Variable strip_nl : src -> src.              (* drop one trailing LF if there is one *)

  Definition inner_input (s : src) : src := if needs_nl s then add_nl s else s.
  Definition format_code_outer_traced (o : opts) (s : src) : state :=
    let r := format_code_traced o (inner_input s) in
    if needs_nl s then (strip_nl (fst r), snd r) else r.
  Definition format_code_outer (o : opts) (s : src) : src := fst (format_code_outer_traced o s).
  Definition format_code_outer_trace (o : opts) (s : src) : list kind := snd (format_code_outer_traced o s).
End Pipeline.

(* ---- correspondence plumbing: texts = small nats, preserve sets = bit masks; stages / guards = tables ---- *)
Definition script_t : Type := list (kind * (bool * list (nat * nat))).

Fixpoint assoc (k : kind) (l : script_t) : option (bool * list (nat * nat)) :=
  match l with
  | [] => None
  | (k', t) :: tl => if kind_eqb k k' then Some t else assoc k tl
  end.
Fixpoint lookup (i : nat) (l : list (nat * nat)) (d : nat) : nat :=
  match l with
  | [] => d
  | (a, b) :: tl => if Nat.eqb a i then b else lookup i tl d
  end.

(* a scripted stage: sparse table (identity elsewhere); a stage that is handed `preserve` may depend on it:
   index = preserve-mask * nu + text-id, otherwise index = text-id *)
Definition script_stage (nu : nat) (script : script_t) (k : kind) (c : option (ctx nat nat)) (s : nat) : nat :=
  match assoc k script with
  | None => s
  | Some (uses_preserve, t) =>
      let p := match c with Some c => if uses_preserve then c_preserve nat nat c else 0 | None => 0 end in
      lookup (p * nu + s) t s
  end.

(* observed traces are written with one token per full pass of _multi_run_fixes (KMulti 0 .. KMulti (n-1) in order) *)
Inductive tok : Type := TK (k : kind) | TPass.
Fixpoint expand (n : nat) (l : list tok) : list kind :=
  match l with
  | [] => []
  | TK k :: tl => k :: expand n tl
  | TPass :: tl => multi_kinds n ++ expand n tl
  end.

Record pcase : Type := mkPCase {
  pc_nu : nat; pc_nmulti : nat; pc_maxpasses : nat;
  pc_safe : bool; pc_keep : bool; pc_p0 : nat; pc_maxlen : nat; pc_input : nat;
  pc_script : script_t;
  pc_skip : list nat; pc_blank : list nat; pc_invalid : list nat;   (* the text ids on which the guard is true / false *)
  pc_level : list (nat * nat);                 (* indentation_level, sparse, default 0 *)
  pc_surface : list (nat * nat);               (* module surface of a text as a bit mask, sparse, default 0 *)
  pc_needsnl : list nat;                       (* unterminated non-empty texts *)
  pc_addnl : list (nat * nat); pc_stripnl : list (nat * nat);   (* text + LF; text minus one trailing LF (sparse, identity elsewhere) *)
  pc_result : nat; pc_trace : list tok;        (* observed on the real format_code (full passes abbreviated) *)
  pc_ctx : list nat }.                         (* observed [preserve mask; indent; maxlen; orig] or [] on early return *)

Fixpoint trace_eqb (a b : list kind) : bool :=
  match a, b with
  | [], [] => true
  | x :: a', y :: b' => kind_eqb x y && trace_eqb a' b'
  | _, _ => false
  end.
Fixpoint nats_eqb (a b : list nat) : bool :=
  match a, b with
  | [], [] => true
  | x :: a', y :: b' => Nat.eqb x y && nats_eqb a' b'
  | _, _ => false
  end.

Definition pcase_model (c : pcase) : nat * list kind * list nat :=
  let inl (l : list nat) (s : nat) := existsb (Nat.eqb s) l in
  let valid := fun s => negb (inl (pc_invalid c) s) in
  let level := fun s => lookup s (pc_level c) 0 in
  let stage := script_stage (pc_nu c) (pc_script c) in
  let sp := fun p s => Nat.lor p (lookup s (pc_surface c) 0) in
  let o := mkOpts nat (pc_safe c) (pc_keep c) (pc_p0 c) (pc_maxlen c) in
  let needs := inl (pc_needsnl c) in
  let addnl := fun s => lookup s (pc_addnl c) s in
  let stripnl := fun s => lookup s (pc_stripnl c) s in
  let r := format_code_outer_traced nat nat Nat.eqb stage (inl (pc_skip c)) (inl (pc_blank c)) valid level sp
             (pc_nmulti c) (pc_maxpasses c) needs addnl stripnl o (pc_input c) in
  let inner := inner_input nat needs addnl (pc_input c) in
  let cx := match exit_of nat nat stage (inl (pc_skip c)) (inl (pc_blank c)) valid inner with
            | NoExit =>
                let st := prepass nat nat stage inner in
                let x := the_ctx nat nat valid level sp o (fst st) (fst (dedented nat nat stage valid st)) in
                [c_preserve _ _ x; c_indent _ _ x; c_maxlen _ _ x; c_orig _ _ x]
            | _ => []
            end in
  (fst r, snd r, cx).

Definition pcase_ok (c : pcase) : bool :=
  let '(r, t, cx) := pcase_model c in
  Nat.eqb r (pc_result c) && trace_eqb t (expand (pc_nmulti c) (pc_trace c)) && nats_eqb cx (pc_ctx c).
