(* K8 -- model of the process-wide memo caches of pyrefact/core.py
     @functools.lru_cache(maxsize=100)    def parse(source_code)            core.py:381
     @functools.lru_cache(maxsize=10_000) def compile_template(source, ...) core.py:1267
   and of what a rule does with the objects those caches hand out.

   A cache is a list of (key, value), most recently used first.  The value is the *shared object* the
   cache returns: a rule that edits a node it took from the tree edits the cached value ([update]).
   functools.lru_cache: a hit moves the entry to the front; a miss computes the value, inserts it at the
   front and evicts from the back when over capacity; an exception from the wrapped function (SyntaxError)
   is not cached and leaves the cache untouched.
   No proofs in this file (so the model still runs when a proof breaks). *)
From Coq Require Import List Arith Bool.
Import ListNotations.

Section Cache.
Variable K V : Type.
Variable keqb : K -> K -> bool.
Variable compute : K -> option V.          (* ast.parse / the body of compile_template; None = raises *)
Variable evict : list (K * V) -> list (K * V).   (* eviction policy, applied after an insertion *)

Definition cache := list (K * V).

Fixpoint lookup (k : K) (st : cache) : option V :=
  match st with
  | [] => None
  | (k', v) :: tl => if keqb k' k then Some v else lookup k tl
  end.

Definition remove (k : K) (st : cache) : cache := filter (fun e => negb (keqb (fst e) k)) st.

(* one call of the memoised function *)
Definition get (k : K) (st : cache) : option V * cache :=
  match lookup k st with
  | Some v => (Some v, (k, v) :: remove k st)
  | None => match compute k with
            | None => (None, st)
            | Some v => (Some v, evict ((k, v) :: st))
            end
  end.

(* in-place mutation of the object that was handed out for key k (no effect once it is evicted) *)
Definition update (k : K) (f : V -> V) (st : cache) : cache :=
  map (fun e => if keqb (fst e) k then (fst e, f (snd e)) else e) st.

(* What a rule / format_code / a pattern call does, as far as the caches are concerned: it asks for
   objects (adaptively: what it asks next may depend on what it got), may mutate objects it was handed,
   and returns a result. *)
Inductive prog (R : Type) : Type :=
| Ret (r : R)
| Get (k : K) (cont : option V -> prog R)
| Mut (k : K) (f : V -> V) (cont : prog R).
Arguments Ret {R}. Arguments Get {R}. Arguments Mut {R}.

Fixpoint exec {R} (p : prog R) (st : cache) : R * cache :=
  match p with
  | Ret r => (r, st)
  | Get k c => let '(ov, st') := get k st in exec (c ov) st'
  | Mut k f c => exec c (update k f st)
  end.

(* the same program without any cache: every request is computed afresh, mutations are lost *)
Fixpoint eval {R} (p : prog R) : R :=
  match p with
  | Ret r => r
  | Get k c => eval (c (compute k))
  | Mut _ _ c => eval c
  end.

(* a program that never changes an object it was handed ("copy before mutating") *)
Inductive pure {R} : prog R -> Prop :=
| pure_ret r : pure (Ret r)
| pure_get k c : (forall ov, pure (c ov)) -> pure (Get k c)
| pure_mut k f c : (forall v, f v = v) -> pure c -> pure (Mut k f c).

(* a call history: the state after running the calls one after the other *)
Definition run_history {R} (h : list (prog R)) (st : cache) : cache :=
  fold_left (fun st p => snd (exec p st)) h st.

End Cache.

Arguments Ret {K V R}. Arguments Get {K V R}. Arguments Mut {K V R}.
Arguments pure {K V R}.

(* ------------------------------------------------------------------------------------------- *)
(* Eviction policies *)

(* one lru_cache(maxsize=cap) *)
Definition lru {K V} (cap : nat) (st : list (K * V)) : list (K * V) := firstn cap st.

(* the parse cache and the template cache side by side: keys are tagged (false = source text of
   core.parse, true = argument tuple of core.compile_template); each tag keeps its own [cap] most
   recently used entries *)
Fixpoint evict2 {K V} (n0 n1 : nat) (st : list ((bool * K) * V)) : list ((bool * K) * V) :=
  match st with
  | [] => []
  | ((false, k), v) :: tl => match n0 with
                             | O => evict2 O n1 tl
                             | S n => ((false, k), v) :: evict2 n n1 tl
                             end
  | ((true, k), v) :: tl => match n1 with
                            | O => evict2 n0 O tl
                            | S n => ((true, k), v) :: evict2 n0 n tl
                            end
  end.

Definition PARSE_MAXSIZE : nat := 100.         (* checked against core.parse.cache_parameters() *)
Definition TEMPLATE_MAXSIZE : nat := 100 * 100.    (* checked against core.compile_template.cache_parameters() *)

(* ------------------------------------------------------------------------------------------- *)
(* Concrete instance used by the correspondence with functools.lru_cache + shared ast objects.
   key = (tag, id); the value abstracts the tree to the number of statements in Module.body: a fresh
   parse of source #id has [base id] statements, a mutation appends one `pass`. *)
Definition ckey := (bool * nat)%type.
Definition ckey_eqb (a b : ckey) : bool := Bool.eqb (fst a) (fst b) && Nat.eqb (snd a) (snd b).

Inductive cop := OGet (k : ckey) | OMut (k : ckey).

(* sources with id >= bad do not parse (SyntaxError); source #id has id mod 3 + 1 statements *)
Definition ccompute (bad : nat) (k : ckey) : option nat :=
  if Nat.leb bad (snd k) then None else Some (snd k mod 3 + 1).

(* a straight-line rule: performs the operations, returns what every Get saw (None = raised) *)
Fixpoint prog_of_ops (ops : list cop) (seen : list (option nat)) : prog ckey nat (list (option nat)) :=
  match ops with
  | [] => Ret (rev seen)
  | OGet k :: tl => Get k (fun ov => prog_of_ops tl (ov :: seen))
  | OMut k :: tl => Mut k S (prog_of_ops tl seen)
  end.

Definition cexec (c0 c1 bad : nat) (calls : list (list cop)) : list (list (option nat)) :=
  let step (acc : list (list (option nat)) * cache ckey nat) (ops : list cop) :=
      let '(r, st') := exec ckey nat ckey_eqb (ccompute bad) (evict2 c0 c1) (prog_of_ops ops []) (snd acc) in
      (r :: fst acc, st') in
  rev (fst (fold_left step calls ([], []))).

(* which Gets reach the wrapped function (misses), computed from [lookup] directly *)
Fixpoint cmisses (c0 c1 bad : nat) (ops : list cop) (st : cache ckey nat) : list bool :=
  match ops with
  | [] => []
  | OGet k :: tl =>
      let miss := match lookup ckey nat ckey_eqb k st with Some _ => false | None => true end in
      miss :: cmisses c0 c1 bad tl (snd (get ckey nat ckey_eqb (ccompute bad) (evict2 c0 c1) k st))
  | OMut k :: tl => cmisses c0 c1 bad tl (update ckey nat ckey_eqb k S st)
  end.

Definition opt_nat_eqb (a b : option nat) : bool :=
  match a, b with
  | None, None => true
  | Some x, Some y => Nat.eqb x y
  | _, _ => false
  end.

Fixpoint list_eqb {X} (eqb : X -> X -> bool) (a b : list X) : bool :=
  match a, b with
  | [], [] => true
  | x :: a', y :: b' => eqb x y && list_eqb eqb a' b'
  | _, _ => false
  end.

Record cache_case := mkCCase {
  cc_cap0 : nat; cc_cap1 : nat; cc_bad : nat;
  cc_calls : list (list cop);
  cc_seen : list (list (option nat));      (* what the real rule calls observed *)
  cc_misses : list bool                    (* which real Gets reached the wrapped function *)
}.

Definition cache_case_ok (c : cache_case) : bool :=
  list_eqb (list_eqb opt_nat_eqb) (cexec (cc_cap0 c) (cc_cap1 c) (cc_bad c) (cc_calls c)) (cc_seen c)
  && list_eqb Bool.eqb (cmisses (cc_cap0 c) (cc_cap1 c) (cc_bad c) (concat (cc_calls c)) []) (cc_misses c).

(* ------------------------------------------------------------------------------------------- *)
(* The defect of performance.remove_redundant_chained_calls as it was before its repair (F05-1):
   the tree is abstracted to "the inner sorted(...) call carries reverse=True"; the rule toggled that
   keyword ON THE CACHED NODE and returned the edited node. *)
Definition chained_calls_before_fix : prog nat bool (option bool) :=
  Get 0 (fun ov => match ov with
                   | None => Ret None
                   | Some v => Mut 0 negb (Ret (Some (negb v)))
                   end).
(* after the repair the rule edits a copy: the cached object is left alone *)
Definition chained_calls_after_fix : prog nat bool (option bool) :=
  Get 0 (fun ov => match ov with
                   | None => Ret None
                   | Some v => Ret (Some (negb v))
                   end).
