(* C02, tranche "perf": proofs about RulesPerfModel (iteration rules of performance.py) *)
From Coq Require Import List ZArith Bool Lia Permutation.
From Pyrefact Require Import Base RulesPerfModel.
Import ListNotations.
Open Scope Z_scope.

(* ================================================================ lists, sorting *)
Definition mem (va : val) (zs : list Z) : bool := match find_idx va zs with Some _ => true | None => false end.

Lemma mem_cons va z zs : mem va (z :: zs) = veq va z || mem va zs.
Proof. unfold mem. cbn [find_idx]. destruct (veq va z); [reflexivity|]. destruct (find_idx va zs); reflexivity. Qed.

Lemma mem_existsb va zs : existsb (veq va) zs = mem va zs.
Proof. induction zs as [|z t IH]; [reflexivity|]. rewrite mem_cons. cbn [existsb]. now rewrite IH. Qed.

Lemma mem_insert va k x l : mem va (insert k x l) = veq va x || mem va l.
Proof.
  induction l as [|y t IH]; cbn [insert].
  - now rewrite mem_cons.
  - destruct (keyf k x <=? keyf k y).
    + now rewrite mem_cons.
    + rewrite !mem_cons, IH. destruct (veq va x), (veq va y); reflexivity.
Qed.

Lemma mem_isort va k l : mem va (isort k l) = mem va l.
Proof.
  induction l as [|x t IH]; [reflexivity|]. cbn [isort fold_right]. fold (isort k t).
  now rewrite mem_insert, IH, mem_cons.
Qed.

(* the head of the stable sort is the first minimal element *)
Lemma isort_head k l :
  match isort k l with [] => minby k l = None | z :: _ => minby k l = Some z end.
Proof.
  induction l as [|x t IH]; [reflexivity|].
  cbn [isort fold_right minby]. fold (isort k t).
  destruct (isort k t) as [|y s]; cbn [insert].
  - now rewrite IH.
  - rewrite IH. destruct (keyf k x <=? keyf k y); reflexivity.
Qed.

Lemma isort_nil k l : isort k l = [] -> l = [].
Proof.
  destruct l as [|x t]; [reflexivity|]. cbn [isort fold_right]. fold (isort k t).
  destruct (isort k t) as [|y s]; cbn [insert]; [discriminate|]. destruct (keyf k x <=? keyf k y); discriminate.
Qed.

(* without a key: sorted permutations are unique, and max is the last element *)
Inductive sorted : list Z -> Prop :=
| sorted_nil : sorted []
| sorted_one x : sorted [x]
| sorted_cons x y l : x <= y -> sorted (y :: l) -> sorted (x :: y :: l).

Lemma insert_sorted x l : sorted l -> sorted (insert false x l).
Proof.
  induction 1 as [|y|y z l Hyz Hs IH]; cbn [insert keyf].
  - constructor.
  - destruct (x <=? y) eqn:E; constructor; try lia; constructor.
  - cbn [insert keyf] in IH. destruct (x <=? y) eqn:E.
    + constructor; [lia|]. now constructor.
    + destruct (x <=? z) eqn:E2.
      * constructor; [lia|]. constructor; [lia|assumption].
      * constructor; assumption.
Qed.

Lemma isort_sorted l : sorted (isort false l).
Proof. induction l; cbn [isort fold_right]; [constructor|]. now apply insert_sorted. Qed.

Lemma insert_perm k x l : Permutation (insert k x l) (x :: l).
Proof.
  induction l as [|y t IH]; cbn [insert]; [reflexivity|].
  destruct (keyf k x <=? keyf k y); [reflexivity|].
  rewrite IH. apply perm_swap.
Qed.

Lemma isort_perm k l : Permutation (isort k l) l.
Proof.
  induction l as [|x t IH]; cbn [isort fold_right]; [reflexivity|]. fold (isort k t).
  rewrite insert_perm. now constructor.
Qed.

Lemma sorted_head_le x l : sorted (x :: l) -> forall y, In y l -> x <= y.
Proof.
  revert x. induction l as [|z t IH]; intros x Hs y Hy; [destruct Hy|].
  inversion Hs; subst. destruct Hy as [->|Hy]; [assumption|].
  assert (z <= y) by (apply IH; assumption). lia.
Qed.

Lemma sorted_tail x l : sorted (x :: l) -> sorted l.
Proof. inversion 1; subst; [constructor|assumption]. Qed.

Lemma sorted_perm_eq l1 : forall l2, sorted l1 -> sorted l2 -> Permutation l1 l2 -> l1 = l2.
Proof.
  induction l1 as [|x t IH]; intros l2 H1 H2 HP.
  - apply Permutation_nil in HP. now subst.
  - destruct l2 as [|y s]; [apply Permutation_sym, Permutation_nil in HP; discriminate|].
    assert (x = y).
    { assert (In x (y :: s)) as Hx by (eapply Permutation_in; [exact HP|now left]).
      assert (In y (x :: t)) as Hy by (eapply Permutation_in; [apply Permutation_sym; exact HP|now left]).
      destruct Hx as [->|Hx]; [reflexivity|]. destruct Hy as [->|Hy]; [reflexivity|].
      pose proof (sorted_head_le _ _ H1 _ Hy). pose proof (sorted_head_le _ _ H2 _ Hx). lia. }
    subst y. f_equal. apply IH; [eapply sorted_tail; eassumption|eapply sorted_tail; eassumption|].
    eapply Permutation_cons_inv; eassumption.
Qed.

Lemma isort_rev l : isort false (rev l) = isort false l.
Proof.
  apply sorted_perm_eq; try apply isort_sorted.
  rewrite !isort_perm. apply Permutation_sym, Permutation_rev.
Qed.

Lemma maxby_in k l m : maxby k l = Some m -> In m l.
Proof.
  revert m. induction l as [|x t IH]; intros m; cbn [maxby]; [discriminate|].
  destruct (maxby k t) as [m'|].
  - destruct (keyf k m' <=? keyf k x); intros [= <-]; [now left|right; now apply IH].
  - intros [= <-]. now left.
Qed.

Lemma maxby_ge l m : maxby false l = Some m -> forall y, In y l -> y <= m.
Proof.
  revert m. induction l as [|x t IH]; intros m; cbn [maxby keyf]; [discriminate|].
  destruct (maxby false t) as [m'|] eqn:E.
  - destruct (m' <=? x) eqn:E2; intros [= <-] y [->|Hy]; try lia.
    + pose proof (IH _ eq_refl _ Hy). lia.
    + now apply IH.
  - intros [= <-] y [->|Hy]; [lia|]. destruct t; [destruct Hy|cbn [maxby] in E; destruct (maxby false t); [destruct (_ <=? _)|]; discriminate].
Qed.

Lemma sorted_last_ge l : sorted l -> forall z s, rev l = z :: s -> forall y, In y l -> y <= z.
Proof.
  induction 1 as [|x|x y l Hxy Hs IH]; intros z s Hr w Hw.
  - destruct Hw.
  - cbn in Hr. inversion Hr; subst. destruct Hw as [<-|[]]. lia.
  - change (rev (x :: y :: l)) with (rev (y :: l) ++ [x]) in Hr.
    destruct (rev (y :: l)) as [|z' s'] eqn:E.
    + apply (f_equal (@length Z)) in E. rewrite rev_length in E. discriminate.
    + cbn [app] in Hr. inversion Hr; subst z' s.
      assert (forall v, In v (y :: l) -> v <= z) as Hall by (intros v Hv; eapply IH; [reflexivity|exact Hv]).
      destruct Hw as [<-|Hw]; [|now apply Hall].
      assert (y <= z) by (apply Hall; now left). lia.
Qed.

(* the last element of the sorted list is max (no key: equal keys are equal values) *)
Lemma isort_last l :
  match rev (isort false l) with [] => maxby false l = None | z :: _ => maxby false l = Some z end.
Proof.
  destruct (rev (isort false l)) as [|z s] eqn:E.
  - apply (f_equal (@rev Z)) in E. rewrite rev_involutive in E. cbn in E. apply isort_nil in E. now subst.
  - destruct (maxby false l) as [m|] eqn:Em.
    + f_equal.
      assert (In m (isort false l)) as Hm.
      { eapply Permutation_in; [apply Permutation_sym, isort_perm|]. eapply maxby_in; eassumption. }
      assert (In z l) as Hz.
      { eapply Permutation_in; [apply isort_perm|]. apply in_rev. rewrite E. now left. }
      pose proof (sorted_last_ge _ (isort_sorted l) _ _ E _ Hm).
      pose proof (maxby_ge _ _ Em _ Hz). lia.
    + destruct l; [|cbn [maxby] in Em; destruct (maxby false l); [destruct (_ <=? _)|]; discriminate].
      discriminate.
Qed.

Lemma lastn_as_rev (A : Type) (n : nat) (l : list A) :
  skipn (length l - n) l = rev (firstn n (rev l)).
Proof.
  rewrite firstn_rev, rev_involutive. reflexivity.
Qed.

Section Proofs.
Variable W : nat -> list Z.
Notation eval := (eval W).
Notation eval_it := (eval_it W).
Notation exec_simple := (exec_simple W).
Notation exec_body := (exec_body W).
Notation exec_stmt := (exec_stmt W).
Notation exec_prog := (exec_prog W).
Notation loop := (loop W).
Notation run := (run W).
Notation drain := (drain W).
Notation scan := (scan W).
Notation call := (call W).
Notation with_items := (with_items W).

(* ================================================================ iterators built on the spot *)
Definition nongen (s : src) : bool := match s with SGen _ => false | _ => true end.

Lemma drain_local h s p : nongen s = true -> drain h (ILocal s p) = (rest W h s p, h).
Proof. destruct s; try discriminate; reflexivity. Qed.

Lemma scan_local va h s p : nongen s = true -> scan va h (ILocal s p) = (mem va (rest W h s p), h).
Proof.
  intros Hs. unfold RulesPerfModel.scan, mem. cbn [view].
  destruct (find_idx va (rest W h s p)); destruct s; try discriminate; reflexivity.
Qed.

Lemma to_itref_of_itref it : to_itref (of_itref it) = Some it.
Proof. destruct it; reflexivity. Qed.

(* ================================================================ the invariant of a module's globals *)
Definition holds (mut : bool) (o : option val) : Prop :=
  match o with
  | None => True
  | Some (VTup _) => True
  | Some (VList _) => mut = true
  | _ => False
  end.

Definition Inv (p : prog) (en : env) : Prop :=
  (forall n, rebound p n = false -> lookup en n = None)
  /\ (forall mut x, collvar mut p x = true -> holds mut (lookup en x)).

Lemma Inv_nil p : Inv p [].
Proof. split; intros; cbn; trivial. Qed.

Definition simple_of (p : prog) (s : simple) : Prop :=
  exists st, In st p /\ (st = SS s \/ exists x e b, st = SFor x e b /\ In s b).

Lemma rebound_assign p x e : simple_of p (SAssign x e) -> rebound p x = true.
Proof.
  intros (st & Hin & Hst). unfold rebound. apply existsb_exists. exists st. split; [assumption|].
  destruct Hst as [->|(y & e' & b & -> & Hb)]; cbn.
  - apply Nat.eqb_refl.
  - apply orb_true_iff. right. apply existsb_exists. exists (SAssign x e). split; [assumption|]. cbn. apply Nat.eqb_refl.
Qed.

Lemma assigns_in p x e : simple_of p (SAssign x e) -> In e (assigns x p).
Proof.
  intros (st & Hin & Hst). unfold assigns. apply in_flat_map. exists st. split; [assumption|].
  destruct Hst as [->|(y & e' & b & -> & Hb)]; cbn.
  - rewrite Nat.eqb_refl. now left.
  - apply in_flat_map. exists (SAssign x e). split; [assumption|]. cbn. rewrite Nat.eqb_refl. now left.
Qed.

Lemma rebound_for p x e b : In (SFor x e b) p -> rebound p x = true.
Proof.
  intros Hin. unfold rebound. apply existsb_exists. exists (SFor x e b). split; [assumption|]. cbn. now rewrite Nat.eqb_refl.
Qed.

Lemma collvar_for p x e b mut : In (SFor x e b) p -> collvar mut p x = false.
Proof.
  intros Hin. unfold collvar.
  assert (existsb (fortarget x) p = true) as ->.
  { apply existsb_exists. exists (SFor x e b). split; [assumption|]. cbn. apply Nat.eqb_refl. }
  cbn. now rewrite andb_false_r.
Qed.

Lemma unbound_of_inv p en n : Inv p en -> rebound p n = false -> bound en n = false.
Proof. intros [H _] Hn. unfold bound. now rewrite (H n Hn). Qed.

(* what a collection expression evaluates to *)
Definition fresh_coll (v : val) : Prop := (exists zs, v = VNewList zs) \/ (exists zs, v = VTup zs).

Lemma with_items_newlist v h f r h' :
  with_items v h (fun zs h2 => Ok (VNewList (f zs)) h2) = Ok r h' -> exists zs, r = VNewList zs.
Proof.
  unfold RulesPerfModel.with_items. destruct (to_itref v); [|discriminate].
  destruct (drain h i) as [zs h2]. intros [= <- _]. eauto.
Qed.

Lemma coll_head_value p en e h v h' :
  Inv p en -> is_coll_head p e = true -> eval en e h = Ok v h' -> fresh_coll v.
Proof.
  intros HI Hc He. destruct e; try discriminate Hc; cbn [RulesPerfModel.eval] in He.
  - injection He as <- _. left. eauto.
  - injection He as <- _. right. eauto.
  - destruct f; try discriminate Hc; destruct (eval en e h) as [v1 h1|]; try discriminate;
      destruct (bound en _); try discriminate; unfold RulesPerfModel.call in He;
      destruct (to_itref v1); try discriminate; destruct (drain h1 i) as [zs h2]; injection He as <- _;
      [left|right]; eauto.
  - destruct (eval en e h) as [v1 h1|]; try discriminate. destruct (bound en N_SORTED); try discriminate.
    left. eapply with_items_newlist with (f := isort k). exact He.
  - destruct (atomv en n) as [vn|]; try discriminate. destruct (eval en e h) as [v1 h1|]; try discriminate.
    destruct (as_index vn) as [[z|]|]; try discriminate. destruct (to_itref v1); try discriminate.
    destruct (z <=? 0).
    + destruct (bound en N_LIST || bound en N_REVERSED); try discriminate. injection He as <- _. left. eauto.
    + destruct (drain h1 i) as [zs h2]. destruct (bound en N_LIST || bound en N_REVERSED); try discriminate.
      injection He as <- _. left. eauto.
  - destruct (eval en e h) as [v1 h1|]; try discriminate. left.
    eapply with_items_newlist with (f := fun zs => zs). exact He.
Qed.

Lemma imm_head_value p en e h v h' :
  Inv p en -> is_imm_head p e = true -> eval en e h = Ok v h' -> exists zs, v = VTup zs.
Proof.
  intros HI Hc He. destruct e; try discriminate Hc; cbn [RulesPerfModel.eval] in He.
  - injection He as <- _. eauto.
  - destruct f; try discriminate Hc. destruct (eval en e h) as [v1 h1|]; try discriminate.
    destruct (bound en _); try discriminate. unfold RulesPerfModel.call in He.
    destruct (to_itref v1); try discriminate. destruct (drain h1 i) as [zs h2]. injection He as <- _. eauto.
Qed.

(* a collection in the sense of _is_collection: a fresh one, or (Name case) the list / tuple a variable holds *)
Lemma coll_value mut p en e h v h' :
  Inv p en -> is_coll mut p e = true -> eval en e h = Ok v h' ->
  fresh_coll v \/ (mut = true /\ h' = h /\ exists l, v = VList l).
Proof.
  intros HI Hc He. unfold is_coll in Hc. apply orb_true_iff in Hc. destruct Hc as [Hc|Hc].
  - left. eapply coll_head_value; eassumption.
  - destruct e; try discriminate. destruct a; try discriminate.
    cbn [RulesPerfModel.eval atomv] in He. destruct HI as [_ HI]. specialize (HI _ _ Hc).
    destruct (lookup en x) as [w|]; [|discriminate]. injection He as <- <-.
    destruct w; cbn in HI; try contradiction.
    + left. right. eauto.
    + right. eauto.
Qed.

(* ================================================================ the invariant is preserved *)
Lemma Inv_set_other p en x v :
  Inv p en -> rebound p x = true -> (forall mut, collvar mut p x = true -> holds mut (Some v)) -> Inv p (set_var en x v).
Proof.
  intros [H1 H2] Hx Hv. split.
  - intros n Hn. cbn. destruct (Nat.eqb n x) eqn:E; [apply Nat.eqb_eq in E; subst; congruence|]. now apply H1.
  - intros mut y Hy. cbn. destruct (Nat.eqb y x) eqn:E; [apply Nat.eqb_eq in E; subst; now apply Hv|]. now apply H2.
Qed.

Lemma exec_simple_inv p en s h o en' h' :
  simple_of p s -> Inv p en -> exec_simple en s h = (o, en', h') -> Inv p en'.
Proof.
  intros Hs HI He. destruct s; cbn [RulesPerfModel.exec_simple] in He.
  - destruct (eval en e h) as [v h1|] eqn:Ee; [|injection He as _ <- _; assumption].
    destruct (bindv h1 v) as [v' h2] eqn:Eb. injection He as _ <- _.
    apply Inv_set_other; [assumption|eapply rebound_assign; eassumption|].
    intros mut Hc. pose proof (assigns_in _ _ _ Hs) as Hin.
    unfold collvar in Hc. apply andb_true_iff in Hc. destruct Hc as [_ Hall].
    rewrite forallb_forall in Hall. specialize (Hall _ Hin). apply andb_true_iff in Hall. destruct Hall as [Hch Him].
    destruct mut.
    + destruct (coll_head_value _ _ _ _ _ _ HI Hch Ee) as [[zs ->]|[zs ->]]; cbn in Eb; injection Eb as <- _; cbn; trivial.
    + cbn in Him. destruct (imm_head_value _ _ _ _ _ _ HI Him Ee) as [zs ->]. cbn in Eb. injection Eb as <- _. cbn. trivial.
  - destruct (eval en e h); injection He as _ <- _; assumption.
  - destruct (eval en e h); injection He as _ <- _; assumption.
  - destruct (lookup en x) as [[]|]; try (injection He as _ <- _; assumption).
    destruct (atomv en a) as [[]|]; injection He as _ <- _; assumption.
  - destruct (lookup en x) as [[]|]; try (injection He as _ <- _; assumption).
    destruct (atomv en a) as [va|]; [destruct (remove_first va (getl h l))|]; injection He as _ <- _; assumption.
Qed.

Lemma exec_body_inv p b : forall en h o en' h',
  (forall s, In s b -> simple_of p s) -> Inv p en -> exec_body en b h = (o, en', h') -> Inv p en'.
Proof.
  induction b as [|s t IH]; intros en h o en' h' Hb HI He; cbn [RulesPerfModel.exec_body] in He.
  - injection He as _ <- _. assumption.
  - destruct (exec_simple en s h) as [[[ex|] en1] h1] eqn:E1.
    + injection He as _ <- _. eapply exec_simple_inv; [apply Hb; now left|eassumption|eassumption].
    + eapply IH; [intros; apply Hb; now right| |eassumption].
      eapply exec_simple_inv; [apply Hb; now left|eassumption|eassumption].
Qed.

Lemma Inv_loop_var p en x e b z : In (SFor x e b) p -> Inv p en -> Inv p (set_var en x (VInt z)).
Proof.
  intros Hin HI. apply Inv_set_other; [assumption|eapply rebound_for; eassumption|].
  intros mut Hc. rewrite (collvar_for _ _ _ _ mut Hin) in Hc. discriminate.
Qed.

Lemma body_of p x e b : In (SFor x e b) p -> forall s, In s b -> simple_of p s.
Proof. intros Hin s Hs. exists (SFor x e b). split; [assumption|]. right. eauto 6. Qed.

Lemma loop_inv p x e b : In (SFor x e b) p -> forall fuel en h it o en' h',
  Inv p en -> loop fuel x b en h it = (o, en', h') -> Inv p en'.
Proof.
  intros Hin. induction fuel as [|f IH]; intros en h it o en' h' HI He; cbn [RulesPerfModel.loop] in He.
  - injection He as _ <- _. assumption.
  - destruct (next W h it) as [[[z|] h1] it'].
    + destruct (exec_body (set_var en x (VInt z)) b h1) as [[[ex|] en2] h2] eqn:Eb.
      * injection He as _ <- _. eapply exec_body_inv; [eapply body_of; eassumption| |eassumption].
        eapply Inv_loop_var; eassumption.
      * eapply IH; [|eassumption]. eapply exec_body_inv; [eapply body_of; eassumption| |eassumption].
        eapply Inv_loop_var; eassumption.
    + injection He as _ <- _. assumption.
Qed.

Lemma exec_stmt_inv p st fuel en h o en' h' :
  In st p -> Inv p en -> exec_stmt fuel en st h = (o, en', h') -> Inv p en'.
Proof.
  intros Hin HI He. destruct st as [s|x e b]; cbn [RulesPerfModel.exec_stmt] in He.
  - eapply exec_simple_inv; [|eassumption|eassumption]. exists (SS s). split; [assumption|now left].
  - destruct (eval_it en e h) as [it h1|]; [|injection He as _ <- _; assumption].
    eapply loop_inv; eassumption.
Qed.

(* ================================================================ congruence: a rewrite of expressions that
   preserves their evaluation under the invariant preserves the run of the module *)
Section Congr.
Variable p : prog.
Variables fe fi : expr -> expr.
Variable ok : expr -> bool.
Hypothesis Hfe : forall en e h, ok e = true -> Inv p en -> eval en (fe e) h = eval en e h.
Hypothesis Hfi : forall en e h, ok e = true -> Inv p en -> eval_it en (fi e) h = eval_it en e h.

Lemma exec_simple_map en s h :
  simple_all ok s = true -> Inv p en -> exec_simple en (map_simple fe s) h = exec_simple en s h.
Proof.
  intros Hok HI. destruct s; cbn [map_simple RulesPerfModel.exec_simple]; cbn in Hok; try rewrite Hfe by assumption; reflexivity.
Qed.

Lemma exec_body_map b : forall en h,
  forallb (simple_all ok) b = true -> (forall s, In s b -> simple_of p s) -> Inv p en ->
  exec_body en (map (map_simple fe) b) h = exec_body en b h.
Proof.
  induction b as [|s t IH]; intros en h Hok Hb HI; [reflexivity|].
  cbn [forallb] in Hok. apply andb_true_iff in Hok. destruct Hok as [Hs Ht].
  cbn [map RulesPerfModel.exec_body]. rewrite exec_simple_map by assumption.
  destruct (exec_simple en s h) as [[[ex|] en1] h1] eqn:E1; [reflexivity|].
  apply IH; [assumption|intros; apply Hb; now right|].
  eapply exec_simple_inv; [apply Hb; now left|eassumption|eassumption].
Qed.

Lemma loop_map x e b : In (SFor x e b) p -> forallb (simple_all ok) b = true -> forall fuel en h it,
  Inv p en -> loop fuel x (map (map_simple fe) b) en h it = loop fuel x b en h it.
Proof.
  intros Hin Hok. induction fuel as [|f IH]; intros en h it HI; [reflexivity|].
  cbn [RulesPerfModel.loop]. destruct (next W h it) as [[[z|] h1] it']; [|reflexivity].
  rewrite exec_body_map; [|assumption|eapply body_of; eassumption|eapply Inv_loop_var; eassumption].
  destruct (exec_body (set_var en x (VInt z)) b h1) as [[[ex|] en2] h2] eqn:Eb; [reflexivity|].
  apply IH. eapply exec_body_inv; [eapply body_of; eassumption| |eassumption]. eapply Inv_loop_var; eassumption.
Qed.

Lemma exec_stmt_map fuel en st h :
  In st p -> stmt_all ok st = true -> Inv p en ->
  exec_stmt fuel en (map_stmt fe fi st) h = exec_stmt fuel en st h.
Proof.
  intros Hin Hok HI. destruct st as [s|x e b]; cbn [map_stmt RulesPerfModel.exec_stmt].
  - now apply exec_simple_map.
  - cbn in Hok. apply andb_true_iff in Hok. destruct Hok as [He Hb].
    rewrite Hfi by assumption. destruct (eval_it en e h) as [it h1|]; [|reflexivity].
    eapply loop_map; eassumption.
Qed.

Lemma exec_prog_map fuel q : forall en h,
  incl q p -> forallb (stmt_all ok) q = true -> Inv p en ->
  exec_prog fuel en (map (map_stmt fe fi) q) h = exec_prog fuel en q h.
Proof.
  induction q as [|st t IH]; intros en h Hq Hok HI; [reflexivity|].
  cbn [forallb] in Hok. apply andb_true_iff in Hok. destruct Hok as [Hs Ht].
  cbn [map RulesPerfModel.exec_prog].
  rewrite exec_stmt_map; [|apply Hq; now left|assumption|assumption].
  destruct (exec_stmt fuel en st h) as [[[ex|] en1] h1] eqn:E1; [reflexivity|].
  apply IH; [intros a Ha; apply Hq; now right|assumption|].
  eapply exec_stmt_inv; [apply Hq; now left|eassumption|eassumption].
Qed.

Theorem run_map fuel : prog_all ok p = true -> run fuel (map (map_stmt fe fi) p) = run fuel p.
Proof.
  intros Hok. unfold RulesPerfModel.run. apply exec_prog_map; [apply incl_refl|assumption|apply Inv_nil].
Qed.
End Congr.

End Proofs.
