(* C02, tranche "perf": proofs about RulesPerfModel (iteration rules of performance.py) *)
From Coq Require Import List ZArith Bool Lia Permutation.
From Pyrefact Require Import Base RulesPerfModel.
Import ListNotations.
Open Scope Z_scope.

(* ================================================================ lists, sorting *)
Definition mem (va : val) (zs : list Z) : bool := match find_idx va zs with Some _ => true | None => false end.

Lemma mem_cons va z zs : mem va (z :: zs) = veq va z || mem va zs.
Proof. unfold mem. cbn [find_idx]. destruct (veq va z); [reflexivity|]. destruct (find_idx va zs); reflexivity. Qed.

Lemma mem_existsb va zs : existsb (veq va) zs = mem va zs.
Proof. induction zs as [|z t IH]; [reflexivity|]. rewrite mem_cons. cbn [existsb]. now rewrite IH. Qed.

Lemma mem_insert va k x l : mem va (insert k x l) = veq va x || mem va l.
Proof.
  induction l as [|y t IH]; cbn [insert].
  - now rewrite mem_cons.
  - destruct (keyf k x <=? keyf k y).
    + now rewrite mem_cons.
    + rewrite !mem_cons, IH. destruct (veq va x), (veq va y); reflexivity.
Qed.

Lemma mem_isort va k l : mem va (isort k l) = mem va l.
Proof.
  induction l as [|x t IH]; [reflexivity|]. cbn [isort fold_right]. fold (isort k t).
  now rewrite mem_insert, IH, mem_cons.
Qed.

(* the head of the stable sort is the first minimal element *)
Lemma isort_head k l :
  match isort k l with [] => minby k l = None | z :: _ => minby k l = Some z end.
Proof.
  induction l as [|x t IH]; [reflexivity|].
  cbn [isort fold_right minby]. fold (isort k t).
  destruct (isort k t) as [|y s]; cbn [insert].
  - now rewrite IH.
  - rewrite IH. destruct (keyf k x <=? keyf k y); reflexivity.
Qed.

Lemma isort_nil k l : isort k l = [] -> l = [].
Proof.
  destruct l as [|x t]; [reflexivity|]. cbn [isort fold_right]. fold (isort k t).
  destruct (isort k t) as [|y s]; cbn [insert]; [discriminate|]. destruct (keyf k x <=? keyf k y); discriminate.
Qed.

(* without a key: sorted permutations are unique, and max is the last element *)
Inductive sorted : list Z -> Prop :=
| sorted_nil : sorted []
| sorted_one x : sorted [x]
| sorted_cons x y l : x <= y -> sorted (y :: l) -> sorted (x :: y :: l).

Lemma insert_sorted x l : sorted l -> sorted (insert false x l).
Proof.
  induction 1 as [|y|y z l Hyz Hs IH]; cbn [insert keyf].
  - constructor.
  - destruct (x <=? y) eqn:E; constructor; try lia; constructor.
  - cbn [insert keyf] in IH. destruct (x <=? y) eqn:E.
    + constructor; [lia|]. now constructor.
    + destruct (x <=? z) eqn:E2.
      * constructor; [lia|]. constructor; [lia|assumption].
      * constructor; assumption.
Qed.

Lemma isort_sorted l : sorted (isort false l).
Proof. induction l; cbn [isort fold_right]; [constructor|]. now apply insert_sorted. Qed.

Lemma insert_perm k x l : Permutation (insert k x l) (x :: l).
Proof.
  induction l as [|y t IH]; cbn [insert]; [reflexivity|].
  destruct (keyf k x <=? keyf k y); [reflexivity|].
  rewrite IH. apply perm_swap.
Qed.

Lemma isort_perm k l : Permutation (isort k l) l.
Proof.
  induction l as [|x t IH]; cbn [isort fold_right]; [reflexivity|]. fold (isort k t).
  rewrite insert_perm. now constructor.
Qed.

Lemma sorted_head_le x l : sorted (x :: l) -> forall y, In y l -> x <= y.
Proof.
  revert x. induction l as [|z t IH]; intros x Hs y Hy; [destruct Hy|].
  inversion Hs; subst. destruct Hy as [->|Hy]; [assumption|].
  assert (z <= y) by (apply IH; assumption). lia.
Qed.

Lemma sorted_tail x l : sorted (x :: l) -> sorted l.
Proof. inversion 1; subst; [constructor|assumption]. Qed.

Lemma sorted_perm_eq l1 : forall l2, sorted l1 -> sorted l2 -> Permutation l1 l2 -> l1 = l2.
Proof.
  induction l1 as [|x t IH]; intros l2 H1 H2 HP.
  - apply Permutation_nil in HP. now subst.
  - destruct l2 as [|y s]; [apply Permutation_sym, Permutation_nil in HP; discriminate|].
    assert (x = y).
    { assert (In x (y :: s)) as Hx by (eapply Permutation_in; [exact HP|now left]).
      assert (In y (x :: t)) as Hy by (eapply Permutation_in; [apply Permutation_sym; exact HP|now left]).
      destruct Hx as [->|Hx]; [reflexivity|]. destruct Hy as [->|Hy]; [reflexivity|].
      pose proof (sorted_head_le _ _ H1 _ Hy). pose proof (sorted_head_le _ _ H2 _ Hx). lia. }
    subst y. f_equal. apply IH; [eapply sorted_tail; eassumption|eapply sorted_tail; eassumption|].
    eapply Permutation_cons_inv; eassumption.
Qed.

Lemma isort_rev l : isort false (rev l) = isort false l.
Proof.
  apply sorted_perm_eq; try apply isort_sorted.
  rewrite !isort_perm. apply Permutation_sym, Permutation_rev.
Qed.

Lemma maxby_in k l m : maxby k l = Some m -> In m l.
Proof.
  revert m. induction l as [|x t IH]; intros m; cbn [maxby]; [discriminate|].
  destruct (maxby k t) as [m'|].
  - destruct (keyf k m' <=? keyf k x); intros [= <-]; [now left|right; now apply IH].
  - intros [= <-]. now left.
Qed.

Lemma maxby_ge l m : maxby false l = Some m -> forall y, In y l -> y <= m.
Proof.
  revert m. induction l as [|x t IH]; intros m; cbn [maxby keyf]; [discriminate|].
  destruct (maxby false t) as [m'|] eqn:E.
  - destruct (m' <=? x) eqn:E2; intros [= <-] y [->|Hy]; try lia.
    + pose proof (IH _ eq_refl _ Hy). lia.
    + now apply IH.
  - intros [= <-] y [->|Hy]; [lia|]. destruct t; [destruct Hy|cbn [maxby] in E; destruct (maxby false t); [destruct (_ <=? _)|]; discriminate].
Qed.

Lemma sorted_last_ge l : sorted l -> forall z s, rev l = z :: s -> forall y, In y l -> y <= z.
Proof.
  induction 1 as [|x|x y l Hxy Hs IH]; intros z s Hr w Hw.
  - destruct Hw.
  - cbn in Hr. inversion Hr; subst. destruct Hw as [<-|[]]. lia.
  - change (rev (x :: y :: l)) with (rev (y :: l) ++ [x]) in Hr.
    destruct (rev (y :: l)) as [|z' s'] eqn:E.
    + apply (f_equal (@length Z)) in E. rewrite rev_length in E. discriminate.
    + cbn [app] in Hr. inversion Hr; subst z' s.
      assert (forall v, In v (y :: l) -> v <= z) as Hall by (intros v Hv; eapply IH; [reflexivity|exact Hv]).
      destruct Hw as [<-|Hw]; [|now apply Hall].
      assert (y <= z) by (apply Hall; now left). lia.
Qed.

(* the last element of the sorted list is max (no key: equal keys are equal values) *)
Lemma isort_last l :
  match rev (isort false l) with [] => maxby false l = None | z :: _ => maxby false l = Some z end.
Proof.
  destruct (rev (isort false l)) as [|z s] eqn:E.
  - apply (f_equal (@rev Z)) in E. rewrite rev_involutive in E. cbn in E. apply isort_nil in E. now subst.
  - destruct (maxby false l) as [m|] eqn:Em.
    + f_equal.
      assert (In m (isort false l)) as Hm.
      { eapply Permutation_in; [apply Permutation_sym, isort_perm|]. eapply maxby_in; eassumption. }
      assert (In z l) as Hz.
      { eapply Permutation_in; [apply isort_perm|]. apply in_rev. rewrite E. now left. }
      pose proof (sorted_last_ge _ (isort_sorted l) _ _ E _ Hm).
      pose proof (maxby_ge _ _ Em _ Hz). lia.
    + destruct l; [|cbn [maxby] in Em; destruct (maxby false l); [destruct (_ <=? _)|]; discriminate].
      discriminate.
Qed.

Lemma lastn_as_rev (A : Type) (n : nat) (l : list A) :
  skipn (length l - n) l = rev (firstn n (rev l)).
Proof.
  rewrite firstn_rev, rev_involutive. reflexivity.
Qed.

Section Proofs.
Variable W : nat -> list Z.
Notation eval := (eval W).
Notation eval_it := (eval_it W).
Notation exec_simple := (exec_simple W).
Notation exec_body := (exec_body W).
Notation exec_stmt := (exec_stmt W).
Notation exec_prog := (exec_prog W).
Notation loop := (loop W).
Notation run := (run W).
Notation drain := (drain W).
Notation scan := (scan W).
Notation call := (call W).
Notation with_items := (with_items W).

(* ================================================================ iterators built on the spot *)
Definition nongen (s : src) : bool := match s with SGen _ => false | _ => true end.

Lemma drain_local h s p : nongen s = true -> drain h (ILocal s p) = (rest W h s p, h).
Proof. destruct s; try discriminate; reflexivity. Qed.

Lemma scan_local va h s p : nongen s = true -> scan va h (ILocal s p) = (mem va (rest W h s p), h).
Proof.
  intros Hs. unfold RulesPerfModel.scan, mem. cbn [view].
  destruct (find_idx va (rest W h s p)); destruct s; try discriminate; reflexivity.
Qed.

Lemma to_itref_of_itref it : to_itref (of_itref it) = Some it.
Proof. destruct it; reflexivity. Qed.

(* ================================================================ the invariant of a module's globals *)
Definition holds (mut : bool) (o : option val) : Prop :=
  match o with
  | None => True
  | Some (VTup _) => True
  | Some (VList _) => mut = true
  | _ => False
  end.

Definition Inv (p : prog) (en : env) : Prop :=
  (forall n, rebound p n = false -> lookup en n = None)
  /\ (forall mut x, collvar mut p x = true -> holds mut (lookup en x)).

Lemma Inv_nil p : Inv p [].
Proof. split; intros; cbn; trivial. Qed.

Definition simple_of (p : prog) (s : simple) : Prop :=
  exists st, In st p /\ (st = SS s \/ exists x e b, st = SFor x e b /\ In s b).

Lemma rebound_assign p x e : simple_of p (SAssign x e) -> rebound p x = true.
Proof.
  intros (st & Hin & Hst). unfold rebound. apply existsb_exists. exists st. split; [assumption|].
  destruct Hst as [->|(y & e' & b & -> & Hb)]; cbn.
  - apply Nat.eqb_refl.
  - apply orb_true_iff. right. apply existsb_exists. exists (SAssign x e). split; [assumption|]. cbn. apply Nat.eqb_refl.
Qed.

Lemma assigns_in p x e : simple_of p (SAssign x e) -> In e (assigns x p).
Proof.
  intros (st & Hin & Hst). unfold assigns. apply in_flat_map. exists st. split; [assumption|].
  destruct Hst as [->|(y & e' & b & -> & Hb)]; cbn.
  - rewrite Nat.eqb_refl. now left.
  - apply in_flat_map. exists (SAssign x e). split; [assumption|]. cbn. rewrite Nat.eqb_refl. now left.
Qed.

Lemma rebound_for p x e b : In (SFor x e b) p -> rebound p x = true.
Proof.
  intros Hin. unfold rebound. apply existsb_exists. exists (SFor x e b). split; [assumption|]. cbn. now rewrite Nat.eqb_refl.
Qed.

Lemma collvar_for p x e b mut : In (SFor x e b) p -> collvar mut p x = false.
Proof.
  intros Hin. unfold collvar.
  assert (existsb (fortarget x) p = true) as ->.
  { apply existsb_exists. exists (SFor x e b). split; [assumption|]. cbn. apply Nat.eqb_refl. }
  cbn. now rewrite andb_false_r.
Qed.

Lemma unbound_of_inv p en n : Inv p en -> rebound p n = false -> bound en n = false.
Proof. intros [H _] Hn. unfold bound. now rewrite (H n Hn). Qed.

(* what a collection expression evaluates to *)
Definition fresh_coll (v : val) : Prop := (exists zs, v = VNewList zs) \/ (exists zs, v = VTup zs).

Lemma with_items_newlist v h f r h' :
  with_items v h (fun zs h2 => Ok (VNewList (f zs)) h2) = Ok r h' -> exists zs, r = VNewList zs.
Proof.
  unfold RulesPerfModel.with_items. destruct (to_itref v); [|discriminate].
  destruct (drain h i) as [zs h2]. intros [= <- _]. eauto.
Qed.

Lemma coll_head_value p en e h v h' :
  Inv p en -> is_coll_head p e = true -> eval en e h = Ok v h' -> fresh_coll v.
Proof.
  intros HI Hc He. destruct e; try discriminate Hc; cbn [RulesPerfModel.eval] in He.
  - injection He as <- _. left. eauto.
  - injection He as <- _. right. eauto.
  - destruct f; try discriminate Hc; destruct (eval en e h) as [v1 h1|]; try discriminate;
      destruct (bound en _); try discriminate; unfold RulesPerfModel.call in He;
      destruct (to_itref v1); try discriminate; destruct (drain h1 i) as [zs h2]; injection He as <- _;
      [left|right]; eauto.
  - destruct (eval en e h) as [v1 h1|]; try discriminate. destruct (bound en N_SORTED); try discriminate.
    left. eapply with_items_newlist with (f := isort k). exact He.
  - destruct (atomv en n) as [vn|]; try discriminate. destruct (eval en e h) as [v1 h1|]; try discriminate.
    destruct (as_index vn) as [[z|]|]; try discriminate. destruct (to_itref v1); try discriminate.
    destruct (z <=? 0).
    + destruct (bound en N_LIST || bound en N_REVERSED); try discriminate. injection He as <- _. left. eauto.
    + destruct (drain h1 i) as [zs h2]. destruct (bound en N_LIST || bound en N_REVERSED); try discriminate.
      injection He as <- _. left. eauto.
  - destruct (eval en e h) as [v1 h1|]; try discriminate. left.
    eapply with_items_newlist with (f := fun zs => zs). exact He.
Qed.

Lemma imm_head_value p en e h v h' :
  Inv p en -> is_imm_head p e = true -> eval en e h = Ok v h' -> exists zs, v = VTup zs.
Proof.
  intros HI Hc He. destruct e; try discriminate Hc; cbn [RulesPerfModel.eval] in He.
  - injection He as <- _. eauto.
  - destruct f; try discriminate Hc. destruct (eval en e h) as [v1 h1|]; try discriminate.
    destruct (bound en _); try discriminate. unfold RulesPerfModel.call in He.
    destruct (to_itref v1); try discriminate. destruct (drain h1 i) as [zs h2]. injection He as <- _. eauto.
Qed.

(* a collection in the sense of _is_collection: a fresh one, or (Name case) the list / tuple a variable holds *)
Lemma coll_value mut p en e h v h' :
  Inv p en -> is_coll mut p e = true -> eval en e h = Ok v h' ->
  fresh_coll v \/ (mut = true /\ h' = h /\ exists l, v = VList l).
Proof.
  intros HI Hc He. unfold is_coll in Hc. apply orb_true_iff in Hc. destruct Hc as [Hc|Hc].
  - left. eapply coll_head_value; eassumption.
  - destruct e; try discriminate. destruct a; try discriminate.
    cbn [RulesPerfModel.eval atomv] in He. destruct HI as [_ HI]. specialize (HI _ _ Hc).
    destruct (lookup en x) as [w|]; [|discriminate]. injection He as <- <-.
    destruct w; cbn in HI; try contradiction.
    + left. right. eauto.
    + right. eauto.
Qed.

(* ================================================================ the invariant is preserved *)
Lemma Inv_set_other p en x v :
  Inv p en -> rebound p x = true -> (forall mut, collvar mut p x = true -> holds mut (Some v)) -> Inv p (set_var en x v).
Proof.
  intros [H1 H2] Hx Hv. split.
  - intros n Hn. cbn. destruct (Nat.eqb n x) eqn:E; [apply Nat.eqb_eq in E; subst; congruence|]. now apply H1.
  - intros mut y Hy. cbn. destruct (Nat.eqb y x) eqn:E; [apply Nat.eqb_eq in E; subst; now apply Hv|]. now apply H2.
Qed.

Lemma exec_simple_inv p en s h o en' h' :
  simple_of p s -> Inv p en -> exec_simple en s h = (o, en', h') -> Inv p en'.
Proof.
  intros Hs HI He. destruct s; cbn [RulesPerfModel.exec_simple] in He.
  - destruct (eval en e h) as [v h1|] eqn:Ee; [|injection He as _ <- _; assumption].
    destruct (bindv h1 v) as [v' h2] eqn:Eb. injection He as _ <- _.
    apply Inv_set_other; [assumption|eapply rebound_assign; eassumption|].
    intros mut Hc. pose proof (assigns_in _ _ _ Hs) as Hin.
    unfold collvar in Hc. apply andb_true_iff in Hc. destruct Hc as [_ Hall].
    rewrite forallb_forall in Hall. specialize (Hall _ Hin). apply andb_true_iff in Hall. destruct Hall as [Hch Him].
    destruct mut.
    + destruct (coll_head_value _ _ _ _ _ _ HI Hch Ee) as [[zs ->]|[zs ->]]; cbn in Eb; injection Eb as <- _; cbn; trivial.
    + cbn in Him. destruct (imm_head_value _ _ _ _ _ _ HI Him Ee) as [zs ->]. cbn in Eb. injection Eb as <- _. cbn. trivial.
  - destruct (eval en e h); injection He as _ <- _; assumption.
  - destruct (eval en e h); injection He as _ <- _; assumption.
  - destruct (lookup en x) as [[]|]; try (injection He as _ <- _; assumption).
    destruct (atomv en a) as [[]|]; injection He as _ <- _; assumption.
  - destruct (lookup en x) as [[]|]; try (injection He as _ <- _; assumption).
    destruct (atomv en a) as [va|]; [destruct (remove_first va (getl h l))|]; injection He as _ <- _; assumption.
Qed.

Lemma exec_body_inv p b : forall en h o en' h',
  (forall s, In s b -> simple_of p s) -> Inv p en -> exec_body en b h = (o, en', h') -> Inv p en'.
Proof.
  induction b as [|s t IH]; intros en h o en' h' Hb HI He; cbn [RulesPerfModel.exec_body] in He.
  - injection He as _ <- _. assumption.
  - destruct (exec_simple en s h) as [[[ex|] en1] h1] eqn:E1.
    + injection He as _ <- _. eapply exec_simple_inv; [apply Hb; now left|eassumption|eassumption].
    + eapply IH; [intros; apply Hb; now right| |eassumption].
      eapply exec_simple_inv; [apply Hb; now left|eassumption|eassumption].
Qed.

Lemma Inv_loop_var p en x e b z : In (SFor x e b) p -> Inv p en -> Inv p (set_var en x (VInt z)).
Proof.
  intros Hin HI. apply Inv_set_other; [assumption|eapply rebound_for; eassumption|].
  intros mut Hc. rewrite (collvar_for _ _ _ _ mut Hin) in Hc. discriminate.
Qed.

Lemma body_of p x e b : In (SFor x e b) p -> forall s, In s b -> simple_of p s.
Proof. intros Hin s Hs. exists (SFor x e b). split; [assumption|]. right. eauto 6. Qed.

Lemma loop_inv p x e b : In (SFor x e b) p -> forall fuel en h it o en' h',
  Inv p en -> loop fuel x b en h it = (o, en', h') -> Inv p en'.
Proof.
  intros Hin. induction fuel as [|f IH]; intros en h it o en' h' HI He; cbn [RulesPerfModel.loop] in He.
  - injection He as _ <- _. assumption.
  - destruct (next W h it) as [[[z|] h1] it'].
    + destruct (exec_body (set_var en x (VInt z)) b h1) as [[[ex|] en2] h2] eqn:Eb.
      * injection He as _ <- _. eapply exec_body_inv; [eapply body_of; eassumption| |eassumption].
        eapply Inv_loop_var; eassumption.
      * eapply IH; [|eassumption]. eapply exec_body_inv; [eapply body_of; eassumption| |eassumption].
        eapply Inv_loop_var; eassumption.
    + injection He as _ <- _. assumption.
Qed.

Lemma exec_stmt_inv p st fuel en h o en' h' :
  In st p -> Inv p en -> exec_stmt fuel en st h = (o, en', h') -> Inv p en'.
Proof.
  intros Hin HI He. destruct st as [s|x e b]; cbn [RulesPerfModel.exec_stmt] in He.
  - eapply exec_simple_inv; [|eassumption|eassumption]. exists (SS s). split; [assumption|now left].
  - destruct (eval_it en e h) as [it h1|]; [|injection He as _ <- _; assumption].
    eapply loop_inv; eassumption.
Qed.

(* ================================================================ congruence: a rewrite of expressions that
   preserves their evaluation under the invariant preserves the run of the module *)
Section Congr.
Variable p : prog.
Variables fe fi : expr -> expr.
Variable ok : expr -> bool.
Hypothesis Hfe : forall en e h, ok e = true -> Inv p en -> eval en (fe e) h = eval en e h.
Hypothesis Hfi : forall en e h, ok e = true -> Inv p en -> eval_it en (fi e) h = eval_it en e h.

Lemma exec_simple_map en s h :
  simple_all ok s = true -> Inv p en -> exec_simple en (map_simple fe s) h = exec_simple en s h.
Proof.
  intros Hok HI. destruct s; cbn [map_simple RulesPerfModel.exec_simple]; cbn in Hok; try rewrite Hfe by assumption; reflexivity.
Qed.

Lemma exec_body_map b : forall en h,
  forallb (simple_all ok) b = true -> (forall s, In s b -> simple_of p s) -> Inv p en ->
  exec_body en (map (map_simple fe) b) h = exec_body en b h.
Proof.
  induction b as [|s t IH]; intros en h Hok Hb HI; [reflexivity|].
  cbn [forallb] in Hok. apply andb_true_iff in Hok. destruct Hok as [Hs Ht].
  cbn [map RulesPerfModel.exec_body]. rewrite exec_simple_map by assumption.
  destruct (exec_simple en s h) as [[[ex|] en1] h1] eqn:E1; [reflexivity|].
  apply IH; [assumption|intros; apply Hb; now right|].
  eapply exec_simple_inv; [apply Hb; now left|eassumption|eassumption].
Qed.

Lemma loop_map x e b : In (SFor x e b) p -> forallb (simple_all ok) b = true -> forall fuel en h it,
  Inv p en -> loop fuel x (map (map_simple fe) b) en h it = loop fuel x b en h it.
Proof.
  intros Hin Hok. induction fuel as [|f IH]; intros en h it HI; [reflexivity|].
  cbn [RulesPerfModel.loop]. destruct (next W h it) as [[[z|] h1] it']; [|reflexivity].
  rewrite exec_body_map; [|assumption|eapply body_of; eassumption|eapply Inv_loop_var; eassumption].
  destruct (exec_body (set_var en x (VInt z)) b h1) as [[[ex|] en2] h2] eqn:Eb; [reflexivity|].
  apply IH. eapply exec_body_inv; [eapply body_of; eassumption| |eassumption]. eapply Inv_loop_var; eassumption.
Qed.

Lemma exec_stmt_map fuel en st h :
  In st p -> stmt_all ok st = true -> Inv p en ->
  exec_stmt fuel en (map_stmt fe fi st) h = exec_stmt fuel en st h.
Proof.
  intros Hin Hok HI. destruct st as [s|x e b]; cbn [map_stmt RulesPerfModel.exec_stmt].
  - now apply exec_simple_map.
  - cbn in Hok. apply andb_true_iff in Hok. destruct Hok as [He Hb].
    rewrite Hfi by assumption. destruct (eval_it en e h) as [it h1|]; [|reflexivity].
    eapply loop_map; eassumption.
Qed.

Lemma exec_prog_map fuel q : forall en h,
  incl q p -> forallb (stmt_all ok) q = true -> Inv p en ->
  exec_prog fuel en (map (map_stmt fe fi) q) h = exec_prog fuel en q h.
Proof.
  induction q as [|st t IH]; intros en h Hq Hok HI; [reflexivity|].
  cbn [forallb] in Hok. apply andb_true_iff in Hok. destruct Hok as [Hs Ht].
  cbn [map RulesPerfModel.exec_prog].
  rewrite exec_stmt_map; [|apply Hq; now left|assumption|assumption].
  destruct (exec_stmt fuel en st h) as [[[ex|] en1] h1] eqn:E1; [reflexivity|].
  apply IH; [intros a Ha; apply Hq; now right|assumption|].
  eapply exec_stmt_inv; [apply Hq; now left|eassumption|eassumption].
Qed.

Theorem run_map fuel : prog_all ok p = true -> run fuel (map (map_stmt fe fi) p) = run fuel p.
Proof.
  intros Hok. unfold RulesPerfModel.run. apply exec_prog_map; [apply incl_refl|assumption|apply Inv_nil].
Qed.
End Congr.

Lemma prog_all_true p : prog_all (fun _ => true) p = true.
Proof.
  unfold prog_all. apply forallb_forall. intros st _. destruct st as [s|x e b]; cbn.
  - destruct s; reflexivity.
  - apply forallb_forall. intros s _. destruct s; reflexivity.
Qed.

Lemma eval_it_of_eval en e e' h : eval en e' h = eval en e h -> eval_it en e' h = eval_it en e h.
Proof. unfold RulesPerfModel.eval_it. now intros ->. Qed.

Lemma comp_via_it en e h :
  eval en (EComp e) h =
  match eval_it en e h with Err x h1 => Err x h1 | Ok it h1 => let (zs, h2) := drain h1 it in Ok (VNewList zs) h2 end.
Proof.
  unfold RulesPerfModel.eval_it. cbn [RulesPerfModel.eval]. destruct (eval en e h) as [v h1|]; [|reflexivity].
  unfold RulesPerfModel.with_items. destruct (to_itref v); reflexivity.
Qed.

Lemma genx_via_it en e h :
  eval en (EGenx e) h = match eval_it en e h with Err x h1 => Err x h1 | Ok it h1 => Ok (of_itref it) h1 end.
Proof.
  unfold RulesPerfModel.eval_it. cbn [RulesPerfModel.eval]. destruct (eval en e h) as [v h1|]; [|reflexivity].
  destruct (to_itref v); reflexivity.
Qed.

(* ================================================================ remove_redundant_iter *)
Lemma eval_it_iter en a h : bound en N_ITER = false -> eval_it en (ECall FIter a) h = eval_it en a h.
Proof.
  intros Hb. unfold RulesPerfModel.eval_it. cbn [RulesPerfModel.eval fn_name].
  destruct (eval en a h) as [v h1|]; [|reflexivity]. rewrite Hb. unfold RulesPerfModel.call.
  destruct (to_itref v) as [it|]; [|reflexivity]. now rewrite to_itref_of_itref.
Qed.

Lemma eval_it_copy p en f a h :
  f <> FIter -> Inv p en -> rebound p (fn_name f) = false -> is_coll false p a = true ->
  eval_it en (ECall f a) h = eval_it en a h.
Proof.
  intros Hf HI Hr Hc. unfold RulesPerfModel.eval_it. cbn [RulesPerfModel.eval].
  destruct (eval en a h) as [v h1|] eqn:Ea; [|reflexivity].
  rewrite (unbound_of_inv _ _ _ HI Hr).
  destruct (coll_value _ _ _ _ _ _ _ HI Hc Ea) as [[[zs ->]|[zs ->]]|(Hm & _)]; [| |discriminate];
    destruct f; try congruence; reflexivity.
Qed.

Lemma strip_ok p en : Inv p en -> forall e h, eval_it en (strip_with false false p e) h = eval_it en e h.
Proof.
  intros HI. induction e; intros h; try reflexivity.
  destruct f; cbn [strip_with fn_name].
  - destruct (negb (rebound p N_LIST) && (false || is_coll false p e)) eqn:G; [|reflexivity].
    apply andb_true_iff in G. destruct G as [G1 G2]. apply negb_true_iff in G1. cbn [orb] in G2.
    rewrite IHe. symmetry. eapply eval_it_copy; try eassumption. discriminate.
  - destruct (negb (rebound p N_TUPLE) && (false || is_coll false p e)) eqn:G; [|reflexivity].
    apply andb_true_iff in G. destruct G as [G1 G2]. apply negb_true_iff in G1. cbn [orb] in G2.
    rewrite IHe. symmetry. eapply eval_it_copy; try eassumption. discriminate.
  - destruct (rebound p N_ITER) eqn:G; [reflexivity|].
    rewrite IHe. symmetry. apply eval_it_iter. eapply unbound_of_inv; eassumption.
Qed.

Lemma rri_expr_ok p en : Inv p en -> forall e h, eval en (rri_expr_with false false p e) h = eval en e h.
Proof.
  intros HI. induction e; intros h; cbn [rri_expr_with]; try reflexivity;
    try (cbn [RulesPerfModel.eval]; rewrite IHe; reflexivity).
  - rewrite !comp_via_it, strip_ok by assumption. now rewrite (eval_it_of_eval _ _ _ _ (IHe h)).
  - rewrite !genx_via_it, strip_ok by assumption. now rewrite (eval_it_of_eval _ _ _ _ (IHe h)).
Qed.

Theorem rri_preserves fuel p : run fuel (rri p) = run fuel p.
Proof.
  unfold rri, rri_with. apply run_map with (ok := fun _ => true).
  - intros. now apply rri_expr_ok.
  - intros. rewrite strip_ok by assumption. apply eval_it_of_eval. now apply rri_expr_ok.
  - apply prog_all_true.
Qed.

(* ================================================================ optimize_contains_types *)
Ltac on_the_spot :=
  unfold RulesPerfModel.call, RulesPerfModel.with_items; cbn [to_itref of_itref];
  repeat (rewrite drain_local by reflexivity); cbn [to_itref of_itref];
  repeat (rewrite scan_local by reflexivity); cbn [rest skipn].

Lemma in_wrapper_ok p en a f c h :
  Inv p en -> rebound p (fn_name f) = false -> is_coll true p c = true ->
  eval en (EIn a (ECall f c)) h = eval en (EIn a c) h.
Proof.
  intros HI Hr Hc. cbn [RulesPerfModel.eval]. destruct (atomv en a) as [va|]; [|reflexivity].
  destruct (eval en c h) as [v h1|] eqn:Ec; [|reflexivity].
  rewrite (unbound_of_inv _ _ _ HI Hr).
  destruct (coll_value _ _ _ _ _ _ _ HI Hc Ec) as [[[zs ->]|[zs ->]]|(_ & _ & l & ->)];
    destruct f; on_the_spot; reflexivity.
Qed.

Lemma in_sorted_ok p en a c h :
  Inv p en -> rebound p N_SORTED = false -> is_coll true p c = true ->
  eval en (EIn a (ESorted false c)) h = eval en (EIn a c) h.
Proof.
  intros HI Hr Hc. cbn [RulesPerfModel.eval]. destruct (atomv en a) as [va|]; [|reflexivity].
  destruct (eval en c h) as [v h1|] eqn:Ec; [|reflexivity].
  rewrite (unbound_of_inv _ _ _ HI Hr).
  destruct (coll_value _ _ _ _ _ _ _ HI Hc Ec) as [[[zs ->]|[zs ->]]|(_ & _ & l & ->)];
    on_the_spot; rewrite mem_isort; reflexivity.
Qed.

Lemma in_comp_genx_ok p en a c h :
  Inv p en -> is_coll true p c = true -> eval en (EIn a (EGenx c)) h = eval en (EIn a (EComp c)) h.
Proof.
  intros HI Hc. cbn [RulesPerfModel.eval]. destruct (atomv en a) as [va|]; [|reflexivity].
  destruct (eval en c h) as [v h1|] eqn:Ec; [|reflexivity].
  destruct (coll_value _ _ _ _ _ _ _ HI Hc Ec) as [[[zs ->]|[zs ->]]|(_ & _ & l & ->)];
    on_the_spot; reflexivity.
Qed.

Lemma in_set_ok en a zs h :
  literal_atom a = true ->
  eval en (EInSet a zs) h = eval en (EIn a (EDisp zs)) h /\ eval en (EInSet a zs) h = eval en (EIn a (ETupD zs)) h.
Proof.
  intros Ha. destruct a; try discriminate; cbn [RulesPerfModel.eval atomv unhashable]; on_the_spot;
    rewrite mem_existsb; split; reflexivity.
Qed.

Definition oct_guard (sets : bool) (e : expr) : bool := if sets then oct_safe e else true.

Lemma oct_rhs_ok sets p en a : Inv p en -> (sets = false \/ literal_atom a = true) ->
  forall c h, eval en (oct_rhs sets false p a c) h = eval en (EIn a c) h.
Proof.
  intros HI Ha. induction c; intros h; try reflexivity.
  - cbn [oct_rhs]. destruct sets; [|reflexivity]. destruct Ha as [Ha|Ha]; [discriminate|].
    apply (in_set_ok en a zs h Ha).
  - cbn [oct_rhs]. destruct sets; [|reflexivity]. destruct Ha as [Ha|Ha]; [discriminate|].
    apply (in_set_ok en a zs h Ha).
  - cbn [oct_rhs]. destruct (negb (rebound p (fn_name f)) && (false || is_coll true p c)) eqn:G; [|reflexivity].
    apply andb_true_iff in G. destruct G as [G1 G2]. apply negb_true_iff in G1. cbn [orb] in G2.
    rewrite IHc. symmetry. now apply (in_wrapper_ok p).
  - cbn [oct_rhs]. destruct k; [reflexivity|].
    destruct (negb (rebound p N_SORTED) && (false || is_coll true p c)) eqn:G; [|reflexivity].
    apply andb_true_iff in G. destruct G as [G1 G2]. apply negb_true_iff in G1. cbn [orb] in G2.
    rewrite IHc. symmetry. now apply (in_sorted_ok p).
  - cbn [oct_rhs orb]. destruct (is_coll true p c) eqn:G; [|reflexivity]. now apply (in_comp_genx_ok p).
Qed.

Lemma oct_expr_ok sets p en : Inv p en ->
  forall e h, oct_guard sets e = true -> eval en (oct_expr sets false p e) h = eval en e h.
Proof.
  intros HI. unfold oct_guard.
  induction e; intros h Hg; cbn [oct_expr]; try reflexivity;
    try (cbn [RulesPerfModel.eval]; rewrite IHe by (destruct sets; [exact Hg|reflexivity]); reflexivity).
  rewrite oct_rhs_ok; [|assumption|].
  - cbn [RulesPerfModel.eval]. rewrite IHe; [reflexivity|].
    destruct sets; [|reflexivity]. cbn [oct_safe] in Hg. apply andb_true_iff in Hg. apply Hg.
  - destruct sets; [right|now left]. cbn [oct_safe] in Hg. apply andb_true_iff in Hg. apply Hg.
Qed.

Theorem oct_wrappers_preserves fuel p : run fuel (oct_wrappers p) = run fuel p.
Proof.
  unfold oct_wrappers, oct_with. apply run_map with (ok := fun _ => true).
  - intros. now apply (oct_expr_ok false).
  - intros. apply eval_it_of_eval. now apply (oct_expr_ok false).
  - apply prog_all_true.
Qed.

Theorem oct_partial fuel p : prog_all oct_safe p = true -> run fuel (oct p) = run fuel p.
Proof.
  intros Hok. unfold oct, oct_with. apply run_map with (ok := oct_safe); [| |assumption].
  - intros. now apply (oct_expr_ok true).
  - intros. apply eval_it_of_eval. now apply (oct_expr_ok true).
Qed.

(* ================================================================ replace_sorted_heapq *)
Lemma slice_to_pos zs z : 0 < z -> slice_to zs z = firstn (Z.to_nat z) zs.
Proof. intros Hz. unfold slice_to. destruct (0 <=? z) eqn:E; [reflexivity|lia]. Qed.

Lemma slice_from_neg_pos zs z : 0 < z -> slice_from_neg zs z = skipn (length zs - Z.to_nat z) zs.
Proof. intros Hz. unfold slice_from_neg. destruct (0 <? z) eqn:E; [reflexivity|lia]. Qed.

Lemma nlargest_rev_nokey z zs : nlargest_rev false z zs = skipn (length (isort false zs) - Z.to_nat z) (isort false zs).
Proof. unfold nlargest_rev. now rewrite isort_rev, lastn_as_rev. Qed.

Lemma hq_head_ok p en e h : Inv p en -> head_safe e = true -> eval en (hq_head p e) h = eval en e h.
Proof.
  intros HI Hs. unfold hq_head. destruct (rebound p N_SORTED) eqn:Rs; [reflexivity|].
  pose proof (unbound_of_inv _ _ _ HI Rs) as Bs.
  destruct e; try reflexivity; destruct e; try reflexivity.
  - (* sorted(c)[0] -> min(c) *)
    destruct (rebound p N_MIN) eqn:Rm; [reflexivity|]. pose proof (unbound_of_inv _ _ _ HI Rm) as Bm.
    cbn [head_safe] in Hs. destruct e; try discriminate; destruct zs as [|z zs]; try discriminate;
      cbn [RulesPerfModel.eval]; rewrite Bs, Bm; on_the_spot; cbn [as_seq];
      pose proof (isort_head k (z :: zs)) as Hh; destruct (isort k (z :: zs)) eqn:E;
      try (apply isort_nil in E; discriminate); rewrite Hh; reflexivity.
  - (* sorted(c)[-1] -> max(c) *)
    destruct (rebound p N_MAX) eqn:Rm; [reflexivity|]. pose proof (unbound_of_inv _ _ _ HI Rm) as Bm.
    cbn [head_safe] in Hs. apply andb_true_iff in Hs. destruct Hs as [Hk Hs]. apply negb_true_iff in Hk. subst k.
    destruct e; try discriminate; destruct zs as [|z zs]; try discriminate;
      cbn [RulesPerfModel.eval]; rewrite Bs, Bm; on_the_spot; cbn [as_seq];
      pose proof (isort_last (z :: zs)) as Hh; destruct (rev (isort false (z :: zs))) eqn:E;
      first [rewrite Hh; reflexivity
            |exfalso; cbn [maxby] in Hh; destruct (maxby false zs) as [m|]; [destruct (keyf false m <=? keyf false z)|]; discriminate].
  - (* sorted(c)[:n] -> heapq.nsmallest(n, c) *)
    destruct (negative_literal n) eqn:Nn; [reflexivity|].
    cbn [head_safe] in Hs. rewrite Nn, orb_false_r in Hs.
    destruct n as [z| |]; try discriminate. cbn [positive_literal] in Hs. apply Z.ltb_lt in Hs.
    cbn [RulesPerfModel.eval atomv as_index]. destruct (eval en e h) as [v h1|]; [|reflexivity].
    rewrite Bs. unfold RulesPerfModel.with_items. destruct (to_itref v) as [it|]; [|reflexivity].
    destruct (z <=? 0) eqn:Ez; [lia|]. destruct (drain h1 it) as [zs h2].
    cbn [as_seq mk_seq]. now rewrite slice_to_pos.
  - (* sorted(c)[-n:] -> list(reversed(heapq.nlargest(n, c))) *)
    destruct (rebound p N_LIST || rebound p N_REVERSED) eqn:Rl; [reflexivity|].
    apply orb_false_iff in Rl. destruct Rl as [Rl Rr].
    pose proof (unbound_of_inv _ _ _ HI Rl) as Bl. pose proof (unbound_of_inv _ _ _ HI Rr) as Br.
    cbn [head_safe] in Hs. apply andb_true_iff in Hs. destruct Hs as [Hk Hs]. apply negb_true_iff in Hk. subst k.
    destruct n as [z| |]; try discriminate. cbn [positive_literal] in Hs. apply Z.ltb_lt in Hs.
    cbn [RulesPerfModel.eval atomv as_index]. destruct (eval en e h) as [v h1|]; [|reflexivity].
    rewrite Bs, Bl, Br. unfold RulesPerfModel.with_items. destruct (to_itref v) as [it|]; [|reflexivity].
    destruct (z <=? 0) eqn:Ez; [lia|]. destruct (drain h1 it) as [zs h2].
    cbn [as_seq mk_seq orb]. now rewrite slice_from_neg_pos, nlargest_rev_nokey.
Qed.

Lemma hq_expr_ok p en : Inv p en -> forall e h, hq_ok p e = true -> eval en (hq_expr p e) h = eval en e h.
Proof.
  intros HI. induction e; intros h Hok; cbn [hq_expr]; cbn [hq_ok] in Hok;
    try (rewrite hq_head_ok by (assumption || reflexivity); reflexivity);
    try (rewrite hq_head_ok by (assumption || reflexivity); cbn [RulesPerfModel.eval]; rewrite IHe by assumption; reflexivity);
    apply andb_true_iff in Hok; destruct Hok as [Ha Hh];
    rewrite hq_head_ok by assumption; cbn [RulesPerfModel.eval]; rewrite IHe by assumption; reflexivity.
Qed.

Theorem hq_partial fuel p : prog_all (hq_ok p) p = true -> run fuel (hq p) = run fuel p.
Proof.
  intros Hok. unfold hq. apply run_map with (ok := hq_ok p); [| |assumption].
  - intros. now apply hq_expr_ok.
  - intros. apply eval_it_of_eval. now apply hq_expr_ok.
Qed.

End Proofs.

(* ================================================================ witnesses *)
Definition W12 (k : nat) : list Z := [1; 2].
(* what a run shows: the exception class it ends with and the events *)
Definition obs (o : outcome) : option exc * list event := (fst (fst o), tr (snd o)).

Ltac differs := intros H; vm_compute in H; discriminate H.

(* F02-63: membership in a set needs a hashable element *)
Definition p_unhashable : prog :=
  [SS (SAssign 8%nat (EDisp [1])); SS (SPrint (EIn (AVar 8%nat) (EDisp [1; 2])))].
Theorem oct_refuted : exists W fuel p, obs (run W fuel (oct p)) <> obs (run W fuel p).
Proof. exists W12, 5%nat, p_unhashable. differs. Qed.

Example oct_partial_example :
  let p := [SS (SAssign 9%nat (EDisp [1; 2])); SS (SPrint (EIn (AInt 2) (ECall FList (ECall FList (EAtom (AVar 9%nat))))));
            SS (SPrint (EIn (AInt 3) (ESorted false (ETupD [3; 1]))))] in
  prog_all oct_safe p = true /\
  oct p = [SS (SAssign 9%nat (EDisp [1; 2])); SS (SPrint (EIn (AInt 2) (EAtom (AVar 9%nat)))); SS (SPrint (EInSet (AInt 3) [3; 1]))].
Proof. split; reflexivity. Qed.

(* the exception class of the empty case: IndexError before, ValueError after *)
Definition p_empty : prog := [SS (SPrint (EIdx0 (ESorted false (EDisp []))))].
Theorem hq_refuted_empty : exists W fuel p, obs (run W fuel (hq p)) <> obs (run W fuel p).
Proof. exists W12, 5%nat, p_empty. differs. Qed.
Example hq_empty_classes :
  obs (run W12 5%nat p_empty) = (Some IndexErr, []) /\ obs (run W12 5%nat (hq p_empty)) = (Some ValueErr, []).
Proof. split; reflexivity. Qed.

(* F02-69: sorted(.., key=abs)[-1] is the LAST maximal element, max(.., key=abs) the first *)
Definition p_ties : prog := [SS (SPrint (EIdxL (ESorted true (EDisp [-1; 1]))))].
Theorem hq_refuted_ties : exists W fuel p, obs (run W fuel (hq p)) <> obs (run W fuel p).
Proof. exists W12, 5%nat, p_ties. differs. Qed.

(* F02perf-2: [:n] with a negative n drops from the end, heapq.nsmallest(n, ..) is empty *)
Definition p_negative_n : prog :=
  [SS (SAssign 9%nat (EAtom (AInt (-1)))); SS (SPrint (ESliceTo (ESorted false (EDisp [3; 1; 2])) (AVar 9%nat)))].
Theorem hq_refuted_negative_n : exists W fuel p, obs (run W fuel (hq p)) <> obs (run W fuel p).
Proof. exists W12, 5%nat, p_negative_n. differs. Qed.

(* F02-70: [-0:] is the whole list *)
Definition p_tail_zero : prog := [SS (SPrint (ESliceFrom (ESorted false (EDisp [3; 1; 2])) (AInt 0)))].
Theorem hq_refuted_tail_zero : exists W fuel p, obs (run W fuel (hq p)) <> obs (run W fuel p).
Proof. exists W12, 5%nat, p_tail_zero. differs. Qed.

Example hq_partial_example :
  let p := [SS (SAssign 9%nat (EDisp [3; 1; 2])); SS (SPrint (EIdx0 (ESorted true (ETupD [3; -1]))));
            SS (SPrint (ESliceTo (ESorted true (EAtom (AVar 9%nat))) (AInt 2)));
            SFor 8%nat (ESliceFrom (ESorted false (EGen 0%nat)) (AInt 1)) [SPrint (EIdxL (ESorted false (EDisp [2; 5])))]] in
  prog_all (hq_ok p) p = true /\
  hq p = [SS (SAssign 9%nat (EDisp [3; 1; 2])); SS (SPrint (EMin true (ETupD [3; -1])));
          SS (SPrint (ENsm (AInt 2) true (EAtom (AVar 9%nat))));
          SFor 8%nat (ERevNl (AInt 1) false (EGen 0%nat)) [SPrint (EMax false (EDisp [2; 5]))]].
Proof. split; reflexivity. Qed.

(* the rules before their repairs *)
(* 32fac44: a generator is drained before the first iteration by list(), interleaved with the body without *)
Definition p_interleave : prog := [SFor 8%nat (ECall FList (EGen 0%nat)) [SPrint (EAtom (AVar 8%nat))]].
Theorem rri_before_32fac44_refuted :
  exists W fuel p, obs (run W fuel (rri_before_32fac44 p)) <> obs (run W fuel p).
Proof. exists W12, 5%nat, p_interleave. differs. Qed.
Example rri_interleave_traces :
  obs (run W12 5%nat p_interleave)
    = (None, [EvPull 0%nat 0%nat; EvPull 0%nat 1%nat; EvDone 0%nat; EvPrint (RInt 1); EvPrint (RInt 2)]) /\
  obs (run W12 5%nat (rri_before_32fac44 p_interleave))
    = (None, [EvPull 0%nat 0%nat; EvPrint (RInt 1); EvPull 0%nat 1%nat; EvPrint (RInt 2); EvDone 0%nat]) /\
  rri p_interleave = p_interleave.
Proof. repeat split; reflexivity. Qed.

(* 608b244 (F02-65): list(xs) is a snapshot; the body mutates xs *)
Definition p_snapshot : prog :=
  [SS (SAssign 9%nat (EDisp [1; 2; 3])); SFor 8%nat (ECall FList (EAtom (AVar 9%nat))) [SRemove 9%nat (AVar 8%nat)];
   SS (SPrint (EAtom (AVar 9%nat)))].
Theorem rri_before_608b244_refuted :
  exists W fuel p, obs (run W fuel (rri_before_608b244 p)) <> obs (run W fuel p).
Proof. exists W12, 5%nat, p_snapshot. differs. Qed.
Example rri_snapshot_traces :
  obs (run W12 5%nat p_snapshot) = (None, [EvPrint (RList [])]) /\
  obs (run W12 5%nat (rri_before_608b244 p_snapshot)) = (None, [EvPrint (RList [2])]) /\
  rri p_snapshot = p_snapshot.
Proof. repeat split; reflexivity. Qed.
(* an immutable collection that has a name is still iterated over directly *)
Example rri_tuple_name :
  rri [SS (SAssign 9%nat (ETupD [1; 2])); SFor 8%nat (ECall FList (EAtom (AVar 9%nat))) [SPrint (EAtom (AVar 8%nat))]]
  = [SS (SAssign 9%nat (ETupD [1; 2])); SFor 8%nat (EAtom (AVar 9%nat)) [SPrint (EAtom (AVar 8%nat))]].
Proof. reflexivity. Qed.

(* 2835a2e: list(g) uses the iterator up, `in` only up to the first hit *)
Definition p_consumed : prog :=
  [SS (SAssign 9%nat (ECall FIter (EDisp [1; 2; 3]))); SS (SPrint (EIn (AInt 2) (ECall FList (EAtom (AVar 9%nat)))));
   SS (SPrint (ECall FList (EAtom (AVar 9%nat))))].
Theorem oct_before_2835a2e_refuted :
  exists W fuel p, obs (run W fuel (oct_before_2835a2e p)) <> obs (run W fuel p).
Proof. exists W12, 5%nat, p_consumed. differs. Qed.
Example oct_consumed_traces :
  obs (run W12 5%nat p_consumed) = (None, [EvPrint (RBool true); EvPrint (RList [])]) /\
  obs (run W12 5%nat (oct_before_2835a2e p_consumed)) = (None, [EvPrint (RBool true); EvPrint (RList [3])]) /\
  oct p_consumed = p_consumed.
Proof. repeat split; reflexivity. Qed.

(* cf0e3b9: a generator expression stops at the first hit, the list comprehension runs to the end *)
Definition p_lazy : prog := [SS (SPrint (EIn (AInt 1) (EComp (EGen 0%nat))))].
Theorem oct_before_cf0e3b9_refuted :
  exists W fuel p, obs (run W fuel (oct_before_2835a2e p)) <> obs (run W fuel p).
Proof. exists W12, 5%nat, p_lazy. differs. Qed.
Example oct_lazy_traces :
  obs (run W12 5%nat p_lazy) = (None, [EvPull 0%nat 0%nat; EvPull 0%nat 1%nat; EvDone 0%nat; EvPrint (RBool true)]) /\
  obs (run W12 5%nat (oct_before_2835a2e p_lazy)) = (None, [EvPull 0%nat 0%nat; EvPrint (RBool true)]) /\
  oct p_lazy = p_lazy.
Proof. repeat split; reflexivity. Qed.

(* 5ea8100: a module that rebinds list is left alone (the call raises TypeError, dropping it would not) *)
Example rebound_untouched :
  let p := [SS (SAssign N_LIST (ETupD [1; 2])); SFor 8%nat (ECall FList (EDisp [1])) [SPrint (EAtom (AVar 8%nat))];
            SS (SPrint (EIn (AInt 1) (ECall FList (EDisp [1]))))] in
  rri p = p /\ oct p = p /\ obs (run W12 5%nat p) = (Some TypeErr, []).
Proof. repeat split; reflexivity. Qed.
