(* K4, round 5 -- core.literal_value as a function of (expression, names the file rebinds).

   Since repair 415ff77 (F15-16) core.parse marks every Name node whose identifier the file binds itself
   (core._REBOUND_NAMES); `_literal_value` calls builtins.<f> only through a Name that is not marked, and since
   repair 82d6460 (F15-22) an expression that calls a marked name anywhere never reaches ast.literal_eval
   (which reads `set()` as the empty set).  LitValModel.lv is the model for a file that rebinds nothing; [lv_rb rb]
   is the model for a file that binds the names [rb].  There is NO other input: no cache, no call history
   (seed C15-d memoised results by ast.dump(expression) across files; the harness runs every case in both
   orders in one process and compares each result with [lv_rb rb e], see harness/c15_history.py).

   [eval_rb rb] is the reference semantics (a DEFINITION) for a program that rebinds [rb]: a call through a
   rebound name may do anything, so it is [Gap] (no claim); everything else is PyValModel.eval. *)
From Coq Require Import List ZArith Bool String.
Import ListNotations.
Require Import Pyrefact.Ops Pyrefact.PyValModel Pyrefact.LitValModel.
Require Import PyrefactGen.Tables PyrefactGen.TablesC15.
Open Scope Z_scope.

(* any(isinstance(child, ast.Call) and child.func in _REBOUND_NAMES for child in ast.walk(node));
   the callee of a method call is an Attribute node, never a marked Name *)
Fixpoint calls_rebound (rb : list string) (e : expr) : bool :=
  match e with
  | EConst _ | EName _ => false
  | EUn _ a => calls_rebound rb a
  | EBin _ a b => calls_rebound rb a || calls_rebound rb b
  | EBool _ es => existsb (calls_rebound rb) es
  | ECmp a rest => calls_rebound rb a || existsb (fun p => calls_rebound rb (snd p)) rest
  | EIf c a b => calls_rebound rb c || calls_rebound rb a || calls_rebound rb b
  | ETuple es | EList es => existsb (calls_rebound rb) es
  | ECall f args kws =>
      mem_str f rb || existsb (calls_rebound rb) args || existsb (fun p => calls_rebound rb (snd p)) kws
  | EMeth _ _ args kws =>
      existsb (calls_rebound rb) args || existsb (fun p => calls_rebound rb (snd p)) kws
  end.

(* the last line of _literal_value, behind the guard of 82d6460 *)
Definition leval_rb (rb : list string) (e : expr) : res val :=
  if calls_rebound rb e then Exc KValue else leval e.

Fixpoint lv_rb (rb : list string) (e : expr) : lvres :=
  wrap
    (if hse BUILTIN_FUNCTIONS e then Exc KValue else
     match e with
     | EBin o a b =>
         match table_fn (OB o) with
         | Some f => x <- sub (lv_rb rb a) ;; y <- sub (lv_rb rb b) ;; opfn_apply f x y
         | None => leval_rb rb e
         end
     | ECmp a rest =>
         match rest with
         | [] => Gap
         | _ => cmp_all (fun x => sub (lv_rb rb x)) (sub (lv_rb rb a)) rest
         end
     | EUn UNot a => v <- sub (lv_rb rb a) ;; Val (VBool (negb (truthy v)))
     | EBool isand es =>
         match es with
         | [] => Exc KValue
         | _ => boolop_go (fun x => sub (lv_rb rb x)) isand es
         end
     | EMeth recv m args kws =>
         match kws with
         | [] => if is_dunder m then Exc KValue
                 else a <- eval_list (fun x => sub (lv_rb rb x)) args ;; call_method recv m a
         | _ => Exc KValue
         end
     | ECall f args kws =>
         match kws with
         | [] =>
             (* node.func.id in PURE_BUILTIN_FUNCTIONS and node.func not in _REBOUND_NAMES *)
             if mem_str f PURE_BUILTIN_FUNCTIONS && negb (mem_str f rb) then
               a <- eval_list (fun x => sub (lv_rb rb x)) args ;; call_builtin f a
             else leval_rb rb e
         | _ => leval_rb rb e
         end
     | _ => leval_rb rb e
     end).

(* ---------------- reference semantics of a program that rebinds [rb] ---------------- *)
Section EvalRb.
Variable rb : list string.
Variable env : string -> option val.

Fixpoint eval_rb (e : expr) : res val :=
  match e with
  | EConst v => Val v
  | EName x => match env x with Some v => Val v | None => Exc KName end
  | EUn o a => v <- eval_rb a ;; unop_apply o v
  | EBin o a b => x <- eval_rb a ;; y <- eval_rb b ;; opfn_apply (binop_fn o) x y
  | EBool isand es => boolop_go eval_rb isand es
  | ECmp a rest => x <- eval_rb a ;; cmp_go eval_rb x rest
  | EIf c a b => v <- eval_rb c ;; if truthy v then eval_rb a else eval_rb b
  | ETuple es => l <- eval_list eval_rb es ;; Val (VTuple l)
  | EList es => l <- eval_list eval_rb es ;; Val (VList l)
  | ECall f args kws =>
      a <- eval_list eval_rb args ;; k <- eval_kws eval_rb kws ;;
      if mem_str f rb then Gap                            (* the program's own function: anything *)
      else call_builtin_kw f a k
  | EMeth recv m args kws =>
      if method_known recv m then
        a <- eval_list eval_rb args ;;
        match kws with [] => call_method recv m a | _ => Gap end
      else Gap
  end.
End EvalRb.

(* ---------------- correspondence plumbing ---------------- *)
(* one case: names the source binds, expression, what core.literal_value did on the node of that source *)
Definition rb_case_ok (c : list string * expr * lvres) : bool :=
  let '(rb, e, l) := c in lv_ok (lv_rb rb e) l.
Definition rb_case_claims (c : list string * expr * lvres) : bool :=
  let '(rb, e, _) := c in negb (match lv_rb rb e with LGap => true | _ => false end).
