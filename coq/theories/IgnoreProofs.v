(* Theorems about IgnoreModel.v (C20): the hand-translated regex scanner equals the declarative
   reading of  #\s*pyrefact\s*:\s*(kw1|kw2..)  for all texts; a skip-file comment on any physical
   line makes format_code return its input; scheduled rewrites never touch an ignored line and the
   line therefore survives a pass verbatim and contiguous. *)
From Coq Require Import List ZArith NArith Bool Lia Permutation Sorted.
Import ListNotations.
Require Import Pyrefact.SchedModel Pyrefact.SchedProofs Pyrefact.Splice Pyrefact.IgnoreModel.

(* ------------------------------------------------------------------------------------------ *)
(* 1. the regex *)

Definition all_space (w : text) : Prop := forallb is_space w = true.
Definition starts_nonspace (t : text) : Prop :=
  match t with [] => True | c :: _ => is_space c = false end.

Inductive Occurs (kws : list text) (s : text) : Prop :=
| occ pre w1 w2 w3 kw post :
    In kw kws -> all_space w1 -> all_space w2 -> all_space w3 ->
    s = pre ++ HASH :: w1 ++ PYREFACT ++ w2 ++ COLON :: w3 ++ kw ++ post ->
    Occurs kws s.

Lemma skip_spaces_spec : forall s, exists w, all_space w /\ s = w ++ skip_spaces s /\ starts_nonspace (skip_spaces s).
Proof.
  induction s as [|c s IH]; simpl.
  - exists []. repeat split.
  - destruct (is_space c) eqn:E.
    + destruct IH as (w & Hw & Hs & Hn). exists (c :: w). unfold all_space in *. simpl. rewrite E, Hw.
      repeat split; [f_equal; exact Hs | exact Hn].
    + exists []. repeat split. simpl. exact E.
Qed.

Lemma skip_spaces_app : forall w t, all_space w -> starts_nonspace t -> skip_spaces (w ++ t) = t.
Proof.
  induction w as [|c w IH]; intros t Hw Ht; simpl.
  - destruct t as [|d t]; [reflexivity|]. simpl in *. rewrite Ht. reflexivity.
  - unfold all_space in Hw. simpl in Hw. apply andb_true_iff in Hw as [Hc Hw].
    rewrite Hc. apply IH; assumption.
Qed.

Lemma strip_spec : forall p s r, strip p s = Some r <-> s = p ++ r.
Proof.
  induction p as [|a p IH]; intros s r; simpl.
  - split; [intros H; inversion H; reflexivity | intros ->; reflexivity].
  - destruct s as [|b s].
    + split; [discriminate | intros H; discriminate].
    + destruct (N.eqb a b) eqn:E.
      * apply N.eqb_eq in E. subst b. rewrite IH. split; [intros ->; reflexivity | intros H; inversion H; reflexivity].
      * split; [discriminate|]. intros H. inversion H. subst. rewrite N.eqb_refl in E. discriminate.
Qed.

Definition kw_ok (kw : text) : Prop := starts_nonspace kw /\ kw <> [].

Lemma match_after_hash_iff : forall kws s, (forall kw, In kw kws -> kw_ok kw) ->
  match_after_hash kws s = true <->
  exists w1 w2 w3 kw post, In kw kws /\ all_space w1 /\ all_space w2 /\ all_space w3 /\
    s = w1 ++ PYREFACT ++ w2 ++ COLON :: w3 ++ kw ++ post.
Proof.
  intros kws s Hk. unfold match_after_hash. split.
  - intros H.
    destruct (skip_spaces_spec s) as (w1 & Hw1 & Hs & _).
    destruct (strip PYREFACT (skip_spaces s)) as [s1|] eqn:E1; [|discriminate].
    apply strip_spec in E1.
    destruct (skip_spaces_spec s1) as (w2 & Hw2 & Hs1 & _).
    destruct (skip_spaces s1) as [|c s2] eqn:E2; [discriminate|].
    apply andb_true_iff in H as [Hc H]. apply N.eqb_eq in Hc. subst c.
    apply existsb_exists in H as (kw & Hin & H).
    destruct (skip_spaces_spec s2) as (w3 & Hw3 & Hs2 & _).
    destruct (strip kw (skip_spaces s2)) as [post|] eqn:E3; [|discriminate].
    apply strip_spec in E3.
    exists w1, w2, w3, kw, post. repeat split; try assumption.
    rewrite Hs at 1. rewrite E1. rewrite Hs1 at 1. rewrite Hs2 at 1. rewrite E3. reflexivity.
  - intros (w1 & w2 & w3 & kw & post & Hin & Hw1 & Hw2 & Hw3 & ->).
    rewrite skip_spaces_app by (try exact Hw1; vm_compute; reflexivity).
    assert (E1 : strip PYREFACT (PYREFACT ++ w2 ++ COLON :: w3 ++ kw ++ post) = Some (w2 ++ COLON :: w3 ++ kw ++ post))
      by (apply strip_spec; reflexivity).
    rewrite E1.
    rewrite skip_spaces_app by (try exact Hw2; vm_compute; reflexivity).
    rewrite N.eqb_refl. simpl andb.
    apply existsb_exists. exists kw. split; [exact Hin|].
    destruct (Hk kw Hin) as [Hns Hne].
    rewrite skip_spaces_app; [| exact Hw3 |].
    + assert (E3 : strip kw (kw ++ post) = Some post) by (apply strip_spec; reflexivity).
      rewrite E3. reflexivity.
    + destruct kw as [|c kw]; [contradiction|]. simpl in *. exact Hns.
Qed.

Theorem search_iff : forall kws, (forall kw, In kw kws -> kw_ok kw) ->
  forall s, search kws s = true <-> Occurs kws s.
Proof.
  intros kws Hk s. split.
  - induction s as [|c s IH]; simpl; [discriminate|].
    intros H. apply orb_true_iff in H as [H|H].
    + apply andb_true_iff in H as [Hc H]. apply N.eqb_eq in Hc. subst c.
      apply (match_after_hash_iff kws s Hk) in H as (w1 & w2 & w3 & kw & post & Hin & H1 & H2 & H3 & ->).
      apply (occ kws _ [] w1 w2 w3 kw post); auto.
    + destruct (IH H) as [pre w1 w2 w3 kw post Hin H1 H2 H3 ->].
      apply (occ kws _ (c :: pre) w1 w2 w3 kw post); auto.
  - intros [pre w1 w2 w3 kw post Hin H1 H2 H3 ->].
    induction pre as [|c pre IH]; cbn [app search].
    + apply orb_true_iff. left. apply andb_true_iff. split; [apply N.eqb_refl|].
      apply (match_after_hash_iff kws _ Hk).
      exists w1, w2, w3, kw, post. auto.
    + apply orb_true_iff. right. exact IH.
Qed.

Lemma kws_ignore_ok : forall kw, In kw [SKIP_FILE; IGNORE] -> kw_ok kw.
Proof. intros kw [<-|[<-|[]]]; split; vm_compute; try reflexivity; discriminate. Qed.
Lemma kws_skip_ok : forall kw, In kw [SKIP_FILE] -> kw_ok kw.
Proof. intros kw [<-|[]]; split; vm_compute; try reflexivity; discriminate. Qed.

Theorem ignore_line_iff : forall l, ignore_line l = true <-> Occurs [SKIP_FILE; IGNORE] l.
Proof. intros l. apply search_iff. exact kws_ignore_ok. Qed.

Theorem skip_search_iff : forall s, skip_search s = true <-> Occurs [SKIP_FILE] s.
Proof. intros s. apply search_iff. exact kws_skip_ok. Qed.

Lemma Occurs_extend : forall kws a l b, Occurs kws l -> Occurs kws (a ++ l ++ b).
Proof.
  intros kws a l b [pre w1 w2 w3 kw post Hin H1 H2 H3 ->].
  apply (occ kws _ (a ++ pre) w1 w2 w3 kw (post ++ b)); auto.
  repeat (rewrite <- app_assoc || rewrite <- app_comm_cons). reflexivity.
Qed.

(* ------------------------------------------------------------------------------------------ *)
(* 2. splitlines: the lines concatenate to the source *)

Lemma split_at_concat : forall brk n s cur, (length s <= n)%nat ->
  concat (split_at brk cur s) = rev cur ++ s.
Proof.
  intros brk. induction n as [|n IH]; intros s cur Hlen.
  - destruct s; [|simpl in Hlen; lia]. cbn [split_at]. destruct cur; cbn [concat]; rewrite ?app_nil_r; reflexivity.
  - destruct s as [|c tl].
    + cbn [split_at]. destruct cur; cbn [concat]; rewrite ?app_nil_r; reflexivity.
    + cbn [length] in Hlen. cbn [split_at].
      destruct (N.eqb c 13) eqn:Ec.
      * destruct tl as [|d tl'].
        -- cbn [concat rev]. rewrite ?app_nil_r, <- ?app_assoc. reflexivity.
        -- cbn [length] in Hlen. destruct (N.eqb d 10) eqn:Ed; cbn [concat]; rewrite IH by (cbn [length]; lia);
             cbn [rev app]; rewrite <- ?app_assoc; reflexivity.
      * destruct (brk c); cbn [concat]; rewrite IH by lia; cbn [rev app]; rewrite <- ?app_assoc; reflexivity.
Qed.

Theorem split_lines_concat : forall s, concat (split_lines s) = s.
Proof. intros s. unfold split_lines. rewrite (split_at_concat _ (length s)) by lia. reflexivity. Qed.

Theorem str_splitlines_concat : forall s, concat (str_splitlines s) = s.
Proof. intros s. unfold str_splitlines. rewrite (split_at_concat _ (length s)) by lia. reflexivity. Qed.

(* ---- the line structure of split_lines is the tokenizer's: every line is a body without \r and \n
        followed by one of the terminators \n, \r, \r\n -- or by nothing, and then it is the last line *)
Definition noeol (t : text) : bool := forallb (fun c => negb (is_eol c)) t.
Definition TERMINATORS : list text := [[10]; [13]; [13; 10]]%N.

Inductive py_line : text -> Prop :=
| py_line_terminated body term : noeol body = true -> In term TERMINATORS -> py_line (body ++ term)
| py_line_last body : noeol body = true -> body <> [] -> py_line body.

(* all lines are py_lines, and an unterminated one can only be the last *)
Inductive py_lines : list text -> Prop :=
| pls_nil : py_lines []
| pls_last body : noeol body = true -> body <> [] -> py_lines [body]
| pls_cons body term rest : noeol body = true -> In term TERMINATORS -> py_lines rest ->
    py_lines ((body ++ term) :: rest).

Lemma noeol_snoc : forall t c, noeol t = true -> is_eol c = false -> noeol (t ++ [c]) = true.
Proof.
  intros t c Ht Hc. unfold noeol in *. rewrite forallb_app, Ht. cbn. rewrite Hc. reflexivity.
Qed.

Lemma split_eol_py_lines : forall n s cur, (length s <= n)%nat -> noeol (rev cur) = true ->
  py_lines (split_at (N.eqb 10) cur s).
Proof.
  induction n as [|n IH]; intros s cur Hlen Hcur.
  - destruct s; [|simpl in Hlen; lia]. cbn [split_at]. destruct cur as [|x cur]; [constructor|].
    apply pls_last; [exact Hcur|]. cbn [rev]. intros H. apply app_eq_nil in H as [_ H]. discriminate.
  - destruct s as [|c tl].
    + cbn [split_at]. destruct cur as [|x cur]; [constructor|].
      apply pls_last; [exact Hcur|]. cbn [rev]. intros H. apply app_eq_nil in H as [_ H]. discriminate.
    + cbn [length] in Hlen. cbn [split_at].
      destruct (N.eqb c 13) eqn:Ec.
      * apply N.eqb_eq in Ec. subst c. destruct tl as [|d tl'].
        -- cbn [rev]. apply (pls_cons (rev cur) [13%N] []); [exact Hcur | cbn; auto | constructor].
        -- cbn [length] in Hlen. destruct (N.eqb d 10) eqn:Ed.
           ++ apply N.eqb_eq in Ed. subst d. cbn [rev]. rewrite <- app_assoc. cbn [app].
              apply (pls_cons (rev cur) [13%N; 10%N]); [exact Hcur | cbn; auto |].
              apply IH; [lia | reflexivity].
           ++ cbn [rev]. apply (pls_cons (rev cur) [13%N]); [exact Hcur | cbn; auto |].
              apply IH; [cbn [length]; lia | reflexivity].
      * destruct (N.eqb 10 c) eqn:E10.
        -- apply N.eqb_eq in E10. subst c. cbn [rev].
           apply (pls_cons (rev cur) [10%N]); [exact Hcur | cbn; auto |].
           apply IH; [lia | reflexivity].
        -- apply IH; [lia|]. cbn [rev]. apply noeol_snoc; [exact Hcur|].
           unfold is_eol. rewrite Ec. rewrite N.eqb_sym, E10. reflexivity.
Qed.

(* T20.2: every line-break point of core.split_lines is one of \n, \r\n, \r *)
Theorem split_lines_py_lines : forall s, py_lines (split_lines s).
Proof. intros s. unfold split_lines. apply (split_eol_py_lines (length s)); [lia | reflexivity]. Qed.

Lemma py_lines_each : forall ls, py_lines ls -> forall l, In l ls -> py_line l.
Proof.
  induction 1 as [|body Hb Hne|body term rest Hb Ht Hrest IH]; intros l Hin.
  - contradiction.
  - destruct Hin as [<-|[]]. apply py_line_last; assumption.
  - destruct Hin as [<-|Hin]; [apply py_line_terminated; assumption | apply IH; exact Hin].
Qed.

(* str.splitlines is a different, finer line structure: it cuts a one-line string literal in two *)
Theorem str_splitlines_not_py_lines :
  exists s, str_splitlines s <> split_lines s /\ ~ py_lines (str_splitlines s) .
Proof.
  (* s = "a\x0cb\n" *)
  exists [97; 12; 98; 10]%N. split.
  - vm_compute. discriminate.
  - vm_compute. intros H. inversion H as [| |body term rest Hb Ht Hrest Heq]; subst.
    inversion Hrest as [|body' Hb' Hne' Heq'|body' term' rest' Hb' Ht' Hrest' Heq']; subst.
    + (* [98;10] would be an unterminated body containing \n *) vm_compute in Hb'. discriminate.
    + (* first line [97;12] = body ++ term with term a terminator *)
      destruct Ht as [<-|[<-|[<-|[]]]];
        repeat (destruct body as [|? body]; try discriminate).
Qed.

Lemma concat_in_split : forall (ls : list text) l, In l ls -> exists a b, concat ls = a ++ l ++ b.
Proof.
  induction ls as [|x ls IH]; intros l H; [contradiction|]. destruct H as [->|H]; simpl.
  - exists [], (concat ls). reflexivity.
  - destruct (IH l H) as (a & b & ->). exists (x ++ a), b. rewrite <- app_assoc. reflexivity.
Qed.

(* T20.1: a skip-file comment on any physical line => format_code returns its input, whatever the
   rest of the pipeline would do *)
Theorem skip_line_returns_source :
  forall (rest : text -> text) src l,
    In l (split_lines src) -> Occurs [SKIP_FILE] l -> format_code_head rest src = src.
Proof.
  intros rest src l Hin Hocc. unfold format_code_head.
  destruct (concat_in_split _ _ Hin) as (a & b & Hc). rewrite split_lines_concat in Hc.
  assert (H : skip_search src = true).
  { apply skip_search_iff. rewrite Hc. apply Occurs_extend. exact Hocc. }
  rewrite H. reflexivity.
Qed.

(* the same for the finer pieces of str.splitlines (however the "line" is delimited) *)
Theorem skip_strline_returns_source :
  forall (rest : text -> text) src l,
    In l (str_splitlines src) -> Occurs [SKIP_FILE] l -> format_code_head rest src = src.
Proof.
  intros rest src l Hin Hocc. unfold format_code_head.
  destruct (concat_in_split _ _ Hin) as (a & b & Hc). rewrite str_splitlines_concat in Hc.
  assert (H : skip_search src = true).
  { apply skip_search_iff. rewrite Hc. apply Occurs_extend. exact Hocc. }
  rewrite H. reflexivity.
Qed.

Theorem skip_search_returns_source :
  forall (rest : text -> text) src, skip_search src = true -> format_code_head rest src = src.
Proof. intros rest src H. unfold format_code_head. rewrite H. reflexivity. Qed.

(* ------------------------------------------------------------------------------------------ *)
(* 3. line table: every entry of line_ranges is the slice of the source it names *)

Lemma line_ranges_slice : forall ls pos r l,
  In (r, l) (line_ranges pos ls) ->
  exists X Y, concat ls = X ++ l ++ Y /\ fst r = (pos + Z.of_nat (length X))%Z
              /\ snd r = (fst r + Z.of_nat (length l))%Z.
Proof.
  induction ls as [|x ls IH]; intros pos r l H; simpl in H; [contradiction|].
  destruct H as [H|H].
  - inversion H; subst. exists [], (concat ls). simpl. repeat split; lia.
  - destruct (IH _ _ _ H) as (X & Y & Hc & Hs & He).
    exists (x ++ X), Y. simpl. rewrite Hc, <- app_assoc. repeat split; [|exact He].
    rewrite Hs, app_length. lia.
Qed.

Lemma in_combine_seq_r : forall (X : Type) (l : list X) k i x, In (i, x) (combine (seq k (length l)) l) -> In x l.
Proof. intros X l k i x H. eapply in_combine_r. exact H. Qed.

Lemma ignore_entries_in : forall src coms e,
  In e (ignore_entries src coms) ->
  In e (line_ranges 0 (split_lines src)) /\ ignore_line (snd e) = true.
Proof.
  intros src coms e H. unfold ignore_entries in H. cbv zeta in H.
  apply in_map_iff in H as ([i e'] & He & H). simpl in He. subst e'.
  apply filter_In in H as [H1 H2]. simpl in H2. apply andb_true_iff in H2 as [H2 _].
  split; [eapply in_combine_seq_r; exact H1 | exact H2].
Qed.

(* ------------------------------------------------------------------------------------------ *)
(* 4. scheduler non-interference *)

Section SchedIgnore.
Variable T : Type.
Variable teqb : T -> T -> bool.
Variable tcmp : T -> T -> comparison.
Hypothesis teqb_spec : forall a b, teqb a b = true <-> a = b.

Theorem scheduled_not_ignored :
  forall ilines groups e,
    In e (schedule T teqb tcmp ilines groups) -> ignored ilines (rrng (snd e)) = false.
Proof.
  intros ilines groups e He.
  set (key := fst e).
  assert (Hkey : In key (map fst (schedule T teqb tcmp ilines groups))) by (apply in_map; exact He).
  apply (schedule_drop_iff T teqb tcmp teqb_spec ilines groups key) in Hkey as (_ & _ & Hign & _).
  pose proof (schedule_atomic T teqb tcmp teqb_spec ilines groups key) as Hat. cbv zeta in Hat.
  assert (Hg : In e (filter (fun e0 => key_eqb (fst e0) key) (schedule T teqb tcmp ilines groups))).
  { apply filter_In. split; [exact He | apply key_eqb_refl]. }
  destruct Hat as [Hnil|Hperm]; [rewrite Hnil in Hg; contradiction|].
  assert (Hin : In (snd e) (nodup_rw T teqb (tx_of T groups key))).
  { eapply Permutation_in; [exact Hperm | apply in_map; exact Hg]. }
  apply nodup_rw_In in Hin; [|exact teqb_spec].
  destruct (ignored ilines (rrng (snd e))) eqn:E; [|reflexivity].
  assert (Hex : existsb (fun r => ignored ilines (rrng r)) (tx_of T groups key) = true).
  { apply existsb_exists. exists (snd e). split; assumption. }
  rewrite Hex in Hign. discriminate.
Qed.
End SchedIgnore.

(* ------------------------------------------------------------------------------------------ *)
(* 5. a segment that no rewrite overlaps survives the simultaneous splice verbatim, contiguous *)

Section Segment.
Variable A : Type.
Local Open Scope nat_scope.

Definition misses (a b : nat) (r : nrw A) : Prop := (nstart A r <? b) && (a <? nend A r) = false.

Lemma skipn_app_exact : forall (X Y : list A), skipn (length X) (X ++ Y) = Y.
Proof. induction X; simpl; auto. Qed.
Lemma firstn_app_exact : forall (X Y : list A), firstn (length X) (X ++ Y) = X.
Proof. induction X; simpl; intros; f_equal; auto. Qed.

(* the part of the source from position p (<= |X|) on still contains l as a block *)
Lemma skipn_contains : forall (X l Y : list A) p, p <= length X ->
  skipn p (X ++ l ++ Y) = skipn p X ++ l ++ Y.
Proof. intros. rewrite skipn_app. replace (p - length X) with 0 by lia. reflexivity. Qed.

Lemma firstn_skipn_contains : forall (X l Y : list A) p s,
  p <= length X -> length X + length l <= s ->
  exists post, firstn (s - p) (skipn p (X ++ l ++ Y)) = skipn p X ++ l ++ post.
Proof.
  intros X l Y p s Hp Hs. rewrite skipn_contains by exact Hp.
  rewrite firstn_app. rewrite skipn_length.
  rewrite firstn_all2 by (rewrite skipn_length; lia).
  rewrite firstn_app. rewrite firstn_all2 by lia.
  eexists. reflexivity.
Qed.

Theorem build_keeps_segment : forall (X l Y : list A) asc p,
  let src := X ++ l ++ Y in
  chain_ok A (length src) p asc -> p <= length X -> l <> [] ->
  (forall r, In r asc -> misses (length X) (length X + length l) r) ->
  exists pre post, build A p src asc = pre ++ l ++ post.
Proof.
  intros X l Y asc. induction asc as [|r rest IH]; intros p src Hc Hp Hl Hm.
  - simpl. unfold src. rewrite skipn_contains by exact Hp. eauto.
  - inversion Hc as [|? ? ? Hps Hse Hel Hrest]; subst.
    assert (Hr : misses (length X) (length X + length l) r) by (apply Hm; left; reflexivity).
    unfold misses in Hr.
    assert (Hlen : 0 < length l) by (destruct l; [contradiction | simpl; lia]).
    apply andb_false_iff in Hr as [Hr|Hr]; apply Nat.ltb_ge in Hr.
    + (* the segment ends before r starts: it lies in the untouched stretch before r *)
      simpl build.
      destruct (firstn_skipn_contains X l Y p (nstart A r) Hp Hr) as (post & Hf).
      fold src in Hf. rewrite Hf. exists (skipn p X), (post ++ ntext A r ++ build A (nend A r) src rest).
      rewrite <- !app_assoc. reflexivity.
    + (* r ends before the segment starts *)
      simpl build.
      destruct (IH (nend A r) Hrest Hr Hl) as (pre & post & Hb).
      { intros q Hq. apply Hm. right. exact Hq. }
      fold src in Hb. rewrite Hb.
      exists (firstn (nstart A r - p) (skipn p src) ++ ntext A r ++ pre), post.
      rewrite <- !app_assoc. reflexivity.
Qed.
End Segment.

(* ------------------------------------------------------------------------------------------ *)
(* 6. T20.3 assembled: an ignored physical line survives every pass of non-ignored, chained rewrites *)

Lemma Z_overlap_misses : forall (A : Type) (r : range * list A) (a b : Z),
  (0 <= fst (fst r))%Z -> (0 <= a)%Z ->
  overlaps (fst r) (a, b) = false ->
  misses A (Z.to_nat a) (Z.to_nat b) (to_nrw A r).
Proof.
  intros A [[s e] n] a b Hs Ha H. unfold overlaps in H. simpl in *.
  unfold misses, to_nrw, nstart, nend. simpl.
  apply andb_false_iff in H as [H|H]; apply Z.ltb_ge in H; apply andb_false_iff; [left|right];
    apply Nat.ltb_ge; lia.
Qed.

(* an insertion point that does not touch the line lies before its first column or after its last *)
Lemma touches_false_misses : forall (rw : range * text) (e : range * text),
  (0 <= fst (fst rw))%Z -> (0 <= fst (fst e))%Z ->
  touches (fst rw) e = false ->
  misses N (Z.to_nat (fst (fst e))) (Z.to_nat (snd (fst e))) (to_nrw N rw).
Proof.
  intros [[s e0] n] [[a b] l] Hs Ha H. unfold touches in H. cbn [fst snd] in *.
  destruct (s =? e0)%Z eqn:Eempty.
  - apply Z.eqb_eq in Eempty. subst e0.
    apply orb_false_iff in H as [H _].
    unfold misses, to_nrw, nstart, nend. cbn [fst snd].
    apply andb_false_iff in H as [H|H]; apply andb_false_iff.
    + apply Z.leb_gt in H. right. apply Nat.ltb_ge. lia.
    + apply Z.ltb_ge in H. left. apply Nat.ltb_ge. lia.
  - apply (Z_overlap_misses N ((s, e0), n) a b Hs Ha H).
Qed.

Theorem ignored_line_survives :
  forall (src : text) (coms : option (list nat)) (rws : list (range * text)) (r : range) (l : text),
    In (r, l) (ignore_entries src coms) ->
    chain_ok N (length src) 0 (map (to_nrw N) rws) ->
    (forall rw, In rw rws -> (0 <= fst (fst rw))%Z /\ has_ignore src coms (fst rw) = false) ->
    exists pre post, build N 0 src (map (to_nrw N) rws) = pre ++ l ++ post.
Proof.
  intros src coms rws r l Hent Hchain Hrws.
  destruct (ignore_entries_in _ _ _ Hent) as [Hin Hign]. cbn [snd] in Hign.
  destruct (line_ranges_slice _ _ _ _ Hin) as (X & Y & Hc & Hs & He).
  rewrite split_lines_concat in Hc.
  assert (Hl : l <> []).
  { intros ->. vm_compute in Hign. discriminate. }
  subst src.
  apply (build_keeps_segment N X l Y (map (to_nrw N) rws) 0%nat); [exact Hchain | lia | exact Hl |].
  intros q Hq. apply in_map_iff in Hq as (rw & <- & Hrw).
  destruct (Hrws rw Hrw) as [Hnn Hhi].
  assert (Ht : touches (fst rw) (r, l) = false).
  { destruct (touches (fst rw) (r, l)) eqn:E; [|reflexivity].
    assert (Hex : has_ignore (X ++ l ++ Y) coms (fst rw) = true)
      by (unfold has_ignore; apply existsb_exists; exists (r, l); split; assumption).
    exact (eq_trans (eq_sym Hex) Hhi). }
  destruct r as [a b]. simpl in Hs, He.
  pose proof (touches_false_misses rw ((a, b), l) Hnn ltac:(simpl; lia) Ht) as Hm.
  cbn [fst snd] in Hm.
  replace (Z.to_nat a) with (length X) in Hm by lia.
  replace (Z.to_nat b) with (length X + length l)%nat in Hm by lia.
  exact Hm.
Qed.

(* the repaired recogniser agrees with the scheduler model of C10 (SchedModel.ignored) on non-empty ranges
   (SchedModel.touches_line mirrors the insertion clause since round 5) *)
Theorem has_ignore_extends_overlap : forall src coms r,
  ignored (map fst (ignore_entries src coms)) r = true ->
  (fst r <> snd r) -> has_ignore src coms r = true.
Proof.
  intros src coms r H Hne. unfold ignored in H. apply existsb_exists in H as (x & Hin & Ho).
  apply in_map_iff in Hin as ([[a b] l] & <- & Hin). unfold has_ignore. apply existsb_exists.
  exists ((a, b), l). split; [exact Hin|]. unfold touches. unfold touches_line in Ho. cbn [fst snd] in *.
  destruct (fst r =? snd r)%Z eqn:E; [apply Z.eqb_eq in E; contradiction | exact Ho].
Qed.

(* before repair 8992e08 an insertion at the first column of an ignored line was not refused:
   overlap alone does not see it, touches does *)
Theorem insertion_at_line_start :
  let src := [120; 32; 35; 112; 121; 114; 101; 102; 97; 99; 116; 58; 105; 103; 110; 111; 114; 101; 10; 121; 10]%N in
  existsb (overlaps (0, 0)%Z) (map fst (ignore_entries src None)) = false /\ has_ignore src None (0, 0)%Z = true
  /\ has_ignore src None (19, 19)%Z = false.
Proof. repeat split; vm_compute; reflexivity. Qed.

(* ------------------------------------------------------------------------------------------ *)
(* non-vacuity *)
Example ignore_examples :
  ignore_line [120; 32; 35; 32; 112; 121; 114; 101; 102; 97; 99; 116; 58; 32; 105; 103; 110; 111; 114; 101; 10]%N = true
  /\ ignore_line [35; 112; 121; 114; 101; 102; 97; 99; 116; 160; 58; 9; 115; 107; 105; 112; 95; 102; 105; 108; 101]%N = true
  /\ ignore_line [35; 32; 112; 121; 114; 101; 102; 97; 99; 116; 58; 32; 105; 103; 110; 111; 114]%N = false
  /\ str_splitlines [97; 13; 10; 98; 12; 99]%N = [[97; 13; 10]; [98; 12]; [99]]%N
  /\ split_lines [97; 13; 10; 98; 12; 99]%N = [[97; 13; 10]; [98; 12; 99]]%N.
Proof. repeat split; vm_compute; reflexivity. Qed.

(* ------------------------------------------------------------------------------------------ *)
(* 7. (round 5) nodes: the character range handed to has_ignore_comment for a node against the node's
      physical lines.  The direct-editing back end and the rules' own guards ask about get_charnos(node),
      which starts at the "@" of the first decorator. *)

Fixpoint nf (k : nat) (pos : Z) (ls : list text) : list (nat * (range * text)) :=
  match ls with
  | [] => []
  | l :: tl => let e := (pos + Z.of_nat (length l))%Z in (k, ((pos, e), l)) :: nf (S k) e tl
  end.

Lemma numbered_nf_gen : forall ls k pos,
  combine (seq k (length (line_ranges pos ls))) (line_ranges pos ls) = nf k pos ls.
Proof.
  induction ls as [|l tl IH]; intros k pos; simpl; [reflexivity|]. f_equal. apply IH.
Qed.

Lemma numbered_nf : forall src, numbered src = nf 0 0 (split_lines src).
Proof. intros src. unfold numbered. cbv zeta. apply numbered_nf_gen. Qed.

Lemma nf_bounds : forall ls k pos i a b t,
  In (i, ((a, b), t)) (nf k pos ls) -> (k <= i)%nat /\ (pos <= a)%Z /\ (a <= b)%Z.
Proof.
  induction ls as [|l tl IH]; intros k pos i a b t H; simpl in H; [contradiction|].
  destruct H as [H|H].
  - inversion H; subst. lia.
  - apply IH in H. lia.
Qed.

(* the table is sorted and contiguous: an earlier line ends before a later one starts *)
Lemma nf_sorted : forall ls k pos i j a b t c d u,
  In (i, ((a, b), t)) (nf k pos ls) -> In (j, ((c, d), u)) (nf k pos ls) ->
  ((i < j)%nat -> (b <= c)%Z) /\ (i = j -> a = c /\ b = d).
Proof.
  induction ls as [|l tl IH]; intros k pos i j a b t c d u H1 H2; simpl in H1, H2; [contradiction|].
  destruct H1 as [H1|H1]; destruct H2 as [H2|H2].
  - inversion H1; inversion H2; subst. split; [lia | intros _; split; reflexivity].
  - inversion H1; subst. apply nf_bounds in H2. split; lia.
  - inversion H2; subst. apply nf_bounds in H1. split; lia.
  - eapply IH; eassumption.
Qed.

Lemma existsb_filter_map : forall (A B : Type) (f : B -> bool) (g : A -> B) (p : A -> bool) l,
  existsb f (map g (filter p l)) = existsb (fun x => p x && f (g x)) l.
Proof.
  induction l as [|a l IH]; simpl; [reflexivity|]. destruct (p a); simpl; rewrite IH; reflexivity.
Qed.

Lemma existsb_ext_in : forall (A : Type) (f g : A -> bool) l,
  (forall x, In x l -> f x = g x) -> existsb f l = existsb g l.
Proof.
  induction l as [|a l IH]; simpl; intros H; [reflexivity|].
  rewrite (H a) by (left; reflexivity). rewrite IH; [reflexivity|]. intros x Hx. apply H. right. exact Hx.
Qed.

Lemma existsb_orb : forall (A : Type) (f g : A -> bool) l,
  existsb (fun x => f x || g x) l = existsb f l || existsb g l.
Proof.
  induction l as [|a l IH]; simpl; [reflexivity|]. rewrite IH.
  destruct (f a), (g a), (existsb f l), (existsb g l); reflexivity.
Qed.

Lemma has_ignore_numbered : forall src coms r,
  has_ignore src coms r = existsb (fun e => protects coms e && touches r (snd e)) (numbered src).
Proof.
  intros src coms r. unfold has_ignore, ignore_entries, numbered, protects. cbv zeta.
  apply existsb_filter_map.
Qed.

(* T20.4: a non-empty range that starts inside physical line [first] and ends inside line [last] is refused by
   has_ignore_comment exactly when one of the lines first..last protects.  For the range core.get_charnos
   computes for a decorated definition, [first] is the line of the first decorator. *)
Theorem node_range_is_its_lines : forall src coms r first last,
  spans src r first last = true ->
  has_ignore src coms r = node_lines_ignore src coms first last.
Proof.
  intros src coms r first last H. rewrite has_ignore_numbered. unfold node_lines_ignore.
  unfold spans in H. apply andb_true_iff in H as [H H3]. apply andb_true_iff in H as [H1 H2].
  apply existsb_exists in H2 as ([i1 [[a1 b1] t1]] & In1 & H2).
  apply existsb_exists in H3 as ([i2 [[a2 b2] t2]] & In2 & H3).
  cbn [fst snd] in H2, H3.
  apply andb_true_iff in H2 as [H2 H2c]. apply andb_true_iff in H2 as [H2a H2b].
  apply andb_true_iff in H3 as [H3 H3c]. apply andb_true_iff in H3 as [H3a H3b].
  apply Nat.eqb_eq in H2a, H3a. subst i1 i2.
  apply Z.ltb_lt in H1, H2c, H3b. apply Z.leb_le in H2b, H3c.
  rewrite numbered_nf in *.
  apply existsb_ext_in. intros [i [[a b] t]] Hin. cbn [fst snd].
  pose proof (nf_sorted _ _ _ _ _ _ _ _ _ _ _ Hin In1) as [S1 E1].
  pose proof (nf_sorted _ _ _ _ _ _ _ _ _ _ _ In1 Hin) as [S2 _].
  pose proof (nf_sorted _ _ _ _ _ _ _ _ _ _ _ Hin In2) as [S3 E3].
  pose proof (nf_sorted _ _ _ _ _ _ _ _ _ _ _ In2 Hin) as [S4 _].
  pose proof (nf_sorted _ _ _ _ _ _ _ _ _ _ _ In2 In1) as [S5 _].
  pose proof (nf_bounds _ _ _ _ _ _ _ Hin) as B0.
  pose proof (nf_bounds _ _ _ _ _ _ _ In1) as B1.
  pose proof (nf_bounds _ _ _ _ _ _ _ In2) as B2.
  unfold touches. cbn [fst snd].
  assert (Hne : (fst r =? snd r)%Z = false) by (apply Z.eqb_neq; lia). rewrite Hne.
  unfold overlaps. cbn [fst snd].
  destruct (protects coms _); [rewrite andb_true_r; cbn [andb] | rewrite andb_false_r; reflexivity].
  destruct (fst r <? b)%Z eqn:X1; destruct (a <? snd r)%Z eqn:X2;
    destruct (Nat.leb first i) eqn:X3; destruct (Nat.leb i last) eqn:X4; cbn [andb]; try reflexivity; exfalso;
    rewrite ?Z.ltb_lt, ?Z.ltb_ge, ?Nat.leb_le, ?Nat.leb_gt in *; lia.
Qed.

(* the lines of a node split at any line in between: decorator lines first..lineno-1, then lineno..last *)
Lemma node_lines_split : forall src coms first lineno last,
  (first < lineno)%nat -> (lineno <= last)%nat ->
  node_lines_ignore src coms first last
  = node_lines_ignore src coms first (lineno - 1) || node_lines_ignore src coms lineno last.
Proof.
  intros src coms first lineno last H1 H2. unfold node_lines_ignore. rewrite <- existsb_orb.
  apply existsb_ext_in. intros [i e] _. cbn [fst].
  destruct (protects coms (i, e)); [|rewrite !andb_false_r; reflexivity]. rewrite !andb_true_r.
  destruct (Nat.leb first i) eqn:X1; destruct (Nat.leb i last) eqn:X2; destruct (Nat.leb i (lineno - 1)) eqn:X3;
    destruct (Nat.leb lineno i) eqn:X4; cbn [andb orb]; try reflexivity; exfalso;
    rewrite ?Nat.leb_le, ?Nat.leb_gt in *; lia.
Qed.

(* T20.4b: a range that starts only at the def/class line (node.lineno) misses exactly the decorator lines *)
Theorem late_start_misses_decorator_lines : forall src coms r r' first lineno last,
  spans src r first last = true -> spans src r' lineno last = true ->
  (first < lineno)%nat -> (lineno <= last)%nat ->
  has_ignore src coms r = node_lines_ignore src coms first (lineno - 1) || has_ignore src coms r'.
Proof.
  intros src coms r r' first lineno last H1 H2 L1 L2.
  rewrite (node_range_is_its_lines _ _ _ _ _ H1), (node_range_is_its_lines _ _ _ _ _ H2).
  apply node_lines_split; assumption.
Qed.

(* the reading "node.lineno .. node.end_lineno" (seed C20-d) is NOT what the range means:
   "@d  # pyrefact: ignore\ndef f(): pass\n", the range of the decorated definition (from the "@" to the end
   of "pass") is refused, the lines lineno..end_lineno (the def line alone) do not protect *)
Definition DECO_SRC : text :=
  [64; 100; 32; 32; 35; 32; 112; 121; 114; 101; 102; 97; 99; 116; 58; 32; 105; 103; 110; 111; 114; 101; 10;
   100; 101; 102; 32; 102; 40; 41; 58; 32; 112; 97; 115; 115; 10]%N.

Theorem lineno_reading_refuted :
  exists src coms r first lineno last,
    spans src r first last = true /\ (first < lineno)%nat /\ (lineno <= last)%nat
    /\ has_ignore src coms r = true /\ node_lines_ignore src coms lineno last = false.
Proof.
  exists DECO_SRC, (Some [0%nat]), (0, 36)%Z, 0%nat, 1%nat, 1%nat.
  split; [vm_compute; reflexivity|]. split; [lia|]. split; [lia|].
  split; vm_compute; reflexivity.
Qed.

(* under the guard "no decorator line protects" the lineno reading is right *)
Theorem lineno_reading_partial : forall src coms r first lineno last,
  spans src r first last = true -> (first < lineno)%nat -> (lineno <= last)%nat ->
  node_lines_ignore src coms first (lineno - 1) = false ->
  has_ignore src coms r = node_lines_ignore src coms lineno last.
Proof.
  intros src coms r first lineno last H L1 L2 G.
  rewrite (node_range_is_its_lines _ _ _ _ _ H), (node_lines_split _ _ _ _ _ L1 L2), G. reflexivity.
Qed.

Example node_examples :
  spans DECO_SRC (0, 36)%Z 0 1 = true /\ spans DECO_SRC (23, 36)%Z 1 1 = true
  /\ spans DECO_SRC (23, 36)%Z 0 1 = false
  /\ has_ignore DECO_SRC (Some [0%nat]) (23, 36)%Z = false
  /\ node_lines_ignore DECO_SRC (Some [0%nat]) 0 1 = true
  /\ node_lines_ignore DECO_SRC (Some [0%nat]) 0 0 = true.
Proof. repeat split; vm_compute; reflexivity. Qed.
