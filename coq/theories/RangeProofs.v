(* Proofs about RangeModel.v (the repaired symbolic_math.simplify_constrained_range):
   for ALL integer bounds (literal or symbolic), every positive step, every list of filters of any
   length in any order, the folded comprehension enumerates exactly the same elements in the same
   order; the empty verdict is right; the pre-repair clauses are refuted by checked witnesses. *)
From Coq Require Import List ZArith Bool Lia Sorted.
Require Import ZifyBool.
Import ListNotations.
Require Import Pyrefact.RangeModel.
Open Scope Z_scope.

(* ---------------- strictly increasing lists are determined by their elements ---------------- *)
Lemma Forall_filter_keep {X} (P : X -> Prop) (p : X -> bool) (l : list X) :
  Forall P l -> Forall P (filter p l).
Proof.
  intros H. rewrite Forall_forall in *. intros x Hx. apply filter_In in Hx. apply H. tauto.
Qed.

Lemma filter_sorted (p : Z -> bool) (l : list Z) :
  StronglySorted Z.lt l -> StronglySorted Z.lt (filter p l).
Proof.
  induction 1 as [|a l Hs IH Hf]; cbn [filter].
  - constructor.
  - destruct (p a).
    + constructor; [exact IH | apply Forall_filter_keep; exact Hf].
    + exact IH.
Qed.

Lemma sorted_ext : forall l1 l2 : list Z,
  StronglySorted Z.lt l1 -> StronglySorted Z.lt l2 -> (forall x, In x l1 <-> In x l2) -> l1 = l2.
Proof.
  induction l1 as [|a t IH]; intros l2 S1 S2 H.
  - destruct l2 as [|b t2]; [reflexivity|].
    exfalso. destruct (H b) as [_ Hb]. apply Hb. left. reflexivity.
  - destruct l2 as [|b t2].
    + exfalso. destruct (H a) as [Ha _]. apply Ha. left. reflexivity.
    + inversion S1 as [|? ? S1t F1]; inversion S2 as [|? ? S2t F2]; subst.
      rewrite Forall_forall in F1, F2.
      assert (Hab : a = b).
      { destruct (H a) as [Ha _]. specialize (Ha (or_introl eq_refl)).
        destruct (H b) as [_ Hb]. specialize (Hb (or_introl eq_refl)).
        destruct Ha as [Ha|Ha]; [auto|]. destruct Hb as [Hb|Hb]; [auto|].
        specialize (F2 _ Ha). specialize (F1 _ Hb). lia. }
      subst b. f_equal. apply IH; [exact S1t | exact S2t |].
      intros x; split; intro Hx.
      * destruct (H x) as [Hx' _]. destruct (Hx' (or_intror Hx)) as [E|E]; [|exact E].
        subst x. specialize (F1 _ Hx). lia.
      * destruct (H x) as [_ Hx']. destruct (Hx' (or_intror Hx)) as [E|E]; [|exact E].
        subst x. specialize (F2 _ Hx). lia.
Qed.

(* ---------------- list(range(s, e, st)) for a positive step ---------------- *)
Lemma zrange_up_lb e st : 0 < st -> forall n s x, In x (zrange_up n s e st) -> s <= x.
Proof.
  intros Hst. induction n as [|n IH]; cbn [zrange_up]; intros s x Hx; [contradiction|].
  destruct (s <? e); [|contradiction].
  destruct Hx as [Hx|Hx]; [lia|]. apply IH in Hx. lia.
Qed.

Lemma zrange_up_sorted e st : 0 < st -> forall n s, StronglySorted Z.lt (zrange_up n s e st).
Proof.
  intros Hst. induction n as [|n IH]; cbn [zrange_up]; intros s; [constructor|].
  destruct (s <? e); [|constructor].
  constructor; [apply IH|]. apply Forall_forall. intros x Hx.
  apply (zrange_up_lb e st Hst) in Hx. lia.
Qed.

Lemma zrange_up_In e st : 0 < st -> forall n s x,
  (Z.to_nat (e - s) <= n)%nat ->
  (In x (zrange_up n s e st) <-> s <= x < e /\ (st | x - s)).
Proof.
  intros Hst. induction n as [|n IH]; intros s x Hn.
  - cbn [zrange_up In]. split; [contradiction|]. intros [H1 _]. lia.
  - cbn [zrange_up]. destruct (s <? e) eqn:E.
    + cbn [In]. rewrite IH by lia. split.
      * intros [H|[H1 [k Hk]]].
        -- subst x. split; [lia|]. exists 0. lia.
        -- split; [lia|]. exists (k + 1). lia.
      * intros [H1 [k Hk]].
        assert (Hk0 : 0 <= k) by nia.
        destruct (Z.eq_dec k 0) as [K|K].
        -- left. subst k. lia.
        -- right. split; [nia|]. exists (k - 1). lia.
    + cbn [In]. split; [contradiction|]. intros [H1 _]. lia.
Qed.

(* x is an element of range(s, e, st) *)
Definition inr (s e st x : Z) : Prop := s <= x < e /\ (st | x - s).

Lemma zrange_In s e st x : 0 < st -> (In x (zrange s e st) <-> inr s e st x).
Proof.
  intros Hst. unfold zrange, inr. destruct (0 <? st) eqn:E; [|lia].
  apply zrange_up_In; [exact Hst | lia].
Qed.

Lemma zrange_sorted s e st : 0 < st -> StronglySorted Z.lt (zrange s e st).
Proof.
  intros Hst. unfold zrange. destruct (0 <? st) eqn:E; [|lia]. apply zrange_up_sorted. exact Hst.
Qed.

(* two filtered ranges with the same elements are the same list *)
Lemma filter_zrange_ext st s e s' e' (p q : Z -> bool) :
  0 < st ->
  (forall x, (inr s e st x /\ p x = true) <-> (inr s' e' st x /\ q x = true)) ->
  filter p (zrange s e st) = filter q (zrange s' e' st).
Proof.
  intros Hst H. apply sorted_ext.
  - apply filter_sorted, zrange_sorted, Hst.
  - apply filter_sorted, zrange_sorted, Hst.
  - intros x. rewrite !filter_In, !zrange_In by exact Hst. apply H.
Qed.

Lemma filter_zrange_nil st s e (p : Z -> bool) :
  0 < st -> (forall x, ~ (inr s e st x /\ p x = true)) -> filter p (zrange s e st) = [].
Proof.
  intros Hst H. destruct (filter p (zrange s e st)) as [|h t] eqn:E; [reflexivity|].
  exfalso. apply (H h). rewrite <- zrange_In by exact Hst. apply filter_In. rewrite E. left. reflexivity.
Qed.

(* ---------------- aligning a moved lower bound to the progression ---------------- *)
(* b + (s - b) mod st is the first element >= b of the progression s, s + st, ... (for s <= b) *)
Lemma align_inr st s b e x :
  0 < st -> s <= b ->
  ((inr s e st x /\ b <= x) <-> inr (b + (s - b) mod st) e st x).
Proof.
  intros Hst Hsb. unfold inr.
  pose proof (Z.div_mod (s - b) st ltac:(lia)) as Hdm.
  pose proof (Z.mod_pos_bound (s - b) st Hst) as Hr.
  remember ((s - b) / st) as q eqn:Eq. remember ((s - b) mod st) as r eqn:Er.
  assert (Hq : q <= 0) by nia.
  split.
  - intros [[H1 [k Hk]] H3].
    assert (Hd : x - (b + r) = (k + q) * st) by lia.
    assert (Hkq : 0 <= k + q) by nia.
    split; [split; [nia | lia] | exists (k + q); exact Hd].
  - intros [H1 [k Hk]].
    assert (Hs : b + r - s = - (st * q)) by lia.
    split; [split; [split; [nia | lia] | exists (k - q); lia] | lia].
Qed.

(* ---------------- one clause ---------------- *)
Definition kind_sem (k : rkind) (c x : Z) : bool :=
  match k with KGt => c <? x | KLt => x <? c | KGe => c <=? x | KLe => x <=? c | KEq => x =? c end.

Lemma kind_of_sem sigma op fl k c x :
  kind_of op fl = Some k -> cond_holds sigma x (RCmp op c fl) = kind_sem k c x.
Proof.
  destruct op, fl; cbn; intros H; inversion H; subst; cbn; lia.
Qed.

(* value of a bound: the literal when known, else the run-time value d of the original expression *)
Definition oval (o : option Z) (d : Z) : Z := match o with Some z => z | None => d end.

Definition cres_sound (r : cres) (so eo : option Z) (st ds de x : Z) (holds : bool) : Prop :=
  match r with
  | CKeep => True
  | CFold so' eo' =>
      (inr (oval so ds) (oval eo de) st x /\ holds = true) <-> inr (oval so' ds) (oval eo' de) st x
  | CInfeasible => ~ (inr (oval so ds) (oval eo de) st x /\ holds = true)
  end.

Lemma clause_sound k c so eo st ds de x :
  0 < st -> cres_sound (clause k c so eo st) so eo st ds de x (kind_sem k c x).
Proof.
  intros Hst. destruct k; cbn [clause kind_sem].
  - (* x > c *)
    destruct so as [s|]; [|exact I]. destruct (s <? c) eqn:E; [|exact I].
    cbn [cres_sound oval].
    replace (c + 1 + (s - c - 1) mod st) with ((c + 1) + (s - (c + 1)) mod st)
      by (replace (s - c - 1) with (s - (c + 1)) by lia; lia).
    rewrite <- (align_inr st s (c + 1)) by lia.
    split; intros [H1 H2]; (split; [exact H1 | lia]).
  - (* x < c *)
    destruct eo as [e|]; [|exact I]. destruct (c <=? e) eqn:E; [|exact I].
    cbn [cres_sound oval]. unfold inr.
    split.
    + intros [[H1 H2] H3]. split; [lia | exact H2].
    + intros [H1 H2]. split; [split; [lia | exact H2] | lia].
  - (* x >= c *)
    destruct so as [s|]; [|exact I]. destruct (s <=? c) eqn:E; [|exact I].
    cbn [cres_sound oval].
    rewrite <- (align_inr st s c) by lia.
    split; intros [H1 H2]; (split; [exact H1 | lia]).
  - (* x <= c *)
    destruct eo as [e|]; [|exact I]. destruct (c <? e) eqn:E; [|exact I].
    cbn [cres_sound oval]. unfold inr.
    split.
    + intros [[H1 H2] H3]. split; [lia | exact H2].
    + intros [H1 H2]. split; [split; [lia | exact H2] | lia].
  - (* x == c *)
    destruct so as [s|]; destruct eo as [e|]; cbn [oval].
    + destruct ((c <? s) || negb ((c - s) mod st =? 0)) eqn:E1.
      * cbn [cres_sound oval]. unfold inr. intros [[H1 H2] H3].
        assert (x = c) by lia. subst x.
        apply Z.mod_divide in H2; [lia | lia].
      * destruct (e <=? c) eqn:E2.
        -- cbn [cres_sound oval]. unfold inr. intros [[H1 H2] H3]. lia.
        -- cbn [cres_sound oval]. unfold inr.
           assert (Hd : (st | c - s)) by (apply Z.mod_divide; lia).
           split.
           ++ intros [[H1 H2] H3]. assert (x = c) by lia. subst x.
              split; [lia | exists 0; lia].
           ++ intros [H1 H2]. assert (x = c) by lia. subst x.
              split; [split; [lia | exact Hd] | lia].
    + destruct ((c <? s) || negb ((c - s) mod st =? 0)) eqn:E1; [|exact I].
      cbn [cres_sound oval]. unfold inr. intros [[H1 H2] H3].
      assert (x = c) by lia. subst x.
      apply Z.mod_divide in H2; [lia | lia].
    + destruct (e <=? c) eqn:E2; [|exact I].
      cbn [cres_sound oval]. unfold inr. intros [[H1 H2] H3]. lia.
    + exact I.
Qed.

Lemma cond_step_sound sigma cd so eo st ds de x :
  0 < st -> cres_sound (cond_step cd so eo st) so eo st ds de x (cond_holds sigma x cd).
Proof.
  intros Hst. destruct cd as [op c fl| |]; cbn [cond_step]; try exact I.
  destruct (kind_of op fl) as [k|] eqn:Ek; [|exact I].
  destruct (recognised c); [|exact I].
  rewrite (kind_of_sem sigma op fl k c x Ek). apply clause_sound. exact Hst.
Qed.

(* ---------------- the loop ---------------- *)
Definition all_hold (sigma : nat -> Z -> bool) (cs : list rcond) (x : Z) : bool :=
  forallb (cond_holds sigma x) cs.

Lemma process_sound sigma st ds de x :
  0 < st -> forall cs so eo,
  match process st so eo cs with
  | Some (so', eo', red) =>
      length red = length cs /\
      ((inr (oval so ds) (oval eo de) st x /\ all_hold sigma cs x = true) <->
       (inr (oval so' ds) (oval eo' de) st x /\ all_hold sigma (mask_true red cs) x = true))
  | None => ~ (inr (oval so ds) (oval eo de) st x /\ all_hold sigma cs x = true)
  end.
Proof.
  intros Hst. induction cs as [|cd tl IH]; intros so eo.
  - cbn. split; [reflexivity | tauto].
  - cbn [process].
    pose proof (cond_step_sound sigma cd so eo st ds de x Hst) as Hc.
    destruct (cond_step cd so eo st) as [|s1 e1|]; cbn [cres_sound] in Hc.
    + specialize (IH so eo).
      destruct (process st so eo tl) as [[[s e] red]|].
      * destruct IH as [Hl IH]. split; [cbn; lia|].
        unfold all_hold in *. cbn [mask_true forallb]. rewrite !andb_true_iff. tauto.
      * unfold all_hold in *. cbn [forallb]. rewrite andb_true_iff. tauto.
    + specialize (IH s1 e1).
      destruct (process st s1 e1 tl) as [[[s e] red]|].
      * destruct IH as [Hl IH]. split; [cbn; lia|].
        unfold all_hold in *. cbn [mask_true forallb cond_holds]. rewrite !andb_true_iff. tauto.
      * unfold all_hold in *. cbn [forallb]. rewrite andb_true_iff. tauto.
    + unfold all_hold. cbn [forallb]. rewrite andb_true_iff. tauto.
Qed.

(* ---------------- arguments in / out ---------------- *)
Lemma lit_val rho a : arg_val rho a = oval (lit a) (arg_val rho a).
Proof. destruct a; reflexivity. Qed.

Lemma new_arg_val rho o a : arg_val rho (new_arg o a) = oval o (arg_val rho a).
Proof. destruct o; reflexivity. Qed.

Lemma range_of_normalise rho args a0 a1 a2 st :
  normalise args = Some (a0, a1, a2) -> lit a2 = Some st ->
  range_of (map (arg_val rho) args) = zrange (arg_val rho a0) (arg_val rho a1) st.
Proof.
  intros Hn Hl.
  destruct args as [|x0 [|x1 [|x2 [|x3 t]]]]; cbn in Hn; inversion Hn; subst; cbn in Hl.
  - inversion Hl; subst. reflexivity.
  - inversion Hl; subst. reflexivity.
  - destruct a2; inversion Hl; subst. reflexivity.
Qed.

Lemma range_of_out_args rho a0 a1 s e st :
  range_of (map (arg_val rho) (out_args a0 a1 s e st)) =
  zrange (oval s (arg_val rho a0)) (oval e (arg_val rho a1)) st.
Proof.
  unfold out_args. destruct (st =? 1) eqn:E.
  - assert (st = 1) by lia. subst st.
    destruct s as [[|p|p]|]; cbn [map range_of]; rewrite ?new_arg_val; reflexivity.
  - cbn [map range_of arg_val]. rewrite !new_arg_val. reflexivity.
Qed.

Lemma known_empty_spec s e st ds de x :
  known_empty s e = true -> ~ inr (oval s ds) (oval e de) st x.
Proof.
  destruct s as [a|]; destruct e as [b|]; cbn; try discriminate. unfold inr. lia.
Qed.

(* ---------------- the theorems ---------------- *)
(* T17.7 the folded comprehension enumerates exactly the same elements in the same order, for every
   value of the symbolic bounds and every interpretation of the opaque filters *)
Theorem fold_sound : forall rho sigma args cs args' red,
  fold_range args cs = VFold args' red ->
  length red = length cs /\
  comp_sem rho sigma args' (mask_true red cs) = comp_sem rho sigma args cs.
Proof.
  intros rho sigma args cs args' red H. unfold fold_range in H.
  destruct cs as [|c0 ct]; [discriminate|]. remember (c0 :: ct) as cs eqn:Ecs. clear Ecs.
  destruct (normalise args) as [[[a0 a1] a2]|] eqn:En; [|discriminate].
  destruct (lit a2) as [st|] eqn:El; [|discriminate].
  destruct (st <=? 0) eqn:Est; [discriminate|].
  assert (Hst : 0 < st) by lia.
  destruct (process st (lit a0) (lit a1) cs) as [[[s e] red0]|] eqn:Ep; [|discriminate].
  destruct (known_empty s e); [discriminate|].
  destruct (existsb (fun b : bool => b) red0); [|discriminate].
  inversion H; subst args' red0. clear H.
  split.
  - pose proof (process_sound sigma st 0 0 0 Hst cs (lit a0) (lit a1)) as P. rewrite Ep in P. tauto.
  - unfold comp_sem. rewrite (range_of_normalise rho args a0 a1 a2 st En El), range_of_out_args.
    symmetry. apply filter_zrange_ext; [exact Hst|]. intros x.
    pose proof (process_sound sigma st (arg_val rho a0) (arg_val rho a1) x Hst cs (lit a0) (lit a1)) as P.
    rewrite Ep in P. destruct P as [_ P]. rewrite <- !lit_val in P. exact P.
Qed.

(* T17.7b the empty verdict: no element of the range passes the filters *)
Theorem fold_empty_sound : forall rho sigma args cs,
  fold_range args cs = VEmpty -> comp_sem rho sigma args cs = [].
Proof.
  intros rho sigma args cs H. unfold fold_range in H.
  destruct cs as [|c0 ct]; [discriminate|]. remember (c0 :: ct) as cs eqn:Ecs. clear Ecs.
  destruct (normalise args) as [[[a0 a1] a2]|] eqn:En; [|discriminate].
  destruct (lit a2) as [st|] eqn:El; [|discriminate].
  destruct (st <=? 0) eqn:Est; [discriminate|].
  assert (Hst : 0 < st) by lia.
  unfold comp_sem. rewrite (range_of_normalise rho args a0 a1 a2 st En El).
  apply filter_zrange_nil; [exact Hst|]. intros x.
  pose proof (process_sound sigma st (arg_val rho a0) (arg_val rho a1) x Hst cs (lit a0) (lit a1)) as P.
  rewrite <- !lit_val in P.
  destruct (process st (lit a0) (lit a1) cs) as [[[s e] red0]|] eqn:Ep.
  - destruct (known_empty s e) eqn:Ek.
    + destruct P as [_ P]. intros Hx. apply P in Hx. destruct Hx as [Hx _].
      exact (known_empty_spec s e st _ _ x Ek Hx).
    + destruct (existsb (fun b : bool => b) red0); discriminate.
  - exact P.
Qed.

(* symbolic (non-literal) arguments are never replaced or dropped: every argument of the new call is
   an int literal or the original expression in the same role, and the rule does not fire for a
   non-positive or unknown step *)
Theorem fold_args_shape : forall args cs args' red,
  fold_range args cs = VFold args' red ->
  exists a0 a1 st s e,
    normalise args = Some (a0, a1, AInt st) /\ 0 < st /\
    args' = out_args a0 a1 s e st /\
    (lit a0 = None -> s = None) /\ (lit a1 = None -> e = None).
Proof.
  intros args cs args' red H. unfold fold_range in H.
  destruct cs as [|c0 ct]; [discriminate|]. remember (c0 :: ct) as cs eqn:Ecs. clear Ecs.
  destruct (normalise args) as [[[a0 a1] a2]|] eqn:En; [|discriminate].
  destruct a2 as [st|i]; cbn [lit] in H; [|discriminate].
  destruct (st <=? 0) eqn:Est; [discriminate|].
  destruct (process st (lit a0) (lit a1) cs) as [[[s e] red0]|] eqn:Ep; [|discriminate].
  destruct (known_empty s e); [discriminate|].
  destruct (existsb (fun b : bool => b) red0); [|discriminate].
  inversion H; subst args' red0. clear H.
  exists a0, a1, st, s, e. split; [reflexivity|]. split; [lia|]. split; [reflexivity|].
  clear En. revert s e red Ep. generalize (lit a0) as so. generalize (lit a1) as eo.
  induction cs as [|cd tl IH]; intros eo so s e red Ep.
  - cbn in Ep. inversion Ep; subst. tauto.
  - cbn [process] in Ep.
    assert (Hc : match cond_step cd so eo st with
                 | CFold s1 e1 => (so = None -> s1 = None) /\ (eo = None -> e1 = None)
                 | _ => True end).
    { destruct cd as [op c fl| |]; cbn [cond_step]; try exact I.
      destruct (kind_of op fl) as [k|]; [|exact I]. destruct (recognised c); [|exact I].
      destruct k; cbn [clause]; destruct so as [s0|]; destruct eo as [e0|];
        repeat match goal with |- context [if ?b then _ else _] => destruct b end;
        try exact I; split; intros; try discriminate; reflexivity. }
    destruct (cond_step cd so eo st) as [|s1 e1|]; [| |discriminate].
    + destruct (process st so eo tl) as [[[s2 e2] red2]|] eqn:Ep2; [|discriminate].
      inversion Ep; subst. exact (IH eo so s e red2 Ep2).
    + destruct (process st s1 e1 tl) as [[[s2 e2] red2]|] eqn:Ep2; [|discriminate].
      inversion Ep; subst. destruct (IH e1 s1 s e red2 Ep2) as [I1 I2]. destruct Hc as [C1 C2].
      split; intros Hn; [apply I1, C1, Hn | apply I2, C2, Hn].
Qed.

(* ---------------- R17.8 the pre-repair clauses (what the fix commit repaired) ---------------- *)
Definition rho3 : nat -> Z := fun _ => 3.
Definition sigma_t : nat -> Z -> bool := fun _ _ => true.

Definition old_wrong (args : list arg) (cs : list rcond) : Prop :=
  match old_fold_range args cs with
  | VFold args' red => comp_sem rho3 sigma_t args' (mask_true red cs) <> comp_sem rho3 sigma_t args cs
  | VEmpty => comp_sem rho3 sigma_t args cs <> []
  | VNone => False
  end.

Theorem old_fold_refuted :
  (* x <= c with c = stop extended the range: range(0, 5) if x <= 5 -> range(6) *)
  old_wrong [AInt 0; AInt 5] [RCmp RLe 5 false] /\
  (* a moved lower bound ignored the step: range(0, 10, 2) if x > 2 -> range(3, 10, 2) *)
  old_wrong [AInt 0; AInt 10; AInt 2] [RCmp RGt 2 false] /\
  (* start == 0 and step <> 1 dropped the step: range(0, 10, 2) if x < 5 -> range(5) *)
  old_wrong [AInt 0; AInt 10; AInt 2] [RCmp RLt 5 false] /\
  (* an unknown bound was overwritten: range(0, n) if x < 5 -> range(5)  (n = 3) *)
  old_wrong [AInt 0; ASym 0] [RCmp RLt 5 false] /\
  (* the negative-step guard was dead code: range(10, 0, -1) if x > 2 -> () *)
  old_wrong [AInt 10; AInt 0; AInt (-1)] [RCmp RGt 2 false].
Proof.
  unfold old_wrong. repeat split; vm_compute; intro H; discriminate H.
Qed.

(* the repaired rule on the same inputs *)
Example fixed_lte : fold_range [AInt 0; AInt 5] [RCmp RLe 5 false] = VNone.
Proof. vm_compute. reflexivity. Qed.
Example fixed_step_align :
  fold_range [AInt 0; AInt 10; AInt 2] [RCmp RGt 2 false] = VFold [AInt 4; AInt 10; AInt 2] [true].
Proof. vm_compute. reflexivity. Qed.
Example fixed_step_kept :
  fold_range [AInt 0; AInt 10; AInt 2] [RCmp RLt 5 false] = VFold [AInt 0; AInt 5; AInt 2] [true].
Proof. vm_compute. reflexivity. Qed.
Example fixed_unknown_stop : fold_range [AInt 0; ASym 0] [RCmp RLt 5 false] = VNone.
Proof. vm_compute. reflexivity. Qed.
Example fixed_negative_step : fold_range [AInt 10; AInt 0; AInt (-1)] [RCmp RGt 2 false] = VNone.
Proof. vm_compute. reflexivity. Qed.

(* non-vacuity: a symbolic stop, an opaque filter, two folded filters (one under a flipped operand),
   an unrecognised one; the hypotheses of fold_sound / fold_empty_sound are met by real inputs *)
Example fold_example :
  fold_range [AInt (-1); ASym 0; AInt 3]
             [ROther 0; RCmp RGt 2 false; RCmp RLe 6 true; RCmp RLt 9 false; RCmp RNe 5 false]
  = VFold [AInt 8; ASym 0; AInt 3] [false; true; true; false; false].
Proof. vm_compute. reflexivity. Qed.

Example fold_example_sem :
  comp_sem (fun _ => 12) (fun _ x => Z.even x) [AInt (-1); ASym 0; AInt 3]
           [ROther 0; RCmp RGt 2 false; RCmp RLe 6 true; RCmp RLt 9 false; RCmp RNe 5 false] = [8].
Proof. vm_compute. reflexivity. Qed.

Example fold_empty_example :
  fold_range [AInt (-1); AInt 89] [ROther 0; ROther 1; RCmp REq 89 false] = VEmpty /\
  fold_range [ASym 0; AInt 10] [RCmp REq 12 false] = VEmpty /\
  fold_range [AInt 1; AInt 10; AInt 3] [RCmp REq 5 false] = VEmpty /\
  fold_range [AInt 2; AInt 6] [RCmp RGe 6 false] = VEmpty.
Proof. vm_compute. repeat split. Qed.
