(* K2 -- theorems about MatchModel.v (property C12).  All statements are unbounded: every
   template, every value, every list length. *)
From Coq Require Import List Arith Bool ZArith NArith String Lia.
Import ListNotations.
Require Import Pyrefact.MatchModel.

(* ---------------------------------------------------------------------------------------------- *)
(* induction principle for the nested template type *)

Section TmplInd.
  Variable P : tmpl -> Prop.
  Hypothesis HAny : P TAny.
  Hypothesis HType : forall tags, P (TType tags).
  Hypothesis HOr : forall ts, Forall P ts -> P (TOr ts).
  Hypothesis HSet : forall ts, Forall P ts -> P (TSet ts).
  Hypothesis HList : forall its, Forall (fun i => P (tmpl_of i)) its -> P (TList its).
  Hypothesis HAtom : forall a, P (TAtom a).
  Hypothesis HEll : P TEll.
  Hypothesis HWild : forall n c t, P t -> P (TWild n c t).
  Hypothesis HNode : forall tg fs, Forall (fun ft => P (snd ft)) fs -> P (TNode tg fs).

  Fixpoint tmpl_ind' (t : tmpl) : P t :=
    match t with
    | TAny => HAny
    | TType tags => HType tags
    | TOr ts =>
        HOr ts ((fix go ts : Forall P ts :=
                   match ts with [] => Forall_nil _ | t :: ts' => Forall_cons _ (tmpl_ind' t) (go ts') end) ts)
    | TSet ts =>
        HSet ts ((fix go ts : Forall P ts :=
                    match ts with [] => Forall_nil _ | t :: ts' => Forall_cons _ (tmpl_ind' t) (go ts') end) ts)
    | TList its =>
        HList its ((fix go its : Forall (fun i => P (tmpl_of i)) its :=
                      match its with
                      | [] => Forall_nil _
                      | i :: its' =>
                          Forall_cons _ (match i return P (tmpl_of i) with
                                         | One t | Opt t | Star t | Plus t => tmpl_ind' t end) (go its')
                      end) its)
    | TAtom a => HAtom a
    | TEll => HEll
    | TWild n c t => HWild n c t (tmpl_ind' t)
    | TNode tg fs =>
        HNode tg fs ((fix go fs : Forall (fun ft => P (snd ft)) fs :=
                        match fs with
                        | [] => Forall_nil _
                        | ft :: fs' => Forall_cons _ (tmpl_ind' (snd ft)) (go fs')
                        end) fs)
    end.
End TmplInd.

(* ---------------------------------------------------------------------------------------------- *)
(* first_some *)

Lemma first_some_some {X Y} (f : X -> option Y) l y :
  first_some f l = Some y -> exists x, In x l /\ f x = Some y.
Proof.
  induction l as [|x l IH]; simpl; [discriminate|].
  destruct (f x) eqn:E; intros H.
  - injection H as <-. exists x. auto.
  - destruct (IH H) as (x' & Hin & Hf). exists x'. auto.
Qed.

Lemma first_some_none {X Y} (f : X -> option Y) l :
  first_some f l = None <-> forall x, In x l -> f x = None.
Proof.
  induction l as [|x l IH]; simpl.
  - split; [intros _ x []|reflexivity].
  - destruct (f x) eqn:E.
    + split; [discriminate|]. intros H. rewrite (H x (or_introl eq_refl)) in E. discriminate.
    + rewrite IH. split.
      * intros H y [<-|Hy]; auto.
      * intros H y Hy. apply H. now right.
Qed.

Lemma first_some_ex {X Y} (f : X -> option Y) l x :
  In x l -> f x <> None -> first_some f l <> None.
Proof.
  intros Hin Hf H. rewrite first_some_none in H. auto.
Qed.

(* ---------------------------------------------------------------------------------------------- *)
(* count vectors: cvecs enumerates exactly the legal count vectors of the right sum (the `slack`
   bound never excludes one) *)

Section CountVectors.
  Context {T : Type}.

  Definition count_ok (i : item T) (c : nat) : Prop :=
    match i with One _ => c = 1 | Opt _ => c <= 1 | Star _ => True | Plus _ => 1 <= c end.

  Inductive legal : list (item T) -> list nat -> Prop :=
  | legal_nil : legal [] []
  | legal_cons i its c cs : count_ok i c -> legal its cs -> legal (i :: its) (c :: cs).

  Definition in_bounds (slack : nat) (i : item T) (c : nat) : Prop :=
    fst (lohi slack i) <= c <= snd (lohi slack i).

  Lemma in_product rs cs :
    In cs (product rs) <-> Forall2 (fun r c => fst r <= c <= snd r) rs cs.
  Proof.
    revert cs; induction rs as [|[lo hi] rs IH]; intros cs; simpl.
    - split.
      + intros [<-|[]]. constructor.
      + intros H; inversion H; auto.
    - rewrite in_flat_map. split.
      + intros (c & Hc & Hin). apply in_map_iff in Hin as (cs' & <- & Hin).
        apply in_seq in Hc. constructor; [simpl; lia|]. now apply IH.
      + intros H. inversion H as [|r c rs' cs' Hb Hrest]; subst. simpl in Hb.
        exists c. split; [apply in_seq; lia|]. apply in_map. now apply IH.
  Qed.

  Lemma legal_min its cs : legal its cs -> nsum (map min_count its) <= nsum cs.
  Proof.
    induction 1 as [|i its c cs Hc _ IH]; simpl; [lia|].
    destruct i; simpl in *; lia.
  Qed.

  Lemma legal_bounds its cs :
    legal its cs -> forall slack, nsum cs <= nsum (map min_count its) + slack ->
    Forall2 (in_bounds slack) its cs.
  Proof.
    induction 1 as [|i its c cs Hc Hl IH]; intros slack Hs; [constructor|].
    pose proof (legal_min _ _ Hl) as Hm. simpl in Hs.
    constructor.
    - unfold in_bounds. destruct i; simpl in *; lia.
    - apply IH. destruct i; simpl in *; lia.
  Qed.

  Lemma bounds_legal slack its cs : Forall2 (in_bounds slack) its cs -> legal its cs.
  Proof.
    induction 1 as [|i c its cs Hb _ IH]; constructor; auto.
    unfold in_bounds in Hb. destruct i; simpl in *; lia.
  Qed.

  Lemma Forall2_map_l {X Y Z} (R : Y -> Z -> Prop) (g : X -> Y) l l' :
    Forall2 R (map g l) l' <-> Forall2 (fun x z => R (g x) z) l l'.
  Proof.
    revert l'; induction l as [|x l IH]; intros l'; simpl.
    - split; intros H; inversion H; constructor.
    - split; intros H; inversion H; subst; constructor; auto; now apply IH.
  Qed.

  (* the remaining lemma of DESIGN Appendix A.1 *)
  Theorem cvecs_spec its n cs :
    In cs (cvecs its n) <-> legal its cs /\ nsum cs = n.
  Proof.
    unfold cvecs. destruct (n <? nsum (map min_count its)) eqn:E.
    - apply Nat.ltb_lt in E. split; [intros []|].
      intros [Hl Hs]. apply legal_min in Hl. lia.
    - apply Nat.ltb_ge in E. rewrite filter_In, in_product, Forall2_map_l, Nat.eqb_eq.
      split.
      + intros [Hb Hs]. split; auto. eapply bounds_legal. exact Hb.
      + intros [Hl Hs]. split; auto. apply legal_bounds; auto. lia.
  Qed.

  Lemma legal_length its cs : legal its cs -> List.length cs = List.length its.
  Proof. induction 1; simpl; auto. Qed.

  (* the length pre-check of _match_list is implied by the existence of a legal count vector *)
  Lemma legal_minlen its cs :
    legal its cs ->
    List.length its <= nsum cs + List.length (filter is_opt its) + List.length (filter is_star its).
  Proof.
    induction 1 as [|i its c cs Hc Hl IH]; simpl; [lia|].
    destruct i; simpl in *; lia.
  Qed.

  Lemma precheck_redundant its cs :
    legal its cs -> len_precheck its (nsum cs) = true.
  Proof.
    intros Hl. unfold len_precheck. apply andb_true_iff. split.
    - apply Nat.leb_le. pose proof (legal_minlen _ _ Hl). lia.
    - induction Hl as [|i its c cs Hc Hl IH]; simpl; [reflexivity|].
      apply orb_true_iff in IH as [IH|IH].
      + rewrite IH. now rewrite orb_true_r.
      + apply Nat.leb_le in IH.
        destruct i; simpl in *; try reflexivity; apply orb_true_iff; right; apply Nat.leb_le; lia.
  Qed.
End CountVectors.

(* ---------------------------------------------------------------------------------------------- *)
(* items_match = zip of the expanded permutation with the elements *)

Section Expand.
  Context {T A R : Type}.

  Fixpoint expand (its : list (item T)) (cs : list nat) : list T :=
    match its, cs with
    | i :: its', c :: cs' => repeat (tmpl_of i) c ++ expand its' cs'
    | _, _ => []
    end.

  Fixpoint map2 (m : T -> A -> R) (ts : list T) (l : list A) : list R :=
    match ts, l with
    | t :: ts', a :: l' => m t a :: map2 m ts' l'
    | _, _ => []
    end.

  Lemma rep_match_spec (f : T -> A -> R) t k c l :
    rep_match (f t) k c l =
      map2 f (repeat t c) (firstn c l) ++ (if c <=? List.length l then k (skipn c l) else []).
  Proof.
    revert l; induction c as [|c IH]; intros l; simpl.
    - now destruct l.
    - destruct l as [|a l]; simpl; [reflexivity|]. now rewrite IH.
  Qed.

  Lemma map2_app (m : T -> A -> R) ts1 ts2 l1 l2 :
    List.length ts1 = List.length l1 ->
    map2 m (ts1 ++ ts2) (l1 ++ l2) = map2 m ts1 l1 ++ map2 m ts2 l2.
  Proof.
    revert l1; induction ts1 as [|t ts1 IH]; intros [|a l1] H; simpl in *; try discriminate; auto.
    f_equal. apply IH. lia.
  Qed.

  Lemma expand_length its cs :
    List.length cs = List.length its -> List.length (expand its cs) = nsum cs.
  Proof.
    revert cs; induction its as [|i its IH]; intros [|c cs] H; simpl in *; try discriminate; auto.
    rewrite app_length, repeat_length, IH; auto.
  Qed.

  Lemma items_match_spec (m : T -> A -> R) its cs l :
    List.length cs = List.length its -> nsum cs = List.length l ->
    items_match m its cs l = map2 m (expand its cs) l.
  Proof.
    revert cs l; induction its as [|i its IH]; intros [|c cs] l Hlen Hs; simpl in *; try discriminate; auto.
    rewrite rep_match_spec.
    assert (Hc : c <= List.length l) by lia.
    apply Nat.leb_le in Hc. rewrite Hc. apply Nat.leb_le in Hc.
    rewrite IH; [| lia | rewrite skipn_length; lia].
    rewrite <- (firstn_skipn c l) at 3.
    rewrite map2_app; [reflexivity|].
    rewrite repeat_length, firstn_length. lia.
  Qed.

  Lemma in_expand its cs t : In t (expand its cs) -> exists i, In i its /\ t = tmpl_of i.
  Proof.
    revert cs; induction its as [|i its IH]; intros [|c cs] H; simpl in *; try contradiction.
    apply in_app_or in H as [H|H].
    - apply repeat_spec in H. exists i. auto.
    - destruct (IH _ H) as (j & Hj & ->). exists j. auto.
  Qed.

  Lemma Forall_map2 (P : R -> Prop) (m : T -> A -> R) ts l :
    List.length ts = List.length l ->
    (Forall P (map2 m ts l) <-> Forall2 (fun t a => P (m t a)) ts l).
  Proof.
    revert l; induction ts as [|t ts IH]; intros [|a l] H; simpl in *; try discriminate.
    - split; constructor.
    - split; intros H'; inversion H'; subst; constructor; auto; apply IH; auto.
  Qed.
End Expand.

(* regex reading <-> legal count vector + element-wise matching (both directions) *)
Section Regex.
  Context {T A : Type} (M : T -> A -> Prop).

  Lemma Forall2_repeat_star t c l1 :
    Forall2 M (repeat t c) l1 -> Forall (M t) l1.
  Proof.
    revert l1; induction c as [|c IH]; intros l1 H; simpl in *; inversion H; subst; constructor; auto.
  Qed.

  Lemma Forall2_app_split (ts1 ts2 : list T) (l : list A) :
    Forall2 M (ts1 ++ ts2) l ->
    exists l1 l2, l = l1 ++ l2 /\ Forall2 M ts1 l1 /\ Forall2 M ts2 l2.
  Proof.
    revert l; induction ts1 as [|t ts1 IH]; intros l H; simpl in *.
    - exists [], l. repeat split; auto.
    - inversion H as [|t' a ts' l' Hm Hrest]; subst.
      destruct (IH _ Hrest) as (l1 & l2 & -> & H1 & H2).
      exists (a :: l1), l2. repeat split; auto.
  Qed.

  Theorem legal_LMatch its cs l :
    legal its cs -> Forall2 M (expand its cs) l -> LMatch M its l.
  Proof.
    intros Hl; revert l; induction Hl as [|i its c cs Hc Hl IH]; intros l H; simpl in *.
    - now inversion H.
    - apply Forall2_app_split in H as (l1 & l2 & -> & H1 & H2).
      exists l1, l2. split; [reflexivity|]. split; [|now apply IH].
      destruct i as [t|t|t|t]; simpl in *.
      + subst c. simpl in H1. inversion H1 as [|? a ? l' Hm Hn]; subst. inversion Hn; subst.
        exists a. auto.
      + destruct c as [|[|c]]; [| |lia]; simpl in H1.
        * inversion H1. now left.
        * inversion H1 as [|? a ? l' Hm Hn]; subst. inversion Hn; subst. right. exists a. auto.
      + eapply Forall2_repeat_star; eauto.
      + split.
        * destruct c; [lia|]. simpl in H1. inversion H1. discriminate.
        * eapply Forall2_repeat_star; eauto.
  Qed.

  Lemma Forall_Forall2_repeat t l : Forall (M t) l -> Forall2 M (repeat t (List.length l)) l.
  Proof. induction 1; simpl; constructor; auto. Qed.

  Theorem LMatch_legal its l :
    LMatch M its l -> exists cs, legal its cs /\ nsum cs = List.length l /\ Forall2 M (expand its cs) l.
  Proof.
    revert l; induction its as [|i its IH]; intros l H; simpl in *.
    - subst. exists []. repeat split; constructor.
    - destruct H as (l1 & l2 & -> & Hi & Hrest).
      destruct (IH _ Hrest) as (cs & Hl & Hs & Hf).
      exists (List.length l1 :: cs). rewrite app_length. simpl.
      split; [|split; [lia|]].
      + constructor; auto. destruct i as [t|t|t|t]; simpl in *.
        * destruct Hi as (a & -> & _). reflexivity.
        * destruct Hi as [->|(a & -> & _)]; simpl; lia.
        * exact I.
        * destruct Hi as [Hne _]. destruct l1; [contradiction|simpl; lia].
      + apply Forall2_app; auto.
        destruct i as [t|t|t|t]; simpl in *.
        * destruct Hi as (a & -> & Hm). simpl. constructor; auto.
        * destruct Hi as [->|(a & -> & Hm)]; simpl; constructor; auto.
        * now apply Forall_Forall2_repeat.
        * destruct Hi as [_ Hi]. now apply Forall_Forall2_repeat.
  Qed.
End Regex.

(* ---------------------------------------------------------------------------------------------- *)
(* environments, merging *)

Definition ext_on (ns : list name) (r r' : env) : Prop :=
  forall n w, In n ns -> r n = Some w -> exists w', r' n = Some w' /\ vkey w' = vkey w.
Definition ext (r r' : env) : Prop :=
  forall n w, r n = Some w -> exists w', r' n = Some w' /\ vkey w' = vkey w.

Lemma ext_refl r : ext r r.
Proof. intros n w H. eauto. Qed.

Lemma ext_trans r1 r2 r3 : ext r1 r2 -> ext r2 r3 -> ext r1 r3.
Proof.
  intros H1 H2 n w H. destruct (H1 _ _ H) as (w' & H' & E'). destruct (H2 _ _ H') as (w'' & H'' & E'').
  exists w''. split; auto. congruence.
Qed.

Lemma ext_ext_on ns r r' : ext r r' -> ext_on ns r r'.
Proof. intros H n w _ Hn. eauto. Qed.

Lemma bind_add_spec n v b b' :
  bind_add n v b = Some b' ->
  blookup n b' = Some v /\
  (forall m, m <> n -> blookup m b' = blookup m b) /\
  (forall w, blookup n b = Some w -> vkey v = vkey w).
Proof.
  revert b'; induction b as [|[m w] b IH]; intros b' H; simpl in H.
  - injection H as <-. simpl. rewrite Nat.eqb_refl. repeat split; auto.
    + intros m Hm. apply Nat.eqb_neq in Hm. now rewrite Hm.
    + discriminate.
  - destruct (Nat.eqb n m) eqn:E.
    + apply Nat.eqb_eq in E. subst m.
      destruct (N.eqb (vkey v) (vkey w)) eqn:K; [|discriminate]. injection H as <-.
      apply N.eqb_eq in K. simpl. rewrite Nat.eqb_refl. repeat split; auto.
      * intros m Hm. apply Nat.eqb_neq in Hm. now rewrite Hm.
      * intros w' Hw'. injection Hw' as <-. exact K.
    + destruct (bind_add n v b) as [b''|] eqn:B; [|discriminate]. injection H as <-.
      destruct (IH _ eq_refl) as (H1 & H2 & H3). simpl. rewrite E. repeat split; auto.
      intros m' Hm'. destruct (Nat.eqb m' m); auto.
Qed.

Lemma bind_add_ext n v b b' : bind_add n v b = Some b' -> ext (env_of b) (env_of b').
Proof.
  intros H m w Hm. destruct (bind_add_spec _ _ _ _ H) as (H1 & H2 & H3). unfold env_of in *.
  destruct (Nat.eq_dec m n) as [->|Hne].
  - exists v. split; auto.
  - exists w. split; auto. rewrite H2; auto.
Qed.

Lemma binds_merge_ext acc b acc' :
  binds_merge acc b = Some acc' -> ext (env_of acc) (env_of acc') /\ ext (env_of b) (env_of acc').
Proof.
  revert acc acc'; induction b as [|[n v] b IH]; intros acc acc' H; simpl in H.
  - injection H as <-. split; [apply ext_refl|]. intros n w Hn. discriminate.
  - destruct (bind_add n v acc) as [acc1|] eqn:B; [|discriminate].
    destruct (IH _ _ H) as [E1 E2]. split.
    + eapply ext_trans; [eapply bind_add_ext; eauto|exact E1].
    + intros m w Hm. unfold env_of in Hm. simpl in Hm. destruct (Nat.eqb m n) eqn:E.
      * apply Nat.eqb_eq in E. subst m. injection Hm as <-.
        destruct (bind_add_spec _ _ _ _ B) as (H1 & _). apply (E1 n v H1).
      * apply (E2 m w Hm).
Qed.

Definition res_ext (b : binds) (o : option result) : Prop :=
  exists r, o = Some r /\ ext (env_of (snd r)) (env_of b).

Lemma merge_all_ext acc rs b :
  merge_all acc rs = Some b -> ext (env_of acc) (env_of b) /\ Forall (res_ext b) rs.
Proof.
  revert acc; induction rs as [|[r|] rs IH]; intros acc H; simpl in H.
  - injection H as <-. split; [apply ext_refl|constructor].
  - destruct (binds_merge acc (snd r)) as [acc'|] eqn:B; [|discriminate].
    destruct (binds_merge_ext _ _ _ B) as [E1 E2]. destruct (IH _ H) as [E3 F].
    split; [eapply ext_trans; eauto|]. constructor; auto.
    exists r. split; auto. eapply ext_trans; eauto.
  - discriminate.
Qed.

Lemma merge_all_nobinds acc rs b :
  merge_all acc rs = Some b -> Forall (fun o => forall r, o = Some r -> snd r = []) rs -> b = acc.
Proof.
  revert acc; induction rs as [|[r|] rs IH]; intros acc H F; simpl in H.
  - now injection H.
  - inversion F as [|? ? Hr F']; subst. destruct r as [rt rb]. specialize (Hr _ eq_refl).
    simpl in Hr. subst rb. simpl in H. auto.
  - discriminate.
Qed.

Lemma merge_matches_inv root rs r :
  merge_matches root rs = Some r -> exists b, merge_all [] rs = Some b /\ r = (Some root, b).
Proof.
  unfold merge_matches. destruct (merge_all [] rs) as [b|]; [|discriminate].
  intros H. injection H as <-. eauto.
Qed.

(* ---------------------------------------------------------------------------------------------- *)
(* the declarative semantics only looks at the names the template mentions *)

Lemma AnyP_impl {T} (P Q : T -> Prop) ts :
  (forall t, In t ts -> P t -> Q t) -> AnyP P ts -> AnyP Q ts.
Proof.
  induction ts as [|t ts IH]; simpl; intros H; [auto|].
  intros [Hp|Hr]; [left; apply H; auto|right; apply IH; auto].
Qed.

Lemma AnyP_in {T} (P : T -> Prop) ts t : In t ts -> P t -> AnyP P ts.
Proof.
  induction ts as [|t' ts IH]; simpl; [contradiction|].
  intros [->|Hin] Hp; [now left|right; auto].
Qed.

Lemma AnyP_ex {T} (P : T -> Prop) ts : AnyP P ts -> exists t, In t ts /\ P t.
Proof.
  induction ts as [|t ts IH]; simpl; [contradiction|].
  intros [Hp|Hr]; [exists t; auto|]. destruct (IH Hr) as (t' & Hin & Hp). exists t'. auto.
Qed.

Lemma item_lang_impl {T A} (M M' : T -> A -> Prop) i l :
  (forall a, M (tmpl_of i) a -> M' (tmpl_of i) a) -> item_lang M i l -> item_lang M' i l.
Proof.
  intros H. destruct i as [t|t|t|t]; simpl in *.
  - intros (a & -> & Hm). exists a. auto.
  - intros [->|(a & -> & Hm)]; [now left|right; exists a; auto].
  - apply Forall_impl. exact H.
  - intros [Hne Hf]. split; auto. revert Hf. apply Forall_impl. exact H.
Qed.

Lemma LMatch_impl {T A} (M M' : T -> A -> Prop) its l :
  (forall i, In i its -> forall a, M (tmpl_of i) a -> M' (tmpl_of i) a) ->
  LMatch M its l -> LMatch M' its l.
Proof.
  revert l; induction its as [|i its IH]; intros l H; simpl; [auto|].
  intros (l1 & l2 & -> & Hi & Hr). exists l1, l2. split; [reflexivity|]. split.
  - eapply item_lang_impl; [|exact Hi]. apply H. now left.
  - apply IH; auto. intros j Hj. apply H. now right.
Qed.

Lemma FieldsP_impl {T} (P Q : T -> value -> Prop) nfs fs :
  (forall ft, In ft fs -> forall fv, P (snd ft) fv -> Q (snd ft) fv) ->
  FieldsP P nfs fs -> FieldsP Q nfs fs.
Proof.
  induction fs as [|ft fs IH]; simpl; intros H; [auto|].
  intros [(fv & Hl & Hp) Hr]. split.
  - exists fv. split; auto.
  - apply IH; auto.
Qed.

Lemma ext_on_incl ns ns' r r' : incl ns' ns -> ext_on ns r r' -> ext_on ns' r r'.
Proof. intros Hi H n w Hn. apply H. auto. Qed.

Lemma incl_flat_map {X Y} (f : X -> list Y) x l : In x l -> incl (f x) (flat_map f l).
Proof. intros Hx y Hy. apply in_flat_map. eauto. Qed.

Theorem Matches_mono t : forall r r' v, ext_on (names t) r r' -> Matches r t v -> Matches r' t v.
Proof.
  induction t as [| tags | ts IH | ts IH | its IH | a | | n c t IH | tg fs IH] using tmpl_ind';
    intros r r' v He Hm; simpl in *.
  - exact I.
  - exact Hm.
  - eapply AnyP_impl; [|exact Hm]. intros t Hin Ht. rewrite Forall_forall in IH.
    apply (IH t Hin r r' v); [|exact Ht]. eapply ext_on_incl; [|exact He]. now apply incl_flat_map.
  - destruct v as [| k l |]; auto. revert Hm. apply Forall_impl. intros a Ha.
    eapply AnyP_impl; [|exact Ha]. intros t Hin Ht. rewrite Forall_forall in IH.
    apply (IH t Hin r r' a); [|exact Ht]. eapply ext_on_incl; [|exact He]. now apply incl_flat_map.
  - destruct v as [| k l |]; auto. eapply LMatch_impl; [|exact Hm].
    intros i Hi a Ha. rewrite Forall_forall in IH. apply (IH i Hi r r' a); [|exact Ha].
    eapply ext_on_incl; [|exact He]. now apply (incl_flat_map (fun i => names (tmpl_of i))).
  - exact Hm.
  - exact I.
  - destruct Hm as [Hm Hc]. split.
    + eapply IH; eauto. eapply ext_on_incl; [|exact He]. apply incl_tl, incl_refl.
    + intros Hcc. destruct (Hc Hcc) as (w & Hw & Hk).
      destruct (He n w (or_introl eq_refl) Hw) as (w' & Hw' & Hk'). exists w'. split; auto. congruence.
  - destruct v as [k tg' nfs | |]; auto. destruct Hm as [-> Hm]. split; auto.
    eapply FieldsP_impl; [|exact Hm]. intros ft Hin fv Hp. rewrite Forall_forall in IH.
    apply (IH ft Hin r r' fv); [|exact Hp]. eapply ext_on_incl; [|exact He].
    now apply (incl_flat_map (fun ft => names (snd ft))).
Qed.

Corollary Matches_ext t r r' v : ext r r' -> Matches r t v -> Matches r' t v.
Proof. intros H. apply Matches_mono. now apply ext_ext_on. Qed.

Lemma nowild_names t : nowild t = true -> names t = [].
Proof.
  induction t as [| tags | ts IH | ts IH | its IH | a | | n c t IH | tg fs IH] using tmpl_ind';
    simpl; intros H; auto; try discriminate.
  - rewrite forallb_forall in H. rewrite Forall_forall in IH.
    induction ts as [|t ts IHl]; simpl; auto.
    rewrite IH; [|now left|apply H; now left]. simpl. apply IHl; intros; [apply IH|apply H]; auto; now right.
  - rewrite forallb_forall in H. rewrite Forall_forall in IH.
    induction ts as [|t ts IHl]; simpl; auto.
    rewrite IH; [|now left|apply H; now left]. simpl. apply IHl; intros; [apply IH|apply H]; auto; now right.
  - rewrite forallb_forall in H. rewrite Forall_forall in IH.
    induction its as [|i its IHl]; simpl; auto.
    rewrite IH; [|now left|apply H; now left]. simpl. apply IHl; intros; [apply IH|apply H]; auto; now right.
  - rewrite forallb_forall in H. rewrite Forall_forall in IH.
    induction fs as [|ft fs IHl]; simpl; auto.
    rewrite IH; [|now left|apply H; now left]. simpl. apply IHl; intros; [apply IH|apply H]; auto; now right.
Qed.

Corollary Matches_nowild t r r' v : nowild t = true -> Matches r t v -> Matches r' t v.
Proof.
  intros H. apply Matches_mono. rewrite (nowild_names _ H). intros n w [].
Qed.

(* ---------------------------------------------------------------------------------------------- *)
(* wildcard-free templates bind nothing and return the node itself *)

Lemma items_match_forall {T A R} (Q : R -> Prop) (m : T -> A -> R) its :
  (forall i, In i its -> forall a, Q (m (tmpl_of i) a)) ->
  forall cs l, Forall Q (items_match m its cs l).
Proof.
  induction its as [|i its IH]; intros H cs l; simpl; [constructor|].
  destruct cs as [|c cs]; [constructor|].
  revert l; induction c as [|c IHc]; intros l; simpl.
  - apply IH. intros j Hj. apply H. now right.
  - destruct l as [|a l]; constructor; auto. apply H. now left.
Qed.

Lemma nowild_result t : forall v r, nowild t = true -> match_tmpl t v = Some r -> r = (Some v, []).
Proof.
  induction t as [| tags | ts IH | ts IH | its IH | a | | n c t IH | tg fs IH] using tmpl_ind';
    intros v r Hn Hm; simpl in *.
  - now injection Hm.
  - destruct (existsb (String.eqb (vtag v)) tags); [now injection Hm|discriminate].
  - apply first_some_some in Hm as (t & Hin & Hm). rewrite Forall_forall in IH.
    rewrite forallb_forall in Hn. eapply IH; eauto.
  - destruct v as [| k l |]; try discriminate.
    apply merge_matches_inv in Hm as (b & Hb & ->). f_equal.
    eapply merge_all_nobinds in Hb; [exact Hb|].
    apply Forall_forall. intros o Ho r Hr. apply in_map_iff in Ho as (a & <- & _).
    apply first_some_some in Hr as (t & Hin & Hr). rewrite Forall_forall in IH.
    rewrite forallb_forall in Hn. rewrite (IH t Hin a r (Hn t Hin) Hr). reflexivity.
  - destruct v as [| k l |]; try discriminate.
    destruct (len_precheck its (List.length l)); [|discriminate].
    apply first_some_some in Hm as (cs & _ & Hm).
    apply merge_matches_inv in Hm as (b & Hb & ->). f_equal.
    eapply merge_all_nobinds in Hb; [exact Hb|].
    apply items_match_forall. intros i Hi a r Hr. rewrite Forall_forall in IH.
    rewrite forallb_forall in Hn. rewrite (IH i Hi a r (Hn i Hi) Hr). reflexivity.
  - destruct v as [| | k a']; try discriminate. destruct (atom_match a a'); [now injection Hm|discriminate].
  - now injection Hm.
  - discriminate.
  - destruct v as [k tg' nfs | |]; try discriminate.
    destruct (String.eqb tg tg'); [|discriminate].
    apply merge_matches_inv in Hm as (b & Hb & ->). f_equal.
    eapply merge_all_nobinds in Hb; [exact Hb|].
    apply Forall_forall. intros o Ho r Hr. apply in_map_iff in Ho as (ft & <- & Hin).
    destruct (lookup (fst ft) nfs) as [fv|]; [|discriminate]. rewrite Forall_forall in IH.
    rewrite forallb_forall in Hn. rewrite (IH ft Hin fv r (Hn ft Hin) Hr). reflexivity.
Qed.

Lemma nowild_wf t : nowild t = true -> wf_tmpl t = true.
Proof.
  induction t as [| tags | ts IH | ts IH | its IH | a | | n c t IH | tg fs IH] using tmpl_ind';
    simpl; intros H; auto; try discriminate.
  - rewrite forallb_forall in *. rewrite Forall_forall in IH. auto.
  - rewrite forallb_forall in *. rewrite Forall_forall in IH. auto.
  - rewrite forallb_forall in *. rewrite Forall_forall in IH. auto.
  - rewrite forallb_forall in *. rewrite Forall_forall in IH. auto.
Qed.

(* ---------------------------------------------------------------------------------------------- *)
(* T12.1 soundness: a reported match is an instance of the pattern under the reported bindings *)

Lemma Forall2_impl_in {X Y} (R R' : X -> Y -> Prop) xs ys :
  (forall x y, In x xs -> R x y -> R' x y) -> Forall2 R xs ys -> Forall2 R' xs ys.
Proof.
  intros H F. induction F as [|x y xs ys Hr F IH]; constructor.
  - apply H; auto. now left.
  - apply IH. intros x' y' Hin. apply H. now right.
Qed.

Lemma FieldsP_forall {T} (P : T -> value -> Prop) nfs fs :
  Forall (fun ft => exists fv, lookup (fst ft) nfs = Some fv /\ P (snd ft) fv) fs -> FieldsP P nfs fs.
Proof. induction 1; simpl; auto. Qed.

Lemma existsb_eqb_in s l : existsb (String.eqb s) l = true <-> In s l.
Proof.
  rewrite existsb_exists. split.
  - intros (x & Hin & E). apply String.eqb_eq in E. now subst.
  - intros H. exists s. split; auto. apply String.eqb_refl.
Qed.

Theorem match_sound t :
  forall v r, wf_tmpl t = true -> match_tmpl t v = Some r -> Matches (env_of (snd r)) t v.
Proof.
  induction t as [| tags | ts IH | ts IH | its IH | a | | n c t IH | tg fs IH] using tmpl_ind';
    intros v r Hwf Hm; simpl in *.
  - exact I.
  - destruct (existsb (String.eqb (vtag v)) tags) eqn:E; [|discriminate]. now apply existsb_eqb_in.
  - apply first_some_some in Hm as (t & Hin & Hm). rewrite Forall_forall in IH.
    rewrite forallb_forall in Hwf. eapply AnyP_in; [exact Hin|]. apply IH; auto.
  - destruct v as [| k l |]; try discriminate.
    apply merge_matches_inv in Hm as (b & Hb & ->). simpl.
    apply merge_all_ext in Hb as [_ F]. rewrite Forall_forall in F. apply Forall_forall. intros a Ha.
    destruct (F _ (in_map _ _ _ Ha)) as (ra & Hra & He).
    apply first_some_some in Hra as (t & Hin & Hra). rewrite Forall_forall in IH.
    rewrite forallb_forall in Hwf. eapply AnyP_in; [exact Hin|].
    eapply Matches_ext; [exact He|]. apply IH; auto.
  - destruct v as [| k l |]; try discriminate.
    destruct (len_precheck its (List.length l)); [|discriminate].
    apply first_some_some in Hm as (cs & Hcs & Hm).
    apply cvecs_spec in Hcs as [Hleg Hsum].
    apply merge_matches_inv in Hm as (b & Hb & ->). simpl.
    rewrite items_match_spec in Hb by (auto using legal_length).
    apply merge_all_ext in Hb as [_ F].
    apply Forall_map2 in F; [|rewrite expand_length; auto using legal_length].
    eapply legal_LMatch; [exact Hleg|].
    eapply Forall2_impl_in; [|exact F]. intros t a Hin (ra & Hra & He). simpl in Hra.
    apply in_expand in Hin as (i & Hi & ->). rewrite Forall_forall in IH.
    rewrite forallb_forall in Hwf. eapply Matches_ext; [exact He|]. apply IH; auto.
  - destruct v as [| | k a']; try discriminate. destruct (atom_match a a') eqn:E; [auto|discriminate].
  - exact I.
  - destruct (match_tmpl t v) as [r0|] eqn:E; [|discriminate].
    destruct (rlen r0 =? 1); [|discriminate]. injection Hm as <-.
    apply andb_true_iff in Hwf as [Hnw _].
    rewrite (nowild_result _ _ _ Hnw E). simpl. split.
    + eapply Matches_nowild; [exact Hnw|]. apply (IH v r0); auto using nowild_wf.
    + intros _. exists v. unfold env_of. simpl. rewrite Nat.eqb_refl. auto.
  - destruct v as [k tg' nfs | |]; try discriminate.
    destruct (String.eqb tg tg') eqn:E; [|discriminate]. apply String.eqb_eq in E.
    apply merge_matches_inv in Hm as (b & Hb & ->). simpl. split; auto.
    apply merge_all_ext in Hb as [_ F]. rewrite Forall_forall in F.
    apply FieldsP_forall. apply Forall_forall. intros ft Hin.
    destruct (F _ (in_map _ _ _ Hin)) as (rf & Hrf & He).
    destruct (lookup (fst ft) nfs) as [fv|]; [|discriminate]. exists fv. split; auto.
    rewrite Forall_forall in IH. rewrite forallb_forall in Hwf.
    eapply Matches_ext; [exact He|]. apply IH; auto.
Qed.


(* ---------------------------------------------------------------------------------------------- *)
(* names bound by a result *)

Definition bnames (b : binds) : list name := map fst b.
Definition rnames (o : option result) : list name :=
  match o with Some r => bnames (snd r) | None => [] end.

Lemma nodup_app_iff {X} (l1 l2 : list X) :
  NoDup (l1 ++ l2) <-> NoDup l1 /\ NoDup l2 /\ (forall x, In x l1 -> ~ In x l2).
Proof.
  induction l1 as [|a l1 IH]; simpl.
  - split; [intros H; repeat split; auto; constructor|intros (_ & H & _); exact H].
  - split.
    + intros H. inversion H as [|? ? Hn Hd]; subst. apply IH in Hd as (H1 & H2 & H3).
      split; [|split; auto].
      * constructor; auto. intros Hin. apply Hn. apply in_or_app. now left.
      * intros x [<-|Hx]; auto. intros Hin. apply Hn. apply in_or_app. now right.
    + intros (H1 & H2 & H3). inversion H1 as [|? ? Hn Hd]; subst. constructor.
      * intros Hin. apply in_app_or in Hin as [Hin|Hin]; auto. apply (H3 a); auto.
      * apply IH. repeat split; auto.
Qed.

Lemma bind_add_names n v b b' :
  bind_add n v b = Some b' ->
  (In n (bnames b) /\ bnames b' = bnames b) \/ (~ In n (bnames b) /\ bnames b' = bnames b ++ [n]).
Proof.
  revert b'; induction b as [|[m w] b IH]; intros b' H; simpl in *.
  - injection H as <-. right. auto.
  - destruct (Nat.eqb n m) eqn:E.
    + apply Nat.eqb_eq in E. subst m. destruct (N.eqb (vkey v) (vkey w)); [|discriminate].
      injection H as <-. left. simpl. auto.
    + apply Nat.eqb_neq in E. destruct (bind_add n v b) as [b''|]; [|discriminate].
      injection H as <-. destruct (IH _ eq_refl) as [[Hin He]|[Hni He]]; simpl; rewrite He.
      * left. auto.
      * right. split; auto. intros [Hm|Hin]; auto.
Qed.

Lemma bind_add_fresh n v b :
  ~ In n (bnames b) -> exists b', bind_add n v b = Some b' /\ bnames b' = bnames b ++ [n].
Proof.
  induction b as [|[m w] b IH]; intros Hn; simpl in *.
  - eauto.
  - destruct (Nat.eqb n m) eqn:E.
    + apply Nat.eqb_eq in E. subst. exfalso. auto.
    + destruct IH as (b' & -> & He); [auto|]. eexists. split; [reflexivity|]. simpl. now rewrite He.
Qed.

Lemma binds_merge_names acc b acc' :
  binds_merge acc b = Some acc' ->
  incl (bnames acc') (bnames acc ++ bnames b) /\ (NoDup (bnames acc) -> NoDup (bnames acc')).
Proof.
  revert acc acc'; induction b as [|[n v] b IH]; intros acc acc' H; simpl in H.
  - injection H as <-. split; auto. rewrite app_nil_r. apply incl_refl.
  - destruct (bind_add n v acc) as [acc1|] eqn:B; [|discriminate].
    destruct (IH _ _ H) as [Hi Hd]. simpl.
    destruct (bind_add_names _ _ _ _ B) as [[Hin He]|[Hni He]].
    + split.
      * intros x Hx. apply Hi in Hx. rewrite He in Hx. apply in_app_or in Hx as [Hx|Hx];
          apply in_or_app; [now left|right; now right].
      * intros Hnd. apply Hd. now rewrite He.
    + split.
      * intros x Hx. apply Hi in Hx. rewrite He in Hx. apply in_app_or in Hx as [Hx|Hx].
        -- apply in_app_or in Hx as [Hx|[<-|[]]]; apply in_or_app; [now left|right; now left].
        -- apply in_or_app. right. now right.
      * intros Hnd. apply Hd. rewrite He. apply nodup_app_iff.
        split; [exact Hnd|]. split.
        -- constructor; [intros []|constructor].
        -- intros x Hx [<-|[]]. auto.
Qed.

Lemma merge_all_names acc rs b :
  merge_all acc rs = Some b ->
  incl (bnames b) (bnames acc ++ flat_map rnames rs) /\ (NoDup (bnames acc) -> NoDup (bnames b)).
Proof.
  revert acc; induction rs as [|[r|] rs IH]; intros acc H; simpl in H.
  - injection H as <-. simpl. rewrite app_nil_r. split; auto. apply incl_refl.
  - destruct (binds_merge acc (snd r)) as [acc'|] eqn:B; [|discriminate].
    destruct (binds_merge_names _ _ _ B) as [Hi Hd]. destruct (IH _ H) as [Hi' Hd'].
    split; [|auto]. intros x Hx. apply Hi' in Hx. simpl. apply in_app_or in Hx as [Hx|Hx].
    + apply Hi in Hx. apply in_app_or in Hx as [Hx|Hx]; apply in_or_app; [now left|right].
      apply in_or_app. now left.
    + apply in_or_app. right. apply in_or_app. now right.
  - discriminate.
Qed.

Lemma binds_merge_fresh acc b :
  NoDup (bnames b) -> (forall n, In n (bnames b) -> ~ In n (bnames acc)) ->
  exists acc', binds_merge acc b = Some acc' /\ bnames acc' = bnames acc ++ bnames b.
Proof.
  revert acc; induction b as [|[n v] b IH]; intros acc Hnd Hdis; simpl in *.
  - exists acc. now rewrite app_nil_r.
  - inversion Hnd as [|? ? Hn Hd]; subst.
    destruct (bind_add_fresh n v acc) as (acc1 & -> & He); [apply Hdis; now left|].
    destruct (IH acc1 Hd) as (acc' & -> & He').
    + intros m Hm. rewrite He. intros Hin. apply in_app_or in Hin as [Hin|[<-|[]]]; auto.
      apply (Hdis m); auto.
    + exists acc'. split; auto. rewrite He', He, <- app_assoc. reflexivity.
Qed.

Lemma merge_all_fresh acc rs :
  Forall (fun o => o <> None) rs ->
  Forall (fun o => NoDup (rnames o)) rs ->
  NoDup (bnames acc ++ flat_map rnames rs) ->
  exists b, merge_all acc rs = Some b /\ bnames b = bnames acc ++ flat_map rnames rs.
Proof.
  revert acc; induction rs as [|o rs IH]; intros acc Hs Hn Hd; simpl in *.
  - exists acc. now rewrite app_nil_r.
  - inversion Hs as [|? ? Ho Hs']; subst. inversion Hn as [|? ? Hno Hn']; subst.
    destruct o as [r|]; [|congruence]. simpl in *.
    apply nodup_app_iff in Hd as (Hd1 & Hd2 & Hd3).
    apply nodup_app_iff in Hd2 as (Hd4 & Hd5 & Hd6).
    destruct (binds_merge_fresh acc (snd r) Hno) as (acc' & -> & He).
    + intros n Hn1 Hn2. apply (Hd3 n Hn2). apply in_or_app. now left.
    + destruct (IH acc' Hs' Hn') as (b & -> & Hb).
      * rewrite He, <- app_assoc. apply nodup_app_iff.
        split; [exact Hd1|]. split.
        -- apply nodup_app_iff. split; [exact Hd4|]. split; [exact Hd5|exact Hd6].
        -- intros x Hx1 Hx2. apply (Hd3 x Hx1). exact Hx2.
      * exists b. split; auto. rewrite Hb, He, <- app_assoc. reflexivity.
Qed.

Lemma merge_all_nobinds_some acc rs :
  Forall (fun o => exists r, o = Some r /\ snd r = []) rs -> merge_all acc rs = Some acc.
Proof.
  induction 1 as [|o rs (r & -> & Hr) _ IH]; simpl; auto.
  destruct r as [rt rb]. simpl in Hr. subst rb. simpl. exact IH.
Qed.

(* every result binds each name once, and only names of the template *)
Theorem result_names t : forall v r,
  match_tmpl t v = Some r -> incl (bnames (snd r)) (names t) /\ NoDup (bnames (snd r)).
Proof.
  induction t as [| tags | ts IH | ts IH | its IH | a | | n c t IH | tg fs IH] using tmpl_ind';
    intros v r Hm; simpl in *.
  - injection Hm as <-. simpl. split; [apply incl_refl|constructor].
  - destruct (existsb (String.eqb (vtag v)) tags); [|discriminate]. injection Hm as <-.
    simpl. split; [apply incl_refl|constructor].
  - apply first_some_some in Hm as (t & Hin & Hm). rewrite Forall_forall in IH.
    destruct (IH t Hin v r Hm) as [Hi Hd]. split; auto.
    eapply incl_tran; [exact Hi|]. now apply incl_flat_map.
  - destruct v as [| k l |]; try discriminate.
    apply merge_matches_inv in Hm as (b & Hb & ->). simpl.
    apply merge_all_names in Hb as [Hi Hd]. split; [|apply Hd; constructor].
    intros x Hx. apply Hi in Hx. simpl in Hx. apply in_flat_map in Hx as (o & Ho & Hx).
    apply in_map_iff in Ho as (a & <- & _).
    destruct (first_some (fun t' => match_tmpl t' a) ts) as [ra|] eqn:E; [|contradiction].
    apply first_some_some in E as (t & Hin & E). rewrite Forall_forall in IH.
    destruct (IH t Hin a ra E) as [Hi' _]. apply in_flat_map. exists t. split; auto.
  - destruct v as [| k l |]; try discriminate.
    destruct (len_precheck its (List.length l)); [|discriminate].
    apply first_some_some in Hm as (cs & _ & Hm).
    apply merge_matches_inv in Hm as (b & Hb & ->). simpl.
    apply merge_all_names in Hb as [Hi Hd]. split; [|apply Hd; constructor].
    intros x Hx. apply Hi in Hx. simpl in Hx. apply in_flat_map in Hx as (o & Ho & Hx).
    pose proof (items_match_forall
                  (fun o => forall x, In x (rnames o) -> In x (flat_map (fun i => names (tmpl_of i)) its))
                  match_tmpl its) as F.
    rewrite Forall_forall in IH.
    assert (HF : forall i, In i its -> forall a x, In x (rnames (match_tmpl (tmpl_of i) a)) ->
                 In x (flat_map (fun i => names (tmpl_of i)) its)).
    { intros i Hi' a y Hy. destruct (match_tmpl (tmpl_of i) a) as [ra|] eqn:E; [|contradiction].
      destruct (IH i Hi' a ra E) as [Hi'' _]. apply in_flat_map. exists i. split; auto. }
    specialize (F HF cs l). rewrite Forall_forall in F. apply (F o Ho x Hx).
  - destruct v as [| | k a']; try discriminate. destruct (atom_match a a'); [|discriminate].
    injection Hm as <-. simpl. split; [apply incl_refl|constructor].
  - injection Hm as <-. simpl. split; [apply incl_refl|constructor].
  - destruct (match_tmpl t v) as [r0|]; [|discriminate]. destruct (rlen r0 =? 1); [|discriminate].
    injection Hm as <-. simpl. split.
    + intros x [<-|[]]. now left.
    + constructor; [intros []|constructor].
  - destruct v as [k tg' nfs | |]; try discriminate.
    destruct (String.eqb tg tg'); [|discriminate].
    apply merge_matches_inv in Hm as (b & Hb & ->). simpl.
    apply merge_all_names in Hb as [Hi Hd]. split; [|apply Hd; constructor].
    intros x Hx. apply Hi in Hx. simpl in Hx. apply in_flat_map in Hx as (o & Ho & Hx).
    apply in_map_iff in Ho as (ft & <- & Hin).
    destruct (lookup (fst ft) nfs) as [fv|]; [|contradiction].
    destruct (match_tmpl (snd ft) fv) as [rf|] eqn:E; [|contradiction].
    rewrite Forall_forall in IH. destruct (IH ft Hin fv rf E) as [Hi' _].
    apply in_flat_map. exists ft. split; auto.
Qed.

Corollary rnames_incl t a : incl (rnames (match_tmpl t a)) (names t).
Proof.
  destruct (match_tmpl t a) as [r|] eqn:E; simpl; [apply (result_names _ _ _ E)|intros x []].
Qed.

Corollary rnames_nodup t a : NoDup (rnames (match_tmpl t a)).
Proof.
  destruct (match_tmpl t a) as [r|] eqn:E; simpl; [apply (result_names _ _ _ E)|constructor].
Qed.

(* ---------------------------------------------------------------------------------------------- *)
(* T12.3 completeness for linear templates *)

Lemma nodupb_spec l : nodupb l = true <-> NoDup l.
Proof.
  induction l as [|n l IH]; simpl.
  - split; [constructor|reflexivity].
  - rewrite andb_true_iff, negb_true_iff, IH. split.
    + intros [Hn Hd]. constructor; auto. intros Hin.
      assert (existsb (Nat.eqb n) l = true) as E
          by (apply existsb_exists; exists n; split; auto; apply Nat.eqb_refl).
      congruence.
    + intros H. inversion H as [|? ? Hn Hd]; subst. split; auto.
      destruct (existsb (Nat.eqb n) l) eqn:E; auto.
      apply existsb_exists in E as (m & Hm & E). apply Nat.eqb_eq in E. subst. contradiction.
Qed.

Lemma NoDup_flat_map_in {X Y} (f : X -> list Y) x l : In x l -> NoDup (flat_map f l) -> NoDup (f x).
Proof.
  induction l as [|y l IH]; simpl; [contradiction|].
  intros [->|Hin] H; apply nodup_app_iff in H as (H1 & H2 & _); auto.
Qed.

Lemma nodup_flat_rnames {X} (g : X -> option result) (nm : X -> list name) xs :
  (forall x, In x xs -> incl (rnames (g x)) (nm x) /\ NoDup (rnames (g x))) ->
  NoDup (flat_map nm xs) -> NoDup (flat_map rnames (map g xs)).
Proof.
  induction xs as [|x xs IH]; simpl; intros H Hd; [constructor|].
  apply nodup_app_iff in Hd as (H1 & H2 & H3). apply nodup_app_iff.
  split; [apply H; now left|]. split; [apply IH; auto|].
  intros n Hn Hn'. destruct (H x (or_introl eq_refl)) as [Hi _].
  apply (H3 n (Hi n Hn)). apply in_flat_map in Hn' as (o & Ho & Hn').
  apply in_map_iff in Ho as (y & <- & Hy). apply in_flat_map. exists y. split; auto.
  destruct (H y (or_intror Hy)) as [Hi' _]. auto.
Qed.

Lemma nodup_map2_rnames ts : forall l,
  NoDup (flat_map names ts) -> NoDup (flat_map rnames (map2 match_tmpl ts l)).
Proof.
  induction ts as [|t ts IH]; intros [|a l] Hd; simpl in *; try constructor.
  apply nodup_app_iff in Hd as (H1 & H2 & H3). apply nodup_app_iff.
  split; [apply rnames_nodup|]. split; [apply IH; auto|].
  intros n Hn Hn'. apply (H3 n (rnames_incl _ _ _ Hn)).
  clear - Hn'. revert l Hn'. induction ts as [|t' ts IH]; intros [|a' l] H; simpl in *; try contradiction.
  apply in_app_or in H as [H|H]; apply in_or_app; [left; eapply rnames_incl; eauto|right; eauto].
Qed.

Lemma nowild_quant t : nowild t = true -> quant_nowild t = true.
Proof.
  induction t as [| tags | ts IH | ts IH | its IH | a | | n c t IH | tg fs IH] using tmpl_ind';
    simpl; intros H; auto; try discriminate.
  - rewrite forallb_forall in *. rewrite Forall_forall in IH. auto.
  - rewrite forallb_forall in *. rewrite Forall_forall in IH. intros i Hi.
    specialize (H i Hi). specialize (IH i Hi). destruct i; simpl in *; auto.
  - rewrite forallb_forall in *. rewrite Forall_forall in IH. auto.
Qed.

Lemma flat_map_repeat_nil {X Y} (f : X -> list Y) x c : f x = [] -> flat_map f (repeat x c) = [].
Proof. intros H. induction c; simpl; auto. now rewrite H. Qed.

Lemma expand_names_nodup its cs :
  legal its cs ->
  forallb (fun i => match i with One t' => quant_nowild t' | Opt t' | Star t' | Plus t' => nowild t' end) its = true ->
  NoDup (flat_map (fun i => names (tmpl_of i)) its) ->
  NoDup (flat_map names (expand its cs)).
Proof.
  induction 1 as [|i its c cs Hc Hl IH]; simpl; intros Hq Hd; [constructor|].
  apply andb_true_iff in Hq as [Hq1 Hq2].
  apply nodup_app_iff in Hd as (H1 & H2 & H3).
  rewrite flat_map_app.
  assert (Hin : forall n, In n (flat_map names (expand its cs)) ->
                          In n (flat_map (fun i => names (tmpl_of i)) its)).
  { intros n Hn. apply in_flat_map in Hn as (t & Ht & Hn). apply in_expand in Ht as (j & Hj & ->).
    apply in_flat_map. exists j. auto. }
  destruct i as [t|t|t|t]; simpl in *.
  - subst c. simpl. rewrite app_nil_r. apply nodup_app_iff.
    split; [exact H1|]. split; [apply IH; auto|]. intros n Hn Hn'. apply (H3 n Hn). auto.
  - rewrite flat_map_repeat_nil by (now apply nowild_names). simpl. apply IH; auto.
  - rewrite flat_map_repeat_nil by (now apply nowild_names). simpl. apply IH; auto.
  - rewrite flat_map_repeat_nil by (now apply nowild_names). simpl. apply IH; auto.
Qed.

Lemma FieldsP_forall_inv {T} (P : T -> value -> Prop) nfs fs :
  FieldsP P nfs fs -> Forall (fun ft => exists fv, lookup (fst ft) nfs = Some fv /\ P (snd ft) fv) fs.
Proof. induction fs as [|ft fs IH]; simpl; intros H; constructor; destruct H; auto. Qed.

Theorem match_complete t : forall rho v,
  wf_tmpl t = true -> quant_nowild t = true -> NoDup (names t) ->
  Matches rho t v -> match_tmpl t v <> None.
Proof.
  induction t as [| tags | ts IH | ts IH | its IH | a | | n c t IH | tg fs IH] using tmpl_ind';
    intros rho v Hwf Hq Hd Hm; simpl in *.
  - discriminate.
  - apply existsb_eqb_in in Hm. rewrite Hm. discriminate.
  - apply AnyP_ex in Hm as (t & Hin & Hm). rewrite Forall_forall in IH.
    rewrite forallb_forall in Hwf, Hq.
    apply (first_some_ex _ _ t Hin). eapply IH; eauto. eapply NoDup_flat_map_in; eauto.
  - destruct v as [| k l |]; try contradiction.
    rewrite forallb_forall in Hwf, Hq. rewrite Forall_forall in IH.
    unfold merge_matches. rewrite merge_all_nobinds_some; [discriminate|].
    apply Forall_forall. intros o Ho. apply in_map_iff in Ho as (a & <- & Ha).
    rewrite Forall_forall in Hm. specialize (Hm a Ha). apply AnyP_ex in Hm as (t & Hin & Hm).
    destruct (first_some (fun t' => match_tmpl t' a) ts) as [r|] eqn:E.
    + exists r. split; auto. apply first_some_some in E as (t' & Hin' & E).
      rewrite (nowild_result _ _ _ (Hq t' Hin') E). reflexivity.
    + exfalso. revert E. apply (first_some_ex _ _ t Hin).
      eapply IH; eauto using nowild_wf, nowild_quant. rewrite nowild_names; auto. constructor.
  - destruct v as [| k l |]; try contradiction.
    apply LMatch_legal in Hm as (cs & Hleg & Hsum & F2).
    rewrite <- Hsum, precheck_redundant by exact Hleg.
    apply (first_some_ex _ _ cs); [apply cvecs_spec; auto|].
    rewrite items_match_spec by (auto using legal_length).
    rewrite Forall_forall in IH. pose proof Hwf as Hwf'. pose proof Hq as Hq'.
    rewrite forallb_forall in Hwf', Hq'.
    unfold merge_matches.
    destruct (merge_all_fresh [] (map2 match_tmpl (expand its cs) l)) as (b & -> & _); [| | |discriminate].
    + apply Forall_map2; [rewrite expand_length; auto using legal_length|].
      eapply Forall2_impl_in; [|exact F2]. intros t a Hin Hta.
      apply in_expand in Hin as (i & Hi & ->).
      apply (IH i Hi rho a); auto.
      * specialize (Hq' i Hi). destruct i; simpl in *; auto using nowild_quant.
      * eapply (NoDup_flat_map_in (fun i => names (tmpl_of i))); eauto.
    + clear. generalize (expand its cs). intros ts. revert l.
      induction ts as [|t ts IHt]; intros [|a l]; simpl; constructor; auto using rnames_nodup.
    + simpl. apply nodup_map2_rnames. apply expand_names_nodup; auto.
  - destruct v as [| | k a']; try contradiction. rewrite Hm. discriminate.
  - discriminate.
  - destruct Hm as [Hm _]. apply andb_true_iff in Hwf as [Hnw _].
    destruct (match_tmpl t v) as [r0|] eqn:E.
    + rewrite (nowild_result _ _ _ Hnw E). simpl. discriminate.
    + exfalso. revert E. apply (IH rho v); auto using nowild_wf, nowild_quant.
      rewrite nowild_names; auto. constructor.
  - destruct v as [k tg' nfs | |]; try contradiction. destruct Hm as [<- Hm].
    rewrite String.eqb_refl. apply FieldsP_forall_inv in Hm.
    rewrite Forall_forall in IH, Hm. rewrite forallb_forall in Hwf, Hq.
    unfold merge_matches.
    match goal with |- context [merge_all [] ?rs] =>
      destruct (merge_all_fresh [] rs) as (b & -> & _); [| | |discriminate] end.
    + apply Forall_forall. intros o Ho. apply in_map_iff in Ho as (ft & <- & Hin).
      destruct (Hm ft Hin) as (fv & -> & Hp). eapply IH; eauto.
      eapply (NoDup_flat_map_in (fun ft => names (snd ft))); eauto.
    + apply Forall_forall. intros o Ho. apply in_map_iff in Ho as (ft & <- & Hin).
      destruct (lookup (fst ft) nfs); [apply rnames_nodup|constructor].
    + simpl. apply (nodup_flat_rnames _ (fun ft => names (snd ft))); auto.
      intros ft Hin. destruct (lookup (fst ft) nfs); [split; [apply rnames_incl|apply rnames_nodup]|].
      split; [intros x []|constructor].
Qed.

Corollary match_complete_linear t rho v :
  linear t = true -> Matches rho t v -> match_tmpl t v <> None.
Proof.
  unfold linear. intros H. apply andb_true_iff in H as [H H3]. apply andb_true_iff in H as [H1 H2].
  apply match_complete; auto. now apply nodupb_spec.
Qed.

(* ---------------------------------------------------------------------------------------------- *)
(* T12.2 binding-free templates (in particular the list-quantifier core): the matcher decides the
   declarative semantics exactly *)

Theorem match_exact_nowild t rho v :
  nowild t = true -> (match_tmpl t v <> None <-> Matches rho t v).
Proof.
  intros Hn. split.
  - destruct (match_tmpl t v) as [r|] eqn:E; [intros _|congruence].
    eapply Matches_nowild; [exact Hn|]. eapply match_sound; eauto using nowild_wf.
  - apply match_complete; auto using nowild_wf, nowild_quant. rewrite nowild_names; auto. constructor.
Qed.

Corollary list_core_exact its rho k l :
  forallb (fun i => nowild (tmpl_of i)) its = true ->
  (match_tmpl (TList its) (VL k l) <> None <-> LMatch (Matches rho) its l).
Proof. intros H. apply (match_exact_nowild (TList its) rho (VL k l)). exact H. Qed.

(* ---------------------------------------------------------------------------------------------- *)
(* T12.5 reflexivity: every tree matches the template it embeds to *)

Section ValueInd.
  Variable P : value -> Prop.
  Hypothesis HT : forall k tg fs, Forall (fun fv => P (snd fv)) fs -> P (VT k tg fs).
  Hypothesis HL : forall k l, Forall P l -> P (VL k l).
  Hypothesis HA : forall k a, P (VA k a).
  Fixpoint value_ind' (v : value) : P v :=
    match v with
    | VT k tg fs =>
        HT k tg fs ((fix go fs : Forall (fun fv => P (snd fv)) fs :=
                       match fs with
                       | [] => Forall_nil _
                       | fv :: fs' => Forall_cons _ (value_ind' (snd fv)) (go fs')
                       end) fs)
    | VL k l =>
        HL k l ((fix go l : Forall P l :=
                   match l with [] => Forall_nil _ | a :: l' => Forall_cons _ (value_ind' a) (go l') end) l)
    | VA k a => HA k a
    end.
End ValueInd.

Lemma atom_match_refl a : atom_match a a = true.
Proof.
  unfold atom_match. destruct a as [| b | z | s | ty k]; simpl; auto.
  - now destruct b.
  - apply Z.eqb_refl.
  - apply N.eqb_refl.
  - now rewrite String.eqb_refl, N.eqb_refl.
Qed.

Lemma nodups_spec l : nodups l = true -> NoDup l.
Proof.
  induction l as [|s l IH]; simpl; intros H; constructor.
  - apply andb_true_iff in H as [H _]. apply negb_true_iff in H. intros Hin.
    assert (existsb (String.eqb s) l = true) as E by (now apply existsb_eqb_in). congruence.
  - apply andb_true_iff in H as [_ H]. auto.
Qed.

Lemma lookup_nodup {X} f (x : X) fs : NoDup (map fst fs) -> In (f, x) fs -> lookup f fs = Some x.
Proof.
  induction fs as [|[g y] fs IH]; simpl; intros Hd Hin; [contradiction|].
  inversion Hd as [|? ? Hn Hd']; subst. destruct Hin as [Heq|Hin].
  - injection Heq as -> ->. now rewrite String.eqb_refl.
  - destruct (String.eqb f g) eqn:E; [|auto].
    apply String.eqb_eq in E. subst g. exfalso. apply Hn. apply in_map_iff. exists (f, x). auto.
Qed.

Lemma nowild_embed v : nowild (embed v) = true.
Proof.
  induction v as [k tg fs IH | k l IH | k a] using value_ind'; simpl; auto.
  - apply forallb_forall. intros ft Hin. apply in_map_iff in Hin as (fv & <- & Hin).
    rewrite Forall_forall in IH. simpl. auto.
  - apply forallb_forall. intros i Hin. apply in_map_iff in Hin as (a & <- & Hin).
    rewrite Forall_forall in IH. simpl. auto.
Qed.

Theorem Matches_embed rho v : wf_value v = true -> Matches rho (embed v) v.
Proof.
  induction v as [k tg fs IH | k l IH | k a] using value_ind'; simpl; intros Hwf.
  - split; auto. apply andb_true_iff in Hwf as [Hnd Hwf]. apply nodups_spec in Hnd.
    rewrite forallb_forall in Hwf. rewrite Forall_forall in IH.
    apply FieldsP_forall. apply Forall_forall. intros ft Hin.
    apply in_map_iff in Hin as ([f x] & <- & Hin). simpl. exists x. split.
    + now apply lookup_nodup.
    + apply (IH (f, x) Hin). apply (Hwf (f, x) Hin).
  - rewrite forallb_forall in Hwf. induction l as [|a l IHl]; simpl; auto.
    inversion IH as [|? ? Ha IH']; subst.
    exists [a], l. split; [reflexivity|]. split.
    + exists a. split; auto. apply Ha. apply Hwf. now left.
    + apply IHl; auto. intros x Hx. apply Hwf. now right.
  - apply atom_match_refl.
Qed.

Theorem match_reflexive v : wf_value v = true -> match_tmpl (embed v) v = Some (Some v, []).
Proof.
  intros Hwf. destruct (match_tmpl (embed v) v) as [r|] eqn:E.
  - now rewrite (nowild_result _ _ _ (nowild_embed v) E).
  - exfalso. revert E. apply (match_exact_nowild _ (fun _ => None) _ (nowild_embed v)).
    now apply Matches_embed.
Qed.

(* ---------------------------------------------------------------------------------------------- *)
(* refutations at full strength (witnesses replayed on the real code by harness/c12.py) *)

Section Witnesses.
  Open Scope string_scope.
  Open Scope list_scope.

  Definition cst (k : N) (z : Z) : value := VT k "Constant" [("value", VA k (AInt z))].
  Definition nm (k s : N) : value := VT k "Name" [("id", VA k (AStr s))].
  Definition nmt (s : N) : tmpl := TNode "Name" [("id", TAtom (AStr s))].

  (* R12.4a   g([{{...*}}, {{x}}, {{...*}}], {{x}})   vs   g([1, 2], 2) *)
  Definition R1_t : tmpl :=
    TNode "Call" [("func", nmt 0);
                  ("args", TList [One (TNode "List" [("elts", TList [Star TAny; One (TWild 0 true TAny); Star TAny])]);
                                  One (TWild 0 true TAny)])].
  Definition R1_v : value :=
    VT 10 "Call" [("func", nm 5 0);
                  ("args", VL 11 [VT 12 "List" [("elts", VL 13 [cst 1 1; cst 2 2])]; cst 2 2])].

  (* R12.4b   f({{a*}})   vs   f(1, 2) *)
  Definition R2_t : tmpl := TNode "Call" [("func", nmt 0); ("args", TList [Star (TWild 0 false TAny)])].
  Definition R2_v : value := VT 10 "Call" [("func", nm 5 0); ("args", VL 11 [cst 1 1; cst 2 2])].

  (* a wildcard whose own template is a wildcard: the inner name is dropped (core.py:264) *)
  Definition R3_t : tmpl :=
    TNode "Call" [("args", TList [One (TWild 0 true (TWild 2 true TAny)); One (TWild 1 true (TWild 2 true TAny))])].
  Definition R3_v : value := VT 10 "Call" [("args", VL 11 [cst 1 1; cst 2 2])].

  Lemma LMatch_one {T A} (M : T -> A -> Prop) t a its l :
    M t a -> LMatch M its l -> LMatch M (One t :: its) (a :: l).
  Proof. intros H1 H2. exists [a], l. split; [reflexivity|]. split; [exists a; auto|exact H2]. Qed.

  Lemma LMatch_star {T A} (M : T -> A -> Prop) t its l1 l2 :
    Forall (M t) l1 -> LMatch M its l2 -> LMatch M (Star t :: its) (l1 ++ l2).
  Proof. intros H1 H2. exists l1, l2. split; [reflexivity|]. split; [exact H1|exact H2]. Qed.

  Theorem complete_refuted_no_backtracking :
    exists t v rho, wf_tmpl t = true /\ Matches rho t v /\ match_tmpl t v = None.
  Proof.
    exists R1_t, R1_v, (fun _ => Some (cst 2 2)).
    split; [reflexivity|]. split; [|vm_compute; reflexivity].
    split; [reflexivity|]. split.
    { exists (nm 5 0). split; [reflexivity|]. split; [reflexivity|]. split; [|exact I].
      exists (VA 5 (AStr 0)). split; reflexivity. }
    split; [|exact I].
    exists (VL 11 [VT 12 "List" [("elts", VL 13 [cst 1 1; cst 2 2])]; cst 2 2]). split; [reflexivity|].
    apply LMatch_one.
    - split; [reflexivity|]. split; [|exact I].
      exists (VL 13 [cst 1 1; cst 2 2]). split; [reflexivity|].
      apply (LMatch_star _ _ _ [cst 1 1] [cst 2 2]); [repeat constructor|].
      apply LMatch_one.
      + split; [exact I|]. intros _. exists (cst 2 2). split; reflexivity.
      + apply (LMatch_star _ _ _ [] []); [constructor|reflexivity].
    - apply LMatch_one; [|reflexivity].
      split; [exact I|]. intros _. exists (cst 2 2). split; reflexivity.
  Qed.

  Theorem complete_refuted_named_quantifier :
    exists t v rho, wf_tmpl t = true /\ Matches rho t v /\ match_tmpl t v = None.
  Proof.
    exists R2_t, R2_v, (fun _ => None).
    split; [reflexivity|]. split; [|vm_compute; reflexivity].
    split; [reflexivity|]. split.
    { exists (nm 5 0). split; [reflexivity|]. split; [reflexivity|]. split; [|exact I].
      exists (VA 5 (AStr 0)). split; reflexivity. }
    split; [|exact I].
    exists (VL 11 [cst 1 1; cst 2 2]). split; [reflexivity|].
    apply (LMatch_star _ _ _ [cst 1 1; cst 2 2] []); [|reflexivity].
    repeat constructor; discriminate.
  Qed.

  (* soundness without the well-formedness guard: the matcher accepts, no environment exists *)
  Theorem sound_refuted_nested_wildcard :
    exists t v r, match_tmpl t v = Some r /\ forall rho, ~ Matches rho t v.
  Proof.
    exists R3_t, R3_v. eexists. split; [vm_compute; reflexivity|].
    intros rho [_ [(fv & Hl & Hm) _]]. injection Hl as <-.
    destruct Hm as (l1 & l2 & Hsplit & (a & -> & Ha) & (l3 & l4 & -> & (b & -> & Hb) & ->)).
    simpl in Hsplit. injection Hsplit as <- <-.
    destruct Ha as [[_ Ha] _]. destruct Hb as [[_ Hb] _].
    destruct (Ha eq_refl) as (w & Hw & Kw). destruct (Hb eq_refl) as (w' & Hw' & Kw').
    rewrite Hw in Hw'. injection Hw' as <-. simpl in Kw, Kw'. congruence.
  Qed.

  (* the guards are satisfiable on non-trivial templates *)
  Example linear_example :
    linear (TNode "Call" [("func", TWild 0 true (TType ["Name"; "Attribute"]));
                          ("args", TList [One (TWild 1 true TAny); Star TAny; Opt (nmt 3); One (TWild 2 true TAny)])]) = true.
  Proof. reflexivity. Qed.

  Example wf_example_repeated_names : wf_tmpl R1_t = true /\ linear R1_t = false.
  Proof. split; reflexivity. Qed.
End Witnesses.

(* ---------------------------------------------------------------------------------------------- *)
(* T12.6 search.  (a) ast_walk enumerates exactly the descendants *)

Fixpoint desc (d : nat) (n r : value) : Prop :=
  match d with
  | 0 => n = r
  | S d' => exists c, In c (children r) /\ desc d' n c
  end.

Definition subnode (n root : value) : Prop := exists d, desc d n root.

Lemma levels_nil f : levels f [] = [].
Proof. destruct f; reflexivity. Qed.

Lemma in_levels f : forall nodes n,
  In n (levels f nodes) <-> exists d r, d < f /\ In r nodes /\ desc d n r.
Proof.
  induction f as [|f IH]; intros nodes n; simpl.
  - split; [intros []|intros (d & r & Hd & _); lia].
  - destruct nodes as [|x nodes].
    + split; [intros []|intros (d & r & _ & [] & _)].
    + remember (x :: nodes) as ns. rewrite in_app_iff, IH. split.
      * intros [Hin|(d & c & Hd & Hc & Hdesc)].
        -- exists 0, n. split; [lia|]. split; [exact Hin|reflexivity].
        -- apply in_flat_map in Hc as (r & Hr & Hc). exists (S d), r. split; [lia|]. split; [exact Hr|].
           exists c. split; auto.
      * intros (d & r & Hd & Hr & Hdesc). destruct d as [|d]; simpl in Hdesc.
        -- subst. now left.
        -- destruct Hdesc as (c & Hc & Hdesc). right. exists d, c. split; [lia|]. split; [|exact Hdesc].
           apply in_flat_map. exists r. auto.
Qed.

Lemma fold_max_in {X} (g : X -> nat) x l :
  In x l -> g x <= fold_right (fun y acc => Nat.max (g y) acc) 0 l.
Proof.
  induction l as [|y l IH]; simpl; [contradiction|]. intros [->|Hin]; [lia|]. specialize (IH Hin). lia.
Qed.

Lemma height_pos v : 1 <= height v.
Proof. destruct v; simpl; lia. Qed.

Lemma child_height c r : In c (children r) -> height c < height r.
Proof.
  destruct r as [k tg fs | |]; simpl; try contradiction.
  intros Hin. apply in_flat_map in Hin as (fv & Hfv & Hc).
  pose proof (fold_max_in (fun fv => height (snd fv)) fv fs Hfv) as Hle. simpl in Hle.
  destruct (snd fv) as [k' tg' fs' | k' l |] eqn:E; simpl in Hc.
  - destruct Hc as [<-|[]]. simpl in *. lia.
  - apply filter_In in Hc as [Hc _].
    pose proof (fold_max_in height c l Hc) as Hle'. simpl in Hle. lia.
  - contradiction.
Qed.

Lemma desc_height d : forall n r, desc d n r -> d < height r.
Proof.
  induction d as [|d IH]; intros n r H; simpl in H.
  - pose proof (height_pos r). lia.
  - destruct H as (c & Hc & Hd). apply IH in Hd. apply child_height in Hc. lia.
Qed.

Theorem ast_walk_spec root n : In n (ast_walk root) <-> subnode n root.
Proof.
  unfold ast_walk, subnode. rewrite in_levels. split.
  - intros (d & r & _ & [<-|[]] & Hd). eauto.
  - intros (d & Hd). exists d, root. split; [now apply desc_height in Hd|]. split; [now left|exact Hd].
Qed.

(* (b) walk_wildcard for one template: exactly the walked nodes of an admitted concrete type that
   match, reported once per node identity *)

Definition admits (t : tmpl) (g : tag) : Prop :=
  match head_tags t with None => True | Some tags => In g tags end.

Lemma tags_in_order_spec nodes : forall seen g,
  In g (tags_in_order seen nodes) <-> (exists n, In n nodes /\ vtag n = g) /\ ~ In g seen.
Proof.
  induction nodes as [|x nodes IH]; intros seen g; simpl.
  - split; [intros []|intros [(n & [] & _) _]].
  - destruct (existsb (String.eqb (vtag x)) seen) eqn:E.
    + apply existsb_eqb_in in E. rewrite IH. split.
      * intros [(n & Hn & Hg) Hs]. split; auto. exists n. auto.
      * intros [(n & [<-|Hn] & Hg) Hs]; [subst; contradiction|]. split; auto. exists n. auto.
    + assert (Hns : ~ In (vtag x) seen).
      { intros Hin. apply existsb_eqb_in in Hin. congruence. }
      simpl. rewrite IH. split.
      * intros [<-|[(n & Hn & Hg) Hs]].
        -- split; auto. exists x. auto.
        -- split; [exists n; auto|]. intros Hin. apply Hs. now right.
      * intros [(n & [<-|Hn] & Hg) Hs]; [now left|].
        destruct (string_dec (vtag x) g) as [He|He]; [now left|]. right. split; [exists n; auto|].
        intros [Hin|Hin]; auto.
Qed.

Lemma candidates_spec all t n :
  let groups := match head_tags t with
                | None => tags_in_order [] all
                | Some tags => filter (fun g => existsb (String.eqb g) tags) (tags_in_order [] all)
                end in
  In n (flat_map (fun g => nodes_of_tag g all) groups) <-> In n all /\ admits t (vtag n).
Proof.
  intros groups. rewrite in_flat_map. unfold nodes_of_tag, admits. subst groups. split.
  - intros (g & Hg & Hn). apply filter_In in Hn as [Hn E]. apply String.eqb_eq in E. subst g.
    split; auto. destruct (head_tags t) as [tags|]; auto.
    apply filter_In in Hg as [_ Hg]. now apply existsb_eqb_in.
  - intros [Hn Ha]. exists (vtag n). split.
    + destruct (head_tags t) as [tags|].
      * apply filter_In. split; [|now apply existsb_eqb_in].
        apply tags_in_order_spec. split; [exists n; auto|intros []].
      * apply tags_in_order_spec. split; [exists n; auto|intros []].
    + apply filter_In. split; auto. apply String.eqb_refl.
Qed.

Section WalkFold.
  Variables (t : tmpl) (yielded : list value).
  Definition wstep (acc : list (value * result)) (n : value) : list (value * result) :=
    if existsb (same_node n) (yielded ++ map fst acc) then acc
    else match match_tmpl t n with Some r => acc ++ [(n, r)] | None => acc end.

  Lemma wfold_mono nodes : forall acc x, In x acc -> In x (fold_left wstep nodes acc).
  Proof.
    induction nodes as [|n nodes IH]; intros acc x Hx; simpl; auto.
    apply IH. unfold wstep. destruct (existsb _ _); auto.
    destruct (match_tmpl t n); auto. apply in_or_app. now left.
  Qed.

  Lemma wfold_sound nodes : forall acc n r,
    In (n, r) (fold_left wstep nodes acc) ->
    In (n, r) acc \/ (In n nodes /\ match_tmpl t n = Some r).
  Proof.
    induction nodes as [|x nodes IH]; intros acc n r H; simpl in *; auto.
    apply IH in H as [H|[H1 H2]]; [|right; auto].
    unfold wstep in H. destruct (existsb _ _); auto.
    destruct (match_tmpl t x) as [rx|] eqn:E; auto.
    apply in_app_or in H as [H|[H|[]]]; auto. injection H as <- <-. right. auto.
  Qed.

  Lemma wfold_complete nodes : forall acc n r,
    In n nodes -> match_tmpl t n = Some r ->
    (exists n', In n' yielded /\ same_node n n' = true) \/
    (exists n' r', In (n', r') (fold_left wstep nodes acc) /\ ((n', r') = (n, r) \/ same_node n n' = true)).
  Proof.
    induction nodes as [|x nodes IH]; intros acc n r Hin Hm; simpl in *; [contradiction|].
    destruct Hin as [->|Hin]; [|eauto].
    unfold wstep at 2. destruct (existsb (same_node n) (yielded ++ map fst acc)) eqn:E.
    - apply existsb_exists in E as (n' & Hn' & Hs). apply in_app_or in Hn' as [Hy|Ha].
      + left. eauto.
      + right. apply in_map_iff in Ha as ([n'' r'] & <- & Ha). exists n'', r'. split; auto.
        now apply wfold_mono.
    - rewrite Hm. right. exists n, r. split; auto. apply wfold_mono. apply in_or_app. right. now left.
  Qed.
End WalkFold.

Lemma walk_one_eq all t y :
  walk_one all t y =
    fold_left (wstep t y)
      (flat_map (fun g => nodes_of_tag g all)
         (match head_tags t with
          | None => tags_in_order [] all
          | Some tags => filter (fun g => existsb (String.eqb g) tags) (tags_in_order [] all)
          end)) [].
Proof. reflexivity. Qed.

Theorem walk_one_sound all t y n r :
  In (n, r) (walk_one all t y) -> In n all /\ admits t (vtag n) /\ match_tmpl t n = Some r.
Proof.
  rewrite walk_one_eq. intros H. apply wfold_sound in H as [[]|[H1 H2]].
  apply candidates_spec in H1 as [H1 H3]. auto.
Qed.

Theorem walk_one_complete all t y n r :
  In n all -> admits t (vtag n) -> match_tmpl t n = Some r ->
  (exists n', In n' y /\ same_node n n' = true) \/
  (exists n' r', In (n', r') (walk_one all t y) /\ ((n', r') = (n, r) \/ same_node n n' = true)).
Proof.
  intros H1 H2 H3. rewrite walk_one_eq. apply wfold_complete; auto. apply candidates_spec. auto.
Qed.

(* the search for an expression / statement pattern (a node template) *)
Theorem walk_wildcard_node_sound root tg fs n r :
  In (n, r) (walk_wildcard root (TNode tg fs)) ->
  subnode n root /\ vtag n = tg /\ match_tmpl (TNode tg fs) n = Some r.
Proof.
  intros H. apply walk_one_sound in H as (H1 & H2 & H3). apply ast_walk_spec in H1.
  unfold admits in H2. simpl in H2. destruct H2 as [H2|[]]. auto.
Qed.

Theorem walk_wildcard_node_complete root tg fs n r :
  subnode n root -> match_tmpl (TNode tg fs) n = Some r ->
  exists n' r', In (n', r') (walk_wildcard root (TNode tg fs)) /\ ((n', r') = (n, r) \/ same_node n n' = true).
Proof.
  intros H1 H2. apply ast_walk_spec in H1.
  assert (Ha : admits (TNode tg fs) (vtag n)).
  { unfold admits. simpl. left. simpl in H2. destruct n as [k tg' nfs | |]; try discriminate.
    simpl. destruct (String.eqb tg tg') eqn:E; [|discriminate]. now apply String.eqb_eq in E. }
  destruct (walk_one_complete (ast_walk root) (TNode tg fs) [] n r H1 Ha H2) as [(n' & [] & _)|H]; exact H.
Qed.

(* a bare wildcard at top level is never found (known finding F12-3) *)
Theorem walk_wildcard_bare_wildcard root n c t : walk_wildcard root (TWild n c t) = [].
Proof.
  unfold walk_wildcard. rewrite walk_one_eq. simpl.
  assert (H : forall l : list tag, filter (fun _ => false) l = []) by (induction l; auto).
  now rewrite H.
Qed.

(* (c) statement sequences: windows are exactly the contiguous sub-lists of the given length *)

Lemma windows_spec {X} k (l w : list X) :
  1 <= k -> (In w (windows k l) <-> List.length w = k /\ exists pre post, l = pre ++ w ++ post).
Proof.
  intros Hk. induction l as [|a l IH]; simpl.
  - split; [intros []|]. intros [Hl (pre & post & H)].
    symmetry in H. apply app_eq_nil in H as [_ H]. apply app_eq_nil in H as [-> _]. simpl in Hl. lia.
  - destruct (k <=? S (List.length l)) eqn:E.
    + apply Nat.leb_le in E. simpl. rewrite IH. split.
      * intros [<-|[Hl (pre & post & ->)]].
        -- split; [apply (firstn_length_le (a :: l)); simpl; lia|].
           exists [], (skipn k (a :: l)). simpl. now rewrite (firstn_skipn k (a :: l)).
        -- split; auto. exists (a :: pre), post. reflexivity.
      * intros [Hl (pre & post & H)]. destruct pre as [|b pre]; simpl in H.
        -- left. rewrite H, <- Hl. rewrite firstn_app, Nat.sub_diag, firstn_all. simpl.
           now rewrite app_nil_r.
        -- injection H as <- ->. right. split; auto. eauto.
    + apply Nat.leb_gt in E. split; [intros []|]. intros [Hl (pre & post & H)].
      apply (f_equal (@List.length X)) in H. simpl in H. rewrite !app_length in H. lia.
Qed.

Theorem walk_sequence_spec order root ts w b :
  In (w, b) (walk_sequence order root ts) <->
  exists sc body rs,
    In sc (map fst (walk_wildcard root (TOr (map (fun g => TType [g]) order)))) /\
    In body (bodies sc) /\ In w (windows (List.length ts) body) /\
    zip_match ts w = Some rs /\ merge_all [] (map Some rs) = Some b.
Proof.
  unfold walk_sequence. rewrite in_flat_map. split.
  - intros (sc & Hsc & H). apply in_flat_map in H as (body & Hb & H).
    apply in_flat_map in H as (w' & Hw & H).
    destruct (zip_match ts w') as [rs|] eqn:Z; [|contradiction].
    destruct (merge_all [] (map Some rs)) as [b'|] eqn:M; [|contradiction].
    destruct H as [H|[]]. injection H as <- <-. exists sc, body, rs. auto.
  - intros (sc & body & rs & Hsc & Hb & Hw & Z & M). exists sc. split; auto.
    apply in_flat_map. exists body. split; auto. apply in_flat_map. exists w. split; auto.
    rewrite Z, M. now left.
Qed.

(* the scopes whose bodies are searched are walked nodes of the listed kinds only *)
Lemma walk_or_sound all ts : forall acc n r,
  In (n, r) (fold_left (fun acc t' => acc ++ walk_one all t' (map fst acc)) ts acc) ->
  In (n, r) acc \/ exists t', In t' ts /\ In n all /\ admits t' (vtag n) /\ match_tmpl t' n = Some r.
Proof.
  induction ts as [|t ts IH]; intros acc n r H; simpl in *; auto.
  apply IH in H as [H|(t' & Ht' & H)]; [|right; exists t'; auto].
  apply in_app_or in H as [H|H]; auto.
  apply walk_one_sound in H. right. exists t. auto.
Qed.

Theorem walk_sequence_scopes order root sc :
  In sc (map fst (walk_wildcard root (TOr (map (fun g => TType [g]) order)))) ->
  subnode sc root /\ In (vtag sc) order.
Proof.
  intros H. apply in_map_iff in H as ([n r] & <- & H). simpl.
  unfold walk_wildcard in H. apply walk_or_sound in H as [[]|(t' & Ht' & Hn & Ha & _)].
  apply in_map_iff in Ht' as (g & <- & Hg). unfold admits in Ha. simpl in Ha.
  destruct Ha as [<-|[]]. split; auto. now apply ast_walk_spec.
Qed.

(* the kinds of blocks whose bodies are searched, against the regenerated constants of /repo:
   modules, definitions and if/for/while/with blocks -- and nothing else (no try/finally/match) *)
Require Import PyrefactGen.Tables.

Definition body_kinds : list tag := AST_TYPES_WITH_BODY ++ AST_TYPES_WITH_ORELSE.
Definition stated_kinds : list tag :=
  ["Module"; "FunctionDef"; "AsyncFunctionDef"; "ClassDef"; "If"; "For"; "While"; "With"]%string.

Lemma incl_bool (l1 l2 : list tag) :
  forallb (fun g => existsb (String.eqb g) l2) l1 = true -> incl l1 l2.
Proof.
  intros H g Hg. rewrite forallb_forall in H. apply existsb_eqb_in. auto.
Qed.

Theorem body_kinds_spec : forall g, In g body_kinds <-> In g stated_kinds.
Proof.
  intros g. split; apply incl_bool; vm_compute; reflexivity.
Qed.

(* T12.1 in the form of DESIGN: some environment extends the reported bindings *)
Lemma blookup_in_nodup b n w : NoDup (bnames b) -> In (n, w) b -> blookup n b = Some w.
Proof.
  induction b as [|[m x] b IH]; simpl; intros Hd Hin; [contradiction|].
  inversion Hd as [|? ? Hn Hd']; subst. destruct Hin as [Heq|Hin].
  - injection Heq as -> ->. now rewrite Nat.eqb_refl.
  - destruct (Nat.eqb n m) eqn:E; [|auto].
    apply Nat.eqb_eq in E. subst m. exfalso. apply Hn. apply in_map_iff. exists (n, w). auto.
Qed.

Corollary match_sound_ex t v r :
  wf_tmpl t = true -> match_tmpl t v = Some r ->
  exists rho, (forall n w, In (n, w) (snd r) -> rho n = Some w) /\ Matches rho t v.
Proof.
  intros Hwf Hm. exists (env_of (snd r)). split.
  - intros n w Hin. apply blookup_in_nodup; auto. apply (result_names _ _ _ Hm).
  - now apply match_sound.
Qed.
