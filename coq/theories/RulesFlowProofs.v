(* C02, control-flow tranche -- soundness of the rule models of RulesFlowModel.v with respect to the
   MiniPy semantics: for every program (every size, depth, oracle, initial state) the rewritten program
   is equivalent to the original, or the refuted/partial pair. *)
From Coq Require Import List Bool Arith Lia.
Import ListNotations.
Require Import Pyrefact.MiniPyModel Pyrefact.MiniPyProofs Pyrefact.RulesFlowModel.

(* ------------------------------------------------------------------------------------------ *)
(* induction over statements (nested lists) *)
Definition is_simple (s : stmt) : bool :=
  match s with SIf _ _ _ | SLoop _ _ _ => false | _ => true end.

Section StmtInd.
  Variable P : stmt -> Prop.
  Hypothesis Hsimple : forall s, is_simple s = true -> P s.
  Hypothesis Hif : forall t b e, Forall P b -> Forall P e -> P (SIf t b e).
  Hypothesis Hloop : forall h b e, Forall P b -> Forall P e -> P (SLoop h b e).
  Fixpoint stmt_ind' (s : stmt) : P s :=
    let go := fix go (l : list stmt) : Forall P l :=
                match l with
                | [] => Forall_nil P
                | x :: tl => Forall_cons x (stmt_ind' x) (go tl)
                end in
    match s as s0 return P s0 with
    | SIf t b e => Hif t b e (go b) (go e)
    | SLoop h b e => Hloop h b e (go b) (go e)
    | SPass => Hsimple SPass eq_refl
    | SEv i rd => Hsimple (SEv i rd) eq_refl
    | SAssign x e => Hsimple (SAssign x e) eq_refl
    | SReturn e => Hsimple (SReturn e) eq_refl
    | SRaise => Hsimple SRaise eq_refl
    | SBreak => Hsimple SBreak eq_refl
    | SContinue => Hsimple SContinue eq_refl
    end.
End StmtInd.

(* ------------------------------------------------------------------------------------------ *)
(* literal tests *)
Lemma tval_sound t v o st : tval t = Some v -> eval_test o st t = (VBool v, st).
Proof.
  revert v. induction t as [b|i rd|u IH]; simpl; intros v H.
  - congruence.
  - discriminate.
  - destruct (tval u) as [w|]; [|discriminate]. simpl in H. rewrite (IH w eq_refl). simpl. congruence.
Qed.

Lemma if_true t b e : tval t = Some true -> equiv [SIf t b e] b.
Proof. intros H o st r. rewrite runs_single. simpl. rewrite (tval_sound _ _ o st H). simpl. tauto. Qed.
Lemma if_false t b e : tval t = Some false -> equiv [SIf t b e] e.
Proof. intros H o st r. rewrite runs_single. simpl. rewrite (tval_sound _ _ o st H). simpl. tauto. Qed.

Lemma while_false t b e : tval t = Some false -> equiv [SLoop (HWhile t) b e] e.
Proof.
  intros H o st r. rewrite runs_single. simpl. rewrite lruns_unfold. simpl.
  rewrite (tval_sound _ _ o st H). simpl. tauto.
Qed.

Lemma fixb_equiv b : equiv (fixb b) b.
Proof. destruct b; simpl; [apply equiv_pass|apply equiv_refl]. Qed.
Lemma fixe_equiv orig x : equiv orig x -> equiv orig (fixe orig x).
Proof.
  intros H. destruct orig; simpl; [apply equiv_refl|].
  eapply equiv_trans; [exact H|apply equiv_sym, fixb_equiv].
Qed.

(* ------------------------------------------------------------------------------------------ *)
(* core._may_leave_iteration is sound: a statement without a break/continue of the enclosing loop
   never terminates with Brk/Cnt *)
Definition stays (out : outcome) : Prop := out <> Brk /\ out <> Cnt.

Definition ml_ok (s : stmt) : Prop :=
  may_leave s = false -> forall o st out st', runs1 o st s (out, st') -> stays out.

Lemma ml_block l :
  Forall ml_ok l -> existsb may_leave l = false ->
  forall o st out st', runs o st l (out, st') -> stays out.
Proof.
  induction l as [|s l IH]; intros HF He o st out st' Hr.
  - apply runs_nil in Hr. inversion Hr; subst. split; discriminate.
  - simpl in He. apply orb_false_iff in He. destruct He as [Hs Hl]. inversion HF as [|? ? Hok HF']; subst.
    apply runs_cons in Hr. destruct Hr as [[out1 st1] [H1 H2]].
    pose proof (Hok Hs o st out1 st1 H1) as [Hb Hc].
    destruct out1; simpl in H2; try (inversion H2; subst; split; congruence).
    eapply IH; eauto.
Qed.

Lemma may_leave_sound s : ml_ok s.
Proof.
  induction s using stmt_ind'; unfold ml_ok.
  - destruct s; try discriminate; simpl; intros Hm o st out st' Hr;
      try discriminate; inversion Hr; subst; split; discriminate.
  - simpl. intros Hm o st out st'. apply orb_false_iff in Hm. destruct Hm as [Hb He].
    destruct (truthy (fst (eval_test o st t))); intros Hr;
      [exact (ml_block _ H Hb _ _ _ _ Hr)|exact (ml_block _ H0 He _ _ _ _ Hr)].
  - simpl. intros Hm o st out st' Hr.
    revert Hr. generalize (fst (enter o st h)) (snd (enter o st h)). intros st0 lk Hr.
    change out with (fst (out, st')). revert st0 lk Hr. generalize (out, st'). intros r st0 lk Hr.
    revert st0 lk r Hr. apply lruns_ind'. intros st0 lk r Hstep.
    destruct (loop_next o st0 lk) as [[go st1] lk']. destruct go.
    + destruct Hstep as [[out1 st2] [H1 H2]]. destruct out1; try (subst r; simpl; split; discriminate); tauto.
    + destruct r as [out2 st2]. eapply ml_block; eauto.
Qed.

Lemma ml_block' l o st out st' :
  existsb may_leave l = false -> runs o st l (out, st') -> stays out.
Proof.
  intros He Hr. refine (ml_block l _ He _ _ _ _ Hr).
  apply Forall_forall. intros; apply may_leave_sound.
Qed.

(* ------------------------------------------------------------------------------------------ *)
(* core.is_blocking is sound: a blocking statement never completes normally *)
Definition bl_ok (s : stmt) : Prop :=
  forall p, is_blocking s p = true -> forall o st out st', runs1 o st s (out, st') -> out <> Normal.

Lemma bl_block l p :
  Forall bl_ok l -> existsb (fun x => is_blocking x p) l = true ->
  forall o st out st', runs o st l (out, st') -> out <> Normal.
Proof.
  induction l as [|s l IH]; intros HF He o st out st' Hr; [discriminate|].
  inversion HF as [|? ? Hok HF']; subst. simpl in He.
  apply runs_cons in Hr. destruct Hr as [[out1 st1] [H1 H2]].
  destruct out1; simpl in H2; try (inversion H2; subst; discriminate).
  destruct (is_blocking s p) eqn:Es.
  - exfalso. eapply Hok; eauto.
  - simpl in He. eapply IH; eauto.
Qed.

Definition retexc (out : outcome) : Prop := (exists v, out = Ret v) \/ out = Exc.

Lemma scan_sound dflt l :
  Forall bl_ok l ->
  scan_with may_leave (fun x => is_blocking x PLoop) dflt l = true ->
  forall o st out st', runs o st l (out, st') -> retexc out \/ (dflt = true /\ out = Normal).
Proof.
  induction l as [|s l IH]; intros HF Hs o st out st' Hr.
  - simpl in Hs. apply runs_nil in Hr. inversion Hr; subst. right; auto.
  - inversion HF as [|? ? Hok HF']; subst. simpl in Hs.
    destruct (may_leave s) eqn:Em; [discriminate|].
    apply runs_cons in Hr. destruct Hr as [[out1 st1] [H1 H2]].
    pose proof (may_leave_sound s Em o st out1 st1 H1) as [Hb Hc].
    destruct (is_blocking s PLoop) eqn:Eb.
    + pose proof (Hok PLoop Eb o st out1 st1 H1) as Hn.
      destruct out1; simpl in H2; try congruence; inversion H2; subst; left; unfold retexc; eauto.
    + destruct out1; simpl in H2; try congruence.
      * eapply IH; eauto.
      * inversion H2; subst; left; unfold retexc; eauto.
      * inversion H2; subst; left; unfold retexc; eauto.
Qed.

Lemma retexc_not_normal out : retexc out -> out <> Normal.
Proof. intros [[v ->]| ->]; discriminate. Qed.

Lemma is_blocking_sound s : bl_ok s.
Proof.
  induction s using stmt_ind'; unfold bl_ok.
  - destruct s; try discriminate; simpl; intros p Hb o st out st' Hr;
      try discriminate; try (inversion Hr; subst; discriminate).
  - simpl. intros p Hb o st out st' Hr.
    destruct (tval t) as [[|]|] eqn:Et.
    + rewrite (tval_sound _ _ o st Et) in Hr. simpl in Hr. exact (bl_block _ _ H Hb _ _ _ _ Hr).
    + rewrite (tval_sound _ _ o st Et) in Hr. simpl in Hr. exact (bl_block _ _ H0 Hb _ _ _ _ Hr).
    + apply andb_true_iff in Hb. destruct Hb as [Hb1 Hb2]. revert Hr.
      destruct (truthy (fst (eval_test o st t))); intros Hr;
        [exact (bl_block _ _ H Hb1 _ _ _ _ Hr)|exact (bl_block _ _ H0 Hb2 _ _ _ _ Hr)].
  - intros p Hb o st out st' Hr. simpl in Hr. destruct h as [t|it].
    + simpl in Hb. destruct (tval t) as [[|]|] eqn:Et; try discriminate.
      simpl in Hr. change out with (fst (out, st')).
      assert (G : forall st0 lk r, lruns o st0 lk b e r -> lk = LWhile t -> fst r <> Normal).
      { apply (lruns_ind' o b e (fun _ lk r => lk = LWhile t -> fst r <> Normal)).
        intros st0 lk r Hstep ->. simpl in Hstep.
        rewrite (tval_sound _ _ o st0 Et) in Hstep. simpl in Hstep.
        destruct Hstep as [[out1 st2] [H1 H2]].
        destruct (scan_sound true b H Hb o st0 out1 st2 H1) as [Hre|[_ ->]].
        - destruct Hre as [[v ->]| ->]; subst r; simpl; discriminate.
        - destruct H2 as [_ H2]. apply H2; reflexivity. }
      eapply G; eauto.
    + destruct it as [[|n]|i rd]; try discriminate. simpl in Hb, Hr.
      apply lruns_unfold in Hr. simpl in Hr. destruct Hr as [[out1 st2] [H1 H2]].
      destruct (scan_sound false b H Hb o st out1 st2 H1) as [Hre|[Hd _]]; [|discriminate].
      destruct Hre as [[v ->]| ->]; simpl in H2; inversion H2; subst; discriminate.
Qed.

Theorem anyb_blocks b : anyb b = true -> blocks b.
Proof.
  intros H o st out st' Hr. refine (bl_block b PNone _ H _ _ _ _ Hr).
  apply Forall_forall. intros; apply is_blocking_sound.
Qed.

(* ------------------------------------------------------------------------------------------ *)
(* remove_dead_ifs *)
Lemma flat_map_equiv (F : stmt -> list stmt) p :
  (forall s, equiv [s] (F s)) -> equiv p (flat_map F p).
Proof.
  intros HF. induction p as [|s p IH]; simpl; [apply equiv_refl|].
  apply (equiv_app [s] (F s) p (flat_map F p)); auto.
Qed.

Lemma rdi_sound n : (forall p, equiv p (rdi n p)) /\ (forall e, equiv e (rdi_else n e)).
Proof.
  induction n as [|n [IHp IHe]]; split; intros; simpl; try apply equiv_refl.
  - apply flat_map_equiv. intros s. destruct s; try apply equiv_refl.
    + (* if *)
      assert (Hb : equiv body (fixb (rdi n body))).
      { eapply equiv_trans; [apply IHp|apply equiv_sym, fixb_equiv]. }
      pose proof (IHe orelse) as He.
      destruct (tval t) as [[|]|] eqn:Et.
      * eapply equiv_trans; [apply if_true; auto|apply IHp].
      * destruct (is_elif orelse).
        -- apply equiv_if; auto.
        -- eapply equiv_trans; [apply if_false; auto|apply IHp].
      * apply equiv_if; auto.
    + (* loop *)
      assert (Hb : equiv body (fixb (rdi n body))).
      { eapply equiv_trans; [apply IHp|apply equiv_sym, fixb_equiv]. }
      assert (He : equiv orelse (fixe orelse (rdi n orelse))) by (apply fixe_equiv, IHp).
      destruct h as [t|it]; [|apply equiv_loop; auto].
      destruct (tval t) as [[|]|] eqn:Et; try (apply equiv_loop; auto).
      destruct orelse as [|o1 otl]; [|apply equiv_loop; auto].
      eapply equiv_trans; [apply while_false; auto|apply equiv_refl].
  - destruct e as [|s tl]; [apply equiv_refl|].
    assert (Hgen : equiv (s :: tl) (fixe (s :: tl) (rdi n (s :: tl)))) by (apply fixe_equiv, IHp).
    destruct s; try exact Hgen. destruct tl; [|exact Hgen].
    assert (Hb : equiv body (fixb (rdi n body))).
    { eapply equiv_trans; [apply IHp|apply equiv_sym, fixb_equiv]. }
    pose proof (IHe orelse) as He.
    destruct (tval t) as [[|]|] eqn:Et; try (apply equiv_if; auto).
    destruct (rdi_else n orelse) eqn:E2; [|apply equiv_if; auto].
    eapply equiv_trans; [apply if_false; auto|exact He].
Qed.

Theorem remove_dead_ifs_preserves p : equiv p (remove_dead_ifs_model p).
Proof.
  unfold remove_dead_ifs_model. eapply equiv_trans; [apply (proj1 (rdi_sound (fuel_of p)))|].
  apply equiv_sym, fixb_equiv.
Qed.

(* ------------------------------------------------------------------------------------------ *)
(* remove_redundant_else *)
Lemma redundant_else t b e rest :
  blocks b -> equiv (SIf t b e :: rest) (SIf t b [] :: e ++ rest).
Proof.
  intros Hb o st r. rewrite !runs_cons. simpl.
  destruct (truthy (fst (eval_test o st t))) eqn:Ev.
  - split; intros [[out1 st1] [H1 H2]]; exists (out1, st1); (split; [exact H1|]);
      pose proof (Hb _ _ _ _ H1); destruct out1; simpl in *; congruence.
  - split.
    + intros [[out1 st1] [H1 H2]]. exists (Normal, snd (eval_test o st t)).
      split; [apply runs_nil; reflexivity|]. simpl. apply runs_app. eexists; eauto.
    + intros [[out1 st1] [H1 H2]]. apply runs_nil in H1. inversion H1; subst. simpl in H2.
      apply runs_app in H2. exact H2.
Qed.

Lemma rre_sound n : (forall p, equiv p (rre n p)) /\ (forall e, equiv e (rre_else n e)).
Proof.
  induction n as [|n [IHp IHe]]; split; intros; simpl; try apply equiv_refl.
  - destruct p as [|s rest]; [apply equiv_refl|].
    pose proof (IHp rest) as Hrest.
    destruct s; try (apply equiv_cons; exact Hrest).
    + (* if *)
      destruct orelse as [|x xs].
      * apply (equiv_app [SIf t body []] [SIf t (rre n body) []] rest (rre n rest)); auto.
        apply equiv_if; auto using equiv_refl.
      * destruct (anyb body) eqn:Ea.
        -- eapply equiv_trans; [apply redundant_else, anyb_blocks; exact Ea|].
           apply (equiv_app [SIf t body []] [SIf t (rre n body) []]
                            ((x :: xs) ++ rest) (rre n (x :: xs) ++ rre n rest)).
           ++ apply equiv_if; auto using equiv_refl.
           ++ apply equiv_app; auto.
        -- apply (equiv_app [SIf t body (x :: xs)] [SIf t (rre n body) (rre_else n (x :: xs))]
                            rest (rre n rest)); auto.
           apply equiv_if; auto.
    + apply (equiv_app [SLoop h body orelse] [SLoop h (rre n body) (rre n orelse)] rest (rre n rest)); auto.
      apply equiv_loop; auto.
  - destruct e as [|s tl]; [apply IHp|].
    destruct s; try apply IHp. destruct tl; [|apply IHp].
    apply equiv_if; auto.
Qed.

Theorem remove_redundant_else_preserves p : equiv p (remove_redundant_else_model p).
Proof. apply (proj1 (rre_sound (fuel_of p))). Qed.

(* ------------------------------------------------------------------------------------------ *)
(* head-of-block characterisations *)
Lemma runs_ret o st e rest r :
  runs o st (SReturn e :: rest) r <-> r = (Ret (fst (eval_rexpr o st e)), snd (eval_rexpr o st e)).
Proof.
  rewrite runs_cons. simpl. split.
  - intros [r1 [-> H]]. exact H.
  - intros ->. eexists; split; reflexivity.
Qed.
Lemma runs_assign o st x e rest r :
  runs o st (SAssign x e :: rest) r <->
  runs o (set_var x (fst (eval_rexpr o st e)) (snd (eval_rexpr o st e))) rest r.
Proof.
  rewrite runs_cons. simpl. split.
  - intros [r1 [-> H]]. exact H.
  - intros H. eexists; split; [reflexivity|exact H].
Qed.
Lemma runs_if o st t b e rest r :
  runs o st (SIf t b e :: rest) r <->
  exists r1, runs o (snd (eval_test o st t)) (if truthy (fst (eval_test o st t)) then b else e) r1
             /\ after o r1 rest r.
Proof. rewrite runs_cons. simpl. tauto. Qed.

Lemma boolish_val t o st :
  boolish t = true -> fst (eval_test o st t) = VBool (truthy (fst (eval_test o st t))).
Proof.
  destruct t as [b|i rd|u]; simpl; try discriminate; intros _; [reflexivity|].
  destruct (eval_test o st u); reflexivity.
Qed.

Lemma tnot_val t o st :
  eval_test o st (TNot t) = (VBool (negb (truthy (fst (eval_test o st t)))), snd (eval_test o st t)).
Proof. simpl. destruct (eval_test o st t); reflexivity. Qed.

(* ------------------------------------------------------------------------------------------ *)
(* fix_if_return *)
Lemma ret_const_inv b v : ret_const b = Some v -> b = [SReturn (RVal (VBool v))].
Proof.
  unfold ret_const. destruct b as [|x tl]; try discriminate.
  destruct x; try discriminate. destruct e; try discriminate. destruct v0; try discriminate.
  destruct tl; try discriminate. intros H; inversion H; reflexivity.
Qed.

Lemma xorb_true_negb a b : xorb a b = true -> b = negb a.
Proof. destruct a, b; simpl; congruence. Qed.

Lemma fir_site_inv p t v rest :
  fir_site p = Some (t, v, rest) ->
  p = SIf t [SReturn (RVal (VBool v))] [] :: SReturn (RVal (VBool (negb v))) :: rest.
Proof.
  unfold fir_site. destruct p as [|s p]; try discriminate. destruct s; try discriminate.
  destruct orelse; try discriminate. destruct p as [|s2 rest']; try discriminate.
  destruct s2; try discriminate. destruct e; try discriminate. destruct v0; try discriminate.
  destruct (ret_const body) as [w|] eqn:Er; try discriminate.
  destruct (xorb w b) eqn:Ex; try discriminate.
  intros H; inversion H; subst. rewrite (ret_const_inv _ _ Er), (xorb_true_negb _ _ Ex). reflexivity.
Qed.

(* the value form of the repaired rule: the truth value of t as a bool, same draws and events *)
Lemma as_value_val t o st :
  eval_test o st (as_value t) = (VBool (truthy (fst (eval_test o st t))), snd (eval_test o st t)).
Proof.
  destruct t as [b|i rd|u]; unfold as_value, TBool.
  - simpl. destruct b; reflexivity.
  - rewrite !tnot_val. simpl fst. simpl snd. simpl truthy. rewrite negb_involutive. reflexivity.
  - rewrite tnot_val. reflexivity.
Qed.

(* [vf t] evaluates to the truth value of t as a bool: holds for as_value always, for the identity on boolish tests *)
Definition truth_form (vf : test -> test) (t : test) : Prop :=
  forall o st, eval_test o st (vf t) = (VBool (truthy (fst (eval_test o st t))), snd (eval_test o st t)).

Lemma truth_form_as_value t : truth_form as_value t.
Proof. intros o st. apply as_value_val. Qed.

Lemma truth_form_id t : boolish t = true -> truth_form (fun t => t) t.
Proof.
  intros Hb o st. pose proof (boolish_val t o st Hb) as Hv.
  destruct (eval_test o st t) as [v st1]. simpl in *. congruence.
Qed.

Lemma fir_true vf t rest :
  truth_form vf t ->
  equiv (SIf t [SReturn (RVal (VBool true))] [] :: SReturn (RVal (VBool false)) :: rest)
        (SReturn (RTest (vf t)) :: rest).
Proof.
  intros Hb o st r. rewrite runs_if, runs_ret. unfold eval_rexpr. rewrite (Hb o st). simpl fst. simpl snd.
  destruct (truthy (fst (eval_test o st t))).
  - split.
    + intros [r1 [H1 H2]]. apply runs_ret in H1. simpl in H1. subst r1. exact H2.
    + intros ->. eexists; split; [apply runs_ret; reflexivity|reflexivity].
  - split.
    + intros [r1 [H1 H2]]. apply runs_nil in H1. subst r1. simpl in H2. apply runs_ret in H2. exact H2.
    + intros ->. eexists; split; [apply runs_nil; reflexivity|]. simpl. apply runs_ret. reflexivity.
Qed.

Lemma fir_false t rest :
  equiv (SIf t [SReturn (RVal (VBool false))] [] :: SReturn (RVal (VBool true)) :: rest)
        (SReturn (RTest (TNot t)) :: rest).
Proof.
  intros o st r. rewrite runs_if, runs_ret. unfold eval_rexpr. rewrite tnot_val. simpl fst. simpl snd.
  destruct (truthy (fst (eval_test o st t))).
  - split.
    + intros [r1 [H1 H2]]. apply runs_ret in H1. simpl in H1. subst r1. exact H2.
    + intros ->. eexists; split; [apply runs_ret; reflexivity|reflexivity].
  - split.
    + intros [r1 [H1 H2]]. apply runs_nil in H1. subst r1. simpl in H2. apply runs_ret in H2. exact H2.
    + intros ->. eexists; split; [apply runs_nil; reflexivity|]. simpl. apply runs_ret. reflexivity.
Qed.

Lemma fir_n n : forall p, equiv p (fir n p).
Proof.
  unfold fir. induction n as [|n IH]; intros p; simpl; [apply equiv_refl|].
  destruct (fir_site p) as [[[t v] rest]|] eqn:Es.
  - rewrite (fir_site_inv _ _ _ _ Es). destruct v; simpl.
    + eapply equiv_trans; [apply (fir_true as_value), truth_form_as_value|]. apply equiv_cons, IH.
    + eapply equiv_trans; [apply fir_false|]. apply equiv_cons, IH.
  - destruct p as [|s rest]; [apply equiv_refl|].
    apply (equiv_app [s] [_] rest (fir_with as_value n rest)); [|apply IH].
    destruct s; try apply equiv_refl.
    + apply equiv_if; apply IH.
    + apply equiv_loop; apply IH.
Qed.

(* the repaired rule (4486780): every program, the returned VALUE included *)
Theorem fix_if_return_preserves p : equiv p (fix_if_return_model p).
Proof. apply fir_n. Qed.

(* the rule before the repair (`return c` for every c): right under the guard only *)
Lemma old_fir_partial_n n : forall p, fir_safe n p = true -> equiv p (fir_with (fun t => t) n p).
Proof.
  induction n as [|n IH]; intros p Hs; simpl; [apply equiv_refl|]. simpl in Hs.
  destruct (fir_site p) as [[[t v] rest]|] eqn:Es.
  - apply andb_true_iff in Hs. destruct Hs as [Hb Hr].
    rewrite (fir_site_inv _ _ _ _ Es). destruct v; simpl.
    + eapply equiv_trans; [apply (fir_true (fun t => t)), truth_form_id; exact Hb|]. apply equiv_cons, IH, Hr.
    + eapply equiv_trans; [apply fir_false|]. apply equiv_cons, IH, Hr.
  - destruct p as [|s rest]; [apply equiv_refl|].
    apply andb_true_iff in Hs. destruct Hs as [Hk Hr].
    apply (equiv_app [s] [_] rest (fir_with (fun t => t) n rest)); [|apply IH, Hr].
    destruct s; try apply equiv_refl; apply andb_true_iff in Hk; destruct Hk.
    + apply equiv_if; apply IH; assumption.
    + apply equiv_loop; apply IH; assumption.
Qed.

Theorem old_fix_if_return_partial p :
  fir_safe (fuel_of p) p = true -> equiv p (old_fix_if_return_model p).
Proof. apply old_fir_partial_n. Qed.

Definition st0 : state := mkSt [] 0 [].
Definition o_obj : oracle := fun _ => VObj true 0.      (* every opaque call returns a truthy non-bool (5) *)

Ltac refute_with o st p q :=
  let H := fresh "H" in let H1 := fresh "H1" in
  let R := fresh "R" in let Q := fresh "Q" in let r := fresh "r" in let r' := fresh "r'" in
  let r2 := fresh "r2" in let H2 := fresh "H2" in let Ho := fresh "Ho" in let E := fresh "E" in
  intros H; destruct (H o st) as [H1 _];
  assert (R : exists r, exec 20 o st p = Some r) by (eexists; vm_compute; reflexivity);
  destruct R as [r R];
  assert (Q : exists r', exec 20 o st q = Some r') by (eexists; vm_compute; reflexivity);
  destruct Q as [r' Q];
  destruct (H1 r (ex_intro _ 20 R)) as [r2 [H2 Ho]];
  pose proof (runs_det _ _ _ _ _ H2 (ex_intro _ 20 Q)) as E; subst r2;
  vm_compute in R; vm_compute in Q; inversion R; inversion Q; subst; vm_compute in Ho; discriminate Ho.

Definition fir_witness : list stmt :=
  [SIf (Unknown 1 []) [SReturn (RVal (VBool true))] []; SReturn (RVal (VBool false))].

Theorem old_fix_if_return_refuted : exists p, ~ obs_equiv p (old_fix_if_return_model p).
Proof.
  exists fir_witness.
  refute_with o_obj st0 fir_witness (old_fix_if_return_model fir_witness).
Qed.

(* the repaired rule fires on the witness of the old refutation (and on a negated condition) and wraps / keeps the test *)
Example fix_if_return_nontrivial :
  fix_if_return_model fir_witness = [SReturn (RTest (TBool (Unknown 1 [])))] /\
  fix_if_return_model [SEv 1 []; SIf (TNot (Unknown 1 [0])) [SReturn (RVal (VBool true))] []; SReturn (RVal (VBool false))]
    = [SEv 1 []; SReturn (RTest (TNot (Unknown 1 [0])))].
Proof. split; reflexivity. Qed.

(* ------------------------------------------------------------------------------------------ *)
(* fix_if_assign *)
Lemma asg_const_inv b x v : asg_const b = Some (x, v) -> b = [SAssign x (RVal (VBool v))].
Proof.
  unfold asg_const. destruct b as [|s tl]; try discriminate.
  destruct s; try discriminate. destruct e; try discriminate. destruct v0; try discriminate.
  destruct tl; try discriminate. intros H; inversion H; reflexivity.
Qed.

Lemma fia_site_inv s t x v :
  fia_site s = Some (t, x, v) ->
  s = SIf t [SAssign x (RVal (VBool v))] [SAssign x (RVal (VBool (negb v)))].
Proof.
  unfold fia_site. destruct s; try discriminate.
  destruct (asg_const body) as [[x1 v1]|] eqn:E1; try discriminate.
  destruct (asg_const orelse) as [[x2 v2]|] eqn:E2; try discriminate.
  destruct (Nat.eqb x1 x2) eqn:En; [|discriminate]. apply Nat.eqb_eq in En. subst.
  destruct (xorb v1 v2) eqn:Ex; [|discriminate]. simpl. intros H; inversion H; subst.
  rewrite (asg_const_inv _ _ _ E1), (asg_const_inv _ _ _ E2), (xorb_true_negb _ _ Ex). reflexivity.
Qed.

Lemma fia_true vf t x :
  truth_form vf t ->
  equiv [SIf t [SAssign x (RVal (VBool true))] [SAssign x (RVal (VBool false))]] [SAssign x (RTest (vf t))].
Proof.
  intros Hb o st r. rewrite runs_if, runs_assign. unfold eval_rexpr. rewrite (Hb o st). simpl fst. simpl snd.
  destruct (truthy (fst (eval_test o st t))).
  - split.
    + intros [r1 [H1 H2]]. apply runs_assign in H1. apply runs_nil in H1. subst r1. exact H2.
    + intros H. eexists; split; [apply runs_assign, runs_nil; reflexivity|exact H].
  - split.
    + intros [r1 [H1 H2]]. apply runs_assign in H1. apply runs_nil in H1. subst r1. exact H2.
    + intros H. eexists; split; [apply runs_assign, runs_nil; reflexivity|exact H].
Qed.

Lemma fia_false t x :
  equiv [SIf t [SAssign x (RVal (VBool false))] [SAssign x (RVal (VBool true))]] [SAssign x (RTest (TNot t))].
Proof.
  intros o st r. rewrite runs_if, runs_assign. unfold eval_rexpr. rewrite tnot_val. simpl fst. simpl snd.
  destruct (truthy (fst (eval_test o st t))).
  - split.
    + intros [r1 [H1 H2]]. apply runs_assign in H1. apply runs_nil in H1. subst r1. exact H2.
    + intros H. eexists; split; [apply runs_assign, runs_nil; reflexivity|exact H].
  - split.
    + intros [r1 [H1 H2]]. apply runs_assign in H1. apply runs_nil in H1. subst r1. exact H2.
    + intros H. eexists; split; [apply runs_assign, runs_nil; reflexivity|exact H].
Qed.

Lemma map_equiv (F : stmt -> stmt) p :
  (forall s, In s p -> equiv [s] [F s]) -> equiv p (map F p).
Proof.
  induction p as [|s p IH]; intros H; simpl; [apply equiv_refl|].
  apply (equiv_app [s] [F s] p (map F p)); [apply H; left; reflexivity|].
  apply IH. intros; apply H; right; assumption.
Qed.

Lemma fia_n n :
  (forall p, equiv p (fia n p)) /\ (forall e, equiv e (fia_else n e)).
Proof.
  unfold fia, fia_else.
  induction n as [|n [IHp IHe]]; split; intros; simpl; try apply equiv_refl.
  - apply map_equiv. intros s Hin.
    destruct (fia_site s) as [[[t x] v]|] eqn:Es.
    + rewrite (fia_site_inv _ _ _ _ Es). destruct v; simpl;
        [apply (fia_true as_value), truth_form_as_value|apply fia_false].
    + destruct s; try apply equiv_refl.
      * apply equiv_if; auto.
      * apply equiv_loop; auto.
  - destruct e as [|s tl]; [apply IHp|].
    destruct s; try apply IHp. destruct tl; [|apply IHp].
    apply equiv_if; auto.
Qed.

(* the repaired rule (4486780): every program, the assigned VALUE included *)
Theorem fix_if_assign_preserves p : equiv p (fix_if_assign_model p).
Proof. apply (proj1 (fia_n (fuel_of p))). Qed.

Lemma old_fia_partial_n n :
  (forall p, fia_safe n p = true -> equiv p (fia_with (fun t => t) n p)) /\
  (forall e, fia_safe_else n e = true -> equiv e (fia_else_with (fun t => t) n e)).
Proof.
  induction n as [|n [IHp IHe]]; split; intros; simpl; try apply equiv_refl.
  - apply map_equiv. intros s Hin. simpl in H. rewrite forallb_forall in H. specialize (H s Hin).
    destruct (fia_site s) as [[[t x] v]|] eqn:Es.
    + rewrite (fia_site_inv _ _ _ _ Es). destruct v; simpl;
        [apply (fia_true (fun t => t)), truth_form_id; exact H|apply fia_false].
    + destruct s; try apply equiv_refl; apply andb_true_iff in H; destruct H.
      * apply equiv_if; auto.
      * apply equiv_loop; auto.
  - simpl in H. destruct e as [|s tl]; [apply IHp; exact H|].
    destruct s; try (apply IHp; exact H). destruct tl; [|apply IHp; exact H].
    apply andb_true_iff in H. destruct H. apply equiv_if; auto.
Qed.

Theorem old_fix_if_assign_partial p :
  fia_safe (fuel_of p) p = true -> equiv p (old_fix_if_assign_model p).
Proof. apply (proj1 (old_fia_partial_n (fuel_of p))). Qed.

Definition fia_witness : list stmt :=
  [SIf (Unknown 1 []) [SAssign 0 (RVal (VBool true))] [SAssign 0 (RVal (VBool false))]; SReturn (RVar 0)].

Theorem old_fix_if_assign_refuted : exists p, ~ obs_equiv p (old_fix_if_assign_model p).
Proof.
  exists fia_witness.
  refute_with o_obj st0 fia_witness (old_fix_if_assign_model fia_witness).
Qed.

Example fix_if_assign_nontrivial :
  fix_if_assign_model fia_witness = [SAssign 0 (RTest (TBool (Unknown 1 []))); SReturn (RVar 0)] /\
  fix_if_assign_model
    [SIf (TNot (Unknown 1 [])) [SAssign 0 (RVal (VBool true))] [SAssign 0 (RVal (VBool false))];
     SIf (Unknown 2 []) [SAssign 1 (RVal (VBool false))] [SAssign 1 (RVal (VBool true))]]
  = [SAssign 0 (RTest (TNot (Unknown 1 []))); SAssign 1 (RTest (TNot (Unknown 2 [])))].
Proof. split; reflexivity. Qed.

(* ------------------------------------------------------------------------------------------ *)
(* swap_if_else *)
Lemma negate_sound t o st :
  truthy (fst (eval_test o st (negate t))) = negb (truthy (fst (eval_test o st t)))
  /\ snd (eval_test o st (negate t)) = snd (eval_test o st t).
Proof.
  destruct t as [b|i rd|u]; unfold negate.
  - simpl. auto.
  - rewrite tnot_val. simpl. auto.
  - rewrite tnot_val. simpl. rewrite negb_involutive. auto.
Qed.

Lemma nopass_equiv b : equiv (nopass b) b.
Proof.
  induction b as [|s b IH]; simpl; [apply equiv_refl|].
  destruct s; simpl; try (apply equiv_cons; exact IH).
  eapply equiv_trans; [exact IH|]. apply equiv_sym, equiv_pass_cons.
Qed.

Lemma swap_local t b e : equiv [SIf t b e] [SIf (negate t) e (nopass b)].
Proof.
  intros o st r. rewrite !runs_single. simpl.
  destruct (negate_sound t o st) as [Hv Hs]. rewrite Hv, Hs.
  destruct (truthy (fst (eval_test o st t))); simpl; [|tauto].
  symmetry. apply nopass_equiv.
Qed.

Lemma sw_sound n : (forall p, equiv p (sw n p)) /\ (forall e, equiv e (sw_else n e)).
Proof.
  induction n as [|n [IHp IHe]]; split; intros; simpl; try apply equiv_refl.
  - apply map_equiv. intros s _. destruct s; try apply equiv_refl.
    + destruct (swap_site body orelse); [apply swap_local|apply equiv_if; auto].
    + apply equiv_loop; auto.
  - destruct e as [|s tl]; [apply IHp|].
    destruct s; try apply IHp. destruct tl; [|apply IHp]. apply equiv_if; auto.
Qed.

Lemma fix5_sound pass : (forall p, equiv p (pass p)) -> forall p, equiv p (fix5 pass p).
Proof.
  intros H p. unfold fix5.
  destruct (_ || _ || _ || _); [apply equiv_refl|].
  eapply equiv_trans; [apply H|]. eapply equiv_trans; [apply H|]. eapply equiv_trans; [apply H|].
  eapply equiv_trans; [apply H|]. apply H.
Qed.

Lemma swap_explicit_sound p : equiv p (swap_explicit p).
Proof. apply fix5_sound. intros q. apply (proj1 (sw_sound (fuel_of q))). Qed.

Lemma implicit_else t b rest : blocks b -> equiv (SIf t b [] :: rest) [SIf t b rest].
Proof.
  intros Hb. apply equiv_sym. pose proof (redundant_else t b rest [] Hb) as H.
  rewrite app_nil_r in H. exact H.
Qed.

Lemma implicit_site_sound s rest q : implicit_site s rest = Some q -> equiv (s :: rest) q.
Proof.
  unfold implicit_site. destruct s; try discriminate. destruct orelse; try discriminate.
  destruct rest as [|x xs]; try discriminate.
  destruct (anyb body && anyb (x :: xs) && opab body (x :: xs)) eqn:E; [|discriminate].
  intros H; inversion H; subst. apply andb_true_iff in E. destruct E as [E _].
  apply andb_true_iff in E. destruct E as [E _].
  eapply equiv_trans; [apply implicit_else, anyb_blocks, E|]. apply swap_local.
Qed.

Lemma swi_sound n : forall p q, swi n p = Some q -> equiv p q.
Proof.
  induction n as [|n IH]; intros p q H; [discriminate|]. simpl in H.
  destruct p as [|s rest]; [discriminate|].
  destruct (implicit_site s rest) as [q0|] eqn:Ei.
  - inversion H; subst. apply implicit_site_sound; exact Ei.
  - destruct s; simpl in H;
      try (destruct (swi n rest) as [r'|] eqn:Er; [|discriminate]; inversion H; subst;
           apply equiv_cons, IH, Er).
    + destruct (swi n body) as [b'|] eqn:Eb.
      * inversion H; subst. apply (equiv_app [_] [_] rest rest); [|apply equiv_refl].
        apply equiv_if; [apply IH, Eb|apply equiv_refl].
      * destruct (swi n orelse) as [e'|] eqn:Ee; simpl in H.
        -- inversion H; subst. apply (equiv_app [_] [_] rest rest); [|apply equiv_refl].
           apply equiv_if; [apply equiv_refl|apply IH, Ee].
        -- destruct (swi n rest) as [r'|] eqn:Er; [|discriminate]. inversion H; subst.
           apply equiv_cons, IH, Er.
    + destruct (swi n body) as [b'|] eqn:Eb.
      * inversion H; subst. apply (equiv_app [_] [_] rest rest); [|apply equiv_refl].
        apply equiv_loop; [apply IH, Eb|apply equiv_refl].
      * destruct (swi n orelse) as [e'|] eqn:Ee; simpl in H.
        -- inversion H; subst. apply (equiv_app [_] [_] rest rest); [|apply equiv_refl].
           apply equiv_loop; [apply equiv_refl|apply IH, Ee].
        -- destruct (swi n rest) as [r'|] eqn:Er; [|discriminate]. inversion H; subst.
           apply equiv_cons, IH, Er.
Qed.

Theorem swap_if_else_preserves p : equiv p (swap_if_else_model p).
Proof.
  unfold swap_if_else_model. destruct (swi (fuel_of p) p) as [q|] eqn:E.
  - eapply equiv_trans; [apply (swi_sound _ _ _ E)|].
    eapply equiv_trans; apply swap_explicit_sound.
  - apply swap_explicit_sound.
Qed.

(* the negation used by the rule is exact on truthiness and evaluates the same calls *)
Theorem negate_complements t o st :
  truthy (fst (eval_test o st (negate t))) = negb (truthy (fst (eval_test o st t)))
  /\ snd (eval_test o st (negate t)) = snd (eval_test o st t).
Proof. apply negate_sound. Qed.

(* ------------------------------------------------------------------------------------------ *)
(* delete_unreachable_code *)
Lemma cut_after q rest : blocks q -> equiv (q ++ rest) q.
Proof.
  intros Hb o st r. rewrite runs_app. split.
  - intros [[out1 st1] [H1 H2]]. pose proof (Hb _ _ _ _ H1).
    destruct out1; simpl in H2; try congruence.
  - intros H. exists r. split; [exact H|]. destruct r as [out1 st1].
    pose proof (Hb _ _ _ _ H). destruct out1; simpl; congruence.
Qed.

Lemma blocks_equiv p q : equiv p q -> blocks p -> blocks q.
Proof. intros He Hb o st out st' Hr. apply He in Hr. eapply Hb; eauto. Qed.

Lemma duc_sound n :
  (forall p, equiv p (duc_scan n p)) /\ (forall p, equiv p (duc_plain n p)) /\
  (forall s, equiv [s] (duc_stmt n s)) /\ (forall e, equiv e (duc_else n e)).
Proof.
  induction n as [|n (IHs & IHp & IHt & IHe)]; (split; [|split; [|split]]); intros; simpl;
    try apply equiv_refl.
  - (* scan *)
    destruct p as [|s rest]; [apply equiv_refl|].
    destruct (anyb (duc_stmt n s)) eqn:Ea.
    + rewrite app_nil_r. eapply equiv_trans; [|apply cut_after with (rest := rest), anyb_blocks, Ea].
      apply (equiv_app [s] (duc_stmt n s) rest rest); [apply IHt|apply equiv_refl].
    + apply (equiv_app [s] (duc_stmt n s) rest (duc_scan n rest)); [apply IHt|apply IHs].
  - (* plain *)
    apply flat_map_equiv. apply IHt.
  - (* stmt *)
    destruct s; try apply equiv_refl.
    + assert (Hb : equiv body (fixb (duc_plain n body))).
      { eapply equiv_trans; [apply IHp|apply equiv_sym, fixb_equiv]. }
      destruct (tval t) as [[|]|] eqn:Et.
      * eapply equiv_trans; [apply if_true; exact Et|].
        eapply equiv_trans; [exact Hb|]. apply equiv_sym, if_true; exact Et.
      * pose proof (IHe orelse) as He.
        destruct (duc_else n orelse) as [|x xs] eqn:Ed.
        -- eapply equiv_trans; [apply if_false; exact Et|exact He].
        -- eapply equiv_trans; [apply if_false; exact Et|].
           eapply equiv_trans; [exact He|]. apply equiv_sym, if_false; exact Et.
      * apply equiv_if; auto.
    + destruct h as [t|it].
      * assert (Hb : equiv body (fixb (duc_plain n body))).
        { eapply equiv_trans; [apply IHp|apply equiv_sym, fixb_equiv]. }
        assert (He : equiv orelse (fixe orelse (duc_plain n orelse))) by (apply fixe_equiv, IHp).
        destruct (tval t) as [[|]|] eqn:Et; try (apply equiv_loop; auto).
        destruct orelse as [|x xs].
        -- apply while_false; exact Et.
        -- eapply equiv_trans; [apply while_false; exact Et|].
           eapply equiv_trans; [exact He|]. apply equiv_sym, while_false; exact Et.
      * apply equiv_loop.
        -- eapply equiv_trans; [apply IHs|apply equiv_sym, fixb_equiv].
        -- apply fixe_equiv, IHp.
  - (* else *)
    destruct (is_elif e); [apply IHp|apply fixe_equiv, IHp].
Qed.

Theorem delete_unreachable_code_preserves p : equiv p (delete_unreachable_code_model p).
Proof.
  unfold delete_unreachable_code_model.
  eapply equiv_trans; [apply (proj1 (duc_sound (2 * fuel_of p)))|apply equiv_sym, fixb_equiv].
Qed.

(* ------------------------------------------------------------------------------------------ *)
(* early_return: equivalence of function bodies up to the dead local environment *)
Definition sim (q q' : list stmt) : Prop :=
  forall o st r, runs o st q r -> exists r', runs o st q' r' /\ obs r = obs r'.
Definition sim2 (q q' : list stmt) : Prop := sim q q' /\ sim q' q.

Lemma sim2_obs q q' : sim2 q q' -> obs_equiv q q'.
Proof. intros [H1 H2] o st. split; intros r Hr; [apply H1|apply H2]; exact Hr. Qed.

Lemma sim_refl q : sim q q.
Proof. intros o st r H. exists r. auto. Qed.

Lemma sim_cons s q q' : sim q q' -> sim (s :: q) (s :: q').
Proof.
  intros H o st r Hr. apply runs_cons in Hr. destruct Hr as [[out1 st1] [H1 H2]].
  destruct out1; simpl in H2;
    try (subst r; eexists; split; [apply runs_cons; eexists; split; [exact H1|reflexivity]|reflexivity]).
  destruct (H _ _ _ H2) as [r' [Hr' Ho]]. exists r'. split; [|exact Ho].
  apply runs_cons. eexists; split; [exact H1|exact Hr'].
Qed.
Lemma sim2_cons s q q' : sim2 q q' -> sim2 (s :: q) (s :: q').
Proof. intros [H1 H2]. split; apply sim_cons; assumption. Qed.

Lemma runs_if_then o st t b e rest r :
  runs o st (SIf t b e :: rest) r <->
  runs o (snd (eval_test o st t)) ((if truthy (fst (eval_test o st t)) then b else e) ++ rest) r.
Proof. rewrite runs_if, runs_app. tauto. Qed.

Lemma er_assign_ret x r0 : sim2 [SAssign x r0; SReturn (RVar x)] [SReturn r0].
Proof.
  split; intros o st r Hr.
  - apply runs_assign in Hr. apply runs_ret in Hr. subst r. eexists; split; [apply runs_ret; reflexivity|].
    unfold obs. simpl. rewrite get_upd_same. reflexivity.
  - apply runs_ret in Hr. subst r. eexists; split; [apply runs_assign, runs_ret; reflexivity|].
    unfold obs. simpl. rewrite get_upd_same. reflexivity.
Qed.

Lemma er_go_sound (rec : list stmt -> option (list stmt)) x :
  (forall bb b', rec bb = Some b' -> sim2 (bb ++ [SReturn (RVar x)]) b') ->
  forall b b', er_go rec x b = Some b' -> sim2 (b ++ [SReturn (RVar x)]) b'.
Proof.
  intros Hrec. induction b as [|s l IH]; intros b' H; [discriminate|].
  destruct l as [|s2 l2].
  - simpl in H. destruct s; try discriminate.
    + destruct (Nat.eqb x0 x) eqn:E; [|discriminate]. apply Nat.eqb_eq in E. subst x0.
      inversion H; subst. apply er_assign_ret.
    + destruct (rec body) as [b1|] eqn:Eb; [|discriminate].
      destruct (rec orelse) as [e1|] eqn:Ee; [|discriminate]. inversion H; subst.
      pose proof (Hrec _ _ Eb) as [Hb1 Hb2]. pose proof (Hrec _ _ Ee) as [He1 He2].
      split; intros o st r Hr.
      * simpl in Hr. apply runs_if_then in Hr.
        destruct (truthy (fst (eval_test o st t))) eqn:Ev.
        -- destruct (Hb1 _ _ _ Hr) as [r' [Hr' Ho]]. exists r'. split; [|exact Ho].
           apply runs_single. simpl. rewrite Ev. exact Hr'.
        -- destruct (He1 _ _ _ Hr) as [r' [Hr' Ho]]. exists r'. split; [|exact Ho].
           apply runs_single. simpl. rewrite Ev. exact Hr'.
      * apply runs_single in Hr. simpl in Hr.
        destruct (truthy (fst (eval_test o st t))) eqn:Ev.
        -- destruct (Hb2 _ _ _ Hr) as [r' [Hr' Ho]]. exists r'. split; [|exact Ho].
           simpl. apply runs_if_then. rewrite Ev. exact Hr'.
        -- destruct (He2 _ _ _ Hr) as [r' [Hr' Ho]]. exists r'. split; [|exact Ho].
           simpl. apply runs_if_then. rewrite Ev. exact Hr'.
  - change (er_go rec x (s :: s2 :: l2)) with (option_map (cons s) (er_go rec x (s2 :: l2))) in H.
    destruct (er_go rec x (s2 :: l2)) as [tl'|] eqn:Eg; [|discriminate]. inversion H; subst.
    simpl. apply sim2_cons. apply IH. reflexivity.
Qed.

Lemma er_block_sound n x : forall b b', er_block n x b = Some b' -> sim2 (b ++ [SReturn (RVar x)]) b'.
Proof.
  induction n as [|n IH]; intros b b' H; [discriminate|].
  simpl in H. eapply er_go_sound; eauto.
Qed.

Lemma er_top_sound n : forall p, sim2 p (er_top n p).
Proof.
  induction p as [|s tl IH]; [split; apply sim_refl|].
  assert (Hdef : sim2 (s :: tl) (s :: er_top n tl)) by (apply sim2_cons, IH).
  destruct s; try exact Hdef.
  destruct tl as [|s2 tl2]; [exact Hdef|].
  destruct s2; try exact Hdef. destruct e; try exact Hdef. destruct tl2; [|exact Hdef].
  simpl er_top. destruct (er_block n x [SIf t body orelse]) as [q|] eqn:E.
  - apply (er_block_sound _ _ _ _ E).
  - split; apply sim_refl.
Qed.

Theorem early_return_preserves p : obs_equiv p (early_return_model p).
Proof. apply sim2_obs, er_top_sound. Qed.

(* ------------------------------------------------------------------------------------------ *)
(* early_continue: loop bodies equivalent up to Normal/Cnt at their end *)
Definition lk_same (r1 r1' : res) : Prop :=
  r1 = r1' \/ (snd r1 = snd r1' /\ (fst r1 = Normal \/ fst r1 = Cnt) /\ (fst r1' = Normal \/ fst r1' = Cnt)).
Definition lbsim (b b' : list stmt) : Prop :=
  forall o st r1, runs o st b r1 -> exists r1', runs o st b' r1' /\ lk_same r1 r1'.
Definition lbsim2 (b b' : list stmt) : Prop := lbsim b b' /\ lbsim b' b.

Lemma lk_same_sym r r' : lk_same r r' -> lk_same r' r.
Proof. intros [->|[H1 [H2 H3]]]; [left; reflexivity|right; auto]. Qed.

Lemma equiv_lbsim2 b b' : equiv b b' -> lbsim2 b b'.
Proof.
  intros H. split; intros o st r1 Hr; exists r1; (split; [apply H; exact Hr|left; reflexivity]).
Qed.

Lemma lbsim_loop o b b' e e' :
  lbsim b b' -> (forall st r, runs o st e r -> runs o st e' r) ->
  forall st lk r, lruns o st lk b e r -> lruns o st lk b' e' r.
Proof.
  intros Hb He. apply lruns_ind'. intros st lk r H.
  apply lruns_unfold. destruct (loop_next o st lk) as [[go st1] lk']. destruct go; [|apply He; exact H].
  destruct H as [r1 [H1 H2]]. destruct (Hb _ _ _ H1) as [r1' [H1' Hs]]. exists r1'. split; [exact H1'|].
  destruct Hs as [<-|[Hst [Hn Hn']]].
  - destruct r1 as [[] st2]; simpl in *; tauto.
  - destruct r1 as [out1 st2], r1' as [out1' st2']. simpl in *. subst st2'.
    destruct Hn as [->| ->]; destruct Hn' as [->| ->]; simpl; tauto.
Qed.

Lemma lbsim2_loop h b b' e e' :
  lbsim2 b b' -> equiv e e' -> equiv [SLoop h b e] [SLoop h b' e'].
Proof.
  intros [H1 H2] He o st r. rewrite !runs_single. simpl. split; apply lbsim_loop; auto.
  - intros; apply He; assumption.
  - intros; apply He; assumption.
Qed.

Lemma lbsim_cons s s2 tl tl2 : equiv [s] [s2] -> lbsim tl tl2 -> lbsim (s :: tl) (s2 :: tl2).
Proof.
  intros Hs Ht o st r Hr. change (s :: tl) with ([s] ++ tl) in Hr. apply runs_app in Hr.
  destruct Hr as [[out1 st1] [H1 H2]]. apply Hs in H1.
  destruct out1; simpl in H2;
    try (subst r; eexists; split;
         [change (s2 :: tl2) with ([s2] ++ tl2); apply runs_app; eexists; split; [exact H1|reflexivity]
         |left; reflexivity]).
  destruct (Ht _ _ _ H2) as [r' [Hr' Hk]]. exists r'. split; [|exact Hk].
  change (s2 :: tl2) with ([s2] ++ tl2). apply runs_app. eexists; split; [exact H1|exact Hr'].
Qed.

Lemma ec_last_inv s s' flag :
  ec_last s = Some (s', flag) ->
  exists t bb ee, s = SIf t bb ee /\
    ((s' = SIf t (bb ++ [SContinue]) ee /\ flag = false) \/
     (s' = SIf (negate t) [SContinue] bb /\ ee = [] /\ flag = true)).
Proof.
  unfold ec_last. destruct s; try discriminate.
  destruct (ends_with_continue body); [discriminate|].
  destruct ((2 <? length orelse) || existsb big_else orelse).
  - intros H; inversion H; subst. exists t, body, orelse. auto.
  - destruct orelse.
    + destruct (_ && _ && true); [|discriminate]. intros H; inversion H; subst.
      exists t, body, []. auto.
    + rewrite andb_false_r. discriminate.
Qed.

Lemma ec_append_lbsim2 t bb ee : lbsim2 [SIf t bb ee] [SIf t (bb ++ [SContinue]) ee].
Proof.
  split; intros o st r Hr; apply runs_single in Hr; simpl in Hr.
  - destruct (truthy (fst (eval_test o st t))) eqn:Ev.
    + destruct r as [out st2]. destruct out.
      * exists (Cnt, st2). split; [|right; simpl; auto].
        apply runs_single. simpl. rewrite Ev. apply runs_app. eexists; split; [exact Hr|].
        simpl. apply runs_single. reflexivity.
      * eexists; split; [|left; reflexivity]. apply runs_single. simpl. rewrite Ev.
        apply runs_app. eexists; split; [exact Hr|reflexivity].
      * eexists; split; [|left; reflexivity]. apply runs_single. simpl. rewrite Ev.
        apply runs_app. eexists; split; [exact Hr|reflexivity].
      * eexists; split; [|left; reflexivity]. apply runs_single. simpl. rewrite Ev.
        apply runs_app. eexists; split; [exact Hr|reflexivity].
      * eexists; split; [|left; reflexivity]. apply runs_single. simpl. rewrite Ev.
        apply runs_app. eexists; split; [exact Hr|reflexivity].
    + exists r. split; [|left; reflexivity]. apply runs_single. simpl. rewrite Ev. exact Hr.
  - destruct (truthy (fst (eval_test o st t))) eqn:Ev.
    + apply runs_app in Hr. destruct Hr as [[out1 st1] [H1 H2]].
      destruct out1; simpl in H2;
        try (subst r; eexists; split; [apply runs_single; simpl; rewrite Ev; exact H1|left; reflexivity]).
      apply runs_single in H2. simpl in H2. subst r.
      exists (Normal, st1). split; [apply runs_single; simpl; rewrite Ev; exact H1|right; simpl; auto].
    + exists r. split; [|left; reflexivity]. apply runs_single. simpl. rewrite Ev. exact Hr.
Qed.

Lemma ec_negate_lbsim2 t bb : lbsim2 [SIf t bb []] [SIf (negate t) [SContinue] bb].
Proof.
  split; intros o st r Hr; apply runs_single in Hr; simpl in Hr;
    destruct (negate_sound t o st) as [Hv Hs].
  - destruct (truthy (fst (eval_test o st t))) eqn:Ev.
    + exists r. split; [|left; reflexivity]. apply runs_single. simpl. rewrite Hv, Hs. exact Hr.
    + apply runs_nil in Hr. subst r. eexists; split; [|right; simpl; eauto].
      * apply runs_single. simpl. rewrite Hv, Hs. simpl. apply runs_single. reflexivity.
      * simpl. auto.
  - rewrite Hv, Hs in Hr. destruct (truthy (fst (eval_test o st t))) eqn:Ev; simpl in Hr.
    + exists r. split; [|left; reflexivity]. apply runs_single. simpl. rewrite Ev. exact Hr.
    + apply runs_single in Hr. simpl in Hr. subst r. eexists; split; [|right; simpl; eauto].
      * apply runs_single. simpl. rewrite Ev. apply runs_nil. reflexivity.
      * simpl. auto.
Qed.

Lemma lbsim2_trans_equiv b b1 b2 : lbsim2 b b1 -> equiv b1 b2 -> lbsim2 b b2.
Proof.
  intros [H1 H2] He. split; intros o st r Hr.
  - destruct (H1 _ _ _ Hr) as [r' [Hr' Hk]]. exists r'. split; [apply He; exact Hr'|exact Hk].
  - apply He in Hr. apply H2; exact Hr.
Qed.

Lemma ec_body_sound (rec : stmt -> stmt) :
  (forall s, equiv [s] [rec s]) -> forall b, lbsim2 b (ec_body rec b).
Proof.
  intros Hrec. induction b as [|s l IH]; [apply equiv_lbsim2, equiv_refl|].
  destruct l as [|s2 l2].
  - simpl. destruct (ec_last s) as [[s' flag]|] eqn:El; [|apply equiv_lbsim2, Hrec].
    destruct (ec_last_inv _ _ _ El) as (t & bb & ee & -> & [[-> ->]|[-> [-> ->]]]).
    + eapply lbsim2_trans_equiv; [apply ec_append_lbsim2|apply Hrec].
    + apply ec_negate_lbsim2.
  - change (ec_body rec (s :: s2 :: l2)) with (rec s :: ec_body rec (s2 :: l2)).
    destruct IH as [I1 I2]. split.
    + apply lbsim_cons; [apply Hrec|exact I1].
    + apply lbsim_cons; [apply equiv_sym, Hrec|exact I2].
Qed.

Lemma map_equiv_all (F : stmt -> stmt) p : (forall s, equiv [s] [F s]) -> equiv p (map F p).
Proof. intros H. apply map_equiv. intros; apply H. Qed.

Lemma ec1_sound n : forall s, equiv [s] [ec1 n s].
Proof.
  induction n as [|n IH]; intros s; simpl; [apply equiv_refl|].
  destruct s; try apply equiv_refl.
  - apply equiv_if; apply map_equiv_all, IH.
  - destruct h as [t|it].
    + apply equiv_loop; apply map_equiv_all, IH.
    + apply lbsim2_loop; [apply ec_body_sound, IH|apply map_equiv_all, IH].
Qed.

Theorem early_continue_preserves p : equiv p (early_continue_model p).
Proof. unfold early_continue_model, ec. apply map_equiv_all, ec1_sound. Qed.
