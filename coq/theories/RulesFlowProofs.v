(* C02, control-flow tranche -- soundness of the rule models of RulesFlowModel.v with respect to the
   MiniPy semantics: for every program (every size, depth, oracle, initial state) the rewritten program
   is equivalent to the original, or the refuted/partial pair. *)
From Coq Require Import List Bool Arith Lia.
Import ListNotations.
Require Import Pyrefact.MiniPyModel Pyrefact.MiniPyProofs Pyrefact.RulesFlowModel.

(* ------------------------------------------------------------------------------------------ *)
(* induction over statements (nested lists) *)
Definition is_simple (s : stmt) : bool :=
  match s with SIf _ _ _ | SLoop _ _ _ => false | _ => true end.

Section StmtInd.
  Variable P : stmt -> Prop.
  Hypothesis Hsimple : forall s, is_simple s = true -> P s.
  Hypothesis Hif : forall t b e, Forall P b -> Forall P e -> P (SIf t b e).
  Hypothesis Hloop : forall h b e, Forall P b -> Forall P e -> P (SLoop h b e).
  Fixpoint stmt_ind' (s : stmt) : P s :=
    let go := fix go (l : list stmt) : Forall P l :=
                match l with
                | [] => Forall_nil P
                | x :: tl => Forall_cons x (stmt_ind' x) (go tl)
                end in
    match s as s0 return P s0 with
    | SIf t b e => Hif t b e (go b) (go e)
    | SLoop h b e => Hloop h b e (go b) (go e)
    | SPass => Hsimple SPass eq_refl
    | SEv i rd => Hsimple (SEv i rd) eq_refl
    | SAssign x e => Hsimple (SAssign x e) eq_refl
    | SReturn e => Hsimple (SReturn e) eq_refl
    | SRaise => Hsimple SRaise eq_refl
    | SBreak => Hsimple SBreak eq_refl
    | SContinue => Hsimple SContinue eq_refl
    end.
End StmtInd.

(* ------------------------------------------------------------------------------------------ *)
(* literal tests *)
Lemma tval_sound t v o st : tval t = Some v -> eval_test o st t = (VBool v, st).
Proof.
  revert v. induction t as [b|i rd|u IH]; simpl; intros v H.
  - congruence.
  - discriminate.
  - destruct (tval u) as [w|]; [|discriminate]. simpl in H. rewrite (IH w eq_refl). simpl. congruence.
Qed.

Lemma if_true t b e : tval t = Some true -> equiv [SIf t b e] b.
Proof. intros H o st r. rewrite runs_single. simpl. rewrite (tval_sound _ _ o st H). simpl. tauto. Qed.
Lemma if_false t b e : tval t = Some false -> equiv [SIf t b e] e.
Proof. intros H o st r. rewrite runs_single. simpl. rewrite (tval_sound _ _ o st H). simpl. tauto. Qed.

Lemma while_false t b e : tval t = Some false -> equiv [SLoop (HWhile t) b e] e.
Proof.
  intros H o st r. rewrite runs_single. simpl. rewrite lruns_unfold. simpl.
  rewrite (tval_sound _ _ o st H). simpl. tauto.
Qed.

Lemma fixb_equiv b : equiv (fixb b) b.
Proof. destruct b; simpl; [apply equiv_pass|apply equiv_refl]. Qed.
Lemma fixe_equiv orig x : equiv orig x -> equiv orig (fixe orig x).
Proof.
  intros H. destruct orig; simpl; [apply equiv_refl|].
  eapply equiv_trans; [exact H|apply equiv_sym, fixb_equiv].
Qed.

(* ------------------------------------------------------------------------------------------ *)
(* core._may_leave_iteration is sound: a statement without a break/continue of the enclosing loop
   never terminates with Brk/Cnt *)
Definition stays (out : outcome) : Prop := out <> Brk /\ out <> Cnt.

Definition ml_ok (s : stmt) : Prop :=
  may_leave s = false -> forall o st out st', runs1 o st s (out, st') -> stays out.

Lemma ml_block l :
  Forall ml_ok l -> existsb may_leave l = false ->
  forall o st out st', runs o st l (out, st') -> stays out.
Proof.
  induction l as [|s l IH]; intros HF He o st out st' Hr.
  - apply runs_nil in Hr. inversion Hr; subst. split; discriminate.
  - simpl in He. apply orb_false_iff in He. destruct He as [Hs Hl]. inversion HF as [|? ? Hok HF']; subst.
    apply runs_cons in Hr. destruct Hr as [[out1 st1] [H1 H2]].
    pose proof (Hok Hs o st out1 st1 H1) as [Hb Hc].
    destruct out1; simpl in H2; try (inversion H2; subst; split; congruence).
    eapply IH; eauto.
Qed.

Lemma may_leave_sound s : ml_ok s.
Proof.
  induction s using stmt_ind'; unfold ml_ok.
  - destruct s; try discriminate; simpl; intros Hm o st out st' Hr;
      try discriminate; inversion Hr; subst; split; discriminate.
  - simpl. intros Hm o st out st'. apply orb_false_iff in Hm. destruct Hm as [Hb He].
    destruct (truthy (fst (eval_test o st t))); intros Hr;
      [exact (ml_block _ H Hb _ _ _ _ Hr)|exact (ml_block _ H0 He _ _ _ _ Hr)].
  - simpl. intros Hm o st out st' Hr.
    revert Hr. generalize (fst (enter o st h)) (snd (enter o st h)). intros st0 lk Hr.
    change out with (fst (out, st')). revert st0 lk Hr. generalize (out, st'). intros r st0 lk Hr.
    revert st0 lk r Hr. apply lruns_ind'. intros st0 lk r Hstep.
    destruct (loop_next o st0 lk) as [[go st1] lk']. destruct go.
    + destruct Hstep as [[out1 st2] [H1 H2]]. destruct out1; try (subst r; simpl; split; discriminate); tauto.
    + destruct r as [out2 st2]. eapply ml_block; eauto.
Qed.

Lemma ml_block' l o st out st' :
  existsb may_leave l = false -> runs o st l (out, st') -> stays out.
Proof.
  intros He Hr. refine (ml_block l _ He _ _ _ _ Hr).
  apply Forall_forall. intros; apply may_leave_sound.
Qed.

(* ------------------------------------------------------------------------------------------ *)
(* core.is_blocking is sound: a blocking statement never completes normally *)
Definition bl_ok (s : stmt) : Prop :=
  forall p, is_blocking s p = true -> forall o st out st', runs1 o st s (out, st') -> out <> Normal.

Lemma bl_block l p :
  Forall bl_ok l -> existsb (fun x => is_blocking x p) l = true ->
  forall o st out st', runs o st l (out, st') -> out <> Normal.
Proof.
  induction l as [|s l IH]; intros HF He o st out st' Hr; [discriminate|].
  inversion HF as [|? ? Hok HF']; subst. simpl in He.
  apply runs_cons in Hr. destruct Hr as [[out1 st1] [H1 H2]].
  destruct out1; simpl in H2; try (inversion H2; subst; discriminate).
  destruct (is_blocking s p) eqn:Es.
  - exfalso. eapply Hok; eauto.
  - simpl in He. eapply IH; eauto.
Qed.

Definition retexc (out : outcome) : Prop := (exists v, out = Ret v) \/ out = Exc.

Lemma scan_sound dflt l :
  Forall bl_ok l ->
  scan_with may_leave (fun x => is_blocking x PLoop) dflt l = true ->
  forall o st out st', runs o st l (out, st') -> retexc out \/ (dflt = true /\ out = Normal).
Proof.
  induction l as [|s l IH]; intros HF Hs o st out st' Hr.
  - simpl in Hs. apply runs_nil in Hr. inversion Hr; subst. right; auto.
  - inversion HF as [|? ? Hok HF']; subst. simpl in Hs.
    destruct (may_leave s) eqn:Em; [discriminate|].
    apply runs_cons in Hr. destruct Hr as [[out1 st1] [H1 H2]].
    pose proof (may_leave_sound s Em o st out1 st1 H1) as [Hb Hc].
    destruct (is_blocking s PLoop) eqn:Eb.
    + pose proof (Hok PLoop Eb o st out1 st1 H1) as Hn.
      destruct out1; simpl in H2; try congruence; inversion H2; subst; left; unfold retexc; eauto.
    + destruct out1; simpl in H2; try congruence.
      * eapply IH; eauto.
      * inversion H2; subst; left; unfold retexc; eauto.
      * inversion H2; subst; left; unfold retexc; eauto.
Qed.

Lemma retexc_not_normal out : retexc out -> out <> Normal.
Proof. intros [[v ->]| ->]; discriminate. Qed.

Lemma is_blocking_sound s : bl_ok s.
Proof.
  induction s using stmt_ind'; unfold bl_ok.
  - destruct s; try discriminate; simpl; intros p Hb o st out st' Hr;
      try discriminate; try (inversion Hr; subst; discriminate).
  - simpl. intros p Hb o st out st' Hr.
    destruct (tval t) as [[|]|] eqn:Et.
    + rewrite (tval_sound _ _ o st Et) in Hr. simpl in Hr. exact (bl_block _ _ H Hb _ _ _ _ Hr).
    + rewrite (tval_sound _ _ o st Et) in Hr. simpl in Hr. exact (bl_block _ _ H0 Hb _ _ _ _ Hr).
    + apply andb_true_iff in Hb. destruct Hb as [Hb1 Hb2]. revert Hr.
      destruct (truthy (fst (eval_test o st t))); intros Hr;
        [exact (bl_block _ _ H Hb1 _ _ _ _ Hr)|exact (bl_block _ _ H0 Hb2 _ _ _ _ Hr)].
  - intros p Hb o st out st' Hr. simpl in Hr. destruct h as [t|it].
    + simpl in Hb. destruct (tval t) as [[|]|] eqn:Et; try discriminate.
      simpl in Hr. change out with (fst (out, st')).
      assert (G : forall st0 lk r, lruns o st0 lk b e r -> lk = LWhile t -> fst r <> Normal).
      { apply (lruns_ind' o b e (fun _ lk r => lk = LWhile t -> fst r <> Normal)).
        intros st0 lk r Hstep ->. simpl in Hstep.
        rewrite (tval_sound _ _ o st0 Et) in Hstep. simpl in Hstep.
        destruct Hstep as [[out1 st2] [H1 H2]].
        destruct (scan_sound true b H Hb o st0 out1 st2 H1) as [Hre|[_ ->]].
        - destruct Hre as [[v ->]| ->]; subst r; simpl; discriminate.
        - destruct H2 as [_ H2]. apply H2; reflexivity. }
      eapply G; eauto.
    + destruct it as [[|n]|i rd]; try discriminate. simpl in Hb, Hr.
      apply lruns_unfold in Hr. simpl in Hr. destruct Hr as [[out1 st2] [H1 H2]].
      destruct (scan_sound false b H Hb o st out1 st2 H1) as [Hre|[Hd _]]; [|discriminate].
      destruct Hre as [[v ->]| ->]; simpl in H2; inversion H2; subst; discriminate.
Qed.

Theorem anyb_blocks b : anyb b = true -> blocks b.
Proof.
  intros H o st out st' Hr. refine (bl_block b PNone _ H _ _ _ _ Hr).
  apply Forall_forall. intros; apply is_blocking_sound.
Qed.

(* ------------------------------------------------------------------------------------------ *)
(* remove_dead_ifs *)
Lemma flat_map_equiv (F : stmt -> list stmt) p :
  (forall s, equiv [s] (F s)) -> equiv p (flat_map F p).
Proof.
  intros HF. induction p as [|s p IH]; simpl; [apply equiv_refl|].
  apply (equiv_app [s] (F s) p (flat_map F p)); auto.
Qed.

Lemma rdi_sound n : (forall p, equiv p (rdi n p)) /\ (forall e, equiv e (rdi_else n e)).
Proof.
  induction n as [|n [IHp IHe]]; split; intros; simpl; try apply equiv_refl.
  - apply flat_map_equiv. intros s. destruct s; try apply equiv_refl.
    + (* if *)
      assert (Hb : equiv body (fixb (rdi n body))).
      { eapply equiv_trans; [apply IHp|apply equiv_sym, fixb_equiv]. }
      pose proof (IHe orelse) as He.
      destruct (tval t) as [[|]|] eqn:Et.
      * eapply equiv_trans; [apply if_true; auto|apply IHp].
      * destruct (is_elif orelse).
        -- apply equiv_if; auto.
        -- eapply equiv_trans; [apply if_false; auto|apply IHp].
      * apply equiv_if; auto.
    + (* loop *)
      assert (Hb : equiv body (fixb (rdi n body))).
      { eapply equiv_trans; [apply IHp|apply equiv_sym, fixb_equiv]. }
      assert (He : equiv orelse (fixe orelse (rdi n orelse))) by (apply fixe_equiv, IHp).
      destruct h as [t|it]; [|apply equiv_loop; auto].
      destruct (tval t) as [[|]|] eqn:Et; try (apply equiv_loop; auto).
      eapply equiv_trans; [apply while_false; auto|apply IHp].
  - destruct e as [|s tl]; [apply equiv_refl|].
    assert (Hgen : equiv (s :: tl) (fixe (s :: tl) (rdi n (s :: tl)))) by (apply fixe_equiv, IHp).
    destruct s; try exact Hgen. destruct tl; [|exact Hgen].
    assert (Hb : equiv body (fixb (rdi n body))).
    { eapply equiv_trans; [apply IHp|apply equiv_sym, fixb_equiv]. }
    pose proof (IHe orelse) as He.
    destruct (tval t) as [[|]|] eqn:Et; try (apply equiv_if; auto).
    destruct (rdi_else n orelse) eqn:E2; [|apply equiv_if; auto].
    eapply equiv_trans; [apply if_false; auto|exact He].
Qed.

Theorem remove_dead_ifs_preserves p : equiv p (remove_dead_ifs_model p).
Proof.
  unfold remove_dead_ifs_model. eapply equiv_trans; [apply (proj1 (rdi_sound (fuel_of p)))|].
  apply equiv_sym, fixb_equiv.
Qed.

(* ------------------------------------------------------------------------------------------ *)
(* remove_redundant_else *)
Lemma redundant_else t b e rest :
  blocks b -> equiv (SIf t b e :: rest) (SIf t b [] :: e ++ rest).
Proof.
  intros Hb o st r. rewrite !runs_cons. simpl.
  destruct (truthy (fst (eval_test o st t))) eqn:Ev.
  - split; intros [[out1 st1] [H1 H2]]; exists (out1, st1); (split; [exact H1|]);
      pose proof (Hb _ _ _ _ H1); destruct out1; simpl in *; congruence.
  - split.
    + intros [[out1 st1] [H1 H2]]. exists (Normal, snd (eval_test o st t)).
      split; [apply runs_nil; reflexivity|]. simpl. apply runs_app. eexists; eauto.
    + intros [[out1 st1] [H1 H2]]. apply runs_nil in H1. inversion H1; subst. simpl in H2.
      apply runs_app in H2. exact H2.
Qed.

Lemma rre_sound n : (forall p, equiv p (rre n p)) /\ (forall e, equiv e (rre_else n e)).
Proof.
  induction n as [|n [IHp IHe]]; split; intros; simpl; try apply equiv_refl.
  - destruct p as [|s rest]; [apply equiv_refl|].
    pose proof (IHp rest) as Hrest.
    destruct s; try (apply equiv_cons; exact Hrest).
    + (* if *)
      destruct orelse as [|x xs].
      * apply (equiv_app [SIf t body []] [SIf t (rre n body) []] rest (rre n rest)); auto.
        apply equiv_if; auto using equiv_refl.
      * destruct (anyb body) eqn:Ea.
        -- eapply equiv_trans; [apply redundant_else, anyb_blocks; exact Ea|].
           apply (equiv_app [SIf t body []] [SIf t (rre n body) []]
                            ((x :: xs) ++ rest) (rre n (x :: xs) ++ rre n rest)).
           ++ apply equiv_if; auto using equiv_refl.
           ++ apply equiv_app; auto.
        -- apply (equiv_app [SIf t body (x :: xs)] [SIf t (rre n body) (rre_else n (x :: xs))]
                            rest (rre n rest)); auto.
           apply equiv_if; auto.
    + apply (equiv_app [SLoop h body orelse] [SLoop h (rre n body) (rre n orelse)] rest (rre n rest)); auto.
      apply equiv_loop; auto.
  - destruct e as [|s tl]; [apply IHp|].
    destruct s; try apply IHp. destruct tl; [|apply IHp].
    apply equiv_if; auto.
Qed.

Theorem remove_redundant_else_preserves p : equiv p (remove_redundant_else_model p).
Proof. apply (proj1 (rre_sound (fuel_of p))). Qed.
