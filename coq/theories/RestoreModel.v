(* K12b -- the quote-restoration step processing._substitute_original_strings (processing.py:91-203).
   After every rewrite the code looks at each string constant node of the NEW source (on Python 3.12 this
   includes the literal fragments of f-strings, whose source text is the bare fragment) and, when its
   spelling does not occur among the spellings the ORIGINAL source used for the same value, overwrites it
   with an original spelling.  Values and spellings are interned as numbers by the harness; what CPython
   says about a spelling travels as a boolean:
     o_lit / n_lit = the spelling, parsed on its own, is valid Python AND is a string constant with exactly
                     that value (is_valid_python + match_template against Constant(value)).
   Counter(set).most_common(1) picks an arbitrary element, so the model returns the SET of admissible
   replacements.  The prefix (b/r/f) adjustment is not modelled (harness compares modulo prefix letters).
   Mirrors the code as it is.  No proofs in this file. *)
From Coq Require Import List Arith Bool.
Import ListNotations.

Record sorig := mkO { o_val : nat; o_text : nat; o_lit : bool }.
Record snode := mkN { n_val : nat; n_text : nat; n_lit : bool }.

Definition mem (x : nat) (l : list nat) : bool := existsb (Nat.eqb x) l.
Definition subset (a b : list nat) : bool := forallb (fun x => mem x b) a.

(* original_string_formattings[v] / new_string_formattings[v] *)
Definition otexts (origs : list sorig) (v : nat) : list nat :=
  map o_text (filter (fun o => o_val o =? v) origs).
Definition ntexts (news : list snode) (v : nat) : list nat :=
  map n_text (filter (fun n => n_val n =? v) news).
(* after the filtering loop: only spellings that are literals of that value on their own *)
Definition cands (origs : list sorig) (v : nat) : list nat :=
  map o_text (filter (fun o => (o_val o =? v) && o_lit o) origs).

(* the second early exit: for every value used on both sides, the new spellings are old spellings *)
Definition nothing_new (origs : list sorig) (news : list snode) : bool :=
  forallb (fun n => negb (mem (n_val n) (map o_val origs)) ||
                    subset (ntexts news (n_val n)) (otexts origs (n_val n))) news.

(* one node of the new source: None = left alone, Some c = overwritten with some element of c *)
Definition restore_node (origs : list sorig) (news : list snode) (nd : snode) : option (list nat) :=
  let c := cands origs (n_val nd) in
  match c with
  | [] => None
  | _ =>
      if subset (ntexts news (n_val nd)) c then None
      else if mem (n_text nd) c then None
      else if n_lit nd then Some c
      else None
  end.

(* [all_in_source]: every new spelling occurs as a substring of the original source (first early exit) *)
Definition restore (all_in_source : bool) (origs : list sorig) (news : list snode) : list (option (list nat)) :=
  match news, origs with
  | [], _ | _, [] => map (fun _ => None) news
  | _, _ =>
      if all_in_source || nothing_new origs news then map (fun _ => None) news
      else map (restore_node origs news) news
  end.

(* the step WITHOUT the requirement that the overwritten spelling is itself such a literal *)
Definition restore_node_unguarded (origs : list sorig) (news : list snode) (nd : snode) : option (list nat) :=
  let c := cands origs (n_val nd) in
  match c with
  | [] => None
  | _ => if subset (ntexts news (n_val nd)) c then None else if mem (n_text nd) c then None else Some c
  end.

(* correspondence: observed = 0 (left alone) or 1 + spelling id it was overwritten with *)
Definition obs_ok (m : option (list nat)) (o : nat) : bool :=
  match m, o with
  | None, 0 => true
  | Some c, S t => mem t c
  | _, _ => false
  end.
Fixpoint all_obs_ok (ms : list (option (list nat))) (os : list nat) : bool :=
  match ms, os with
  | [], [] => true
  | m :: ms', o :: os' => obs_ok m o && all_obs_ok ms' os'
  | _, _ => false
  end.
Definition mkNs (l : list (nat * nat * bool)) : list snode := map (fun x => mkN (fst (fst x)) (snd (fst x)) (snd x)) l.
Definition mkOs (l : list (nat * nat * bool)) : list sorig := map (fun x => mkO (fst (fst x)) (snd (fst x)) (snd x)) l.
Definition restore_case_ok (c : bool * list (nat * nat * bool) * list (nat * nat * bool) * list nat) : bool :=
  let '(a, os, ns, obs) := c in all_obs_ok (restore a (mkOs os) (mkNs ns)) obs.
