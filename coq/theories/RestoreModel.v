(* K12b -- the quote-restoration step processing._substitute_original_strings (processing.py:91-203).
   After every rewrite the code looks at each string constant node of the NEW source (on Python 3.12 this
   includes the literal fragments of f-strings, whose source text is the bare fragment) and, when its
   spelling does not occur among the spellings the ORIGINAL source used for the same value, overwrites it
   with an original spelling.  Values and spellings are interned as numbers by the harness; what CPython
   says about a spelling travels as a boolean:
     o_lit / n_lit = the spelling, parsed on its own, is valid Python AND is a string constant with exactly
                     that value (is_valid_python + match_template against Constant(value)).
   Counter(set).most_common(1) picks an arbitrary element, so the model returns the SET of admissible
   replacements.  The prefix (b/r/f) adjustment is not modelled (harness compares modulo prefix letters).
   Mirrors the code as it is.  No proofs in this file. *)
From Coq Require Import List Arith Bool.
Import ListNotations.

Record sorig := mkO { o_val : nat; o_text : nat; o_lit : bool }.
Record snode := mkN { n_val : nat; n_text : nat; n_lit : bool }.

Definition mem (x : nat) (l : list nat) : bool := existsb (Nat.eqb x) l.
Definition subset (a b : list nat) : bool := forallb (fun x => mem x b) a.

(* original_string_formattings[v] / new_string_formattings[v] *)
Definition otexts (origs : list sorig) (v : nat) : list nat :=
  map o_text (filter (fun o => o_val o =? v) origs).
Definition ntexts (news : list snode) (v : nat) : list nat :=
  map n_text (filter (fun n => n_val n =? v) news).
(* after the filtering loop: only spellings that are literals of that value on their own *)
Definition cands (origs : list sorig) (v : nat) : list nat :=
  map o_text (filter (fun o => (o_val o =? v) && o_lit o) origs).

(* the second early exit: for every value used on both sides, the new spellings are old spellings *)
Definition nothing_new (origs : list sorig) (news : list snode) : bool :=
  forallb (fun n => negb (mem (n_val n) (map o_val origs)) ||
                    subset (ntexts news (n_val n)) (otexts origs (n_val n))) news.

(* one node of the new source: None = left alone, Some c = overwritten with some element of c *)
Definition restore_node (origs : list sorig) (news : list snode) (nd : snode) : option (list nat) :=
  let c := cands origs (n_val nd) in
  match c with
  | [] => None
  | _ =>
      if subset (ntexts news (n_val nd)) c then None
      else if mem (n_text nd) c then None
      else if n_lit nd then Some c
      else None
  end.

(* [all_in_source]: every new spelling occurs as a substring of the original source (first early exit) *)
Definition restore (all_in_source : bool) (origs : list sorig) (news : list snode) : list (option (list nat)) :=
  match news, origs with
  | [], _ | _, [] => map (fun _ => None) news
  | _, _ =>
      if all_in_source || nothing_new origs news then map (fun _ => None) news
      else map (restore_node origs news) news
  end.

(* the step WITHOUT the requirement that the overwritten spelling is itself such a literal *)
Definition restore_node_unguarded (origs : list sorig) (news : list snode) (nd : snode) : option (list nat) :=
  let c := cands origs (n_val nd) in
  match c with
  | [] => None
  | _ => if subset (ntexts news (n_val nd)) c then None else if mem (n_text nd) c then None else Some c
  end.

(* correspondence: observed = 0 (left alone) or 1 + spelling id it was overwritten with *)
Definition obs_ok (m : option (list nat)) (o : nat) : bool :=
  match m, o with
  | None, 0 => true
  | Some c, S t => mem t c
  | _, _ => false
  end.
Fixpoint all_obs_ok (ms : list (option (list nat))) (os : list nat) : bool :=
  match ms, os with
  | [], [] => true
  | m :: ms', o :: os' => obs_ok m o && all_obs_ok ms' os'
  | _, _ => false
  end.
Definition mkNs (l : list (nat * nat * bool)) : list snode := map (fun x => mkN (fst (fst x)) (snd (fst x)) (snd x)) l.
Definition mkOs (l : list (nat * nat * bool)) : list sorig := map (fun x => mkO (fst (fst x)) (snd (fst x)) (snd x)) l.
Definition restore_case_ok (c : bool * list (nat * nat * bool) * list (nat * nat * bool) * list nat) : bool :=
  let '(a, os, ns, obs) := c in all_obs_ok (restore a (mkOs os) (mkNs ns)) obs.

(* ---------------------------------------------------------------------------------------------- *)
(* collections.Counter(list).most_common(1)[0][0]: highest count, the first seen on ties *)
Definition count (x : nat) (l : list nat) : nat := length (filter (Nat.eqb x) l).
Fixpoint most_common_from (best : nat) (l all : list nat) : nat :=
  match l with
  | [] => best
  | x :: tl => most_common_from (if count best all <? count x all then x else best) tl all
  end.
Definition most_common (l : list nat) : nat :=
  match l with [] => 0 | x :: tl => most_common_from x tl l end.

(* the spelling _substitute_original_strings writes (before the b/r/f prefix adjustment) *)
Definition restore_pick (a : bool) (origs : list sorig) (news : list snode) : list (option nat) :=
  map (option_map most_common) (restore a origs news).

(* observed: [] = left alone, otherwise the original spellings equal to what was written (modulo prefix) *)
Definition pick_ok (m : option nat) (o : list nat) : bool :=
  match m, o with
  | None, [] => true
  | Some t, _ :: _ => mem t o
  | _, _ => false
  end.
Fixpoint all_pick_ok (ms : list (option nat)) (os : list (list nat)) : bool :=
  match ms, os with
  | [], [] => true
  | m :: ms', o :: os' => pick_ok m o && all_pick_ok ms' os'
  | _, _ => false
  end.
Definition restore_pick_case_ok (c : bool * list (nat * nat * bool) * list (nat * nat * bool) * list (list nat)) : bool :=
  let '(a, os, ns, obs) := c in all_pick_ok (restore_pick a (mkOs os) (mkNs ns)) obs.

(* ---------------------------------------------------------------------------------------------- *)
(* processing._substitute_original_fstrings (processing.py:205-259): JoinedStr nodes, keyed by their
   ast.unparse text; no early exit; the guard on the overwritten spelling is is_valid_python ONLY.
     fo_valid / fn_valid = is_valid_python(spelling)
     fn_self             = the spelling, parsed on its own, is an f-string with that unparse key
                           (NOT checked by the code; the harness reports it for every node) *)
Record forig := mkFO { fo_key : nat; fo_text : nat; fo_valid : bool }.
Record fnode := mkFN { fn_key : nat; fn_text : nat; fn_valid : bool; fn_self : bool }.

Definition fcands (origs : list forig) (k : nat) : list nat :=
  map fo_text (filter (fun o => (fo_key o =? k) && fo_valid o) origs).

Definition frestore_node (origs : list forig) (nd : fnode) : option nat :=
  let c := fcands origs (fn_key nd) in
  match c with
  | [] => None
  | _ => if fn_valid nd && negb (mem (fn_text nd) c) then Some (most_common c) else None
  end.
Definition frestore (origs : list forig) (news : list fnode) : list (option nat) :=
  map (frestore_node origs) news.

(* the structural guard under which the step is value preserving *)
Definition f_guard (origs : list forig) (news : list fnode) : bool :=
  forallb (fun nd => match frestore_node origs nd with Some _ => fn_self nd | None => true end) news.

Definition mkFOs (l : list (nat * nat * bool)) : list forig := map (fun x => mkFO (fst (fst x)) (snd (fst x)) (snd x)) l.
Definition mkFNs (l : list (nat * nat * bool * bool)) : list fnode :=
  map (fun x => mkFN (fst (fst (fst x))) (snd (fst (fst x))) (snd (fst x)) (snd x)) l.
Definition frestore_case_ok (c : list (nat * nat * bool) * list (nat * nat * bool * bool) * list (list nat)) : bool :=
  let '(os, ns, obs) := c in
  all_pick_ok (frestore (mkFOs os) (mkFNs ns)) obs && f_guard (mkFOs os) (mkFNs ns).
