(* K12b -- the quote-restoration step processing._substitute_original_strings (processing.py:94-222).
   After every rewrite the code looks at each string constant node of the NEW source (on Python 3.12 this
   includes the literal fragments of f-strings, whose source text is the bare fragment) and, when its
   spelling does not occur among the spellings the ORIGINAL source used for the same value, overwrites it
   with an original spelling.  Values and spellings are interned as numbers by the harness; what CPython
   says about a spelling travels as a boolean:
     o_lit / n_lit = the spelling, parsed on its own, is valid Python AND is a string constant with exactly
                     that value (is_valid_python + match_template against Constant(value)).
   Counter(set).most_common(1) picks an arbitrary element, so the model returns the SET of admissible
   replacements (restore_node); the spelling actually written -- most_common, the b/r/f prefix adjustment and
   the literal_eval check of repair c664901 -- is restore_write below.
   Mirrors the code as it is.  No proofs in this file. *)
From Coq Require Import List Arith NArith Bool.
Import ListNotations.

Record sorig := mkO { o_val : nat; o_text : nat; o_lit : bool }.
Record snode := mkN { n_val : nat; n_text : nat; n_lit : bool }.

Definition mem (x : nat) (l : list nat) : bool := existsb (Nat.eqb x) l.
Definition subset (a b : list nat) : bool := forallb (fun x => mem x b) a.

(* original_string_formattings[v] / new_string_formattings[v] *)
Definition otexts (origs : list sorig) (v : nat) : list nat :=
  map o_text (filter (fun o => o_val o =? v) origs).
Definition ntexts (news : list snode) (v : nat) : list nat :=
  map n_text (filter (fun n => n_val n =? v) news).
(* after the filtering loop: only spellings that are literals of that value on their own *)
Definition cands (origs : list sorig) (v : nat) : list nat :=
  map o_text (filter (fun o => (o_val o =? v) && o_lit o) origs).

(* the second early exit: for every value used on both sides, the new spellings are old spellings *)
Definition nothing_new (origs : list sorig) (news : list snode) : bool :=
  forallb (fun n => negb (mem (n_val n) (map o_val origs)) ||
                    subset (ntexts news (n_val n)) (otexts origs (n_val n))) news.

(* one node of the new source: None = left alone, Some c = overwritten with some element of c *)
Definition restore_node (origs : list sorig) (news : list snode) (nd : snode) : option (list nat) :=
  let c := cands origs (n_val nd) in
  match c with
  | [] => None
  | _ =>
      if subset (ntexts news (n_val nd)) c then None
      else if mem (n_text nd) c then None
      else if n_lit nd then Some c
      else None
  end.

(* [all_in_source]: every new spelling occurs as a substring of the original source (first early exit) *)
Definition restore (all_in_source : bool) (origs : list sorig) (news : list snode) : list (option (list nat)) :=
  match news, origs with
  | [], _ | _, [] => map (fun _ => None) news
  | _, _ =>
      if all_in_source || nothing_new origs news then map (fun _ => None) news
      else map (restore_node origs news) news
  end.

(* the step WITHOUT the requirement that the overwritten spelling is itself such a literal *)
Definition restore_node_unguarded (origs : list sorig) (news : list snode) (nd : snode) : option (list nat) :=
  let c := cands origs (n_val nd) in
  match c with
  | [] => None
  | _ => if subset (ntexts news (n_val nd)) c then None else if mem (n_text nd) c then None else Some c
  end.

(* correspondence: observed = 0 (left alone) or 1 + spelling id it was overwritten with *)
Definition obs_ok (m : option (list nat)) (o : nat) : bool :=
  match m, o with
  | None, 0 => true
  | Some c, S t => mem t c
  | _, _ => false
  end.
Fixpoint all_obs_ok (ms : list (option (list nat))) (os : list nat) : bool :=
  match ms, os with
  | [], [] => true
  | m :: ms', o :: os' => obs_ok m o && all_obs_ok ms' os'
  | _, _ => false
  end.
Definition mkNs (l : list (nat * nat * bool)) : list snode := map (fun x => mkN (fst (fst x)) (snd (fst x)) (snd x)) l.
Definition mkOs (l : list (nat * nat * bool)) : list sorig := map (fun x => mkO (fst (fst x)) (snd (fst x)) (snd x)) l.
Definition restore_case_ok (c : bool * list (nat * nat * bool) * list (nat * nat * bool) * list nat) : bool :=
  let '(a, os, ns, obs) := c in all_obs_ok (restore a (mkOs os) (mkNs ns)) obs.

(* ---------------------------------------------------------------------------------------------- *)
(* collections.Counter(list).most_common(1)[0][0]: highest count, the first seen on ties *)
Definition count (x : nat) (l : list nat) : nat := length (filter (Nat.eqb x) l).
Fixpoint most_common_from (best : nat) (l all : list nat) : nat :=
  match l with
  | [] => best
  | x :: tl => most_common_from (if count best all <? count x all then x else best) tl all
  end.
Definition most_common (l : list nat) : nat :=
  match l with [] => 0 | x :: tl => most_common_from x tl l end.

(* the spelling _substitute_original_strings writes (before the b/r/f prefix adjustment) *)
Definition restore_pick (a : bool) (origs : list sorig) (news : list snode) : list (option nat) :=
  map (option_map most_common) (restore a origs news).

(* observed: [] = left alone, otherwise the original spellings equal to what was written (modulo prefix) *)
Definition pick_ok (m : option nat) (o : list nat) : bool :=
  match m, o with
  | None, [] => true
  | Some t, _ :: _ => mem t o
  | _, _ => false
  end.
Fixpoint all_pick_ok (ms : list (option nat)) (os : list (list nat)) : bool :=
  match ms, os with
  | [], [] => true
  | m :: ms', o :: os' => pick_ok m o && all_pick_ok ms' os'
  | _, _ => false
  end.
Definition restore_pick_case_ok (c : bool * list (nat * nat * bool) * list (nat * nat * bool) * list (list nat)) : bool :=
  let '(a, os, ns, obs) := c in all_pick_ok (restore_pick a (mkOs os) (mkNs ns)) obs.

(* ---------------------------------------------------------------------------------------------- *)
(* The spelling that is WRITTEN (processing.py:171-222, after repair c664901).  The prefix letters of the most
   common original spelling and of the node's own spelling are compared as sets over {b, r, f} (lower-cased
   characters before the first quote); when they differ the new prefix, in the order f r b, is pasted in front
   of the original spelling stripped of its leading brfBRF letters.  The result is used only when
   ast.literal_eval says it is a literal of the node's type and value; otherwise the node is left alone.
     o_pre / n_pre = the characters (code points) of the spelling before its first quote character
     o_eval        = what ast.literal_eval yields for the original spelling (interned value, None = raises;
                     values of another type are interned as other values)
     adjtab        = CPython's verdict about pasted spellings: (spelling t, prefix p) |-> (spelling id of
                     p + t.lstrip("brfBRF"), what ast.literal_eval yields for it)
   The string operations lstrip / + themselves stay in Python (the table is built by the harness with the
   same expression and the written text is compared exactly). *)
Record worig := mkWO { wo : sorig; o_pre : list N; o_eval : option nat }.
Record wnode := mkWN { wn : snode; n_pre : list N }.
Definition adjtab := list (nat * list N * nat * option nat).

Definition is_b (c : N) : bool := N.eqb c 98 || N.eqb c 66.
Definition is_r (c : N) : bool := N.eqb c 114 || N.eqb c 82.
Definition is_f (c : N) : bool := N.eqb c 102 || N.eqb c 70.
(* {ch.lower() for ch in text before the first quote} & set("brf"), as (f, r, b) *)
Definition mods_of (pre : list N) : bool * bool * bool := (existsb is_f pre, existsb is_r pre, existsb is_b pre).
Definition mods_eqb (x y : bool * bool * bool) : bool :=
  let '(f1, r1, b1) := x in let '(f2, r2, b2) := y in Bool.eqb f1 f2 && Bool.eqb r1 r2 && Bool.eqb b1 b2.
(* "".join(sorted(new_modifiers, key="frb".index)) *)
Definition prefix_of (m : bool * bool * bool) : list N :=
  let '(f, r, b) := m in (if f then [102%N] else []) ++ (if r then [114%N] else []) ++ (if b then [98%N] else []).

Fixpoint leqb (a b : list N) : bool :=
  match a, b with
  | [], [] => true
  | x :: a', y :: b' => N.eqb x y && leqb a' b'
  | _, _ => false
  end.
Definition lookup_adj (adj : adjtab) (t : nat) (p : list N) : option (nat * option nat) :=
  match find (fun e => (fst (fst (fst e)) =? t) && leqb (snd (fst (fst e))) p) adj with
  | Some e => Some (snd (fst e), snd e)
  | None => None
  end.

(* the candidate spelling after the prefix adjustment, with literal_eval's verdict about it *)
Definition written (origs : list worig) (adj : adjtab) (nd : wnode) (c : list nat) : option (nat * option nat) :=
  let t := most_common c in
  match find (fun o => (o_text (wo o) =? t) && (o_val (wo o) =? n_val (wn nd)) && o_lit (wo o)) origs with
  | None => None
  | Some o =>
      if mods_eqb (mods_of (n_pre nd)) (mods_of (o_pre o)) then Some (t, o_eval o)
      else lookup_adj adj t (prefix_of (mods_of (n_pre nd)))
  end.

Definition restore_write_node (origs : list worig) (news : list wnode) (adj : adjtab) (nd : wnode) : option nat :=
  match restore_node (map wo origs) (map wn news) (wn nd) with
  | None => None
  | Some c =>
      match written origs adj nd c with
      | Some (w, Some v) => if v =? n_val (wn nd) then Some w else None
      | _ => None
      end
  end.

Definition restore_write (all_in_source : bool) (origs : list worig) (news : list wnode) (adj : adjtab)
  : list (option nat) :=
  match news, origs with
  | [], _ | _, [] => map (fun _ => None) news
  | _, _ =>
      if all_in_source || nothing_new (map wo origs) (map wn news) then map (fun _ => None) news
      else map (restore_write_node origs news adj) news
  end.

(* the step before repair c664901: the pasted spelling was used whatever it evaluates to *)
Definition restore_write_node_unchecked (origs : list worig) (news : list wnode) (adj : adjtab) (nd : wnode)
  : option (nat * option nat) :=
  match restore_node (map wo origs) (map wn news) (wn nd) with
  | None => None
  | Some c => written origs adj nd c
  end.

(* correspondence: observed = None (left alone) or Some (id of the exact text that was written) *)
Definition onat_eqb (a b : option nat) : bool :=
  match a, b with
  | None, None => true
  | Some x, Some y => x =? y
  | _, _ => false
  end.
Fixpoint all_write_ok (ms os : list (option nat)) : bool :=
  match ms, os with
  | [], [] => true
  | m :: ms', o :: os' => onat_eqb m o && all_write_ok ms' os'
  | _, _ => false
  end.
Definition mkWOs (l : list (nat * nat * bool * list N * option nat)) : list worig :=
  map (fun x => let '(v, t, b, p, e) := x in mkWO (mkO v t b) p e) l.
Definition mkWNs (l : list (nat * nat * bool * list N)) : list wnode :=
  map (fun x => let '(v, t, b, p) := x in mkWN (mkN v t b) p) l.
Definition restore_write_case_ok
  (c : bool * list (nat * nat * bool * list N * option nat) * list (nat * nat * bool * list N) * adjtab
       * list (option nat)) : bool :=
  let '(a, os, ns, adj, obs) := c in all_write_ok (restore_write a (mkWOs os) (mkWNs ns) adj) obs.

(* ---------------------------------------------------------------------------------------------- *)
(* processing._substitute_original_fstrings (processing.py:225-268): JoinedStr nodes, keyed by their
   ast.unparse text; no early exit; the guard on the overwritten spelling is is_valid_python ONLY.
     fo_valid / fn_valid = is_valid_python(spelling)
     fn_self             = the spelling, parsed on its own, is an f-string with that unparse key
                           (NOT checked by the code; the harness reports it for every node) *)
Record forig := mkFO { fo_key : nat; fo_text : nat; fo_valid : bool }.
Record fnode := mkFN { fn_key : nat; fn_text : nat; fn_valid : bool; fn_self : bool }.

Definition fcands (origs : list forig) (k : nat) : list nat :=
  map fo_text (filter (fun o => (fo_key o =? k) && fo_valid o) origs).

Definition frestore_node (origs : list forig) (nd : fnode) : option nat :=
  let c := fcands origs (fn_key nd) in
  match c with
  | [] => None
  | _ => if fn_valid nd && negb (mem (fn_text nd) c) then Some (most_common c) else None
  end.
Definition frestore (origs : list forig) (news : list fnode) : list (option nat) :=
  map (frestore_node origs) news.

(* the structural guard under which the step is value preserving *)
Definition f_guard (origs : list forig) (news : list fnode) : bool :=
  forallb (fun nd => match frestore_node origs nd with Some _ => fn_self nd | None => true end) news.

Definition mkFOs (l : list (nat * nat * bool)) : list forig := map (fun x => mkFO (fst (fst x)) (snd (fst x)) (snd x)) l.
Definition mkFNs (l : list (nat * nat * bool * bool)) : list fnode :=
  map (fun x => mkFN (fst (fst (fst x))) (snd (fst (fst x))) (snd (fst x)) (snd x)) l.
Definition frestore_case_ok (c : list (nat * nat * bool) * list (nat * nat * bool * bool) * list (list nat)) : bool :=
  let '(os, ns, obs) := c in
  all_pick_ok (frestore (mkFOs os) (mkFNs ns)) obs && f_guard (mkFOs os) (mkFNs ns).
