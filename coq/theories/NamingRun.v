(* Runner for the correspondence of NamingModel.v with pyrefact/style.py (no theorem depends on this
   file).  Expected outputs arrive as primitive 63-bit integers (cheap to parse). *)
From Coq Require Import List NArith ZArith Bool Uint63.
Import ListNotations.
Require Import Pyrefact.NamingModel.
Open Scope N_scope.

Definition of_int (x : int) : N := Z.to_N (Uint63.to_Z x).

(* ------------------------------------------------------------------------------------------
   Correspondence helpers: the harness sends, for an enumerated block of inputs, one number per
   case = an injective encoding of the implementation's output over a small alphabet. *)
Fixpoint index_of (c : N) (alpha : list N) (i : N) : N :=
  match alpha with
  | [] => i
  | a :: t => if a =? c then i else index_of c t (i + 1)
  end.
(* base-16 digits 1..15 (alphabet size <= 14; 15 = character outside the alphabet), leading 1 *)
Definition encode (alpha : list N) (s : text) : N :=
  fold_left (fun acc c => acc * 16 + (index_of c alpha 0 + 1)) s 1.
Definition encode_opt (alpha : list N) (o : option text) : N :=
  match o with Some s => encode alpha s | None => 0 end.
Definition SEP : N := 32.
Definition encode_words (alpha : list N) (ws : list text) : N :=
  encode (alpha ++ [SEP]) (concat (map (fun w => w ++ [SEP]) ws)).

(* all strings over `alpha` of length exactly n (itertools.product order), then of length <= n *)
Fixpoint strings_len (alpha : list N) (n : nat) : list text :=
  match n with
  | O => [[]]
  | S k => flat_map (fun c => map (cons c) (strings_len alpha k)) alpha
  end.
Fixpoint strings_upto (alpha : list N) (n : nat) : list text :=
  match n with
  | O => [[]]
  | S k => strings_upto alpha k ++ strings_len alpha (S k)
  end.

(* the ten observed functions, selected by a tag *)
Definition observe (alpha : list N) (tag : nat) (s : text) : N :=
  match tag with
  | 0%nat => encode_words alpha (list_words s)
  | 1%nat => encode alpha (make_snakecase false s)
  | 2%nat => encode alpha (make_snakecase true s)
  | 3%nat => encode alpha (make_camelcase s)
  | 4%nat => encode alpha (rename_variable s false false)
  | 5%nat => encode alpha (rename_variable s false true)
  | 6%nat => encode alpha (rename_variable s true false)
  | 7%nat => encode alpha (rename_variable s true true)
  | 8%nat => encode_opt alpha (rename_class s false)
  | _ => encode_opt alpha (rename_class s true)
  end.

(* positions (binary numbers) of at most `budget` disagreements: long lists of unary naturals are
   very slow to print when nearly every case disagrees *)
Fixpoint bad_pos (got want : list N) (i : N) (budget : nat) {struct got} : list N :=
  match budget with
  | O => []
  | S b =>
      match got, want with
      | g :: gt, w :: wt => if g =? w then bad_pos gt wt (i + 1) budget else i :: bad_pos gt wt (i + 1) b
      | [], [] => []
      | _, _ => [i]
      end
  end.
(* block = all strings  prefix ++ t,  t over alpha, |t| <= n ; returns the first (<= 12) indices that disagree *)
Definition check_block (alpha : list N) (tag : nat) (prefix : text) (n : nat) (want : list int) : list N :=
  bad_pos (map (fun t => observe alpha tag (prefix ++ t)) (strings_upto alpha n)) (map of_int want) 0 12.

(* explicit cases (random identifiers / non-ASCII stream) *)
Definition case_ok (c : nat * text * option text) : bool :=
  let '(tag, s, want) := c in
  let eq_o (a b : option text) := match a, b with
                                  | Some x, Some y => text_eqb x y
                                  | None, None => true
                                  | _, _ => false end in
  match tag with
  | 0%nat => match want with Some w => text_eqb (concat (map (fun x => x ++ [SEP]) (list_words s))) w | None => false end
  | 1%nat => eq_o (Some (make_snakecase false s)) want
  | 2%nat => eq_o (Some (make_snakecase true s)) want
  | 3%nat => eq_o (Some (make_camelcase s)) want
  | 4%nat => eq_o (Some (rename_variable s false false)) want
  | 5%nat => eq_o (Some (rename_variable s false true)) want
  | 6%nat => eq_o (Some (rename_variable s true false)) want
  | 7%nat => eq_o (Some (rename_variable s true true)) want
  | 8%nat => eq_o (rename_class s false) want
  | _ => eq_o (rename_class s true) want
  end.
