(* K1 -- T10.4: applying pairwise non-overlapping rewrites one after the other in descending
   position order equals the simultaneous splice: the text outside all ranges is preserved verbatim
   and in order and every new text sits exactly where its range was.  Parametric in the alphabet. *)
From Coq Require Import List Arith Bool Lia ZArith Sorted.
Import ListNotations.
Require Import Pyrefact.SchedModel.
Close Scope Z_scope.
Open Scope nat_scope.

Section Splice.
Variable A : Type.

Definition nrw := (nat * nat * list A)%type.   (* start, end, new text *)
Definition nstart (r : nrw) := fst (fst r).
Definition nend (r : nrw) := snd (fst r).
Definition ntext (r : nrw) := snd r.

Definition splice1 (src : list A) (r : nrw) : list A :=
  firstn (nstart r) src ++ ntext r ++ skipn (nend r) src.

(* sequential application, last (highest) range first *)
Definition apply_desc (src : list A) (asc : list nrw) : list A := fold_left splice1 (rev asc) src.

(* the simultaneous splice, reading the source once from left to right *)
Fixpoint build (pos : nat) (src : list A) (asc : list nrw) : list A :=
  match asc with
  | [] => skipn pos src
  | r :: rest => firstn (nstart r - pos) (skipn pos src) ++ ntext r ++ build (nend r) src rest
  end.

Inductive chain_ok (len : nat) : nat -> list nrw -> Prop :=
| ok_nil p : p <= len -> chain_ok len p []
| ok_cons p r rest : p <= nstart r -> nstart r <= nend r -> nend r <= len ->
                     chain_ok len (nend r) rest -> chain_ok len p (r :: rest).

Lemma firstn_split p s (l : list A) : p <= s -> firstn s l = firstn p l ++ firstn (s - p) (skipn p l).
Proof.
  intros H. rewrite <- (firstn_skipn p l) at 1.
  rewrite firstn_app. rewrite firstn_firstn. rewrite Nat.min_r by lia.
  destruct (le_lt_dec p (length l)) as [Hl|Hl].
  - rewrite firstn_length_le by lia. reflexivity.
  - rewrite firstn_all2 with (n := p) by lia. rewrite skipn_all2 by lia.
    rewrite !firstn_nil. reflexivity.
Qed.

Lemma seq_build rest : forall p src,
  chain_ok (length src) p rest ->
  fold_left splice1 (rev rest) src = firstn p src ++ build p src rest.
Proof.
  induction rest as [|r rest IH]; intros p src H.
  - simpl. symmetry. apply firstn_skipn.
  - inversion H as [|? ? ? Hps Hse Hel Hrest]; subst.
    simpl rev. rewrite fold_left_app. simpl fold_left.
    rewrite (IH (nend r) src Hrest).
    unfold splice1 at 1.
    assert (Hlen : length (firstn (nend r) src) = nend r) by (apply firstn_length_le; lia).
    rewrite firstn_app, Hlen.
    replace (nstart r - nend r) with 0 by lia. rewrite firstn_O, app_nil_r.
    rewrite firstn_firstn, Nat.min_l by lia.
    rewrite skipn_app, Hlen, Nat.sub_diag. simpl skipn at 2.
    rewrite skipn_all2 with (n := nend r) (l := firstn (nend r) src) by lia. simpl app at 2.
    simpl build. rewrite (firstn_split p (nstart r) src Hps).
    rewrite <- !app_assoc. reflexivity.
Qed.

(* T10.4 *)
Theorem apply_desc_is_simultaneous :
  forall src asc, chain_ok (length src) 0 asc -> apply_desc src asc = build 0 src asc.
Proof.
  intros src asc H. unfold apply_desc. rewrite (seq_build asc 0 src H). reflexivity.
Qed.

(* ---- sorted + pairwise non-overlapping (Python's Range.overlaps) + well-formed => chain_ok ---- *)
Definition noverlaps (a b : nrw) : bool := (nstart a <? nend b) && (nstart b <? nend a).
Definition lex_le (a b : nrw) : Prop := nstart a < nstart b \/ (nstart a = nstart b /\ nend a <= nend b).
Definition wf (len : nat) (r : nrw) : Prop := nstart r <= nend r /\ nend r <= len.

Lemma sorted_disjoint_chain len : forall l p,
  StronglySorted lex_le l ->
  ForallOrdPairs (fun a b => noverlaps a b = false) l ->
  Forall (wf len) l ->
  p <= len -> (forall r, In r l -> p <= nstart r) ->
  chain_ok len p l.
Proof.
  induction l as [|r l IH]; intros p Hs Hd Hw Hp Hlow.
  - constructor. exact Hp.
  - inversion Hs as [|? ? Hs' Hr]; subst.
    inversion Hd as [|? ? Hdr Hd']; subst.
    inversion Hw as [|? ? Hwr Hw']; subst.
    destruct Hwr as [Hse Hel].
    constructor; [apply Hlow; left; reflexivity | exact Hse | exact Hel |].
    apply IH; [exact Hs' | exact Hd' | exact Hw' | exact Hel |].
    intros q Hq.
    rewrite Forall_forall in Hr, Hdr, Hw'.
    specialize (Hr q Hq). specialize (Hdr q Hq). destruct (Hw' q Hq) as [Hq1 Hq2].
    unfold noverlaps in Hdr. unfold lex_le in Hr.
    apply andb_false_iff in Hdr as [Hdr|Hdr]; apply Nat.ltb_ge in Hdr; lia.
Qed.

Theorem sorted_disjoint_apply :
  forall src asc,
    StronglySorted lex_le asc ->
    ForallOrdPairs (fun a b => noverlaps a b = false) asc ->
    Forall (wf (length src)) asc ->
    apply_desc src asc = build 0 src asc.
Proof.
  intros src asc Hs Hd Hw. apply apply_desc_is_simultaneous.
  apply sorted_disjoint_chain; auto; lia.
Qed.

(* the model's apply_all (Z ranges) is this sequential application *)
Definition to_nrw (rw : range * list A) : nrw :=
  (Z.to_nat (fst (fst rw)), Z.to_nat (snd (fst rw)), snd rw).

Lemma apply_all_as_nat : forall rws src,
  apply_all A src rws = fold_left splice1 (map to_nrw rws) src.
Proof.
  unfold apply_all. induction rws as [|rw rws IH]; intros src; [reflexivity|].
  simpl. rewrite IH. reflexivity.
Qed.

(* consequences spelled out: the result starts with the untouched prefix, and for a single rewrite
   the suffix after the range is untouched as well *)
Corollary build_prefix_untouched :
  forall src r rest, build 0 src (r :: rest) = firstn (nstart r) src ++ ntext r ++ build (nend r) src rest.
Proof. intros. simpl. rewrite Nat.sub_0_r. reflexivity. Qed.

End Splice.

Example splice_nonvacuous :
  apply_desc nat [10; 11; 12; 13; 14; 15] [(1, 2, [91]); (2, 2, [92; 93]); (4, 6, [])]
  = [10; 91; 92; 93; 12; 13].
Proof. reflexivity. Qed.
