(* C02, control-flow tranche -- Gallina models of what the rewrite rules of pyrefact/fixes.py do to the
   statement tree (MiniPy fragment), mirroring the code as it is after the listed repairs.
   Conventions shared with the harness (harness/c02.py):
     - an `orelse` block that consists of exactly one `if` statement is printed (and was written) as
       `elif`; several rules skip `elif` nodes (core.get_code(node).startswith("elif"));
     - when a rule deletes every statement of a block, the text back end leaves `pass` ([fixb]);
     - the deep models compute the fixpoint of the rule's passes (processing.fix iterates the
       one-pass rewrite, max_iter = 5); they take the recursion depth as fuel [n] and are called with
       [fuel_of p] by the [*_model] wrappers.  Every soundness theorem holds for every fuel.
   No proofs in this file. *)
From Coq Require Import List Bool Arith.
Import ListNotations.
Require Import Pyrefact.MiniPyModel.

(* ---------------------------------------------------------------------------------------------- *)
(* sizes / fuel *)
Fixpoint ssize (s : stmt) : nat :=
  let blk := fix blk (l : list stmt) : nat := match l with [] => 0 | x :: tl => ssize x + blk tl end in
  match s with
  | SIf _ b e => 1 + blk b + blk e
  | SLoop _ b e => 1 + blk b + blk e
  | _ => 1
  end.
Definition psize (p : list stmt) : nat := fold_right (fun s n => ssize s + n) 0 p.
Definition fuel_of (p : list stmt) : nat := 2 * psize p + 2.

(* core.literal_value on a test: Some v when the test is a literal *)
Fixpoint tval (t : test) : option bool :=
  match t with
  | Known b => Some b
  | Unknown _ _ => None
  | TNot u => option_map negb (tval u)
  end.

(* fixes._negate_condition followed by the parser's canonical form *)
Definition negate (t : test) : test :=
  match t with
  | TNot u => u
  | Known b => Known (negb b)
  | _ => TNot t
  end.

Definition fixb (b : list stmt) : list stmt := match b with [] => [SPass] | _ => b end.
(* an else block that had statements keeps a `pass` when all of them are deleted *)
Definition fixe (orig e : list stmt) : list stmt := match orig with [] => [] | _ => fixb e end.
Definition is_elif (e : list stmt) : bool := match e with [SIf _ _ _] => true | _ => false end.

(* ---------------------------------------------------------------------------------------------- *)
(* core._may_leave_iteration, core.is_blocking (core.py:1000-1075, after repairs 97bca47, 1ff8620) *)
Inductive parent := PNone | PLoop.     (* parent_type None / ast.For or ast.While *)

Fixpoint may_leave (s : stmt) : bool :=
  match s with
  | SBreak | SContinue => true
  | SIf _ b e => existsb may_leave b || existsb may_leave e
  | SLoop _ _ e => existsb may_leave e
  | _ => false
  end.

(* the scan of a loop body: False at a statement that may leave the iteration, True at a blocking one *)
Definition scan_with (leave blocking : stmt -> bool) (dflt : bool) : list stmt -> bool :=
  fix scan (l : list stmt) : bool :=
    match l with
    | [] => dflt
    | x :: tl => if leave x then false else if blocking x then true else scan tl
    end.

Fixpoint is_blocking (s : stmt) (p : parent) : bool :=
  match s with
  | SRaise => true
  | SReturn _ => true
  | SBreak | SContinue => match p with PNone => true | PLoop => false end
  | SIf t b e =>
      match tval t with
      | Some true => existsb (fun x => is_blocking x p) b
      | Some false => existsb (fun x => is_blocking x p) e
      | None => existsb (fun x => is_blocking x p) b && existsb (fun x => is_blocking x p) e
      end
  | SLoop (HWhile t) b _ =>
      match tval t with
      | Some true => scan_with may_leave (fun x => is_blocking x PLoop) true b
      | _ => false
      end
  | SLoop (HFor (IKnown (S _))) b _ => scan_with may_leave (fun x => is_blocking x PLoop) false b
  | _ => false
  end.

Definition anyb (b : list stmt) : bool := existsb (fun x => is_blocking x PNone) b.

(* ---------------------------------------------------------------------------------------------- *)
(* fixes.remove_dead_ifs (fixes.py:1874-1918; If/While part), after the repairs
     - `while <falsy literal>: ... else: E`  is replaced by E (was: deleted together with E),
     - an `elif <literal>` with a live branch is left alone (was: the live branch was dedented out
       of the if-chain and ran even when an earlier branch had run).
   [rdi n p] = block p after the rule has reached its fixpoint; [rdi_else] = an else block.
   `if <falsy literal>: A elif ...` makes the rule produce unparsable text, which rolls back the
   whole pass; that shape is outside the correspondence domain and is left in place here. *)
Fixpoint rdi (n : nat) (p : list stmt) : list stmt :=
  match n with
  | O => p
  | S n' =>
      flat_map (fun s =>
        match s with
        | SIf t b e =>
            match tval t with
            | Some true => rdi n' b                       (* spliced in place of the node *)
            | Some false =>
                if is_elif e then [SIf t (fixb (rdi n' b)) (rdi_else n' e)]   (* outside the domain *)
                else rdi n' e
            | None => [SIf t (fixb (rdi n' b)) (rdi_else n' e)]
            end
        | SLoop h b e =>
            match h with
            | HWhile t =>
                match tval t with
                | Some false => rdi n' e
                | _ => [SLoop h (fixb (rdi n' b)) (fixe e (rdi n' e))]
                end
            | _ => [SLoop h (fixb (rdi n' b)) (fixe e (rdi n' e))]
            end
        | _ => [s]
        end) p
  end
with rdi_else (n : nat) (e : list stmt) : list stmt :=
  match n with
  | O => e
  | S n' =>
      match e with
      | [SIf t2 b2 e2] =>            (* an elif node *)
          let b2' := fixb (rdi n' b2) in
          let e2' := rdi_else n' e2 in
          match tval t2, e2' with
          | Some false, [] => []     (* dead elif without else: the clause is deleted *)
          | _, _ => [SIf t2 b2' e2']
          end
      | _ => fixe e (rdi n' e)
      end
  end.
Definition remove_dead_ifs_model (p : list stmt) : list stmt := fixb (rdi (fuel_of p) p).

(* ---------------------------------------------------------------------------------------------- *)
(* fixes.remove_redundant_else (fixes.py:1065-1106): an `if` (not an elif) with an else clause whose
   body contains a blocking statement loses the else; its statements follow the `if`. *)
Fixpoint rre (n : nat) (p : list stmt) : list stmt :=
  match n with
  | O => p
  | S n' =>
      match p with
      | [] => []
      | s :: rest =>
          let rest' := rre n' rest in
          match s with
          | SIf t b e =>
              match e with
              | [] => SIf t (rre n' b) [] :: rest'
              | _ => if anyb b then SIf t (rre n' b) [] :: rre n' e ++ rest'
                     else SIf t (rre n' b) (rre_else n' e) :: rest'
              end
          | SLoop h b e => SLoop h (rre n' b) (rre n' e) :: rest'
          | _ => s :: rest'
          end
      end
  end
with rre_else (n : nat) (e : list stmt) : list stmt :=
  match n with
  | O => e
  | S n' =>
      match e with
      | [SIf t2 b2 e2] => [SIf t2 (rre n' b2) (rre_else n' e2)]    (* elif: not a site itself *)
      | _ => rre n' e
      end
  end.
Definition remove_redundant_else_model (p : list stmt) : list stmt := rre (fuel_of p) p.

(* ---------------------------------------------------------------------------------------------- *)
(* correspondence plumbing: (rule number, input program, expected output of the real rule) *)
Definition apply_rule (k : nat) (p : list stmt) : list stmt :=
  match k with
  | 0 => remove_dead_ifs_model p
  | 1 => remove_redundant_else_model p
  | _ => p
  end.
Definition rule_case_ok (c : nat * list stmt * list stmt) : bool :=
  let '(k, p, expected) := c in prog_eqb (canon (apply_rule k p)) expected.

(* is_blocking / may_leave against core.is_blocking / core._may_leave_iteration *)
Definition blocking_case_ok (c : stmt * list bool) : bool :=
  let '(s, exp) := c in
  match exp with
  | [a; b; d] => Bool.eqb (is_blocking s PNone) a && Bool.eqb (is_blocking s PLoop) b
                 && Bool.eqb (may_leave s) d
  | _ => false
  end.
